// golibcheck decides the structural clauses of one golib property from /repo's current source.
//
//	golibcheck -prop C07 -tier quick|thorough [-repo /repo] [-verif /verif]
//
// exit 0: every obligation discharged (or a listed known finding); exit 1: VIOLATION line printed;
// exit 2: CHECKER-ERROR (tree does not load, canary not firing, internal panic).
package main

import (
	"regexp"
	"flag"
	"fmt"
	"os"
	"path/filepath"
	"runtime/debug"
	"strings"
	"time"

	"golibcheck/internal/core"
	"golibcheck/internal/props"
)

func main() {
	prop := flag.String("prop", "", "property id (C01..C20) or 'list'")
	tier := flag.String("tier", "", "quick|thorough (default: $VERIF_TIER or quick)")
	repo := flag.String("repo", "/repo", "repository under analysis")
	verif := flag.String("verif", "", "verif directory (default: parent of the binary's dir)")
	explain := flag.String("explain", "", "print the violations file in readable form")
	flag.Parse()
	if *tier == "" {
		*tier = os.Getenv("VERIF_TIER")
	}
	if *tier != "thorough" {
		*tier = "quick"
	}
	if *verif == "" {
		exe, _ := os.Executable()
		*verif = filepath.Dir(filepath.Dir(exe))
	}
	if *prop == "list" {
		fmt.Println(strings.Join(props.IDs(), " "))
		return
	}
	if *explain != "" {
		b, err := os.ReadFile(*explain)
		if err != nil {
			fmt.Println(err)
			os.Exit(2)
		}
		os.Stdout.Write(b)
		return
	}
	c := props.Get(*prop)
	if c == nil {
		fmt.Printf("CHECKER-ERROR unknown property %q (have %v)\n", *prop, props.IDs())
		os.Exit(2)
	}
	os.Exit(run(c, *tier, *repo, *verif))
}

func run(c *props.Checker, tier, repo, verif string) (code int) {
	started := time.Now()
	defer func() {
		if e := recover(); e != nil {
			fmt.Printf("CHECKER-ERROR property=%s internal panic: %v\n%s\n", c.ID, e, debug.Stack())
			code = 2
		}
	}()
	repo, _ = filepath.Abs(repo)
	var canaries []core.Canary
	if c.Canaries != nil {
		canaries = c.Canaries()
	}
	overlay := map[string][]byte{}
	for i, cn := range canaries {
		kind := "canary"
		if cn.Spec {
			kind = "spec"
		}
		name := filepath.Join(repo, cn.RelDir, fmt.Sprintf("zz_verif_%s_%s_%d_%s.go", kind, c.ID, i, cn.Name))
		overlay[name] = []byte(cn.Src)
	}
	configs := [][2]string{{"", ""}}
	if tier == "thorough" {
		configs = [][2]string{{"", ""}, {"windows", "amd64"}, {"linux", "386"}}
	}
	rep := core.NewReport(c.ID, tier)
	var labels []string
	npk, nfn := 0, 0
	for _, cf := range configs {
		prog, err := core.Load(repo, overlay, cf[0], cf[1])
		if err != nil && strings.Contains(err.Error(), "does not type-check") {
			// A canary is a self-test of the checker written against today's names in the package it
			// is overlaid on. When only canary overlays fail to compile (the tree renamed or reshaped
			// something they mention), the tree itself is fine: those canaries are left out, said so,
			// and the rules run on the tree without their self-test for this run.
			onlyCanaries := true
			bad := map[string]bool{}
			for _, part := range strings.Split(strings.TrimPrefix(err.Error(), "tree does not type-check: "), "; ") {
				m := canaryFileRe.FindString(part)
				if m == "" {
					onlyCanaries = false
					break
				}
				bad[m] = true
			}
			if onlyCanaries && len(bad) > 0 {
				var kept []core.Canary
				for i, cn := range canaries {
					kind := "canary"
					if cn.Spec {
						kind = "spec"
					}
					base := fmt.Sprintf("zz_verif_%s_%s_%d_%s.go", kind, c.ID, i, cn.Name)
					if bad[base] && !cn.Spec {
						delete(overlay, filepath.Join(repo, cn.RelDir, base))
						fmt.Printf("CANARY-SKIPPED property=%s %s: the overlay does not compile against this tree (%s); its rules run without their self-test\n", c.ID, base, firstLine(err.Error()))
						cn.Expect = nil
					}
					kept = append(kept, cn)
				}
				canaries = kept
				prog, err = core.Load(repo, overlay, cf[0], cf[1])
			}
		}
		if err != nil {
			fmt.Printf("CHECKER-ERROR property=%s config=%s/%s: %v\n", c.ID, cf[0], cf[1], err)
			return 2
		}
		rep.Config = prog.Config
		labels = append(labels, prog.Config)
		npk, nfn = len(prog.Pkgs), len(prog.Funcs)
		props.Normalize(prog)
		c.Run(prog, rep)
	}
	extra := map[string]interface{}{
		"build_configs":      labels,
		"packages":           npk,
		"functions_in_scope": nfn,
	}
	return rep.Finish(verif, canaries, started, extra)
}

var canaryFileRe = regexp.MustCompile(`zz_verif_canary_[A-Za-z0-9_]+\.go`)

func firstLine(s string) string {
	if i := strings.Index(s, ";"); i > 0 {
		s = s[:i]
	}
	if len(s) > 200 {
		s = s[:200]
	}
	return s
}
