package wire

import (
	"fmt"
	"go/ast"
	"go/constant"
	"go/token"
	"go/types"
	"golibcheck/internal/paths"
	"math"
	"os"
	"sort"
	"strings"

	"golibcheck/internal/core"
)

// ---------------------------------------------------------------------------------------------
// lock-step agreement of a writer grammar and a reader grammar

// Failure is one disagreement (or undecidable construct) found by the walk.
type Failure struct {
	Kind string // mismatch | undecided | label | dropped | countlink
	WPos token.Pos
	RPos token.Pos
	Msg  string
}

// Result of matching one writer/reader pair.
type Result struct {
	Failures []Failure
	Steps    int
	Prims    int             // primitive pairs matched (distinct positions)
	Worlds   int             // leaf worlds (complete joint paths)
	Labels   int             // label pairs compared
	Pairs    map[string]bool // callee pairs assumed (each is its own obligation)
	Notes    []string
	Opaque   []OpaqueWrite // writer arguments that are neither field, size nor constant, stored by the reader into a field
	Tails    int           // Available()-guarded tails evaluated (format-defined older/shorter messages)
}

func (r *Result) OK() bool { return len(r.Failures) == 0 }

type frame struct {
	ctx   *FuncCtx
	subst map[types.Object]string // receiver / params -> caller-canonical text
	id    int
	hook  func(types.Object) (string, bool)
	// for inlined calls: the argument expression each parameter stands for, in the caller's frame
	args     map[types.Object]ast.Expr
	parent   *frame
	vargs    map[types.Object][]ast.Expr // variadic parameter -> the call's trailing arguments (caller's frame)
	unrolled bool                        // one iteration of an unrolled loop over a fixed list: the loop variable is in subst
}

type marker struct {
	pos  token.Pos
	kind string // endloop, endnested, endframe
}

func (m *marker) NPos() token.Pos { return m.pos }

type cont struct {
	nodes []Node
	i     int
	next  *cont
	fr    *frame
	base  bool // first cont of an inlined function frame (target of Ret)
	key   string
}

func mkCont(nodes []Node, i int, next *cont, fr *frame, base bool) *cont {
	for i >= len(nodes) && next != nil && !base {
		// normalise exhausted non-base segments away
		return next
	}
	c := &cont{nodes: nodes, i: i, next: next, fr: fr, base: base}
	nk := ""
	if next != nil {
		nk = next.key
	}
	var p interface{}
	if len(nodes) > 0 {
		p = &nodes[0]
	}
	c.key = fmt.Sprintf("%p.%d.%d>%s", p, i, fr.id, nk)
	return c
}

func (c *cont) head() (Node, *cont) {
	for c != nil {
		if c.i < len(c.nodes) {
			return c.nodes[c.i], c
		}
		c = c.next
	}
	return nil, nil
}

func (c *cont) advance() *cont {
	return mkCont(c.nodes, c.i+1, c.next, c.fr, c.base)
}

type interval struct{ lo, hi int64 }

type absval struct {
	iv      interval
	excl    []int64
	wlabel  string // writer-side label of the value (canonical), if non-constant
	decTag  bool   // first byte of a split decimal: completes at ReadDecimalLen
	decDone bool
	decPrim *Prim
	decFr   *frame
}

type env struct {
	iv         map[string]interval
	excl       map[string][]int64
	atoms      map[string]bool
	rbind      map[interface{}]absval
	wcount     map[string]interface{}
	rfield     map[string]string // reader field label -> term key it aliases (writer label) when they differ
	pendingDec int
}

func newEnv() *env {
	return &env{iv: map[string]interval{}, excl: map[string][]int64{}, atoms: map[string]bool{}, rbind: map[interface{}]absval{}, wcount: map[string]interface{}{}, rfield: map[string]string{}}
}

func (e *env) clone() *env {
	n := newEnv()
	for k, v := range e.iv {
		n.iv[k] = v
	}
	for k, v := range e.excl {
		n.excl[k] = append([]int64{}, v...)
	}
	for k, v := range e.atoms {
		n.atoms[k] = v
	}
	for k, v := range e.rbind {
		n.rbind[k] = v
	}
	for k, v := range e.wcount {
		n.wcount[k] = v
	}
	for k, v := range e.rfield {
		n.rfield[k] = v
	}
	n.pendingDec = e.pendingDec
	return n
}

func (e *env) sig(m *Matcher) string {
	var parts []string
	for k, v := range e.iv {
		parts = append(parts, fmt.Sprintf("i%s=%d..%d", k, v.lo, v.hi))
	}
	for k, v := range e.excl {
		parts = append(parts, fmt.Sprintf("x%s=%v", k, v))
	}
	for k, v := range e.atoms {
		parts = append(parts, fmt.Sprintf("a%s=%v", k, v))
	}
	for k, v := range e.rbind {
		id := ""
		switch kk := k.(type) {
		case types.Object:
			id = fmt.Sprintf("%s@%d", kk.Name(), kk.Pos())
		case *ast.CallExpr:
			id = fmt.Sprintf("c@%d", kk.Pos())
		}
		parts = append(parts, fmt.Sprintf("r%s=%d..%d%v%s%v", id, v.iv.lo, v.iv.hi, v.excl, v.wlabel, v.decTag))
	}
	for k := range e.wcount {
		parts = append(parts, "w"+k)
	}
	sort.Strings(parts)
	return strings.Join(parts, ";") + fmt.Sprintf("|%d", e.pendingDec)
}

// Matcher decides one pair.
type Matcher struct {
	X        *Extractor
	loopPos  token.Pos // position of the reader loop whose count is being tied (for definitions in force there)
	Res      *Result
	seen     map[string]bool
	failSeen map[string]bool
	frameSeq int
	Budget   int
	MaxDepth int // inlining depth bound
	// IsPair decides whether a writer callee and a reader callee are a codec pair whose agreement is
	// established by its own obligation (so the calls are consumed without inlining).
	IsPair func(w, r *types.Func) bool
	// NoInline: callees never inlined (registry functions); must be paired.
	primPos    map[token.Pos]bool
	atomUse    map[string]int
	atomList   []string
	depthOf    map[*frame]int
	splices    map[Node][]Node
	flat       map[*Loop]*Loop
	frames     map[string]*frame
	primCalls  map[*Prim]*Call
	curW       Node // writer head while a reader condition is evaluated (for Available())
	Tails      int
	rootNonNil []string
	written    map[string]bool
	fieldCount map[string]string // writer: size key -> field label assigned from it (recv.RecordCount = len(items))
	// per reader primitive that restores a field: did some joint path see the writer emit that field
	// there, and did another see a default constant emitted instead (without the path implying the
	// field is zero/empty)?
	fieldAt map[*Prim]string
	constAt map[*Prim]constEmit
}

// OpaqueWrite: the writer emits a computed value at a position the reader stores into Field.
type OpaqueWrite struct {
	WPos  token.Pos
	Field string
	Arg   string
}

type constEmit struct {
	w     *Prim
	wfr   *frame
	rfr   *frame
	label string
}

type state struct {
	w, r *cont
	e    *env
}

// MatchFuncs matches writer function wf (stream ws) against reader rf (stream rs).
func (x *Extractor) MatchFuncs(wf *core.FuncInfo, ws types.Object, rf *core.FuncInfo, rs types.Object, isPair func(w, r *types.Func) bool, maxDepth int) *Result {
	m := &Matcher{X: x, Res: &Result{Pairs: map[string]bool{}}, seen: map[string]bool{}, failSeen: map[string]bool{}, Budget: 400000,
		MaxDepth: maxDepth, IsPair: isPair, primPos: map[token.Pos]bool{}, atomUse: map[string]int{}, depthOf: map[*frame]int{},
		splices: map[Node][]Node{}, frames: map[string]*frame{}, primCalls: map[*Prim]*Call{}, written: map[string]bool{}, fieldCount: map[string]string{},
		fieldAt: map[*Prim]string{}, constAt: map[*Prim]constEmit{}}
	wfr := m.rootFrame(wf, ws)
	rfr := m.rootFrame(rf, rs)
	m.countAtoms(wfr)
	m.countAtoms(rfr)
	wg := x.Grammar(wf, ws)
	rg := x.Grammar(rf, rs)
	st := state{w: mkCont(wg, 0, nil, wfr, true), r: mkCont(rg, 0, nil, rfr, true), e: newEnv()}
	for _, k := range m.rootNonNil {
		st.e.iv[k] = interval{1, math.MaxInt64}
	}
	m.run(st)
	m.Res.Prims = len(m.primPos)
	// a field that the writer emits on some paths and replaces by a default constant on others, while
	// the reader restores the field from that position either way: the value is lost on those paths
	for rp, ce := range m.constAt {
		if fl, ok := m.fieldAt[rp]; ok && fl == ce.label {
			m.fail("omission", ce.w, rp, ce.wfr, ce.rfr, "field %s is written at this position on some paths but replaced by a constant default on this one, and nothing on this path implies the field is zero/empty: its value is silently not written (the reader restores the default)", fl)
		}
	}
	return m.Res
}

func (m *Matcher) rootFrame(fi *core.FuncInfo, stream types.Object) *frame {
	c := m.X.Ctx(fi)
	m.frameSeq++
	fr := &frame{ctx: c, subst: map[types.Object]string{}, id: m.frameSeq}
	if c.Recv != nil && c.Recv != stream {
		fr.subst[c.Recv] = "recv"
	}
	k := 0
	for _, p := range c.Params {
		if p == nil || m.X.IsStream(p.Type()) {
			continue
		}
		// the first non-stream parameter of package-level codec functions is the object itself
		if c.Recv == nil && k == 0 && !isBasic(p.Type()) {
			fr.subst[p] = "recv"
		} else {
			fr.subst[p] = fmt.Sprintf("arg:%s", p.Name())
		}
		k++
	}
	m.depthOf[fr] = 0
	if m.X.IsOut(stream.Type()) && fi.Decl.Body != nil {
		ast.Inspect(fi.Decl.Body, func(n ast.Node) bool {
			as, ok := n.(*ast.AssignStmt)
			if !ok || len(as.Lhs) != len(as.Rhs) {
				return true
			}
			for i, l := range as.Lhs {
				if _, isId := l.(*ast.Ident); isId {
					continue
				}
				if lbl, ok := m.X.canonF(fr, stripConv(c, l), 0); ok && isFieldLabel(lbl) {
					if k := m.sizeKey(fr, as.Rhs[i]); k != "" {
						m.fieldCount[k] = lbl
					}
				}
			}
			return true
		})
	}
	if m.X.IsIn(stream.Type()) {
		// a local root reader over `src`: the writer produced those bytes, so src is not nil/empty
		if src := m.X.RootSource(fi, stream); src != nil {
			if s, ok := m.X.canonF(fr, stripConv(c, src), 0); ok {
				m.rootNonNil = append(m.rootNonNil, "nil?"+s, "size:"+s)
			}
		}
	}
	return fr
}

func isBasic(t types.Type) bool {
	_, ok := t.Underlying().(*types.Basic)
	return ok
}

func (m *Matcher) countAtoms(fr *frame) {
	if fr.ctx.FI.Decl.Body == nil {
		return
	}
	var visitNode func(n ast.Node) bool
	visitNode = func(n ast.Node) bool {
		var conds []ast.Expr
		switch v := n.(type) {
		case *ast.ForStmt:
			// the extractor unrolls a loop over a few constants: its conditions are those of the
			// bodies with the constant in place of the induction variable
			if iv, vals := constInduction(fr.ctx.Info, v); iv != nil {
				for _, k := range vals {
					lit := &ast.BasicLit{ValuePos: v.Pos(), Kind: token.INT, Value: fmt.Sprint(k)}
					fr.ctx.Info.Types[lit] = types.TypeAndValue{Type: iv.Type(), Value: constant.MakeInt64(k)}
					if cp, ok := paths.Subst(fr.ctx.Info, v.Body, map[types.Object]ast.Expr{iv: lit}).(*ast.BlockStmt); ok {
						ast.Inspect(cp, visitNode)
					}
				}
				return false
			}
		case *ast.IfStmt:
			conds = append(conds, v.Cond)
		case *ast.CaseClause:
			conds = append(conds, v.List...)
		case *ast.SwitchStmt:
			if v.Tag != nil {
				for range v.Body.List {
					conds = append(conds, v.Tag)
				}
			}
		case *ast.CallExpr:
			// values handed to the stream are observable by the reader: never forget facts about them
			if sel, ok := v.Fun.(*ast.SelectorExpr); ok && strings.HasPrefix(sel.Sel.Name, "Write") && len(v.Args) > 0 {
				if tv, ok := fr.ctx.Info.Types[sel.X]; ok && m.X.IsOut(tv.Type) {
					// WriteBool(b) is matched as a branch on b (see the extractor): b is a condition too
					if sel.Sel.Name == "WriteBool" {
						if atv, ok := fr.ctx.Info.Types[v.Args[0]]; ok && atv.Value == nil {
							conds = append(conds, v.Args[0])
						}
					}
					if s, ok := m.X.canonF(fr, stripConv(fr.ctx, v.Args[0]), 0); ok {
						m.written[s] = true
					}
					if k := m.sizeKey(fr, v.Args[0]); k != "" {
						m.written[k] = true
					}
				}
			}
		}
		var visit func(a ast.Expr, depth int)
		visit = func(a ast.Expr, depth int) {
			if id, ok := ast.Unparen(a).(*ast.Ident); ok {
				if obj := fr.ctx.Info.ObjectOf(id); obj != nil {
					if x := m.commaOkOperand(fr, obj); x != nil {
						a = x // `ok` of an always-succeeding-unless-nil assertion speaks about x
					} else if isLocalVar(obj) && depth < 3 {
						// a hoisted test: its atoms are the atoms of what it was defined as
						if b, ok := obj.Type().Underlying().(*types.Basic); ok && b.Info()&types.IsBoolean != 0 {
							if d := fr.ctx.singleDef(obj); d != nil {
								if _, isCall := ast.Unparen(d).(*ast.CallExpr); !isCall {
									m.eachAtom(d, func(x ast.Expr) { visit(x, depth+1) })
									return
								}
							}
						}
					}
				}
			}
			if s, ok := m.X.canonF(fr, a, 0); ok {
				m.atomUse[s]++
				m.atomList = append(m.atomList, s)
			}
		}
		for _, c := range conds {
			m.eachAtom(c, func(a ast.Expr) { visit(a, 0) })
		}
		return true
	}
	ast.Inspect(fr.ctx.FI.Decl.Body, visitNode)
}

func (m *Matcher) eachAtom(e ast.Expr, f func(ast.Expr)) {
	e = ast.Unparen(e)
	switch v := e.(type) {
	case *ast.BinaryExpr:
		if v.Op == token.LAND || v.Op == token.LOR {
			m.eachAtom(v.X, f)
			m.eachAtom(v.Y, f)
			return
		}
	case *ast.UnaryExpr:
		if v.Op == token.NOT {
			m.eachAtom(v.X, f)
			return
		}
	}
	f(e)
}

func (m *Matcher) fail(kind string, w, r Node, wfr, rfr *frame, format string, args ...interface{}) {
	msg := fmt.Sprintf(format, args...)
	var wp, rp token.Pos
	if w != nil {
		wp = w.NPos()
	}
	if r != nil {
		rp = r.NPos()
	}
	key := fmt.Sprintf("%s|%d|%d|%s", kind, wp, rp, msg)
	if m.failSeen[key] {
		return
	}
	m.failSeen[key] = true
	if len(m.Res.Failures) < 40 {
		m.Res.Failures = append(m.Res.Failures, Failure{Kind: kind, WPos: wp, RPos: rp, Msg: msg})
	}
}

func describe(x *Extractor, n Node) string {
	switch v := n.(type) {
	case nil:
		return "end of codec"
	case *Prim:
		c := ""
		if v.Const != nil {
			c = "(" + v.Const.ExactString() + ")"
		}
		l := ""
		if v.Label != "" {
			l = " " + v.Label
		}
		return v.Kind + c + l
	case *Call:
		return "call " + core.FuncName(v.Callee)
	case *Loop:
		return "loop"
	case *Nested:
		return "nested " + v.Frame
	case *marker:
		return v.kind
	case *If:
		return "branch"
	case *Ret:
		return "return"
	case *Panic:
		return "panic"
	case *Unknown:
		return "unknown(" + v.Reason + ")"
	}
	return fmt.Sprintf("%T", n)
}

var kindGroup = map[string]string{
	"Bool": "b1", "Byte": "b1",
	"Short": "b2", "UShort": "b2", "UnsignedShort": "b2",
	"Int3": "b3", "Int": "b4", "UnsignedInt": "b4",
	"Long5": "b5", "Long": "b8", "Float": "f4", "Double": "f8",
	"Decimal": "dec", "Blob": "blob", "Text": "blob",
	"Bytes": "raw", "TextShortLength": "tsl", "ShortBytes": "sb",
	"IntBytes": "ib", "IntBytesLimit": "ib",
	"ShortArray": "a2", "IntArray": "a4", "LongArray": "a8", "FloatArray": "af4", "DoubleArray": "af8", "TextArray": "atext",
	"DecimalArray": "adec", "DecimalArrayInt": "adec",
}

var atomicKinds = map[string]bool{"Bool": true, "Byte": true, "Short": true, "UShort": true, "UnsignedShort": true, "Int3": true, "Int": true,
	"UnsignedInt": true, "Long5": true, "Long": true, "Float": true, "Double": true, "Decimal": true, "Blob": true, "Text": true, "Bytes": true, "DecimalLen": true}

func kindInterval(kind string) (interval, bool) {
	switch kind {
	case "Bool":
		return interval{0, 1}, true
	case "Byte":
		return interval{0, 255}, true
	case "Short":
		return interval{math.MinInt16, math.MaxInt16}, true
	case "UShort", "UnsignedShort":
		return interval{0, 65535}, true
	case "Int3":
		return interval{-8388608, 8388607}, true
	case "Int":
		return interval{math.MinInt32, math.MaxInt32}, true
	case "UnsignedInt":
		return interval{0, math.MaxUint32}, true
	}
	return interval{math.MinInt64, math.MaxInt64}, true
}

func (m *Matcher) run(st state) {
	for {
		m.Res.Steps++
		if m.Res.Steps > m.Budget {
			m.fail("undecided", nil, nil, nil, nil, "state budget exhausted (%d steps): joint path space too large", m.Budget)
			return
		}
		w, wc := st.w.head()
		r, rc := st.r.head()
		key := ""
		if wc != nil {
			key += wc.key
		}
		key += "#"
		if rc != nil {
			key += rc.key
		}
		key += "#" + st.e.sig(m)
		if m.seen[key] {
			return
		}
		m.seen[key] = true

		var wfr, rfr *frame
		if wc != nil {
			wfr = wc.fr
		}
		if rc != nil {
			rfr = rc.fr
		}
		// ---- writer-side structural nodes
		switch v := w.(type) {
		case *Unknown:
			m.fail("undecided", w, r, wfr, rfr, "writer: %s", v.Reason)
			return
		case *Ret:
			st.w = popFrame(wc)
			continue
		case *Panic:
			return // writer aborts: nothing produced on this path
		case *If:
			m.branch(st, v, wc, true)
			return
		case *Nested:
			if v.Frame == "Bytes" {
				// raw splice of a sub-writer
				st.w = mkCont(v.Body, 0, wc.advance(), wfr, false)
				continue
			}
		}
		// ---- reader-side structural nodes
		switch v := r.(type) {
		case *Unknown:
			m.fail("undecided", w, r, wfr, rfr, "reader: %s", v.Reason)
			return
		case *Ret:
			st.r = popFrame(rc)
			continue
		case *Panic:
			m.fail("mismatch", w, r, wfr, rfr, "reader reaches panic (rejects) on an input the writer can produce; writer is at %s", describe(m.X, w))
			return
		case *If:
			m.curW = w
			m.branch(st, v, rc, false)
			m.curW = nil
			return
		case *Prim:
			if v.Kind == "DecimalLen" {
				// completes a split decimal: consumes no writer node
				if !m.completeDecimal(&st, v, rc, w) {
					return
				}
				st.r = rc.advance()
				continue
			}
		}
		if rp, ok := r.(*Prim); ok && rp.Kind == "Bytes" && rp.LenArg != nil {
			if k := m.readerKey(rfr, rp.LenArg); k != nil {
				if av, ok := st.e.rbind[k]; ok && isZero(valIv(st.e, av)) {
					st.r = rc.advance() // ReadBytes(0) consumes nothing
					continue
				}
			}
		}
		if mk, ok := w.(*marker); ok && mk.kind == "endframe" {
			st.w = wc.advance()
			continue
		}
		if mk, ok := r.(*marker); ok && mk.kind == "endframe" {
			st.r = rc.advance()
			continue
		}
		// ---- both ended?
		if w == nil && r == nil {
			if st.e.pendingDec > 0 {
				m.fail("mismatch", nil, nil, nil, nil, "reader took the length byte of a decimal but never read its body (ReadDecimalLen missing)")
			}
			m.Res.Worlds++
			return
		}
		// ---- calls
		wcall, wIsCall := w.(*Call)
		rcall, rIsCall := r.(*Call)
		if wIsCall && rIsCall && m.IsPair != nil && m.IsPair(wcall.Callee, rcall.Callee) {
			m.Res.Pairs[core.FuncName(wcall.Callee)+" ~ "+core.FuncName(rcall.Callee)] = true
			if singleValuePair(wcall, rcall) {
				m.checkLabels(st, w, r, m.callLabel(wfr, wcall, true), m.callLabel(rfr, rcall, false), wfr, rfr, false)
				st.w, st.r = wc.advance(), rc.advance()
				continue
			}
			// a pair that carries several values (a section helper writing a blob and its count, reading
			// one through a pointer and returning the other): which value goes where is only visible
			// inside, so both sides are followed here (the pair is still judged on its own)
		}
		if wIsCall {
			if nc := m.inline(wcall, wc, wfr); nc != nil {
				st.w = nc
				continue
			}
			if rIsCall {
				if nc := m.inline(rcall, rc, rfr); nc != nil {
					st.r = nc
					continue
				}
			}
			m.fail("mismatch", w, r, wfr, rfr, "writer hands the stream to %s but the reader continues with %s (not a codec pair, not inlinable)", core.FuncName(wcall.Callee), describe(m.X, r))
			return
		}
		if rIsCall {
			if nc := m.inline(rcall, rc, rfr); nc != nil {
				st.r = nc
				continue
			}
			m.fail("mismatch", w, r, wfr, rfr, "reader hands the stream to %s but the writer continues with %s (not a codec pair, not inlinable)", core.FuncName(rcall.Callee), describe(m.X, w))
			return
		}
		// ---- a bucket loop whose body is one chain walk visits every entry once: one loop over the entries
		if l, ok := w.(*Loop); ok {
			if fl := m.flattenTableWalk(l, wfr); fl != nil {
				wc = &cont{nodes: append([]Node{fl}, wc.nodes[wc.i+1:]...), i: 0, next: wc.next, fr: wc.fr, base: wc.base, key: wc.key + "~flat"}
				st.w = wc
				continue
			}
		}
		// ---- loops over a fixed list of expressions are unrolled (one sub-frame per element)
		if l, ok := w.(*Loop); ok {
			if nc := m.unroll(l, wc, wfr); nc != nil {
				st.w = nc
				continue
			}
		}
		if l, ok := r.(*Loop); ok {
			if nc := m.unroll(l, rc, rfr); nc != nil {
				st.r = nc
				continue
			}
		}
		// ---- loops
		wl, wIsLoop := w.(*Loop)
		rl, rIsLoop := r.(*Loop)
		if wIsLoop && rIsLoop {
			m.checkCountLink(st, wl, rl, wfr, rfr)
			st.w = mkCont(m.splice(wl, wl.Body, "endloop"), 0, wc.advance(), wfr, false)
			st.r = mkCont(m.splice(rl, rl.Body, "endloop"), 0, rc.advance(), rfr, false)
			continue
		}
		if wIsLoop {
			if m.writerLoopZero(st, wl, wfr) {
				st.w = wc.advance()
				continue
			}
			m.fail("mismatch", w, r, wfr, rfr, "writer repeats a section here but the reader continues with %s", describe(m.X, r))
			return
		}
		if rIsLoop {
			if m.readerLoopZero(st, rl, rfr) {
				st.r = rc.advance()
				continue
			}
			if wp, ok := w.(*Prim); ok && kindGroup[wp.Kind] == "raw" {
				m.fail("undecided", w, r, wfr, rfr, "reader repeats a section here where the writer emits a pre-encoded buffer raw (%s): the matcher cannot see the buffer's layout", describe(m.X, w))
			} else {
				m.fail("mismatch", w, r, wfr, rfr, "reader repeats a section here but the writer continues with %s", describe(m.X, w))
			}
			return
		}
		// ---- markers
		wm, wIsM := w.(*marker)
		rm, rIsM := r.(*marker)
		if wIsM || rIsM {
			if wIsM && rIsM && wm.kind == rm.kind {
				st.w, st.r = wc.advance(), rc.advance()
				continue
			}
			if wIsM {
				m.fail("mismatch", w, r, wfr, rfr, "writer's %s section ends but the reader goes on reading %s", strings.TrimPrefix(wm.kind, "end"), describe(m.X, r))
			} else {
				m.fail("mismatch", w, r, wfr, rfr, "reader's %s section ends but the writer still emits %s (never read)", strings.TrimPrefix(rm.kind, "end"), describe(m.X, w))
			}
			return
		}
		// ---- nested
		wn, wIsN := w.(*Nested)
		rn, rIsN := r.(*Nested)
		if wIsN && rIsN {
			if kindGroup[wn.Frame] != kindGroup[rn.Frame] {
				m.fail("mismatch", w, r, wfr, rfr, "sub-stream framed as %s by the writer but read as %s", wn.Frame, rn.Frame)
				return
			}
			st.w = mkCont(m.splice(wn, wn.Body, "endnested"), 0, wc.advance(), wfr, false)
			st.r = mkCont(m.splice(rn, rn.Body, "endnested"), 0, rc.advance(), rfr, false)
			continue
		}
		wp, wIsP := w.(*Prim)
		rp, rIsP := r.(*Prim)
		if wIsN && rIsP {
			if kindGroup[wn.Frame] == kindGroup[rp.Kind] {
				m.primPos[wn.Pos] = true
				st.w, st.r = wc.advance(), rc.advance()
				continue
			}
			m.fail("mismatch", w, r, wfr, rfr, "writer emits a %s-framed sub-stream, reader reads %s", wn.Frame, rp.Kind)
			return
		}
		if wIsP && rIsN {
			if kindGroup[wp.Kind] == kindGroup[rn.Frame] {
				m.primPos[wp.Pos] = true
				st.w, st.r = wc.advance(), rc.advance()
				continue
			}
			m.fail("mismatch", w, r, wfr, rfr, "writer emits %s, reader opens a %s-framed sub-stream", wp.Kind, rn.Frame)
			return
		}
		// ---- primitives
		if wIsP && rIsP {
			if !m.matchPrim(&st, wp, rp, wc, rc) {
				return
			}
			continue
		}
		// ---- one side ended
		if w == nil {
			m.fail("mismatch", w, r, wfr, rfr, "reader expects %s but the writer has emitted nothing more", describe(m.X, r))
			return
		}
		if r == nil {
			m.fail("mismatch", w, r, wfr, rfr, "writer emits %s but the reader has stopped reading (never consumed)", describe(m.X, w))
			return
		}
		m.fail("mismatch", w, r, wfr, rfr, "writer %s vs reader %s", describe(m.X, w), describe(m.X, r))
		return
	}
}

// splice returns (cached) body + end marker for a loop / nested node.
func (m *Matcher) splice(n Node, body []Node, kind string) []Node {
	if s, ok := m.splices[n]; ok {
		return s
	}
	s := append(append([]Node{}, body...), &marker{pos: n.NPos(), kind: kind})
	m.splices[n] = s
	return s
}

// termUses: number of condition atoms (in the functions seen so far) mentioning the term key.
func (m *Matcher) termUses(key string) int {
	k := strings.TrimPrefix(strings.TrimPrefix(key, "nil?"), "size:")
	n := 0
	for _, a := range m.atomList {
		if strings.Contains(a, k) {
			n++
		}
	}
	return n
}

func popFrame(c *cont) *cont {
	for c != nil {
		if c.base {
			return c.next
		}
		c = c.next
	}
	return nil
}

// inline replaces a call node by the callee's grammar (static callees with a body in the module).
func (m *Matcher) inline(call *Call, c *cont, fr *frame) *cont {
	if call.Iface {
		// an interface method on a parameter that the (inlined) caller bound to a value of concrete
		// static type: WriteValue(out, m) with m *MapValue makes val.Write(out) MapValue's Write
		if dc := m.devirtualise(call, fr); dc != nil {
			call = dc
		} else {
			return nil
		}
	}
	fi := m.X.P.FuncOf(call.Callee)
	if fi == nil || fi.Decl.Body == nil {
		return nil
	}
	d := m.depthOf[fr] + 1
	if d > m.MaxDepth {
		return nil
	}
	cc := m.X.Ctx(fi)
	// find callee's stream param
	var stream types.Object
	if call.StreamArg == -3 {
		outs, ins := m.X.LocalRoots(fi)
		if len(outs) == 1 {
			stream = outs[0]
		} else if len(ins) == 1 {
			stream = ins[0]
		}
	} else if call.StreamArg == -1 {
		stream = cc.Recv
	} else if call.StreamArg >= 0 && call.StreamArg < len(cc.Params) {
		stream = cc.Params[call.StreamArg]
	}
	var delegate *ast.CallExpr
	if stream == nil && call.StreamArg == -3 {
		delegate = m.X.DelegateProducer(fi)
	}
	if stream == nil && delegate == nil {
		return nil
	}
	fkey := fmt.Sprintf("%d@%d", fr.id, call.Pos)
	if cached, ok := m.frames[fkey]; ok {
		if delegate != nil {
			return m.inline(&Call{Pos: delegate.Pos(), Callee: calleeOf(cc.Info, delegate), Expr: delegate, Fn: cc, StreamArg: -3}, c, cached)
		}
		g := m.X.Grammar(fi, stream)
		return mkCont(m.splice(call, g, "endframe"), 0, c.advance(), cached, true)
	}
	m.frameSeq++
	nfr := &frame{ctx: cc, subst: map[types.Object]string{}, id: m.frameSeq, args: map[types.Object]ast.Expr{}, parent: fr}
	m.depthOf[nfr] = d
	m.frames[fkey] = nfr
	// receiver binding
	if sel, ok := call.Expr.Fun.(*ast.SelectorExpr); ok && cc.Recv != nil && cc.Recv != stream {
		if s, ok := m.X.canonF(fr, stripConv(fr.ctx, sel.X), 0); ok {
			nfr.subst[cc.Recv] = s
		}
	}
	if sig, ok := call.Callee.Type().(*types.Signature); ok && sig.Variadic() && !call.Expr.Ellipsis.IsValid() && len(cc.Params) > 0 {
		last := len(cc.Params) - 1
		if cc.Params[last] != nil && len(call.Expr.Args) >= last {
			nfr.vargs = map[types.Object][]ast.Expr{cc.Params[last]: call.Expr.Args[last:]}
		}
	}
	for i, a := range call.Expr.Args {
		if i == call.StreamArg || i >= len(cc.Params) || cc.Params[i] == nil {
			continue
		}
		if nfr.vargs != nil && i == len(cc.Params)-1 {
			continue
		}
		nfr.args[cc.Params[i]] = a
		if tv, ok := fr.ctx.Info.Types[a]; ok && tv.Value != nil {
			nfr.subst[cc.Params[i]] = tv.Value.ExactString()
			continue
		}
		if s, ok := m.X.canonF(fr, stripConv(fr.ctx, a), 0); ok {
			nfr.subst[cc.Params[i]] = s
		}
	}
	if delegate != nil {
		// the bytes come from a producer called inside this function: follow that call in this frame
		return m.inline(&Call{Pos: delegate.Pos(), Callee: calleeOf(cc.Info, delegate), Expr: delegate, Fn: cc, StreamArg: -3}, c, nfr)
	}
	g := m.X.Grammar(fi, stream)
	m.countAtoms(nfr)
	return mkCont(m.splice(call, g, "endframe"), 0, c.advance(), nfr, true)
}

func (m *Matcher) callLabel(fr *frame, c *Call, writer bool) string {
	if c.Label == "" {
		return ""
	}
	return m.relabel(fr, c.Label)
}

// relabel rewrites a static label ("recv.X", "p0:this.X") into the frame's canonical space.
func (m *Matcher) relabel(fr *frame, lbl string) string {
	if fr == nil || lbl == "" {
		return lbl
	}
	head, rest := lbl, ""
	if i := strings.Index(lbl, "."); i >= 0 {
		head, rest = lbl[:i], lbl[i:]
	}
	if head == "recv" {
		if fr.ctx.Recv != nil {
			if s, ok := fr.subst[fr.ctx.Recv]; ok {
				return s + rest
			}
		}
		return lbl
	}
	if strings.HasPrefix(head, "p") && strings.Contains(head, ":") {
		var idx int
		if _, err := fmt.Sscanf(head, "p%d:", &idx); err == nil && idx < len(fr.ctx.Params) && fr.ctx.Params[idx] != nil {
			if s, ok := fr.subst[fr.ctx.Params[idx]]; ok {
				// a store through a pointer parameter bound to &x designates x
				if rest == "" && strings.HasPrefix(s, "&") {
					if _, isPtr := fr.ctx.Params[idx].Type().(*types.Pointer); isPtr {
						return strings.TrimPrefix(s, "&")
					}
				}
				return s + rest
			}
		}
	}
	return lbl
}

func isFieldLabel(l string) bool {
	return strings.HasPrefix(l, "recv.") && !strings.ContainsAny(l, "()[]+-*/&|<>=!")
}

func (m *Matcher) checkLabels(st state, w, r Node, wl, rl string, wfr, rfr *frame, discard bool) {
	if os.Getenv("WIRE_DEBUG") == "labels" {
		fmt.Fprintf(os.Stderr, "labels wl=%q rl=%q\n", wl, rl)
	}
	if rp, ok := r.(*Prim); ok && isFieldLabel(rl) && !discard {
		if wp, ok := w.(*Prim); ok {
			switch {
			case isFieldLabel(wl) && (wl == rl || specRename(wl, rl, rfr)):
				m.fieldAt[rp] = rl
			case !isFieldLabel(wl) && isDefaultConst(wp) && !m.impliedZero(st.e, rl):
				if _, had := m.constAt[rp]; !had {
					m.constAt[rp] = constEmit{w: wp, wfr: wfr, rfr: rfr, label: rl}
				}
			}
		}
	}
	if rp, ok := r.(*Prim); ok && strings.HasPrefix(rl, "recv.") && !discard && !isFieldLabel(wl) && !strings.HasPrefix(wl, "size:") {
		if wp, ok := w.(*Prim); ok && wp.Const == nil && wp.Arg != nil && !isDefaultConst(wp) && m.computedArg(wfr, wp.Arg) {
			// the reader restores a field from a position whose written value the analysis cannot name:
			// the writer passes something other than a field, a size or a constant (a computed value)
			m.Res.Opaque = append(m.Res.Opaque, OpaqueWrite{WPos: wp.Pos, Field: rl, Arg: types.ExprString(wp.Arg)})
			_ = rp
		}
	}
	if isFieldLabel(wl) {
		if discard {
			m.fail("dropped", w, r, wfr, rfr, "field %s is written but the reader discards the value read at this position", wl)
			return
		}
		// read into a local that only steers the decoding and is never stored into any field of the
		// object: the field itself comes back with its constructor default
		if rp, ok := r.(*Prim); ok && rl == "" && rfr != nil && rfr.parent == nil && wfr != nil && wfr.parent == nil {
			if obj, isObj := rp.Bind.(types.Object); isObj && isLocalVar(obj) && !m.localReachesField(rfr, obj) && m.fieldNeverSet(rfr, wl) {
				m.fail("dropped", w, r, wfr, rfr, "field %s is written, but the reader keeps the value in the local %s and never stores it into the object: the decoded object has the constructor's %s, not the one that was written", wl, obj.Name(), strings.TrimPrefix(wl, "recv."))
				return
			}
		}
		if isFieldLabel(rl) {
			m.Res.Labels++
			if wl != rl && !specRename(wl, rl, rfr) {
				m.fail("label", w, r, wfr, rfr, "writer emits field %s here but the reader stores this position into %s", wl, rl)
			}
		}
	}
}

// computedArg: the written expression is the result of a function of the module that is neither a
// conversion nor one of the transparent wrappers (a value-transforming helper).
func (m *Matcher) computedArg(fr *frame, e ast.Expr) bool {
	e = stripConv(fr.ctx, e)
	call, ok := e.(*ast.CallExpr)
	if !ok {
		return false
	}
	if tv, ok := fr.ctx.Info.Types[call.Fun]; ok && tv.IsType() {
		return false
	}
	fn := calleeOf(fr.ctx.Info, call)
	if fn == nil || fn.Pkg() == nil {
		return false
	}
	// only functions of the analysed module with a body: getters returning a field are resolved by canonF already
	cfi := m.X.P.FuncOf(fn)
	if cfi == nil || cfi.Decl.Body == nil {
		return false
	}
	if sig, ok := fn.Type().(*types.Signature); ok && sig.Recv() != nil {
		return false // methods (getters, Size(), Keys()...) are handled by the label/size machinery
	}
	if len(call.Args) == 0 {
		return false
	}
	return true
}

// isDefaultConst: the writer emits a literal default here (0, false, "", nil, empty literal).
func isDefaultConst(p *Prim) bool {
	if p.Const != nil {
		switch p.Const.Kind() {
		case constant.Int:
			n, ok := constInt(p.Const)
			return ok && n == 0
		case constant.Bool:
			return !constant.BoolVal(p.Const)
		case constant.String:
			return constant.StringVal(p.Const) == ""
		}
		return false
	}
	if p.Arg == nil {
		return false
	}
	switch v := ast.Unparen(p.Arg).(type) {
	case *ast.Ident:
		return v.Name == "nil"
	case *ast.CompositeLit:
		// an empty literal, or a literal of zeros ([]byte{0, 0, 0, 0} where an address belongs)
		for _, el := range v.Elts {
			bl, ok := ast.Unparen(el).(*ast.BasicLit)
			if !ok || strings.Trim(bl.Value, "0xX._") != "" {
				return false
			}
		}
		return true
	}
	return false
}

// ---------------------------------------------------------------------------------------------
// primitives

func (m *Matcher) wlabelOf(fr *frame, p *Prim) string {
	if p.Arg == nil {
		return ""
	}
	if k := m.sizeKey(fr, p.Arg); strings.HasPrefix(k, "size:") {
		return k
	}
	if s, ok := m.X.canonF(fr, stripConv(fr.ctx, p.Arg), 0); ok {
		return s
	}
	return ""
}

func (m *Matcher) matchPrim(st *state, wp, rp *Prim, wc, rc *cont) bool {
	wfr, rfr := wc.fr, rc.fr
	if wp.Const == nil && wp.Arg != nil {
		if cv := m.dynConst(wfr, wp.Arg); cv != nil {
			cp := *wp
			cp.Const = cv
			wp = &cp
		}
	}
	wk, rk := wp.Kind, rp.Kind
	wlabel := m.wlabelOf(wfr, wp)
	rlabel := m.relabel(rfr, rp.Label)
	if rp.Target != nil && rfr.unrolled {
		if s, ok := m.X.canonF(rfr, stripConv(rfr.ctx, rp.Target), 0); ok {
			rlabel = s
		}
	}
	bindVal := func(av absval) {
		st.e = st.e.clone()
		if rp.Bind != nil {
			st.e.rbind[rp.Bind] = av
		}
		if av.wlabel != "" {
			niv := av.iv
			if strings.HasPrefix(av.wlabel, "size:") && niv.lo < 0 {
				niv.lo = 0
			}
			if iv, ok := st.e.iv[av.wlabel]; ok {
				niv = intersect(iv, niv)
			}
			st.e.iv[av.wlabel] = niv
		}
		if isFieldLabel(rlabel) {
			// reader conditions over this field now speak about the value just read
			if av.wlabel != "" && av.wlabel != rlabel {
				st.e.rfield[rlabel] = av.wlabel
			}
			if av.wlabel == "" {
				key := "rf:" + rlabel
				st.e.rfield[rlabel] = key
				st.e.iv[key] = av.iv
			}
		}
		if k := m.sizeKey(wfr, wp.Arg); k != "" && rp.Bind != nil {
			st.e.wcount[k] = rp.Bind
		}
	}
	mkVal := func() absval {
		iv, _ := kindInterval(rk)
		av := absval{iv: iv, wlabel: wlabel}
		if wp.Const != nil {
			if n, ok := constInt(wp.Const); ok {
				av.iv = interval{n, n}
				av.wlabel = ""
			} else if wp.Const.Kind() == constant.Bool {
				b := int64(0)
				if constant.BoolVal(wp.Const) {
					b = 1
				}
				av.iv = interval{b, b}
				av.wlabel = ""
			}
		} else if wlabel != "" {
			// inherit what the writer's conditions established about this term
			if iv, ok := st.e.iv[wlabel]; ok {
				av.iv = intersect(av.iv, iv)
			}
			av.excl = st.e.excl[wlabel]
		}
		return av
	}
	if g, ok := kindGroup[wk]; ok && g == kindGroup[rk] {
		m.primPos[wp.Pos] = true
		if g == "raw" && rp.LenArg != nil {
			// raw bytes carry no length of their own: the reader's length must be the value the writer
			// emitted as len(arg), or the same constant
			m.checkRawLen(*st, wp, rp, wfr, rfr)
		}
		m.checkLabels(*st, wp, rp, wlabel, rlabel, wfr, rfr, rp.Discard)
		bindVal(mkVal())
		st.w, st.r = wc.advance(), rc.advance()
		return true
	}
	// split decimal: writer Decimal, reader takes the length byte first
	if wk == "Decimal" && rk == "Byte" {
		m.primPos[wp.Pos] = true
		av := absval{iv: interval{0, 8}, decTag: true, decPrim: wp, decFr: wfr, wlabel: ""}
		if wp.Const != nil {
			if n, ok := constInt(wp.Const); ok && n == 0 {
				av.iv = interval{0, 0}
			}
		}
		st.e = st.e.clone()
		if rp.Bind != nil {
			st.e.rbind[rp.Bind] = av
			if k := m.sizeKey(wfr, wp.Arg); k != "" {
				st.e.wcount[k] = rp.Bind
			}
		}
		if av.iv.hi == 0 {
			av.decDone = true
			if rp.Bind != nil {
				st.e.rbind[rp.Bind] = av
			}
		} else {
			st.e.pendingDec++
		}
		st.w, st.r = wc.advance(), rc.advance()
		return true
	}
	// compound primitives: expand the io method on the side(s) that is compound
	if !atomicKinds[wk] && wp.Method != nil {
		if nc := m.inline(m.primCall(wp), wc, wfr); nc != nil {
			st.w = nc
			return true
		}
	}
	if !atomicKinds[rk] && rp.Method != nil {
		if nc := m.inline(m.primCall(rp), rc, rfr); nc != nil {
			st.r = nc
			return true
		}
	}
	if kindGroup[wk] == "raw" && (strings.HasPrefix(wlabel, "local:") || wlabel == "" || strings.Contains(wlabel, "(")) {
		// a buffer encoded elsewhere and written raw: its content is not visible at this position
		m.fail("undecided", wp, rp, wfr, rfr, "writer emits a pre-encoded buffer%s raw where the reader reads %s%s: the matcher cannot see the buffer's layout (not a sub-writer of this function, not a single bytes-producing call)", lbl(wlabel), rk, lbl(rlabel))
		return false
	}
	m.fail("mismatch", wp, rp, wfr, rfr, "writer emits %s%s but the reader reads %s%s at this position", wk, lbl(wlabel), rk, lbl(rlabel))
	return false
}

func (m *Matcher) checkRawLen(st state, wp, rp *Prim, wfr, rfr *frame) {
	if tv, ok := rfr.ctx.Info.Types[rp.LenArg]; ok && tv.Value != nil {
		return // fixed-width read (width agreement is a C01 bit-level obligation)
	}
	call := &ast.CallExpr{Fun: &ast.Ident{Name: "len"}, Args: []ast.Expr{wp.Arg}}
	k := m.sizeKey(wfr, call)
	rkey := m.readerKey(rfr, rp.LenArg)
	if carried, ok := st.e.wcount[k]; ok && rkey != nil && carried == rkey {
		return
	}
	// the length comes from a helper that performs the read itself (in.readCount(w) returning one of
	// two reads): the read that was bound on this joint path
	if carried, ok := st.e.wcount[k]; ok {
		if rk2 := m.readerKeySt(st, rfr, rp.LenArg, carried); rk2 != nil && rk2 == carried {
			return
		}
	}
	// length kept in a field: the reader uses the field it just read where the writer emitted the same
	// field before the bytes (object invariant size-field == len(bytes) assumed), or a field that is
	// not part of this codec at all (framing carried out of band, e.g. the UDP header length)
	if s, ok := m.X.canonF(rfr, stripConv(rfr.ctx, rp.LenArg), 0); ok && isFieldLabel(s) {
		if alias, aliased := st.e.rfield[s]; aliased && alias == k {
			return // the field was read from the very value the writer emitted as len(arg)
		}
		if _, aliased := st.e.rfield[s]; !aliased {
			m.Res.Notes = append(m.Res.Notes, fmt.Sprintf("raw bytes %s: length taken from field %s (object invariant / out-of-band framing assumed)", m.wlabelOf(wfr, wp), s))
			return
		}
	}
	m.fail("countlink", wp, rp, wfr, rfr, "raw bytes: the reader's length is not the value the writer emitted as the length of %s", m.wlabelOf(wfr, wp))
}

func lbl(s string) string {
	if s == "" {
		return ""
	}
	return " (" + s + ")"
}

func (m *Matcher) primCall(p *Prim) *Call {
	if c, ok := m.primCalls[p]; ok {
		return c
	}
	c := &Call{Pos: p.Pos, Callee: p.Method, Expr: p.Call, Fn: p.Fn, StreamArg: -1}
	m.primCalls[p] = c
	return c
}

func constInt(v constant.Value) (int64, bool) {
	if v == nil {
		return 0, false
	}
	if v.Kind() == constant.Int {
		n, ok := constant.Int64Val(v)
		return n, ok
	}
	if v.Kind() == constant.Float {
		f, _ := constant.Float64Val(v)
		if f == math.Trunc(f) {
			return int64(f), true
		}
	}
	return 0, false
}

func intersect(a, b interval) interval {
	if b.lo > a.lo {
		a.lo = b.lo
	}
	if b.hi < a.hi {
		a.hi = b.hi
	}
	return a
}

func (m *Matcher) completeDecimal(st *state, rp *Prim, rc *cont, w Node) bool {
	st.e = st.e.clone()
	rfr := rc.fr
	// the length argument must be the bound length byte
	key := m.readerKey(rfr, rp.LenArg)
	av, ok := st.e.rbind[key]
	if os.Getenv("WIRE_DEBUG") != "" && (!ok || !av.decTag) {
		kp := ""
		if o, isO := key.(types.Object); isO {
			kp = m.X.P.Pos(o.Pos())
		}
		fmt.Fprintf(os.Stderr, "completeDecimal key=%T %v at %s ok=%v dec=%v av=%+v\n", key, key, kp, ok, av.decTag, av)
	}
	if !ok || !av.decTag {
		m.fail("mismatch", w, rp, nil, rfr, "ReadDecimalLen is not driven by the length byte of a decimal the writer emitted at this position")
		return false
	}
	if !av.decDone {
		st.e.pendingDec--
		av.decDone = true
		st.e.rbind[key] = av
	}
	wl := m.wlabelOf(av.decFr, av.decPrim)
	m.checkLabels(*st, av.decPrim, rp, wl, m.relabel(rfr, rp.Label), av.decFr, rfr, rp.Discard)
	if rp.Bind != nil {
		// the decimal's value: non-zero here (a zero decimal has no body), labelled as the writer's term
		nv := absval{iv: interval{math.MinInt64, math.MaxInt64}, excl: []int64{0}, wlabel: wl}
		st.e.rbind[rp.Bind] = nv
		if k := m.sizeKey(av.decFr, av.decPrim.Arg); k != "" {
			st.e.wcount[k] = rp.Bind
		}
	}
	return true
}

// readerKey resolves an expression to the key a read value was bound under (local var or inline call).
func (m *Matcher) readerKey(fr *frame, e ast.Expr) interface{} {
	for depth := 0; depth < 4 && e != nil; depth++ {
		e = stripConv(fr.ctx, e)
		switch v := e.(type) {
		case *ast.CallExpr:
			// len(x) where x was allocated in this function as make(T, n): the loop runs n times
			if id, ok := v.Fun.(*ast.Ident); ok && id.Name == "len" && len(v.Args) == 1 {
				if _, isB := fr.ctx.Info.Uses[id].(*types.Builtin); isB {
					if n := madeLen(fr.ctx, v.Args[0]); n != nil {
						e = n
						continue
					}
					return nil
				}
			}
			return v
		case *ast.Ident:
			obj := fr.ctx.Info.ObjectOf(v)
			if obj == nil {
				return nil
			}
			if d := fr.ctx.singleDef(obj); d != nil {
				if dc, isCall := stripConv(fr.ctx, d).(*ast.CallExpr); !isCall {
					e = d
					continue
				} else if n := makeArg(fr.ctx, dc); n != nil {
					e = n // x := make(T, n); for range x
					continue
				}
			} else if d := fr.ctx.defBefore(obj, m.loopPos); d != nil {
				// several definitions (var items []T; if … { items = make([]T, n); for range items }):
				// the one in force at the loop
				if dc, isCall := stripConv(fr.ctx, d).(*ast.CallExpr); isCall {
					if n := makeArg(fr.ctx, dc); n != nil {
						e = n
						continue
					}
				}
			}
			// a parameter of an inlined helper stands for the caller's argument
			if a, ok := fr.args[obj]; ok && fr.parent != nil {
				return m.readerKey(fr.parent, a)
			}
			return obj
		case *ast.SelectorExpr:
			// for range this.items, after this.items = make(T, n)
			if n := madeLen(fr.ctx, v); n != nil {
				e = n
				continue
			}
			return nil
		default:
			return nil
		}
	}
	return nil
}

// readerKeySt: like readerKey, but a value obtained from a helper that performs the read itself
// (count := readCount(din, ver), the helper returning one of several reads) is resolved to the read
// that was actually bound on this joint path.
func (m *Matcher) readerKeySt(st state, fr *frame, e ast.Expr, prefer interface{}) interface{} {
	k := m.readerKey(fr, e)
	if _, bound := st.e.rbind[k]; bound && k != nil {
		return k
	}
	call, ok := k.(*ast.CallExpr)
	if obj, isObj := k.(types.Object); isObj {
		// a local defined by a call of a reading helper
		if d := fr.ctx.singleDef(obj); d != nil {
			call, ok = stripConv(fr.ctx, d).(*ast.CallExpr)
		}
	}
	if !ok || call == nil {
		return k
	}
	// an accessor of the stream (in.readArrayLen()): the read it stands for
	if ex, ok := m.X.accessor[call]; ok {
		if rc, ok := stripConv(fr.ctx, ex).(*ast.CallExpr); ok {
			if _, bound := st.e.rbind[rc]; bound {
				return rc
			}
		}
	}
	var id *ast.Ident
	switch f := ast.Unparen(call.Fun).(type) {
	case *ast.Ident:
		id = f
	case *ast.SelectorExpr:
		id = f.Sel
	}
	if id == nil {
		return k
	}
	fn, _ := fr.ctx.Info.Uses[id].(*types.Func)
	cfi := m.X.P.FuncOf(fn)
	if cfi == nil || cfi.Decl.Body == nil {
		return k
	}
	cc := m.X.Ctx(cfi)
	var found interface{}
	ast.Inspect(cfi.Decl.Body, func(n ast.Node) bool {
		rs, ok := n.(*ast.ReturnStmt)
		if !ok || len(rs.Results) != 1 {
			return true
		}
		var cand interface{}
		if rc, ok := stripConv(cc, rs.Results[0]).(*ast.CallExpr); ok {
			cand = rc
		} else if rid, ok := stripConv(cc, rs.Results[0]).(*ast.Ident); ok {
			if obj := cc.Info.ObjectOf(rid); obj != nil {
				cand = obj
			}
		}
		if cand != nil {
			if _, bound := st.e.rbind[cand]; bound && (found == nil || cand == prefer) {
				found = cand
			}
		}
		return true
	})
	if found != nil {
		return found
	}
	return k
}

// makeArg: make(T, n) or make(T, n, n) -> n
func makeArg(cc *FuncCtx, call *ast.CallExpr) ast.Expr {
	id, ok := call.Fun.(*ast.Ident)
	if !ok || id.Name != "make" || len(call.Args) < 2 {
		return nil
	}
	if _, isB := cc.Info.Uses[id].(*types.Builtin); !isB {
		return nil
	}
	if len(call.Args) == 3 && types.ExprString(call.Args[1]) != types.ExprString(call.Args[2]) {
		return nil
	}
	return call.Args[1]
}

// madeLen: the length expression n of the single `x = make(T, n)` assignment to x in the function.
func madeLen(cc *FuncCtx, x ast.Expr) ast.Expr {
	x = ast.Unparen(x)
	if id, ok := x.(*ast.Ident); ok {
		if obj := cc.Info.ObjectOf(id); obj != nil {
			if d := cc.singleDef(obj); d != nil {
				if dc, isCall := ast.Unparen(d).(*ast.CallExpr); isCall {
					return makeArg(cc, dc)
				}
			}
		}
		return nil
	}
	return MadeLenExpr(cc.Info, cc.FI.Decl.Body, x)
}

// MadeLenExpr: if x (an identifier or field selector) is assigned exactly once in body and that
// assignment is `x = make(T, n)`, the expression n; else nil.
func MadeLenExpr(info *types.Info, body *ast.BlockStmt, x ast.Expr) ast.Expr {
	cc := &FuncCtx{Info: info}
	want := types.ExprString(ast.Unparen(x))
	var found ast.Expr
	n := 0
	ast.Inspect(body, func(nd ast.Node) bool {
		as, ok := nd.(*ast.AssignStmt)
		if !ok || len(as.Lhs) != len(as.Rhs) {
			return true
		}
		for i := range as.Lhs {
			if types.ExprString(ast.Unparen(as.Lhs[i])) == want {
				n++
				if call, isCall := ast.Unparen(as.Rhs[i]).(*ast.CallExpr); isCall {
					found = makeArg(cc, call)
				} else {
					found = nil
				}
			}
		}
		return true
	})
	if n == 1 {
		return found
	}
	return nil
}

// ---------------------------------------------------------------------------------------------
// counts

// collection resolves the collection a size/enumeration method call speaks about, following
// trivial delegating methods (func (t *T) Keys() X { return t.table.Keys() }).
func (m *Matcher) collection(fr *frame, recvExpr ast.Expr, method *types.Func, depth int) (string, bool) {
	base, ok := m.X.canonF(fr, stripConv(fr.ctx, recvExpr), 0)
	if !ok {
		return "", false
	}
	for ; depth < 3 && method != nil; depth++ {
		fi := m.X.P.FuncOf(method)
		if fi == nil || fi.Decl.Body == nil || len(fi.Decl.Body.List) != 1 {
			break
		}
		ret, ok := fi.Decl.Body.List[0].(*ast.ReturnStmt)
		if !ok || len(ret.Results) != 1 {
			break
		}
		cc0 := m.X.Ctx(fi)
		if fsel, ok := ast.Unparen(ret.Results[0]).(*ast.SelectorExpr); ok {
			// func (t *T) ReadOnlyBits() []X { return t.M }
			if rid, ok := ast.Unparen(fsel.X).(*ast.Ident); ok && cc0.Info.ObjectOf(rid) == cc0.Recv && method.Name() != "Size" && method.Name() != "Len" {
				base += "." + fsel.Sel.Name // accessor of the backing collection (not the size field itself)
			}
			break
		}
		call, ok := ast.Unparen(ret.Results[0]).(*ast.CallExpr)
		if !ok || len(call.Args) != 0 {
			break
		}
		sel, ok := call.Fun.(*ast.SelectorExpr)
		if !ok {
			break
		}
		cc := m.X.Ctx(fi)
		inner, ok := ast.Unparen(sel.X).(*ast.SelectorExpr)
		if !ok {
			break
		}
		rid, ok := ast.Unparen(inner.X).(*ast.Ident)
		if !ok || cc.Info.ObjectOf(rid) != cc.Recv {
			break
		}
		base += "." + inner.Sel.Name
		method = calleeOf(cc.Info, call)
	}
	return base, true
}

// sizeFieldOwner: X.f where X's type has a Size/Len method whose body is `return recv.f`.
func (m *Matcher) sizeFieldOwner(fr *frame, sel *ast.SelectorExpr) (string, bool) {
	s, ok := fr.ctx.Info.Selections[sel]
	if !ok || s.Kind() != types.FieldVal {
		return "", false
	}
	t := s.Recv()
	if pt, ok := t.(*types.Pointer); ok {
		t = pt.Elem()
	}
	n, ok := t.(*types.Named)
	if !ok {
		return "", false
	}
	// a field kept equal to the length of a sibling field (p.Size = len(p.M) in the constructor)
	if base, ok := m.X.canonF(fr, stripConv(fr.ctx, sel.X), 0); ok {
		for _, fi := range m.X.P.Funcs {
			if fi.Pkg.Types != n.Obj().Pkg() || fi.Decl.Body == nil {
				continue
			}
			found := ""
			ast.Inspect(fi.Decl.Body, func(k ast.Node) bool {
				as, ok := k.(*ast.AssignStmt)
				if !ok || len(as.Lhs) != 1 || len(as.Rhs) != 1 {
					return true
				}
				ls, ok := as.Lhs[0].(*ast.SelectorExpr)
				if !ok || ls.Sel.Name != sel.Sel.Name {
					return true
				}
				if tv, ok := fi.Pkg.TypesInfo.Selections[ls]; !ok || tv.Obj() != s.Obj() {
					return true
				}
				call, ok := ast.Unparen(as.Rhs[0]).(*ast.CallExpr)
				if !ok || len(call.Args) != 1 {
					return true
				}
				if id, ok := call.Fun.(*ast.Ident); !ok || id.Name != "len" {
					return true
				}
				if rs, ok := ast.Unparen(call.Args[0]).(*ast.SelectorExpr); ok && types.ExprString(rs.X) == types.ExprString(ls.X) {
					found = rs.Sel.Name
				}
				return true
			})
			if found == "" {
				// the same relation established by a constructor literal: &T{Size: len(words), M: words}
				ast.Inspect(fi.Decl.Body, func(k ast.Node) bool {
					cl, ok := k.(*ast.CompositeLit)
					if !ok || found != "" {
						return true
					}
					if ct := namedOfType(fi.Pkg.TypesInfo.TypeOf(cl)); ct == nil || ct.Obj() != n.Obj() {
						return true
					}
					lenOf := ""
					for _, el := range cl.Elts {
						kv, ok := el.(*ast.KeyValueExpr)
						if !ok {
							continue
						}
						if kid, ok := kv.Key.(*ast.Ident); ok && kid.Name == sel.Sel.Name {
							if call, ok := ast.Unparen(kv.Value).(*ast.CallExpr); ok && len(call.Args) == 1 {
								if id, ok := call.Fun.(*ast.Ident); ok && id.Name == "len" {
									lenOf = types.ExprString(call.Args[0])
								}
							}
						}
					}
					if lenOf == "" {
						return true
					}
					for _, el := range cl.Elts {
						if kv, ok := el.(*ast.KeyValueExpr); ok {
							if kid, ok := kv.Key.(*ast.Ident); ok && kid.Name != sel.Sel.Name && types.ExprString(kv.Value) == lenOf {
								found = kid.Name
							}
						}
					}
					return true
				})
			}
			if found != "" {
				return base + "." + found, true
			}
		}
	}
	for _, name := range []string{"Size", "Len"} {
		for _, fi := range m.X.P.MethodsOf(n) {
			if fi.Obj.Name() != name || fi.Decl.Body == nil || len(fi.Decl.Body.List) != 1 {
				continue
			}
			ret, ok := fi.Decl.Body.List[0].(*ast.ReturnStmt)
			if !ok || len(ret.Results) != 1 {
				continue
			}
			cc := m.X.Ctx(fi)
			rs, ok := stripConv(cc, ret.Results[0]).(*ast.SelectorExpr)
			if !ok || rs.Sel.Name != sel.Sel.Name {
				continue
			}
			if rid, ok := ast.Unparen(rs.X).(*ast.Ident); ok && cc.Info.ObjectOf(rid) == cc.Recv {
				return m.X.canonF(fr, stripConv(fr.ctx, sel.X), 0)
			}
		}
	}
	return "", false
}

// sizeKey canonicalises "number of elements of collection X" expressions.
func (m *Matcher) sizeKey(fr *frame, e ast.Expr) string {
	if e == nil || fr == nil {
		return ""
	}
	e = stripConv(fr.ctx, e)
	for depth := 0; depth < 3; depth++ {
		if id, ok := e.(*ast.Ident); ok {
			obj := fr.ctx.Info.ObjectOf(id)
			if obj != nil && isLocalVar(obj) {
				if _, bound := fr.subst[obj]; bound {
					break
				}
				if d := fr.ctx.singleDef(obj); d != nil {
					e = stripConv(fr.ctx, d)
					continue
				}
			}
		}
		break
	}
	switch v := e.(type) {
	case *ast.CallExpr:
		if id, ok := v.Fun.(*ast.Ident); ok && id.Name == "len" && len(v.Args) == 1 {
			if s, ok := m.X.canonF(fr, stripConv(fr.ctx, v.Args[0]), 0); ok {
				return "size:" + s
			}
		}
		if sel, ok := v.Fun.(*ast.SelectorExpr); ok && (sel.Sel.Name == "Size" || sel.Sel.Name == "Len") && len(v.Args) == 0 {
			if s, ok := m.collection(fr, sel.X, calleeOf(fr.ctx.Info, v), 0); ok {
				return "size:" + s
			}
		}
	case *ast.SelectorExpr:
		if s, ok := m.sizeFieldOwner(fr, v); ok {
			return "size:" + s
		}
	}
	if tv, ok := fr.ctx.Info.Types[e]; ok && tv.Value != nil {
		return ""
	}
	if s, ok := m.X.canonF(fr, e, 0); ok {
		return "val:" + s
	}
	return ""
}

func (m *Matcher) loopKeyW(fr *frame, l *Loop) string {
	if l.AllOf != nil {
		if s, ok := m.X.canonF(fr, stripConv(fr.ctx, l.AllOf), 0); ok {
			return "size:" + s
		}
		return ""
	}
	switch {
	case l.Bound != nil:
		return m.sizeKey(fr, l.Bound)
	case l.Range != nil:
		// for _, v := range x[:n] (or x[0:n]) runs n times
		if se, ok := stripConv(fr.ctx, l.Range).(*ast.SliceExpr); ok && se.High != nil && !se.Slice3 {
			lowZero := se.Low == nil
			if !lowZero {
				if tv, ok := fr.ctx.Info.Types[se.Low]; ok && tv.Value != nil {
					if n, ok := constInt(tv.Value); ok && n == 0 {
						lowZero = true
					}
				}
			}
			if lowZero {
				return m.sizeKey(fr, se.High)
			}
		}
		rng := stripConv(fr.ctx, l.Range)
		// words := this.set.ReadOnlyBits(); for _, w := range words
		if id, ok := rng.(*ast.Ident); ok {
			if obj := fr.ctx.Info.ObjectOf(id); obj != nil && isLocalVar(obj) {
				if d := fr.ctx.singleDef(obj); d != nil {
					if dc, ok := stripConv(fr.ctx, d).(*ast.CallExpr); ok && len(dc.Args) == 0 {
						rng = dc
					}
				}
			}
		}
		if call, ok := rng.(*ast.CallExpr); ok && len(call.Args) == 0 {
			if sel, ok := call.Fun.(*ast.SelectorExpr); ok {
				if s, ok := m.collection(fr, sel.X, calleeOf(fr.ctx.Info, call), 0); ok {
					return "size:" + s
				}
			}
		}
		if s, ok := m.X.canonF(fr, stripConv(fr.ctx, l.Range), 0); ok {
			return "size:" + s
		}
	case l.Enum != nil:
		e := stripConv(fr.ctx, l.Enum)
		if id, ok := e.(*ast.Ident); ok {
			if obj := fr.ctx.Info.ObjectOf(id); obj != nil {
				if d := fr.ctx.singleDef(obj); d != nil {
					e = stripConv(fr.ctx, d)
				}
			}
		}
		if call, ok := e.(*ast.CallExpr); ok {
			if sel, ok := call.Fun.(*ast.SelectorExpr); ok {
				switch sel.Sel.Name {
				case "Keys", "Values", "Entries", "Elements":
					if s, ok := m.collection(fr, sel.X, calleeOf(fr.ctx.Info, call), 0); ok {
						return "size:" + s
					}
				}
			}
		}
	}
	return ""
}

func (m *Matcher) loopConst(fr *frame, l *Loop) (int64, bool) {
	if l.Bound != nil {
		if tv, ok := fr.ctx.Info.Types[l.Bound]; ok && tv.Value != nil {
			return constInt(tv.Value)
		}
		if s, ok := fr.subst[fr.ctx.Info.ObjectOf(rootIdentOrNil(stripConv(fr.ctx, l.Bound)))]; ok {
			var n int64
			if _, err := fmt.Sscanf(s, "%d", &n); err == nil {
				return n, true
			}
		}
	}
	if l.Range != nil {
		if t, ok := fr.ctx.Info.Types[l.Range]; ok {
			if at, ok := t.Type.Underlying().(*types.Array); ok {
				return at.Len(), true
			}
			if pt, ok := t.Type.Underlying().(*types.Pointer); ok {
				if at, ok := pt.Elem().Underlying().(*types.Array); ok {
					return at.Len(), true
				}
			}
		}
		// a list of fixed length: a slice literal, or a call of a function whose body is one
		// `return []T{...}` (fields in wire order), possibly through a parameter bound to such a call
		if n, ok := m.fixedListLen(fr, l.Range, 0); ok {
			return n, true
		}
	}
	return 0, false
}

func (m *Matcher) fixedListLen(fr *frame, e ast.Expr, depth int) (int64, bool) {
	if depth > 3 || fr == nil {
		return 0, false
	}
	e = stripConv(fr.ctx, e)
	switch v := ast.Unparen(e).(type) {
	case *ast.CompositeLit:
		if _, isSlice := fr.ctx.Info.TypeOf(v).Underlying().(*types.Slice); isSlice {
			for _, el := range v.Elts {
				if _, kv := el.(*ast.KeyValueExpr); kv {
					return 0, false
				}
			}
			return int64(len(v.Elts)), true
		}
	case *ast.CallExpr:
		fn := calleeOf(fr.ctx.Info, v)
		if fn == nil {
			return 0, false
		}
		fi := m.X.P.FuncOf(fn)
		if fi == nil || fi.Decl.Body == nil || len(fi.Decl.Body.List) != 1 {
			return 0, false
		}
		if rs, ok := fi.Decl.Body.List[0].(*ast.ReturnStmt); ok && len(rs.Results) == 1 {
			cfr := &frame{ctx: m.X.Ctx(fi)}
			return m.fixedListLen(cfr, rs.Results[0], depth+1)
		}
	case *ast.Ident:
		obj := fr.ctx.Info.ObjectOf(v)
		if a, ok := fr.args[obj]; ok && fr.parent != nil {
			return m.fixedListLen(fr.parent, a, depth+1)
		}
		if obj != nil && isLocalVar(obj) {
			if d := fr.ctx.singleDef(obj); d != nil {
				return m.fixedListLen(fr, d, depth+1)
			}
		}
	}
	return 0, false
}

func rootIdentOrNil(e ast.Expr) *ast.Ident {
	id, _ := e.(*ast.Ident)
	if id == nil {
		return &ast.Ident{}
	}
	return id
}

func (m *Matcher) checkCountLink(st state, wl, rl *Loop, wfr, rfr *frame) {
	if os.Getenv("WIRE_DEBUG") == "count" {
		wn, wok := m.loopConst(wfr, wl)
		rn, rok := m.loopConst(rfr, rl)
		fmt.Fprintf(os.Stderr, "countlink w=%v/%v r=%v/%v wrange=%v wparent=%v wargs=%d wk=%s rk=%s\n", wn, wok, rn, rok, wl.Range != nil, wfr.parent != nil, len(wfr.args), m.loopKeyW(wfr, wl), m.loopKeyW(rfr, rl))
	}
	if wn, ok := m.loopConst(wfr, wl); ok {
		if rn, ok2 := m.loopConst(rfr, rl); ok2 {
			if wn != rn {
				m.fail("mismatch", wl, rl, wfr, rfr, "writer repeats %d times, reader %d times", wn, rn)
			}
			return
		}
	}
	m.clampedCount(wfr, wl, rl, rfr)
	m.readerClampedCount(wl, rl, wfr, rfr)
	m.writerSelection(wl, rl, wfr, rfr)
	wk := m.loopKeyW(wfr, wl)
	var rkey interface{}
	var prefer interface{}
	if cv, ok := st.e.wcount[wk]; ok {
		prefer = cv
	}
	m.loopPos = rl.Pos
	switch {
	case rl.Bound != nil:
		rkey = m.readerKeySt(st, rfr, rl.Bound, prefer)
	case rl.Range != nil:
		rkey = m.readerKeySt(st, rfr, rl.Range, prefer)
	}
	m.loopPos = token.NoPos
	if wk == "" {
		m.fail("countlink", wl, rl, wfr, rfr, "cannot name the repetition count of the writer's loop")
		return
	}
	// a helper pair walking the same (non-stream) parameter on both sides: the count is the caller's,
	// out of band (writeFields(out, list) ~ readFields(in, list))
	if wfr.parent == nil && rfr.parent == nil && wl.Range != nil && rl.Range != nil {
		pidx := func(fr *frame, e ast.Expr) int {
			id, ok := ast.Unparen(stripConv(fr.ctx, e)).(*ast.Ident)
			if !ok {
				return -1
			}
			obj := fr.ctx.Info.ObjectOf(id)
			for i, po := range fr.ctx.Params {
				if po == obj && obj != nil && !m.X.IsStream(obj.Type()) {
					return i
				}
			}
			return -1
		}
		if wi := pidx(wfr, wl.Range); wi >= 0 && wi == pidx(rfr, rl.Range) {
			m.Res.Notes = append(m.Res.Notes, "both helpers walk the list they are given as parameter "+fmt.Sprint(wi)+": the count is the caller's (out of band)")
			return
		}
	}
	carried, ok := st.e.wcount[wk]
	if !ok {
		// count carried by a field of the object that the writer sets from the same size
		// (this.RecordCount = len(items)) and the reader loops over
		if fl, ok := m.fieldCount[wk]; ok {
			var rb ast.Expr = rl.Bound
			if rb != nil {
				if s, ok := m.X.canonF(rfr, stripConv(rfr.ctx, rb), 0); ok && s == fl {
					return
				}
			}
		}
		m.fail("countlink", wl, rl, wfr, rfr, "the writer's repetition count (%s) is not written to the stream before the loop, so the reader cannot know it", wk)
		return
	}
	if rkey == nil {
		// reader bound may be a constant param substitution etc.
		m.fail("countlink", wl, rl, wfr, rfr, "cannot tie the reader's loop bound to a value read from the stream")
		return
	}
	if carried != rkey {
		if os.Getenv("WIRE_DEBUG") != "" {
			fmt.Fprintf(os.Stderr, "countlink carried=%T %v rkey=%T %v bound=%s\n", carried, carried, rkey, rkey, types.ExprString(rl.Bound))
		}
		m.fail("countlink", wl, rl, wfr, rfr, "reader loops over a different count than the one the writer emitted for this repetition (%s)", wk)
	}
}

func valIv(e *env, av absval) interval {
	if av.wlabel != "" && !av.decTag {
		if iv, ok := e.iv[av.wlabel]; ok {
			return intersect(av.iv, iv)
		}
	}
	return av.iv
}

func isZero(iv interval) bool { return iv.lo == 0 && iv.hi == 0 }

func (m *Matcher) writerLoopZero(st state, wl *Loop, wfr *frame) bool {
	wk := m.loopKeyW(wfr, wl)
	if wk == "" {
		return false
	}
	if carried, ok := st.e.wcount[wk]; ok {
		if av, ok := st.e.rbind[carried]; ok && isZero(valIv(st.e, av)) {
			return true
		}
	}
	// the writer itself established that the collection is empty / nil
	if iv, ok := st.e.iv[wk]; ok && iv.lo == 0 && iv.hi == 0 {
		return true
	}
	return false
}

func (m *Matcher) readerLoopZero(st state, rl *Loop, rfr *frame) bool {
	var rkey interface{}
	if rl.Bound != nil {
		rkey = m.readerKeySt(st, rfr, rl.Bound, nil)
	} else if rl.Range != nil {
		// for i := range v with v := make(T, n): n iterations
		rkey = m.readerKeySt(st, rfr, rl.Range, nil)
	}
	if rkey == nil {
		return false
	}
	if av, ok := st.e.rbind[rkey]; ok && isZero(valIv(st.e, av)) {
		return true
	}
	return false
}

// ---------------------------------------------------------------------------------------------
// conditions

type tri int

const (
	triFalse tri = iota
	triTrue
	triUnknown
)

// split describes how to refine the environment when a condition is undetermined.
type split struct {
	kind  string // "cmp" (term key vs constant), "atom" (opaque), "bind" (reader bound value vs constant)
	key   string
	bkey  interface{}
	op    token.Token
	c     int64
	store bool
}

func (m *Matcher) branch(st state, n *If, c *cont, writer bool) {
	fr := c.fr
	after := c.advance()
	take := func(e *env, then bool) {
		ns := n.Else
		if then {
			ns = n.Then
		}
		next := mkCont(ns, 0, after, fr, false)
		s2 := state{w: st.w, r: st.r, e: e}
		if writer {
			s2.w = next
		} else {
			s2.r = next
		}
		m.run(s2)
	}
	// decide the condition, splitting the world on undetermined atoms; refinements on terms that no
	// other condition mentions are forgotten after the branch is taken (keeps joint paths mergeable).
	type pending struct {
		e     *env
		drops []*split
	}
	work := []pending{{e: st.e}}
	for guard := 0; len(work) > 0 && guard < 64; guard++ {
		p := work[len(work)-1]
		work = work[:len(work)-1]
		t, sp := m.evalCondNode(p.e, fr, n, writer)
		if t == triUnknown {
			if sp == nil {
				m.fail("undecided", n, n, fr, fr, "condition cannot be abstracted")
				return
			}
			for _, truth := range []bool{true, false} {
				e2 := p.e.clone()
				m.assume(e2, sp, truth)
				work = append(work, pending{e: e2, drops: append(append([]*split{}, p.drops...), sp)})
			}
			continue
		}
		e := p.e
		if writer {
			// also when an earlier test of the same condition already fixed the outcome (a hoisted flag
			// tested twice: once for the version marker, once for the field)
			m.checkOmission(p.e, fr, n, t == triTrue)
		}
		if len(p.drops) > 0 {
			e = e.clone()
			for _, sp := range p.drops {
				m.forget(e, st.e, sp)
			}
		}
		take(e, t == triTrue)
	}
}

// checkOmission: a data-dependent writer branch whose condition mentions field F and whose taken arm
// omits F while the other arm emits it must imply that F has its zero value (the reader leaves F at
// its default on that path): otherwise a non-default F is silently dropped.
func (m *Matcher) checkOmission(e *env, fr *frame, n *If, then bool) {
	taken, other := n.Else, n.Then
	if then {
		taken, other = n.Then, n.Else
	}
	if hasOpaqueEmit(taken) {
		return // the taken arm emits bytes produced elsewhere (labels unknown): not decided here
	}
	in := map[string]bool{}
	collectLabels(m, fr, taken, in)
	out := map[string]bool{}
	collectLabels(m, fr, other, out)
	var conds []ast.Expr
	if n.Cond != nil {
		conds = append(conds, n.Cond)
	} else if n.Case != nil {
		if n.Case.Tag != nil {
			conds = append(conds, n.Case.Tag)
		}
		conds = append(conds, n.Case.Vals...)
	}
	mentioned := map[string]bool{}
	var mention func(c ast.Expr, depth int)
	mention = func(c ast.Expr, depth int) {
		ast.Inspect(c, func(x ast.Node) bool {
			switch v := x.(type) {
			case *ast.SelectorExpr:
				if s, ok := m.X.canonF(fr, v, 0); ok && isFieldLabel(s) {
					mentioned[s] = true
				}
			case *ast.Ident:
				// a hoisted test (hasService := this.Service > 0) mentions what it was defined from
				if obj := fr.ctx.Info.ObjectOf(v); obj != nil && isLocalVar(obj) && depth < 3 {
					if b, ok := obj.Type().Underlying().(*types.Basic); ok && b.Info()&types.IsBoolean != 0 {
						if d := fr.ctx.singleDef(obj); d != nil {
							if _, isCall := ast.Unparen(d).(*ast.CallExpr); !isCall {
								mention(d, depth+1)
							}
						}
					}
				}
			}
			return true
		})
	}
	for _, c := range conds {
		mention(c, 0)
	}
	// a condition that tests several fields of the omitted section for emptiness claims "the section
	// is empty" by enumeration: then the enumeration has to cover every field of the section (one
	// representative field, as in `if this.McallerPcode != 0`, is a presence condition by design)
	nSec := 0
	for f := range mentioned {
		if labelSetHas(out, f) && !labelSetHas(in, f) {
			nSec++
		}
	}
	if nSec >= 2 || (m.X.StrictOmission && nSec >= 1) {
		for f := range out {
			if isFieldLabel(f) && !labelSetHas(in, f) {
				mentioned[f] = true
			}
		}
	}
	for f := range mentioned {
		if !labelSetHas(out, f) || labelSetHas(in, f) {
			continue
		}
		if m.impliedZero(e, f) {
			continue
		}
		if os.Getenv("WIRE_DEBUG") != "" {
			fmt.Fprintf(os.Stderr, "omission %s then=%v iv=%v atoms=%v\n", f, then, e.iv, e.atoms)
		}
		m.fail("omission", n, nil, fr, nil, "field %s is emitted only on one side of this branch, and on the side that omits it the branch condition does not imply it is zero/empty: a non-default value is silently not written", f)
	}
}

func hasOpaqueEmit(ns []Node) bool {
	for _, n := range ns {
		switch v := n.(type) {
		case *Call:
			if v.StreamArg == -3 {
				return true
			}
		case *Nested:
			if hasOpaqueEmit(v.Body) {
				return true
			}
		case *If:
			if hasOpaqueEmit(v.Then) || hasOpaqueEmit(v.Else) {
				return true
			}
		case *Loop:
			if hasOpaqueEmit(v.Body) {
				return true
			}
		case *Prim:
			if v.Kind == "Bytes" && v.Label == "" {
				return true
			}
		}
	}
	return false
}

func labelSetHas(set map[string]bool, f string) bool {
	for l := range set {
		if l == f || strings.HasPrefix(l, f+".") || l == "size:"+f || strings.HasPrefix(l, "size:"+f+".") {
			return true
		}
	}
	return false
}

func collectLabels(m *Matcher, fr *frame, ns []Node, into map[string]bool) {
	for _, n := range ns {
		switch v := n.(type) {
		case *Prim:
			if l := m.wlabelOf(fr, v); l != "" {
				into[l] = true
			}
		case *Call:
			if v.Label != "" {
				into[m.relabel(fr, v.Label)] = true
			}
		case *If:
			collectLabels(m, fr, v.Then, into)
			collectLabels(m, fr, v.Else, into)
		case *Loop:
			collectLabels(m, fr, v.Body, into)
			if k := m.loopKeyW(fr, v); k != "" {
				into[k] = true
			}
		case *Nested:
			collectLabels(m, fr, v.Body, into)
		}
	}
}

func (m *Matcher) impliedZero(e *env, f string) bool {
	for _, k := range []string{f, "nil?" + f, "size:" + f} {
		if iv, ok := e.iv[k]; ok && isZero(iv) {
			return true
		}
	}
	for k, iv := range e.iv {
		if isZero(iv) && strings.HasPrefix(k, "size:"+f+".") {
			return true // size of the backing collection of f (delegating Size())
		}
	}
	// (A|B)==0 implies every operand is zero
	for k, iv := range e.iv {
		if isZero(iv) && strings.HasPrefix(k, "(") && strings.Contains(k, "|") {
			for _, part := range strings.Split(strings.Trim(k, "()"), "|") {
				if strings.Trim(part, "()") == f {
					return true
				}
			}
		}
	}
	return false
}

// forget undoes a refinement when nothing else can observe it.
func (m *Matcher) forget(e, before *env, sp *split) {
	switch sp.kind {
	case "atom":
		if m.atomUse[sp.key] <= 1 {
			delete(e.atoms, sp.key)
		}
	case "cmp":
		if strings.HasPrefix(sp.key, "size:") {
			return // counts drive loop skipping
		}
		if m.termUses(sp.key) <= 1 && !m.written[sp.key] && !m.written[strings.TrimPrefix(sp.key, "nil?")] {
			if iv, ok := before.iv[sp.key]; ok {
				e.iv[sp.key] = iv
			} else {
				delete(e.iv, sp.key)
			}
			if ex, ok := before.excl[sp.key]; ok {
				e.excl[sp.key] = ex
			} else {
				delete(e.excl, sp.key)
			}
		}
	}
}

func (m *Matcher) assume(e *env, sp *split, truth bool) {
	switch sp.kind {
	case "atom":
		e.atoms[sp.key] = truth
	case "cmp":
		iv, ok := e.iv[sp.key]
		if !ok {
			iv = interval{math.MinInt64, math.MaxInt64}
			if strings.HasPrefix(sp.key, "size:") || strings.HasPrefix(sp.key, "nil?") {
				iv.lo = 0
			}
		}
		niv, nex := refine(iv, e.excl[sp.key], sp.op, sp.c, truth)
		e.iv[sp.key] = niv
		e.excl[sp.key] = nex
	case "bind":
		av := e.rbind[sp.bkey]
		av.iv, av.excl = refine(av.iv, av.excl, sp.op, sp.c, truth)
		if av.decTag && !av.decDone && av.iv.lo == 0 && av.iv.hi == 0 {
			av.decDone = true // tag 0: the decimal is the value 0 and has no body
			e.pendingDec--
		}
		e.rbind[sp.bkey] = av
	}
}

func negate(op token.Token) token.Token {
	switch op {
	case token.LSS:
		return token.GEQ
	case token.LEQ:
		return token.GTR
	case token.GTR:
		return token.LEQ
	case token.GEQ:
		return token.LSS
	case token.EQL:
		return token.NEQ
	case token.NEQ:
		return token.EQL
	}
	return op
}

func refine(iv interval, excl []int64, op token.Token, c int64, truth bool) (interval, []int64) {
	if !truth {
		op = negate(op)
	}
	switch op {
	case token.LSS:
		if c-1 < iv.hi {
			iv.hi = c - 1
		}
	case token.LEQ:
		if c < iv.hi {
			iv.hi = c
		}
	case token.GTR:
		if c+1 > iv.lo {
			iv.lo = c + 1
		}
	case token.GEQ:
		if c > iv.lo {
			iv.lo = c
		}
	case token.EQL:
		iv = interval{c, c}
	case token.NEQ:
		if iv.lo == c {
			iv.lo++
		} else if iv.hi == c {
			iv.hi--
		} else {
			excl = append(append([]int64{}, excl...), c)
		}
	}
	return iv, excl
}

func cmpInterval(iv interval, excl []int64, op token.Token, c int64) tri {
	if iv.lo > iv.hi {
		return triFalse // empty world; unreachable
	}
	switch op {
	case token.LSS:
		if iv.hi < c {
			return triTrue
		}
		if iv.lo >= c {
			return triFalse
		}
	case token.LEQ:
		if iv.hi <= c {
			return triTrue
		}
		if iv.lo > c {
			return triFalse
		}
	case token.GTR:
		if iv.lo > c {
			return triTrue
		}
		if iv.hi <= c {
			return triFalse
		}
	case token.GEQ:
		if iv.lo >= c {
			return triTrue
		}
		if iv.hi < c {
			return triFalse
		}
	case token.EQL:
		if iv.lo == c && iv.hi == c {
			return triTrue
		}
		if c < iv.lo || c > iv.hi {
			return triFalse
		}
		for _, x := range excl {
			if x == c {
				return triFalse
			}
		}
	case token.NEQ:
		t := cmpInterval(iv, excl, token.EQL, c)
		if t == triTrue {
			return triFalse
		}
		if t == triFalse {
			return triTrue
		}
	}
	return triUnknown
}

func flip(op token.Token) token.Token {
	switch op {
	case token.LSS:
		return token.GTR
	case token.LEQ:
		return token.GEQ
	case token.GTR:
		return token.LSS
	case token.GEQ:
		return token.LEQ
	}
	return op
}

func (m *Matcher) evalCondNode(e *env, fr *frame, n *If, writer bool) (tri, *split) {
	if n.Case != nil {
		// tag == v1 || tag == v2 ...
		res := triFalse
		var sp *split
		for _, v := range n.Case.Vals {
			var t tri
			var s *split
			if n.Case.Tag == nil {
				t, s = m.evalCond(e, fr, v, writer)
			} else {
				t, s = m.evalCmp(e, fr, n.Case.Tag, token.EQL, v, writer, nil)
			}
			if t == triTrue {
				return triTrue, nil
			}
			if t == triUnknown {
				res = triUnknown
				if sp == nil {
					sp = s
				}
			}
		}
		return res, sp
	}
	return m.evalCond(e, fr, n.Cond, writer)
}

func (m *Matcher) evalCond(e *env, fr *frame, cond ast.Expr, writer bool) (tri, *split) {
	cond = ast.Unparen(cond)
	if tv, ok := fr.ctx.Info.Types[cond]; ok && tv.Value != nil && tv.Value.Kind() == constant.Bool {
		if constant.BoolVal(tv.Value) {
			return triTrue, nil
		}
		return triFalse, nil
	}
	switch v := cond.(type) {
	case *ast.BinaryExpr:
		switch v.Op {
		case token.LAND:
			a, sa := m.evalCond(e, fr, v.X, writer)
			if a == triFalse {
				return triFalse, nil
			}
			if a == triUnknown {
				return triUnknown, sa
			}
			return m.evalCond(e, fr, v.Y, writer)
		case token.LOR:
			a, sa := m.evalCond(e, fr, v.X, writer)
			if a == triTrue {
				return triTrue, nil
			}
			if a == triUnknown {
				return triUnknown, sa
			}
			return m.evalCond(e, fr, v.Y, writer)
		case token.LSS, token.LEQ, token.GTR, token.GEQ, token.EQL, token.NEQ:
			return m.evalCmp(e, fr, v.X, v.Op, v.Y, writer, cond)
		}
	case *ast.UnaryExpr:
		if v.Op == token.NOT {
			t, s := m.evalCond(e, fr, v.X, writer)
			switch t {
			case triTrue:
				return triFalse, nil
			case triFalse:
				return triTrue, nil
			}
			return triUnknown, s
		}
	case *ast.CallExpr:
		// a bound boolean read used directly: if din.ReadBool() {...}
		if av, ok := e.rbind[v]; ok {
			return m.cmpAbs(av, v, token.NEQ, 0)
		}
	case *ast.Ident:
		if obj := fr.ctx.Info.ObjectOf(v); obj != nil {
			if av, ok := e.rbind[obj]; ok {
				return m.cmpAbs(av, obj, token.NEQ, 0)
			}
			if x := m.commaOkOperand(fr, obj); x != nil {
				// asserting an interface value to an interface it statically implements succeeds iff non-nil
				return m.evalCmp(e, fr, x, token.NEQ, &ast.Ident{Name: "nil"}, writer, nil)
			}
			// a boolean local holding a hoisted test (extended := marker > 8) stands for that test
			if isLocalVar(obj) {
				if b, ok := obj.Type().Underlying().(*types.Basic); ok && b.Info()&types.IsBoolean != 0 {
					if d := fr.ctx.singleDef(obj); d != nil {
						if _, isCall := ast.Unparen(d).(*ast.CallExpr); !isCall {
							return m.evalCond(e, fr, d, writer)
						}
					}
				}
			}
		}
	}
	return m.evalAtom(e, fr, cond, writer)
}

// commaOkOperand: obj is the ok of `v, ok := x.(T)` where x's static type already implements the
// interface T; returns x.
func (m *Matcher) commaOkOperand(fr *frame, obj types.Object) ast.Expr {
	var res ast.Expr
	if fr.ctx.FI.Decl.Body == nil {
		return nil
	}
	ast.Inspect(fr.ctx.FI.Decl.Body, func(n ast.Node) bool {
		as, ok := n.(*ast.AssignStmt)
		if !ok || len(as.Lhs) != 2 || len(as.Rhs) != 1 {
			return true
		}
		id, ok := as.Lhs[1].(*ast.Ident)
		if !ok || fr.ctx.Info.ObjectOf(id) != obj {
			return true
		}
		ta, ok := ast.Unparen(as.Rhs[0]).(*ast.TypeAssertExpr)
		if !ok || ta.Type == nil {
			return true
		}
		tt := fr.ctx.Info.Types[ta.Type].Type
		xt := fr.ctx.Info.Types[ta.X].Type
		if tt == nil || xt == nil {
			return true
		}
		if it, ok := tt.Underlying().(*types.Interface); ok && types.Implements(xt, it) {
			res = ta.X
		}
		return true
	})
	return res
}

func (m *Matcher) cmpAbs(av absval, bkey interface{}, op token.Token, c int64) (tri, *split) {
	t := cmpInterval(av.iv, av.excl, op, c)
	if t != triUnknown {
		return t, nil
	}
	return triUnknown, &split{kind: "bind", bkey: bkey, op: op, c: c}
}

func (m *Matcher) evalAtom(e *env, fr *frame, cond ast.Expr, writer bool) (tri, *split) {
	s := m.canonE(e, fr, cond, writer)
	if v, ok := e.atoms[s]; ok {
		if v {
			return triTrue, nil
		}
		return triFalse, nil
	}
	return triUnknown, &split{kind: "atom", key: s}
}

// canonE renders an expression canonically in the current world: on the reader side a local bound
// to a stream value is rendered as the writer's label of that value (so reader conditions meet the
// writer's assumptions), and reader fields assigned from the stream alias the writer's field.
func (m *Matcher) canonE(e *env, fr *frame, x ast.Expr, writer bool) string {
	if !writer {
		fr.hook = func(obj types.Object) (string, bool) {
			if av, ok := e.rbind[obj]; ok {
				if av.wlabel != "" {
					return av.wlabel, true
				}
				return fmt.Sprintf("rv@%d", obj.Pos()), true
			}
			return "", false
		}
		defer func() { fr.hook = nil }()
	}
	s, ok := m.X.canonF(fr, x, 0)
	if !ok {
		s = fmt.Sprintf("opaque@%d", x.Pos())
	}
	if !writer {
		for rl, wl := range e.rfield {
			if strings.Contains(s, rl) && !strings.HasPrefix(wl, "rf:") {
				s = strings.ReplaceAll(s, rl, wl)
			}
		}
	}
	return s
}

// term resolution for comparisons
type term struct {
	isConst bool
	c       int64
	bkey    interface{} // reader-bound value
	key     string      // canonical term key
}

func (m *Matcher) resolveTerm(e *env, fr *frame, x ast.Expr, writer bool) (term, bool) {
	if tv, ok := fr.ctx.Info.Types[x]; ok && tv.Value != nil {
		if n, ok := constInt(tv.Value); ok {
			return term{isConst: true, c: n}, true
		}
		if tv.Value.Kind() == constant.String {
			return term{key: "str:" + tv.Value.ExactString()}, true
		}
		return term{}, false
	}
	if id, ok := ast.Unparen(x).(*ast.Ident); ok && id.Name == "nil" {
		return term{key: "nil"}, true
	}
	x = stripConv(fr.ctx, x)
	if tv, ok := fr.ctx.Info.Types[x]; ok && tv.Value != nil {
		if n, ok := constInt(tv.Value); ok {
			return term{isConst: true, c: n}, true
		}
	}
	switch v := x.(type) {
	case *ast.CallExpr:
		if sel, ok := v.Fun.(*ast.SelectorExpr); ok && sel.Sel.Name == "Available" && !writer {
			if tv, ok := fr.ctx.Info.Types[sel.X]; ok && m.X.IsIn(tv.Type) {
				// bytes left in the (sub)stream: none iff the writer has nothing more to emit into it
				m.Res.Tails++
				switch wn := m.curW.(type) {
				case nil:
					return term{isConst: true, c: 0}, true
				case *marker:
					if wn.kind == "endnested" {
						return term{isConst: true, c: 0}, true
					}
				}
				return term{isConst: true, c: 1 << 20}, true
			}
		}
		if av, ok := e.rbind[v]; ok {
			if av.wlabel != "" && !av.decTag {
				return term{key: av.wlabel}, true
			}
			return term{bkey: v}, true
		}
	case *ast.Ident:
		obj := fr.ctx.Info.ObjectOf(v)
		if obj != nil {
			if av, ok := e.rbind[obj]; ok {
				if av.wlabel != "" && !av.decTag {
					return term{key: av.wlabel}, true
				}
				return term{bkey: obj}, true
			}
			// a parameter of an inlined reader helper: what the caller passed (a value it read)
			if a, ok := fr.args[obj]; ok && fr.parent != nil && !writer {
				if t, ok := m.resolveTerm(e, fr.parent, a, writer); ok && (t.bkey != nil || t.isConst) {
					return t, true
				}
			}
			if s, ok := fr.subst[obj]; ok {
				var n int64
				if _, err := fmt.Sscanf(s, "%d", &n); err == nil && fmt.Sprint(n) == s {
					return term{isConst: true, c: n}, true
				}
				return term{key: s}, true
			}
			if isLocalVar(obj) {
				if d := fr.ctx.singleDef(obj); d != nil {
					return m.resolveTerm(e, fr, d, writer)
				}
			}
		}
	}
	if k := m.sizeKey(fr, x); strings.HasPrefix(k, "size:") {
		return term{key: k}, true
	}
	if s, ok := m.X.canonF(fr, x, 0); ok {
		if !writer {
			if alias, ok := e.rfield[s]; ok {
				s = alias
			}
		}
		return term{key: s}, true
	}
	return term{}, false
}

func (m *Matcher) evalCmp(e *env, fr *frame, l ast.Expr, op token.Token, r ast.Expr, writer bool, whole ast.Expr) (tri, *split) {
	lt, lok := m.resolveTerm(e, fr, l, writer)
	rt, rok := m.resolveTerm(e, fr, r, writer)
	if lok && rok {
		if lt.isConst && rt.isConst {
			return cmpInterval(interval{lt.c, lt.c}, nil, op, rt.c), nil
		}
		if rt.isConst && !lt.isConst {
			return m.cmpTerm(e, fr, lt, op, rt.c)
		}
		if lt.isConst && !rt.isConst {
			return m.cmpTerm(e, fr, rt, flip(op), lt.c)
		}
		// nil / "" comparisons on collections/strings: model as emptiness of the term
		if rt.key == "nil" || rt.key == `str:""` {
			k := lt.key
			if lt.bkey != nil {
				return m.cmpAbs(e.rbind[lt.bkey], lt.bkey, op, 0)
			}
			if rt.key == `str:""` {
				// a string is "" exactly when it has no bytes
				return m.cmpKey(e, "size:"+strings.TrimPrefix(k, "size:"), op, 0, "")
			}
			return m.cmpKey(e, "nil?"+k, op, 0, "size:"+k)
		}
	}
	if whole == nil {
		// switch-case comparison without a whole expression
		ls := m.canonE(e, fr, l, writer)
		rs := m.canonE(e, fr, r, writer)
		key := "(" + ls + "==" + rs + ")"
		if v, ok := e.atoms[key]; ok {
			if v {
				return triTrue, nil
			}
			return triFalse, nil
		}
		return triUnknown, &split{kind: "atom", key: key}
	}
	return m.evalAtom(e, fr, whole, writer)
}

func (m *Matcher) cmpTerm(e *env, fr *frame, t term, op token.Token, c int64) (tri, *split) {
	if t.bkey != nil {
		return m.cmpAbs(e.rbind[t.bkey], t.bkey, op, c)
	}
	return m.cmpKey(e, t.key, op, c, "")
}

// cmpKey compares a keyed term with a constant. alsoKey: a size key refined together (nil => size 0).
func (m *Matcher) cmpKey(e *env, key string, op token.Token, c int64, alsoKey string) (tri, *split) {
	iv, ok := e.iv[key]
	if !ok {
		iv = interval{math.MinInt64, math.MaxInt64}
		if strings.HasPrefix(key, "size:") || strings.HasPrefix(key, "nil?") {
			iv = interval{0, math.MaxInt64}
		}
	}
	t := cmpInterval(iv, e.excl[key], op, c)
	if t != triUnknown {
		return t, nil
	}
	return triUnknown, &split{kind: "cmp", key: key, op: op, c: c}
}

// clampedCount: the writer's loop bound is a local that started as the size of a collection and is
// overwritten with a constant on some path (if n > 127 { n = 127 }): writer and reader still agree
// on the count, but the elements beyond it are never written — they are lost in transit.
func (m *Matcher) clampedCount(wfr *frame, wl, rl *Loop, rfr *frame) {
	if wfr.ctx.FI == nil || wfr.ctx.FI.Decl.Body == nil {
		return
	}
	m.cutCollection(wfr, wl, rl, rfr)
	if wl.Bound == nil {
		return
	}
	id, ok := ast.Unparen(stripConv(wfr.ctx, wl.Bound)).(*ast.Ident)
	if !ok {
		return
	}
	info := wfr.ctx.Info
	obj := info.ObjectOf(id)
	if obj == nil || !isLocalVar(obj) {
		return
	}
	sized, clamp := false, ""
	ast.Inspect(wfr.ctx.FI.Decl.Body, func(n ast.Node) bool {
		as, ok := n.(*ast.AssignStmt)
		if !ok || len(as.Lhs) != len(as.Rhs) {
			return true
		}
		for i, l := range as.Lhs {
			lid, ok := l.(*ast.Ident)
			if !ok || info.ObjectOf(lid) != obj {
				continue
			}
			if tv, ok := info.Types[as.Rhs[i]]; ok && tv.Value != nil {
				if as.Tok == token.ASSIGN {
					clamp = types.ExprString(as.Rhs[i])
				}
				continue
			}
			if call, ok := ast.Unparen(stripConv(wfr.ctx, as.Rhs[i])).(*ast.CallExpr); ok {
				name := ""
				switch f := call.Fun.(type) {
				case *ast.Ident:
					name = f.Name
				case *ast.SelectorExpr:
					name = f.Sel.Name
				}
				if name == "len" || name == "Size" || name == "Len" || name == "Count" {
					sized = true
				}
				// n := limit(len(x)) with limit a function of the module that answers a constant on some
				// path and its argument on another: the count is cut to that constant
				if k := m.cappingHelper(wfr, call); k != "" && len(call.Args) == 1 {
					if ic, ok := ast.Unparen(stripConv(wfr.ctx, call.Args[0])).(*ast.CallExpr); ok {
						if f, ok := ic.Fun.(*ast.Ident); ok && f.Name == "len" {
							sized, clamp = true, k+" (by "+name+")"
						}
					}
				}
			}
		}
		return true
	})
	if sized && clamp != "" {
		m.fail("omission", wl, rl, wfr, rfr, "the writer's repetition count %s starts as the size of the collection and is overwritten with %s on some path: the elements beyond it are never written", id.Name, clamp)
	}
}

// writerSelection: the writer's repetition runs over a local that a function of the module built from
// a container of the object by leaving elements out on a condition (a loop over the field with a
// `continue`, or an append under an if): the elements left out are never written, so what is decoded
// is not what was put in.
func (m *Matcher) writerSelection(wl, rl *Loop, wfr, rfr *frame) {
	var src ast.Expr
	switch {
	case wl.Range != nil:
		src = wl.Range
	case wl.Bound != nil:
		src = wl.Bound
	}
	if src == nil {
		return
	}
	info := wfr.ctx.Info
	// the local the loop runs over (directly, or through len(local))
	var loc types.Object
	ast.Inspect(src, func(n ast.Node) bool {
		if id, ok := n.(*ast.Ident); ok && loc == nil {
			if o := info.ObjectOf(id); o != nil && isLocalVar(o) {
				if _, isSl := o.Type().Underlying().(*types.Slice); isSl {
					loc = o
				}
			}
		}
		return true
	})
	if loc == nil {
		return
	}
	d := wfr.ctx.singleDef(loc)
	if d == nil {
		return
	}
	call, ok := stripConv(wfr.ctx, d).(*ast.CallExpr)
	if !ok {
		return
	}
	fn := calleeOf(info, call)
	cfi := m.X.P.FuncOf(fn)
	if cfi == nil || cfi.Decl.Body == nil {
		return
	}
	cinfo := cfi.Pkg.TypesInfo
	selects, field := false, ""
	ast.Inspect(cfi.Decl.Body, func(n ast.Node) bool {
		rs, ok := n.(*ast.RangeStmt)
		if !ok {
			return true
		}
		sel, ok := ast.Unparen(rs.X).(*ast.SelectorExpr)
		if !ok {
			return true
		}
		if _, isField := cinfo.Selections[sel]; !isField {
			return true
		}
		appends, skips := false, false
		ast.Inspect(rs.Body, func(k ast.Node) bool {
			switch v := k.(type) {
			case *ast.BranchStmt:
				if v.Tok == token.CONTINUE {
					skips = true
				}
			case *ast.IfStmt:
				ast.Inspect(v.Body, func(q ast.Node) bool {
					if c, ok := q.(*ast.CallExpr); ok {
						if id, ok := c.Fun.(*ast.Ident); ok && id.Name == "append" {
							skips = true
						}
					}
					return true
				})
			case *ast.CallExpr:
				if id, ok := v.Fun.(*ast.Ident); ok && id.Name == "append" {
					appends = true
				}
			}
			return true
		})
		if appends && skips {
			selects, field = true, sel.Sel.Name
		}
		return true
	})
	if selects {
		m.fail("omission", wl, rl, wfr, rfr, "the writer repeats over what %s selected from %s, leaving elements out on a condition: the elements left out are never written", fn.Name(), field)
	}
}

// readerClampedCount: the reader's loop bound is a local that holds the count read from the stream and
// is assigned again, before the loop, from something that is not a read of the stream (a guess from
// the bytes left, a cap): on that path the reader repeats fewer times than the writer did and the rest
// of the elements stay in the stream. (Lowering a negative count to zero changes nothing: such a loop
// does not run either way.)
func (m *Matcher) readerClampedCount(wl, rl *Loop, wfr, rfr *frame) {
	if rl.Bound == nil || rfr.ctx.FI == nil || rfr.ctx.FI.Decl.Body == nil {
		return
	}
	id, ok := ast.Unparen(stripConv(rfr.ctx, rl.Bound)).(*ast.Ident)
	if !ok {
		return
	}
	info := rfr.ctx.Info
	obj := info.ObjectOf(id)
	if obj == nil || !isLocalVar(obj) {
		return
	}
	readsStream := func(e ast.Expr) bool {
		found := false
		ast.Inspect(e, func(n ast.Node) bool {
			if call, ok := n.(*ast.CallExpr); ok {
				if sel, ok := ast.Unparen(call.Fun).(*ast.SelectorExpr); ok {
					if t := info.TypeOf(sel.X); t != nil && m.X.IsIn(t) && strings.HasPrefix(sel.Sel.Name, "Read") {
						found = true
					}
				}
				for _, a := range call.Args {
					if t := info.TypeOf(a); t != nil && m.X.IsIn(t) {
						found = true
					}
				}
			}
			return true
		})
		return found
	}
	fromStream, clamp := false, ""
	ast.Inspect(rfr.ctx.FI.Decl.Body, func(n ast.Node) bool {
		as, ok := n.(*ast.AssignStmt)
		if !ok || len(as.Lhs) != len(as.Rhs) || as.Pos() > rl.Pos {
			return true
		}
		for i, l := range as.Lhs {
			lid, ok := l.(*ast.Ident)
			if !ok || info.ObjectOf(lid) != obj {
				continue
			}
			if readsStream(as.Rhs[i]) {
				fromStream = true
				continue
			}
			if as.Tok != token.ASSIGN {
				continue
			}
			if tv, ok := info.Types[as.Rhs[i]]; ok && tv.Value != nil && tv.Value.ExactString() == "0" {
				continue
			}
			clamp = types.ExprString(as.Rhs[i])
		}
		return true
	})
	if fromStream && clamp != "" {
		m.fail("countlink", wl, rl, wfr, rfr, "the reader's repetition count %s is read from the stream and then overwritten with %s on some path: it repeats fewer times than the writer did and leaves the remaining elements unread", id.Name, clamp)
	}
}

// cappingHelper: call is a call of a one-parameter function of the module that returns a constant on
// one path and its parameter on another (min(n, K) written out): the constant, else "".
func (m *Matcher) cappingHelper(fr *frame, call *ast.CallExpr) string {
	fn := calleeOf(fr.ctx.Info, call)
	cfi := m.X.P.FuncOf(fn)
	if cfi == nil || cfi.Decl.Body == nil || cfi.Decl.Type.Params.NumFields() != 1 || len(cfi.Decl.Type.Params.List[0].Names) != 1 {
		return ""
	}
	cinfo := cfi.Pkg.TypesInfo
	param := cinfo.Defs[cfi.Decl.Type.Params.List[0].Names[0]]
	konst, passes := "", false
	ast.Inspect(cfi.Decl.Body, func(n ast.Node) bool {
		rs, ok := n.(*ast.ReturnStmt)
		if !ok || len(rs.Results) != 1 {
			return true
		}
		if tv, ok := cinfo.Types[rs.Results[0]]; ok && tv.Value != nil {
			konst = tv.Value.ExactString()
		} else if id, ok := ast.Unparen(rs.Results[0]).(*ast.Ident); ok && cinfo.ObjectOf(id) == param {
			passes = true
		}
		return true
	})
	if konst != "" && passes {
		return konst
	}
	return ""
}

// cutCollection: the collection the writer repeats over is a local that is re-sliced to a constant
// length on some path (cores = cores[:K] when it is longer): the elements beyond K are never written.
func (m *Matcher) cutCollection(wfr *frame, wl, rl *Loop, rfr *frame) {
	var src ast.Expr
	switch {
	case wl.Range != nil:
		src = wl.Range
	case wl.Bound != nil:
		src = wl.Bound
	}
	if src == nil {
		return
	}
	info := wfr.ctx.Info
	var loc types.Object
	ast.Inspect(src, func(n ast.Node) bool {
		if id, ok := n.(*ast.Ident); ok && loc == nil {
			if o := info.ObjectOf(id); o != nil && isLocalVar(o) {
				if _, isSl := o.Type().Underlying().(*types.Slice); isSl {
					loc = o
				}
			}
		}
		return true
	})
	if loc == nil {
		return
	}
	cut := ""
	ast.Inspect(wfr.ctx.FI.Decl.Body, func(n ast.Node) bool {
		as, ok := n.(*ast.AssignStmt)
		if !ok || len(as.Lhs) != len(as.Rhs) || as.Pos() > wl.Pos {
			return true
		}
		for i, l := range as.Lhs {
			lid, ok := l.(*ast.Ident)
			if !ok || info.ObjectOf(lid) != loc {
				continue
			}
			se, ok := ast.Unparen(as.Rhs[i]).(*ast.SliceExpr)
			if !ok || se.High == nil {
				continue
			}
			if xid, ok := ast.Unparen(se.X).(*ast.Ident); !ok || info.ObjectOf(xid) != loc {
				continue
			}
			if tv, ok := info.Types[se.High]; ok && tv.Value != nil {
				cut = tv.Value.ExactString()
			}
		}
		return true
	})
	if cut != "" {
		m.fail("omission", wl, rl, wfr, rfr, "the collection the writer repeats over (%s) is cut to its first %s elements on some path: the elements beyond are never written", loc.Name(), cut)
	}
}

// unroll: `for _, v := range <fixed list>` where the list is an array/slice literal or the variadic
// parameter of an inlined call: the body is matched once per element, in order, with the loop variable
// standing for that element (rendered in the frame the element was written in).
func (m *Matcher) unroll(l *Loop, c *cont, fr *frame) *cont {
	rs, ok := l.Stmt.(*ast.RangeStmt)
	if !ok || l.Range == nil || rs.Value == nil {
		return nil
	}
	vid, ok := rs.Value.(*ast.Ident)
	if !ok || vid.Name == "_" {
		return nil
	}
	vobj := fr.ctx.Info.ObjectOf(vid)
	if vobj == nil {
		return nil
	}
	var elems []ast.Expr
	efr := fr
	switch x := ast.Unparen(stripConv(fr.ctx, l.Range)).(type) {
	case *ast.CompositeLit:
		for _, el := range x.Elts {
			if _, kv := el.(*ast.KeyValueExpr); kv {
				return nil
			}
		}
		elems = x.Elts
	case *ast.Ident:
		if va, ok := fr.vargs[fr.ctx.Info.ObjectOf(x)]; ok && fr.parent != nil {
			elems, efr = va, fr.parent
		} else if o := fr.ctx.Info.ObjectOf(x); o != nil && isLocalVar(o) {
			// a local that is one array/slice literal (body := [7]int64{a, b, …}; for _, v := range body)
			if d := fr.ctx.singleDef(o); d != nil {
				if cl, ok := ast.Unparen(d).(*ast.CompositeLit); ok {
					positional := true
					for _, el := range cl.Elts {
						if _, kv := el.(*ast.KeyValueExpr); kv {
							positional = false
						}
					}
					if positional {
						elems = cl.Elts
					}
				}
			}
		}
	}
	if len(elems) == 0 || len(elems) > 64 {
		return nil
	}
	next := c.advance()
	for i := len(elems) - 1; i >= 0; i-- {
		s, ok := m.X.canonF(efr, stripConv(efr.ctx, elems[i]), 0)
		if tv, isC := efr.ctx.Info.Types[elems[i]]; isC && tv.Value != nil {
			s, ok = tv.Value.ExactString(), true // a (named) constant element is its value
		}
		if !ok {
			return nil
		}
		m.frameSeq++
		nfr := &frame{ctx: fr.ctx, subst: map[types.Object]string{}, id: m.frameSeq, args: fr.args, parent: fr.parent, vargs: fr.vargs, hook: fr.hook, unrolled: true}
		for k, v := range fr.subst {
			nfr.subst[k] = v
		}
		nfr.subst[vobj] = s
		m.depthOf[nfr] = m.depthOf[fr]
		next = mkCont(l.Body, 0, next, nfr, false)
	}
	return next
}

func (m *Matcher) devirtualise(call *Call, fr *frame) *Call {
	sel, ok := call.Expr.Fun.(*ast.SelectorExpr)
	if !ok || fr.parent == nil {
		return nil
	}
	id, ok := ast.Unparen(sel.X).(*ast.Ident)
	if !ok {
		return nil
	}
	arg, ok := fr.args[fr.ctx.Info.ObjectOf(id)]
	if !ok {
		return nil
	}
	t := fr.parent.ctx.Info.TypeOf(arg)
	if t == nil {
		return nil
	}
	if _, isIface := t.Underlying().(*types.Interface); isIface {
		return nil
	}
	obj, _, _ := types.LookupFieldOrMethod(t, true, call.Callee.Pkg(), call.Callee.Name())
	fn, ok := obj.(*types.Func)
	if !ok {
		return nil
	}
	nc := *call
	nc.Callee, nc.Iface = fn, false
	return &nc
}

// dynConst: the value of p.Getter() written by an inlined helper when p is a parameter the caller
// bound to a value of concrete static type whose Getter is `return <constant>` (the type tag).
func (m *Matcher) dynConst(fr *frame, e ast.Expr) constant.Value {
	// a loop variable of an unrolled loop (or a parameter) standing for a constant element
	if fr != nil {
		if id, ok := ast.Unparen(stripConv(fr.ctx, e)).(*ast.Ident); ok {
			if s, ok := fr.subst[fr.ctx.Info.ObjectOf(id)]; ok {
				var n int64
				if _, err := fmt.Sscanf(s, "%d", &n); err == nil && fmt.Sprint(n) == s {
					return constant.MakeInt64(n)
				}
			}
		}
	}
	if fr == nil || fr.parent == nil {
		return nil
	}
	call, ok := ast.Unparen(stripConv(fr.ctx, e)).(*ast.CallExpr)
	if !ok || len(call.Args) != 0 {
		return nil
	}
	sel, ok := call.Fun.(*ast.SelectorExpr)
	if !ok {
		return nil
	}
	id, ok := ast.Unparen(sel.X).(*ast.Ident)
	if !ok {
		return nil
	}
	arg, ok := fr.args[fr.ctx.Info.ObjectOf(id)]
	if !ok {
		return nil
	}
	t := fr.parent.ctx.Info.TypeOf(arg)
	if t == nil {
		return nil
	}
	if _, isIface := t.Underlying().(*types.Interface); isIface {
		return nil
	}
	obj, _, _ := types.LookupFieldOrMethod(t, true, fr.ctx.FI.Obj.Pkg(), sel.Sel.Name)
	fn, ok := obj.(*types.Func)
	if !ok {
		return nil
	}
	fi := m.X.P.FuncOf(fn)
	if fi == nil || fi.Decl.Body == nil || len(fi.Decl.Body.List) != 1 {
		return nil
	}
	ret, ok := fi.Decl.Body.List[0].(*ast.ReturnStmt)
	if !ok || len(ret.Results) != 1 {
		return nil
	}
	if tv, ok := fi.Pkg.TypesInfo.Types[ret.Results[0]]; ok && tv.Value != nil {
		return tv.Value
	}
	return nil
}

// flattenTableWalk: for i over the buckets of T { for e := T[i]; e != nil; e = e.next { BODY } } with T the
// receiver's bucket slice (directly or through a local) is a loop over all entries of the receiver:
// its repetition count is the receiver's element count.
func (m *Matcher) flattenTableWalk(l *Loop, fr *frame) *Loop {
	if l.AllOf != nil || len(l.Body) != 1 {
		return nil
	}
	if m.flat == nil {
		m.flat = map[*Loop]*Loop{}
	}
	if f, ok := m.flat[l]; ok {
		return f
	}
	m.flat[l] = nil
	inner, ok := l.Body[0].(*Loop)
	if !ok {
		return nil
	}
	fs, ok := inner.Stmt.(*ast.ForStmt)
	if !ok || fs.Init == nil || fs.Cond == nil {
		return nil
	}
	init, ok := fs.Init.(*ast.AssignStmt)
	if !ok || len(init.Lhs) != 1 || len(init.Rhs) != 1 {
		return nil
	}
	eid, ok := init.Lhs[0].(*ast.Ident)
	if !ok {
		return nil
	}
	ix, ok := ast.Unparen(init.Rhs[0]).(*ast.IndexExpr)
	if !ok {
		return nil
	}
	cond, ok := ast.Unparen(fs.Cond).(*ast.BinaryExpr)
	if !ok || cond.Op != token.NEQ {
		return nil
	}
	if cid, ok := ast.Unparen(cond.X).(*ast.Ident); !ok || cid.Name != eid.Name {
		return nil
	}
	if nid, ok := ast.Unparen(cond.Y).(*ast.Ident); !ok || nid.Name != "nil" {
		return nil
	}
	// the indexed slice: a field of the receiver (possibly through a single-definition local)
	info := fr.ctx.Info
	tab := ast.Unparen(ix.X)
	for d := 0; d < 2; d++ {
		if id, ok := tab.(*ast.Ident); ok {
			if obj := info.ObjectOf(id); obj != nil && isLocalVar(obj) {
				if def := fr.ctx.singleDef(obj); def != nil {
					tab = ast.Unparen(def)
					continue
				}
			}
		}
		break
	}
	sel, ok := tab.(*ast.SelectorExpr)
	if !ok {
		return nil
	}
	rid, ok := ast.Unparen(sel.X).(*ast.Ident)
	if !ok || fr.ctx.Recv == nil || info.ObjectOf(rid) != fr.ctx.Recv {
		return nil
	}
	if _, isSlice := info.TypeOf(sel).Underlying().(*types.Slice); !isSlice {
		return nil
	}
	// the outer loop walks all buckets: its index variable is the index used, and it is a counted loop
	// over len(<that slice>) (ascending or descending) or a range over it
	f := &Loop{Pos: l.Pos, Stmt: inner.Stmt, Body: inner.Body, Fn: l.Fn, AllOf: sel.X}
	m.flat[l] = f
	return f
}

func namedOfType(t types.Type) *types.Named {
	if t == nil {
		return nil
	}
	if pt, ok := t.(*types.Pointer); ok {
		t = pt.Elem()
	}
	n, _ := t.(*types.Named)
	return n
}

// localReachesField: somewhere in the frame's function the local (possibly converted) is assigned to a
// field, an element, or handed to a call (a setter) — anything that can carry it into the object.
func (m *Matcher) localReachesField(fr *frame, obj types.Object) bool {
	body := fr.ctx.FI.Decl.Body
	if body == nil {
		return true
	}
	info := fr.ctx.Info
	uses := func(e ast.Expr) bool {
		found := false
		ast.Inspect(e, func(n ast.Node) bool {
			if id, ok := n.(*ast.Ident); ok && info.ObjectOf(id) == obj {
				found = true
			}
			return !found
		})
		return found
	}
	reaches := false
	ast.Inspect(body, func(n ast.Node) bool {
		switch v := n.(type) {
		case *ast.AssignStmt:
			for i, l := range v.Lhs {
				if i >= len(v.Rhs) {
					break
				}
				if _, isIdent := ast.Unparen(l).(*ast.Ident); isIdent {
					continue
				}
				if uses(v.Rhs[i]) {
					reaches = true
				}
			}
		case *ast.CallExpr:
			if tv, ok := info.Types[v.Fun]; ok && tv.IsType() {
				return true
			}
			for _, a := range v.Args {
				if uses(a) {
					// a call on the stream (in.ReadBytes(n)) does not store the value
					if sel, ok := v.Fun.(*ast.SelectorExpr); ok {
						if tv, ok := info.Types[sel.X]; ok && m.X.IsStream(tv.Type) {
							continue
						}
					}
					if id, ok := v.Fun.(*ast.Ident); ok && (id.Name == "make" || id.Name == "len" || id.Name == "panic") {
						continue
					}
					reaches = true
				}
			}
		case *ast.ReturnStmt:
			for _, e := range v.Results {
				if uses(e) {
					reaches = true
				}
			}
		}
		return true
	})
	return reaches
}

// fieldNeverSet: the reader function never assigns the field named by the label (recv.F).
func (m *Matcher) fieldNeverSet(fr *frame, label string) bool {
	body := fr.ctx.FI.Decl.Body
	if body == nil || fr.ctx.Recv == nil {
		return false
	}
	info := fr.ctx.Info
	name := strings.TrimPrefix(label, "recv.")
	if strings.Contains(name, ".") {
		return false
	}
	set := false
	ast.Inspect(body, func(n ast.Node) bool {
		if as, ok := n.(*ast.AssignStmt); ok {
			for _, l := range as.Lhs {
				if sel, ok := ast.Unparen(l).(*ast.SelectorExpr); ok && sel.Sel.Name == name {
					if id, ok := ast.Unparen(sel.X).(*ast.Ident); ok && info.ObjectOf(id) == fr.ctx.Recv {
						set = true
					}
				}
			}
		}
		return true
	})
	return !set
}

// singleValuePair: the reader side takes nothing beside the stream (its result is the value read): the
// call sites can be compared by one label each. A reader that is handed places to store into
// (pointer parameters) restores several values, and which goes where is only visible inside.
func singleValuePair(w, r *Call) bool {
	wn := 0
	for i := range w.Expr.Args {
		if i != w.StreamArg {
			wn++
		}
	}
	rn := 0
	for i := range r.Expr.Args {
		if i != r.StreamArg {
			rn++
		}
	}
	_ = wn
	return rn == 0
}

// specRename: the reader is a hand-written reference decoder (zzSpec…, written against the field
// names of the tree it was reviewed on) and the two labels differ only in the capital of their last
// component (Records / records): the same field after it was unexported, or moved into an embedded
// record with unexported names. Only the reference comparison is tolerant; real writer/reader pairs
// must name the same field.
func specRename(wl, rl string, rfr *frame) bool {
	if rfr == nil {
		return false
	}
	root := rfr
	for root.parent != nil {
		root = root.parent
	}
	if root.ctx == nil || root.ctx.FI == nil || !strings.HasPrefix(root.ctx.FI.Obj.Name(), "zzSpec") {
		return false
	}
	i, j := strings.LastIndex(wl, "."), strings.LastIndex(rl, ".")
	if i < 0 || j < 0 || i+1 >= len(wl) || j+1 >= len(rl) {
		return false
	}
	return strings.EqualFold(wl[i+1:i+2], rl[j+1:j+2]) && wl[i+2:] == rl[j+2:]
}
