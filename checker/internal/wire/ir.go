// Package wire is engine E1: it extracts, from the type-checked syntax of one codec function, the
// grammar of stream events it performs on a *io.DataOutputX / *io.DataInputX (primitives, counted
// loops, branches, nested sub-streams, calls of other codecs), and decides agreement between a
// writer and a reader by a lock-step walk of the two grammars (match.go). Nothing is executed.
package wire

import (
	"os"
	"golibcheck/internal/bits"
	"golibcheck/internal/paths"
	"fmt"
	"go/ast"
	"go/constant"
	"go/token"
	"go/types"
	"strings"

	"golibcheck/internal/core"
)

// Node kinds of the stream grammar.
type Node interface{ NPos() token.Pos }

// Prim: one call of a DataOutputX.WriteX / DataInputX.ReadX method on the stream.
type Prim struct {
	Pos     token.Pos
	Kind    string       // method stem: Byte, Int, Decimal, Blob, Text, ShortArray, DecimalLen, ...
	Method  *types.Func  // the io method (for expansion of compound primitives)
	Call    *ast.CallExpr
	Arg     ast.Expr     // writer: value argument (nil for readers)
	Const   constant.Value // writer: constant argument value, if any
	Label   string       // canonical name of the field written / assigned ("recv.Level"), "" if unknown
	Bind    interface{}  // reader: key the read value is bound to (types.Object of the local, or the *ast.CallExpr itself)
	Discard bool         // reader: result unused (expression statement)
	LenArg  ast.Expr     // reader: ReadBytes(n) / ReadDecimalLen(n) argument
	Fn      *FuncCtx
	Target  ast.Expr     // reader: the assignment target when it is not a plain local (*p, x.f, a[i]); re-rendered per frame
}

// If: two-way branch. Cond is evaluated by the matcher (ast.Expr) or is a switch-case test.
type If struct {
	Pos  token.Pos
	Cond ast.Expr   // nil when Case != nil
	Case *CaseCond  // switch tag == one of Vals
	Then []Node
	Else []Node
	Fn   *FuncCtx
}

type CaseCond struct {
	Tag  ast.Expr // may be nil => tagless (then Vals are boolean conditions or-ed)
	Vals []ast.Expr
}

// Loop: repetition of Body.
type Loop struct {
	Pos   token.Pos
	Stmt  ast.Stmt
	Bound ast.Expr // `i < Bound`, or nil
	Range ast.Expr // `range X`
	Enum  ast.Expr // `for en.HasMoreElements()` -> en
	Cond  ast.Expr // other condition
	Body  []Node
	Fn    *FuncCtx
	AllOf ast.Expr // synthetic (matcher): the loop visits every entry of this hash table's owner (bucket loop x chain loop)
}

// Call: the stream is handed to another function.
type Call struct {
	Pos    token.Pos
	Callee *types.Func
	Expr   *ast.CallExpr
	Iface  bool   // dynamic dispatch through an interface method
	Label  string // writer: canonical of the value argument / receiver; reader: assignment target
	Bind   interface{}
	Fn     *FuncCtx
	StreamArg int // index of the stream among args, -1 = receiver
}

// Nested: a sub-stream framed into the parent (WriteBlob(o.ToByteArray()), NewDataInputX(in.ReadBlob())).
type Nested struct {
	Pos   token.Pos
	Frame string // Blob, IntBytes, ShortBytes, Bytes (raw: spliced)
	Body  []Node
	Label string
	Fn    *FuncCtx
}

// Ret: return from the current function frame. Panic: the path aborts (decoder rejects).
type Ret struct{ Pos token.Pos }
type Panic struct{ Pos token.Pos }

// Unknown: a construct outside the fragment; matching it is UNDECIDED.
type Unknown struct {
	Pos    token.Pos
	Reason string
}

func (n *Prim) NPos() token.Pos    { return n.Pos }
func (n *If) NPos() token.Pos      { return n.Pos }
func (n *Loop) NPos() token.Pos    { return n.Pos }
func (n *Call) NPos() token.Pos    { return n.Pos }
func (n *Nested) NPos() token.Pos  { return n.Pos }
func (n *Ret) NPos() token.Pos     { return n.Pos }
func (n *Panic) NPos() token.Pos   { return n.Pos }
func (n *Unknown) NPos() token.Pos { return n.Pos }

// FuncCtx is the per-function context needed to interpret expressions found in nodes.
type FuncCtx struct {
	FI     *core.FuncInfo
	Info   *types.Info
	Recv   types.Object
	Params []types.Object // in order, including stream params
	defs   map[types.Object][]ast.Expr // local var -> assigned expressions (nil entry = unknown assignment)
	subIn  map[interface{}]types.Object // bytes key (CallExpr or Object) -> sub reader var
	fieldOf map[types.Object]string // local var -> label of the field it is later stored into
}

// Extractor caches per-function contexts and grammars.
type Extractor struct {
	// StrictOmission: a writer branch on one field of a section that omits the whole section must
	// imply every omitted field is empty (no 'representative field' presence convention): for formats
	// whose reader restores every field independently
	StrictOmission bool
	P     *core.Program
	ctxs  map[*types.Func]*FuncCtx
	cache map[string][]Node
	IOPkg string
	// accessor: calls of single-return accessors of the stream type -> the expression they stand for
	// on the caller's stream (one node per call site, so that bindings made on it are found again)
	accessor map[*ast.CallExpr]ast.Expr
}

func NewExtractor(p *core.Program) *Extractor {
	return &Extractor{P: p, ctxs: map[*types.Func]*FuncCtx{}, cache: map[string][]Node{}, IOPkg: core.ModPath + "/io"}
}

func (x *Extractor) isStreamType(t types.Type, name string) bool {
	pt, ok := t.(*types.Pointer)
	if !ok {
		return false
	}
	n, ok := pt.Elem().(*types.Named)
	if !ok {
		return false
	}
	return n.Obj().Name() == name && n.Obj().Pkg() != nil && n.Obj().Pkg().Path() == x.IOPkg
}
func (x *Extractor) IsOut(t types.Type) bool { return x.isStreamType(t, "DataOutputX") }
func (x *Extractor) IsIn(t types.Type) bool  { return x.isStreamType(t, "DataInputX") }
func (x *Extractor) IsStream(t types.Type) bool {
	return x.IsOut(t) || x.IsIn(t)
}

// Ctx builds (once) the context of a function.
func (x *Extractor) Ctx(fi *core.FuncInfo) *FuncCtx {
	if c := x.ctxs[fi.Obj]; c != nil {
		return c
	}
	c := &FuncCtx{FI: fi, Info: fi.Pkg.TypesInfo, defs: map[types.Object][]ast.Expr{}, subIn: map[interface{}]types.Object{}, fieldOf: map[types.Object]string{}}
	x.ctxs[fi.Obj] = c
	if fi.Decl.Recv != nil && len(fi.Decl.Recv.List) > 0 && len(fi.Decl.Recv.List[0].Names) > 0 {
		c.Recv = c.Info.Defs[fi.Decl.Recv.List[0].Names[0]]
	}
	if fi.Decl.Type.Params != nil {
		for _, f := range fi.Decl.Type.Params.List {
			for _, n := range f.Names {
				c.Params = append(c.Params, c.Info.Defs[n])
			}
		}
	}
	if fi.Decl.Body == nil {
		return c
	}
	// local definitions
	ast.Inspect(fi.Decl.Body, func(n ast.Node) bool {
		switch s := n.(type) {
		case *ast.AssignStmt:
			if len(s.Lhs) == len(s.Rhs) {
				for i, l := range s.Lhs {
					if id, ok := l.(*ast.Ident); ok {
						obj := c.Info.ObjectOf(id)
						if obj != nil {
							if s.Tok == token.ASSIGN || s.Tok == token.DEFINE {
								c.defs[obj] = append(c.defs[obj], s.Rhs[i])
							} else {
								c.defs[obj] = append(c.defs[obj], nil)
							}
						}
					} else if s.Tok == token.ASSIGN {
						// field = conv(local)
						if lbl := x.canonLabel(c, l); lbl != "" {
							if id := rootIdent(stripConv(c, s.Rhs[i])); id != nil {
								if obj := c.Info.ObjectOf(id); obj != nil && isLocalVar(obj) {
									if _, dup := c.fieldOf[obj]; dup {
										c.fieldOf[obj] = "" // ambiguous
									} else {
										c.fieldOf[obj] = lbl
									}
								}
							}
						}
					}
				}
			} else {
				for _, l := range s.Lhs {
					if id, ok := l.(*ast.Ident); ok {
						if obj := c.Info.ObjectOf(id); obj != nil {
							c.defs[obj] = append(c.defs[obj], nil)
						}
					}
				}
			}
		case *ast.ValueSpec:
			for i, nm := range s.Names {
				obj := c.Info.Defs[nm]
				if obj == nil {
					continue
				}
				if i < len(s.Values) {
					c.defs[obj] = append(c.defs[obj], s.Values[i])
				}
			}
		case *ast.IncDecStmt:
			if id, ok := s.X.(*ast.Ident); ok {
				if obj := c.Info.ObjectOf(id); obj != nil {
					c.defs[obj] = append(c.defs[obj], nil)
				}
			}
		case *ast.RangeStmt:
			for _, e := range []ast.Expr{s.Key, s.Value} {
				if id, ok := e.(*ast.Ident); ok {
					if obj := c.Info.ObjectOf(id); obj != nil {
						c.defs[obj] = append(c.defs[obj], nil)
					}
				}
			}
		}
		return true
	})
	// sub readers: v := io.NewDataInputX(arg)
	ast.Inspect(fi.Decl.Body, func(n ast.Node) bool {
		as, ok := n.(*ast.AssignStmt)
		if !ok || len(as.Lhs) != 1 || len(as.Rhs) != 1 {
			return true
		}
		call, ok := as.Rhs[0].(*ast.CallExpr)
		if !ok || !x.isIOFunc(c, call, "NewDataInputX") || len(call.Args) != 1 {
			return true
		}
		id, ok := as.Lhs[0].(*ast.Ident)
		if !ok {
			return true
		}
		sub := c.Info.ObjectOf(id)
		arg := ast.Unparen(call.Args[0])
		switch a := arg.(type) {
		case *ast.CallExpr:
			c.subIn[a] = sub
		case *ast.Ident:
			if o := c.Info.ObjectOf(a); o != nil {
				c.subIn[o] = sub
			}
		}
		return true
	})
	return c
}

func isLocalVar(o types.Object) bool {
	v, ok := o.(*types.Var)
	return ok && !v.IsField() && v.Pkg() != nil && v.Parent() != v.Pkg().Scope()
}

func (x *Extractor) isIOFunc(c *FuncCtx, call *ast.CallExpr, name string) bool {
	f := calleeOf(c.Info, call)
	return f != nil && f.Name() == name && f.Pkg() != nil && f.Pkg().Path() == x.IOPkg && core.RecvNamed(f) == nil
}

func calleeOf(info *types.Info, call *ast.CallExpr) *types.Func {
	var id *ast.Ident
	switch f := ast.Unparen(call.Fun).(type) {
	case *ast.Ident:
		id = f
	case *ast.SelectorExpr:
		id = f.Sel
	default:
		return nil
	}
	fn, _ := info.Uses[id].(*types.Func)
	return fn
}

// singleDef returns the unique defining expression of a local variable (nil if none/ambiguous).
func (c *FuncCtx) singleDef(o types.Object) ast.Expr {
	d := c.defs[o]
	if len(d) == 1 && d[0] != nil {
		return d[0]
	}
	return nil
}

// defBefore: the value o holds at pos when it has several definitions — the nearest plain assignment
// to o among the statements that precede pos in the innermost block around pos, provided no statement
// between that assignment and pos assigns o again (nested or not).
func (c *FuncCtx) defBefore(o types.Object, pos token.Pos) ast.Expr {
	if c.FI == nil || c.FI.Decl.Body == nil || !pos.IsValid() {
		return nil
	}
	var inner *ast.BlockStmt
	ast.Inspect(c.FI.Decl.Body, func(n ast.Node) bool {
		if b, ok := n.(*ast.BlockStmt); ok && b.Pos() <= pos && pos < b.End() {
			inner = b
		}
		return true
	})
	if inner == nil {
		return nil
	}
	assigns := func(n ast.Node) bool {
		found := false
		ast.Inspect(n, func(m ast.Node) bool {
			switch v := m.(type) {
			case *ast.AssignStmt:
				for _, l := range v.Lhs {
					if id, ok := l.(*ast.Ident); ok && c.Info.ObjectOf(id) == o {
						found = true
					}
				}
			case *ast.IncDecStmt:
				if id, ok := v.X.(*ast.Ident); ok && c.Info.ObjectOf(id) == o {
					found = true
				}
			}
			return true
		})
		return found
	}
	var def ast.Expr
	for _, s := range inner.List {
		if s.Pos() >= pos {
			break
		}
		if as, ok := s.(*ast.AssignStmt); ok && len(as.Lhs) == len(as.Rhs) && (as.Tok == token.ASSIGN || as.Tok == token.DEFINE) {
			hit := false
			for i, l := range as.Lhs {
				if id, ok := l.(*ast.Ident); ok && c.Info.ObjectOf(id) == o {
					def, hit = as.Rhs[i], true
				}
			}
			if hit {
				continue
			}
		}
		if assigns(s) {
			def = nil
		}
	}
	return def
}

func rootIdent(e ast.Expr) *ast.Ident {
	for {
		switch v := ast.Unparen(e).(type) {
		case *ast.Ident:
			return v
		default:
			return nil
		}
	}
}

// stripConv removes conversions, parens and transparent wrappers around an expression.
func stripConv(c *FuncCtx, e ast.Expr) ast.Expr {
	for {
		e = ast.Unparen(e)
		if be, ok := e.(*ast.BinaryExpr); ok && be.Op == token.AND {
			if tv, ok := c.Info.Types[be.Y]; ok && tv.Value != nil {
				e = be.X // masking with a constant (unsigned reinterpretation of a narrower read)
				continue
			}
		}
		call, ok := e.(*ast.CallExpr)
		if !ok || len(call.Args) == 0 {
			if ta, ok := e.(*ast.TypeAssertExpr); ok {
				e = ta.X
				continue
			}
			if st, ok := e.(*ast.StarExpr); ok {
				_ = st
			}
			return e
		}
		if tv, ok := c.Info.Types[call.Fun]; ok && tv.IsType() && len(call.Args) == 1 {
			e = call.Args[0]
			continue
		}
		if f := calleeOf(c.Info, call); f != nil && f.Pkg() != nil {
			if transparentWrappers[f.Pkg().Name()+"."+f.Name()] {
				e = call.Args[0]
				continue
			}
		}
		return e
	}
}

// transparentWrappers: value-preserving (up to documented caps / text-number forms) helpers through
// which a field label is followed. One line of reason each.
var transparentWrappers = map[string]bool{
	"stringutil.Truncate":               true, // length cap of transaction-start fields (documented in C07)
	"stringutil.ParseStringZeroToEmpty": true, // integer -> decimal text ("" for 0); inverse of ParseInt32/64
	"stringutil.ParseInt32":             true, // decimal text -> int32
	"stringutil.ParseInt64":             true, // decimal text -> int64
	"stringutil.TrimEmpty":              true, // whitespace trim of text fields
	"math.Float32bits":                  true,
	"math.Float64bits":                  true,
	"math.Float32frombits":              true,
	"math.Float64frombits":              true,
}

// canonLabel renders an l-value / value expression as a canonical field path, or "".
func (x *Extractor) canonLabel(c *FuncCtx, e ast.Expr) string {
	s, ok := x.canon(c, stripConv(c, e), 0)
	if !ok {
		return ""
	}
	return s
}

// canon renders an expression canonically: receiver -> "recv", embedded hops dropped, params -> "p<i>",
// locals with a single definition are replaced by that definition (one step, depth-bounded).
func (x *Extractor) canon(c *FuncCtx, e ast.Expr, depth int) (string, bool) {
	return x.canonF(&frame{ctx: c}, e, depth)
}

// canonF is canon within an (inlined) frame: receiver and parameters are rendered as the caller's
// canonical text; fr.hook (if set) may render identifiers (reader locals bound to stream values).
func (x *Extractor) canonF(fr *frame, e ast.Expr, depth int) (string, bool) {
	c := fr.ctx
	e = ast.Unparen(e)
	switch v := e.(type) {
	case *ast.Ident:
		obj := c.Info.ObjectOf(v)
		if obj == nil {
			return v.Name, true
		}
		if fr.hook != nil {
			if s, ok := fr.hook(obj); ok {
				return s, true
			}
		}
		if s, ok := fr.subst[obj]; ok {
			return s, true
		}
		if obj == c.Recv {
			return "recv", true
		}
		for i, p := range c.Params {
			if p == obj {
				return fmt.Sprintf("p%d:%s", i, v.Name), true
			}
		}
		if _, ok := obj.(*types.Const); ok {
			if tv, ok := c.Info.Types[e]; ok && tv.Value != nil {
				return tv.Value.ExactString(), true
			}
		}
		if isLocalVar(obj) && depth < 3 {
			if d := c.singleDef(obj); d != nil {
				return x.canonF(fr, stripConv(c, d), depth+1)
			}
			return "local:" + v.Name, true
		}
		if obj.Pkg() != nil {
			return obj.Pkg().Name() + "." + obj.Name(), true
		}
		return v.Name, true
	case *ast.SelectorExpr:
		if sel, ok := c.Info.Selections[v]; ok {
			base, ok := x.canonF(fr, v.X, depth)
			if !ok {
				return "", false
			}
			// drop a trailing embedded hop in base: handled by rendering embedded field selections as base.
			if fv, ok := sel.Obj().(*types.Var); ok && fv.IsField() && fv.Embedded() {
				return base, true
			}
			return base + "." + v.Sel.Name, true
		}
		// qualified identifier pkg.Name
		if tv, ok := c.Info.Types[e]; ok && tv.Value != nil {
			return tv.Value.ExactString(), true
		}
		if id, ok := v.X.(*ast.Ident); ok {
			return id.Name + "." + v.Sel.Name, true
		}
		return "", false
	case *ast.BasicLit:
		if tv, ok := c.Info.Types[e]; ok && tv.Value != nil {
			return tv.Value.ExactString(), true
		}
		return v.Value, true
	case *ast.CallExpr:
		if tv, ok := c.Info.Types[v.Fun]; ok && tv.IsType() && len(v.Args) == 1 {
			return x.canonF(fr, v.Args[0], depth)
		}
		fs, ok := x.canonF(fr, v.Fun, depth)
		if !ok {
			return "", false
		}
		var as []string
		for _, a := range v.Args {
			s, ok := x.canonF(fr, a, depth)
			if !ok {
				return "", false
			}
			as = append(as, s)
		}
		return fs + "(" + strings.Join(as, ",") + ")", true
	case *ast.BinaryExpr:
		l, ok1 := x.canonF(fr, v.X, depth)
		r, ok2 := x.canonF(fr, v.Y, depth)
		if !ok1 || !ok2 {
			return "", false
		}
		return "(" + l + v.Op.String() + r + ")", true
	case *ast.UnaryExpr:
		s, ok := x.canonF(fr, v.X, depth)
		if !ok {
			return "", false
		}
		if v.Op == token.AND {
			return s, true // &x names the same object
		}
		return v.Op.String() + s, true
	case *ast.IndexExpr:
		b, ok1 := x.canonF(fr, v.X, depth)
		i, ok2 := x.canonF(fr, v.Index, depth)
		if !ok1 || !ok2 {
			return "", false
		}
		return b + "[" + i + "]", true
	case *ast.StarExpr:
		return x.canonF(fr, v.X, depth)
	case *ast.TypeAssertExpr:
		return x.canonF(fr, v.X, depth)
	case *ast.SliceExpr:
		b, ok := x.canonF(fr, v.X, depth)
		if !ok {
			return "", false
		}
		return b + "[:]", true
	case *ast.CompositeLit, *ast.FuncLit:
		return "", false
	}
	return "", false
}

// ---------------------------------------------------------------------------------------------
// extraction

type walker struct {
	curTarget ast.Expr // assignment target of the statement being walked (non-ident LHS)
	x      *Extractor
	c      *FuncCtx
	stream types.Object
	out    bool // writer side
	// byte-root mode: the "stream" is a []byte local that the function assembles and returns
	bytes     bool
	hdrLen    int64
	hdr       map[int64]*Prim // header prims by byte offset (Put… into the made part of the buffer)
	hdrSeg    map[int64]hdrSegment // a run of the made part filled by a loop through a cursor slice
	hdrBroken string
}

// Grammar returns the stream grammar of fi's body for the given stream variable.
func (x *Extractor) Grammar(fi *core.FuncInfo, stream types.Object) []Node {
	key := fmt.Sprintf("%p/%p", fi.Obj, stream)
	if g, ok := x.cache[key]; ok {
		return g
	}
	c := x.Ctx(fi)
	w := &walker{x: x, c: c, stream: stream, out: x.IsOut(stream.Type())}
	if isByteSliceType(stream.Type()) {
		w.bytes, w.out, w.hdr, w.hdrSeg = true, true, map[int64]*Prim{}, map[int64]hdrSegment{}
	}
	var g []Node
	if fi.Decl.Body != nil {
		g = w.block(fi.Decl.Body.List)
	}
	if w.bytes {
		g = w.withHeader(g, fi)
	}
	x.cache[key] = g
	if d := os.Getenv("WIRE_DUMP"); d != "" && strings.Contains(core.FuncName(fi.Obj), d) {
		fmt.Fprintf(os.Stderr, "GRAMMAR %s\n%s\n", core.FuncName(fi.Obj), x.Dump(g, "  "))
	}
	return g
}

// StreamParams lists the stream-typed parameters / receiver of a function.
func (x *Extractor) StreamParams(fi *core.FuncInfo) (outs, ins []types.Object) {
	c := x.Ctx(fi)
	all := append([]types.Object{}, c.Params...)
	if c.Recv != nil {
		all = append(all, c.Recv)
	}
	for _, p := range all {
		if p == nil {
			continue
		}
		if x.IsOut(p.Type()) {
			outs = append(outs, p)
		} else if x.IsIn(p.Type()) {
			ins = append(ins, p)
		}
	}
	return
}

func (w *walker) block(stmts []ast.Stmt) []Node {
	var out []Node
	for i, s := range stmts {
		ns, stop := w.stmt(s, stmts[i+1:])
		out = append(out, ns...)
		if stop {
			break
		}
	}
	return out
}

// usesStream reports whether the subtree mentions the stream variable.
func (w *walker) usesStream(n ast.Node) bool {
	if n == nil {
		return false
	}
	found := false
	ast.Inspect(n, func(m ast.Node) bool {
		if id, ok := m.(*ast.Ident); ok && w.c.Info.ObjectOf(id) == w.stream {
			found = true
		}
		return !found
	})
	return found
}

func hasControl(ns []Node) bool {
	for _, n := range ns {
		switch v := n.(type) {
		case *Ret, *Panic:
			return true
		case *If:
			if hasControl(v.Then) || hasControl(v.Else) {
				return true
			}
		}
	}
	return false
}

func hasEvents(ns []Node) bool {
	for _, n := range ns {
		switch v := n.(type) {
		case *Ret, *Panic:
		case *If:
			if hasEvents(v.Then) || hasEvents(v.Else) {
				return true
			}
		default:
			_ = v
			return true
		}
	}
	return false
}

// stmt converts one statement; rest = following statements in the same block (for sub-stream scopes).
func (w *walker) stmt(s ast.Stmt, rest []ast.Stmt) (nodes []Node, stop bool) {
	if w.bytes {
		if ns, ok := w.byteStmt(s); ok {
			return ns, false
		}
	}
	switch v := s.(type) {
	case *ast.BlockStmt:
		return w.block(v.List), false
	case *ast.ExprStmt:
		if call, ok := v.X.(*ast.CallExpr); ok {
			if id, ok := call.Fun.(*ast.Ident); ok && id.Name == "panic" && w.c.Info.Uses[id] == types.Universe.Lookup("panic") {
				return append(w.expr(v.X, nil, "", true, rest), &Panic{Pos: v.Pos()}), true
			}
		}
		return w.expr(v.X, nil, "", true, rest), false
	case *ast.AssignStmt:
		var out []Node
		for i, r := range v.Rhs {
			var bind interface{}
			label := ""
			if len(v.Lhs) == len(v.Rhs) {
				l := v.Lhs[i]
				if id, ok := l.(*ast.Ident); ok && id.Name != "_" {
					if obj := w.c.Info.ObjectOf(id); obj != nil {
						bind = obj
						label = w.c.fieldOf[obj]
					}
				} else if _, ok := l.(*ast.Ident); !ok {
					label = w.x.canonLabel(w.c, l)
					w.curTarget = l
				}
			} else if len(v.Rhs) == 1 && len(v.Lhs) >= 1 {
				if id, ok := v.Lhs[0].(*ast.Ident); ok && id.Name != "_" {
					if obj := w.c.Info.ObjectOf(id); obj != nil {
						bind = obj
					}
				}
			}
			out = append(out, w.expr(r, bind, label, false, rest)...)
			w.curTarget = nil
		}
		for _, l := range v.Lhs {
			if _, ok := l.(*ast.Ident); !ok {
				out = append(out, w.expr(l, nil, "", false, rest)...)
			}
		}
		return out, false
	case *ast.DeclStmt:
		var out []Node
		if gd, ok := v.Decl.(*ast.GenDecl); ok {
			for _, sp := range gd.Specs {
				if vs, ok := sp.(*ast.ValueSpec); ok {
					for i, val := range vs.Values {
						var bind interface{}
						label := ""
						if i < len(vs.Names) {
							if obj := w.c.Info.Defs[vs.Names[i]]; obj != nil {
								bind = obj
								label = w.c.fieldOf[obj]
							}
						}
						out = append(out, w.expr(val, bind, label, false, rest)...)
					}
				}
			}
		}
		return out, false
	case *ast.ReturnStmt:
		var out []Node
		for _, r := range v.Results {
			out = append(out, w.expr(r, nil, "", false, rest)...)
		}
		return append(out, &Ret{Pos: v.Pos()}), true
	case *ast.IfStmt:
		var out []Node
		if v.Init != nil {
			ns, _ := w.stmt(v.Init, nil)
			out = append(out, ns...)
		}
		out = append(out, w.expr(v.Cond, nil, "", false, rest)...)
		n := &If{Pos: v.Pos(), Cond: w.flagCond(v.Cond), Fn: w.c}
		n.Then = w.block(v.Body.List)
		if v.Else != nil {
			ns, _ := w.stmt(v.Else, nil)
			n.Else = ns
		}
		if hasEvents(n.Then) || hasEvents(n.Else) || hasControl(n.Then) || hasControl(n.Else) {
			out = append(out, n)
		}
		return out, false
	case *ast.SwitchStmt:
		var out []Node
		if v.Init != nil {
			ns, _ := w.stmt(v.Init, nil)
			out = append(out, ns...)
		}
		if v.Tag != nil {
			out = append(out, w.expr(v.Tag, nil, "", false, rest)...)
		}
		// build if-chain; default last
		type arm struct {
			vals []ast.Expr
			body []Node
			pos  token.Pos
		}
		var arms []arm
		var def []Node
		hasDef := false
		for _, cc := range v.Body.List {
			cl := cc.(*ast.CaseClause)
			body := w.block(stripBreak(cl.Body))
			if len(cl.Body) > 0 {
				if br, ok := cl.Body[len(cl.Body)-1].(*ast.BranchStmt); ok && br.Tok == token.FALLTHROUGH {
					body = append(body, &Unknown{Pos: br.Pos(), Reason: "fallthrough"})
				}
			}
			if cl.List == nil {
				def = body
				hasDef = true
				continue
			}
			arms = append(arms, arm{cl.List, body, cl.Pos()})
		}
		_ = hasDef
		mkChain := func(tag ast.Expr) []Node {
			var chain []Node = def
			for i := len(arms) - 1; i >= 0; i-- {
				a := arms[i]
				chain = []Node{&If{Pos: a.pos, Case: &CaseCond{Tag: tag, Vals: a.vals}, Then: a.body, Else: chain, Fn: w.c}}
			}
			return chain
		}
		chain := mkChain(v.Tag)
		// a constant tag (the induction constant of an unrolled loop) selects its arm here
		if v.Tag != nil {
			if tv, ok := w.c.Info.Types[ast.Unparen(v.Tag)]; ok && tv.Value != nil {
				sel := def
				decided := true
				found := false
				for _, a := range arms {
					for _, val := range a.vals {
						cv, ok := w.c.Info.Types[val]
						if !ok || cv.Value == nil {
							decided = false
							continue
						}
						if !found && constant.Compare(cv.Value, token.EQL, tv.Value) {
							sel, found = a.body, true
						}
					}
				}
				if decided {
					if hasEvents(sel) || hasControl(sel) {
						out = append(out, sel...)
					}
					return out, false
				}
			}
		}
		// the tag is a local that holds a field except where one test replaced it by a constant
		// (ver := this.Version; if C { ver = 1 }; switch ver {...}): under C the arm of that constant
		// runs, otherwise the switch is on the field
		if v.Tag != nil {
			if base, cond, k := w.overrideLocal(v.Tag); cond != nil {
				var under []Node = def
				for _, a := range arms {
					for _, val := range a.vals {
						if tv, ok := w.c.Info.Types[val]; ok && tv.Value != nil && constant.Compare(constant.ToInt(tv.Value), token.EQL, k) {
							under = a.body
						}
					}
				}
				chain = []Node{&If{Pos: v.Pos(), Cond: cond, Then: under, Else: mkChain(base), Fn: w.c}}
			}
		}
		if hasEvents(chain) || hasControl(chain) {
			out = append(out, chain...)
		}
		return out, false
	case *ast.TypeSwitchStmt:
		if w.usesStream(v) {
			// the stream is touched only by the operand (`switch mv := ReadValue(in).(type)`), the arms
			// sort out what was read: the operand's events, read once, whatever the arm
			if v.Init == nil && !w.usesStream(v.Body) {
				var ta *ast.TypeAssertExpr
				var bound *ast.Ident
				switch a := v.Assign.(type) {
				case *ast.ExprStmt:
					ta, _ = ast.Unparen(a.X).(*ast.TypeAssertExpr)
				case *ast.AssignStmt:
					if len(a.Rhs) == 1 && len(a.Lhs) == 1 {
						ta, _ = ast.Unparen(a.Rhs[0]).(*ast.TypeAssertExpr)
						bound, _ = a.Lhs[0].(*ast.Ident)
					}
				}
				if ta != nil {
					// a field the arms store the bound value into names what the read is for
					var st ast.Stmt = &ast.ExprStmt{X: ta.X}
					if bound != nil {
						if tgt := w.typeSwitchTarget(v, bound); tgt != nil {
							as := &ast.AssignStmt{Lhs: []ast.Expr{tgt}, TokPos: v.Pos(), Tok: token.ASSIGN, Rhs: []ast.Expr{ta.X}}
							st = as
						}
					}
					ns, _ := w.stmt(st, nil)
					return ns, false
				}
			}
			return []Node{&Unknown{Pos: v.Pos(), Reason: "type switch touching the stream"}}, false
		}
		return nil, false
	case *ast.ForStmt:
		var out []Node
		if v.Init != nil {
			ns, _ := w.stmt(v.Init, nil)
			out = append(out, ns...)
		}
		// a loop whose induction variable runs over a few constants (for bit := 1; bit <= 4; bit <<= 1)
		// is the sequence of its bodies, one per constant
		if iv, vals := constInduction(w.c.Info, v); iv != nil {
			var seq []Node
			for _, k := range vals {
				lit := &ast.BasicLit{ValuePos: v.Pos(), Kind: token.INT, Value: fmt.Sprint(k)}
				w.c.Info.Types[lit] = types.TypeAndValue{Type: iv.Type(), Value: constant.MakeInt64(k)}
				cp, ok := paths.Subst(w.c.Info, &ast.BlockStmt{Lbrace: v.Body.Lbrace, List: normalizeContinue(v.Body.List), Rbrace: v.Body.Rbrace}, map[types.Object]ast.Expr{iv: lit}).(*ast.BlockStmt)
				if !ok {
					seq = nil
					break
				}
				if containsBreak(cp) {
					seq = nil
					break
				}
				seq = append(seq, w.block(cp.List)...)
			}
			if seq != nil {
				return append(out, seq...), false
			}
		}
		nb := &ast.BlockStmt{Lbrace: v.Body.Lbrace, List: normalizeContinue(v.Body.List), Rbrace: v.Body.Rbrace}
		body := w.block(nb.List)
		condEv := w.expr(v.Cond, nil, "", false, nil)
		if len(condEv) > 0 {
			return append(out, &Unknown{Pos: v.Pos(), Reason: "stream event in loop condition"}), false
		}
		if v.Post != nil {
			if pe, _ := w.stmt(v.Post, nil); len(pe) > 0 {
				return append(out, &Unknown{Pos: v.Pos(), Reason: "stream event in loop post statement"}), false
			}
		}
		if !hasEvents(body) {
			return out, false
		}
		lp := &Loop{Pos: v.Pos(), Stmt: v, Body: body, Fn: w.c}
		if be, ok := v.Cond.(*ast.BinaryExpr); ok && (be.Op == token.LSS) {
			lp.Bound = be.Y
			if !w.canonicalCounter(v, be) {
				lp.Bound = nil
				lp.Cond = v.Cond
			}
		} else if cd := countDown(v); cd != nil {
			lp.Bound = cd // for n := <count>; n > 0; n-- runs <count> times
		} else if lx := listIteration(v); lx != nil {
			lp.Range = lx // for e := X.Front(); e != nil; e = e.Next(): X.Len() iterations
		} else if call, ok := v.Cond.(*ast.CallExpr); ok {
			if sel, ok := call.Fun.(*ast.SelectorExpr); ok && sel.Sel.Name == "HasMoreElements" {
				lp.Enum = sel.X
			} else {
				lp.Cond = v.Cond
			}
		} else {
			lp.Cond = v.Cond
		}
		if containsBreak(nb) {
			lp.Body = append(lp.Body, &Unknown{Pos: v.Pos(), Reason: "break/continue inside a stream loop"})
		}
		return append(out, lp), false
	case *ast.RangeStmt:
		nb := &ast.BlockStmt{Lbrace: v.Body.Lbrace, List: normalizeContinue(v.Body.List), Rbrace: v.Body.Rbrace}
		body := w.block(nb.List)
		pre := w.expr(v.X, nil, "", false, nil)
		if !hasEvents(body) {
			return pre, false
		}
		lp := &Loop{Pos: v.Pos(), Stmt: v, Body: body, Range: v.X, Fn: w.c}
		if containsBreak(nb) {
			lp.Body = append(lp.Body, &Unknown{Pos: v.Pos(), Reason: "break/continue inside a stream loop"})
		}
		return append(pre, lp), false
	case *ast.DeferStmt:
		if w.usesStream(v) {
			return []Node{&Unknown{Pos: v.Pos(), Reason: "deferred use of the stream"}}, false
		}
		return nil, false
	case *ast.GoStmt:
		if w.usesStream(v) {
			return []Node{&Unknown{Pos: v.Pos(), Reason: "stream escapes into a goroutine"}}, false
		}
		return nil, false
	case *ast.IncDecStmt, *ast.EmptyStmt:
		return nil, false
	case *ast.BranchStmt:
		return nil, false
	case *ast.LabeledStmt:
		return w.stmt(v.Stmt, rest)
	case *ast.SelectStmt, *ast.SendStmt:
		if w.usesStream(v) {
			return []Node{&Unknown{Pos: v.Pos(), Reason: "select/send touching the stream"}}, false
		}
		return nil, false
	}
	if w.usesStream(s) {
		return []Node{&Unknown{Pos: s.Pos(), Reason: fmt.Sprintf("unsupported statement %T", s)}}, false
	}
	return nil, false
}

func stripBreak(body []ast.Stmt) []ast.Stmt {
	if n := len(body); n > 0 {
		if br, ok := body[n-1].(*ast.BranchStmt); ok && (br.Tok == token.BREAK && br.Label == nil || br.Tok == token.FALLTHROUGH) {
			return body[:n-1]
		}
	}
	return body
}

// normalizeContinue rewrites guard clauses of a loop body into structured form, so that the walk never
// meets a `continue`:   if c { A; continue }; B   ==>   if c { A } else { B }
// (also for the else arm, nested in B, and a trailing continue). The synthesised if statements share
// the original condition and statement nodes, so type information stays valid.
func normalizeContinue(list []ast.Stmt) []ast.Stmt {
	endsInContinue := func(b *ast.BlockStmt) bool {
		if b == nil || len(b.List) == 0 {
			return false
		}
		br, ok := b.List[len(b.List)-1].(*ast.BranchStmt)
		return ok && br.Tok == token.CONTINUE && br.Label == nil
	}
	dropLast := func(b *ast.BlockStmt) *ast.BlockStmt {
		return &ast.BlockStmt{Lbrace: b.Lbrace, List: normalizeContinue(b.List[:len(b.List)-1]), Rbrace: b.Rbrace}
	}
	if n := len(list); n > 0 {
		if br, ok := list[n-1].(*ast.BranchStmt); ok && br.Tok == token.CONTINUE && br.Label == nil {
			return normalizeContinue(list[:n-1])
		}
	}
	for i, s := range list {
		ifs, ok := s.(*ast.IfStmt)
		if !ok {
			continue
		}
		rest := list[i+1:]
		switch {
		case endsInContinue(ifs.Body) && ifs.Else == nil:
			ni := &ast.IfStmt{If: ifs.If, Init: ifs.Init, Cond: ifs.Cond, Body: dropLast(ifs.Body)}
			if len(rest) > 0 {
				ni.Else = &ast.BlockStmt{Lbrace: rest[0].Pos(), List: normalizeContinue(rest), Rbrace: rest[len(rest)-1].End()}
			}
			return append(append([]ast.Stmt{}, list[:i]...), ni)
		case endsInContinue(ifs.Body) && ifs.Else != nil:
			// if c { A; continue } else { E }; B  ==>  if c { A } else { E; B }
			var eb []ast.Stmt
			if blk, ok := ifs.Else.(*ast.BlockStmt); ok {
				eb = append(eb, blk.List...)
			} else {
				eb = append(eb, ifs.Else)
			}
			eb = append(eb, rest...)
			ni := &ast.IfStmt{If: ifs.If, Init: ifs.Init, Cond: ifs.Cond, Body: dropLast(ifs.Body),
				Else: &ast.BlockStmt{Lbrace: ifs.Else.Pos(), List: normalizeContinue(eb), Rbrace: ifs.End()}}
			return append(append([]ast.Stmt{}, list[:i]...), ni)
		}
		if eb, ok := ifs.Else.(*ast.BlockStmt); ok && endsInContinue(eb) {
			// if c { A } else { E; continue }; B  ==>  if c { A; B } else { E }
			tb := append(append([]ast.Stmt{}, ifs.Body.List...), rest...)
			ni := &ast.IfStmt{If: ifs.If, Init: ifs.Init, Cond: ifs.Cond,
				Body: &ast.BlockStmt{Lbrace: ifs.Body.Lbrace, List: normalizeContinue(tb), Rbrace: ifs.Body.Rbrace}, Else: dropLast(eb)}
			return append(append([]ast.Stmt{}, list[:i]...), ni)
		}
	}
	return list
}

// containsBreak: break/continue belonging to this loop (not to nested loops/switches for break).
func containsBreak(body *ast.BlockStmt) bool {
	found := false
	var visit func(n ast.Node, inSwitch bool)
	visit = func(n ast.Node, inSwitch bool) {
		ast.Inspect(n, func(m ast.Node) bool {
			if found || m == nil {
				return false
			}
			switch v := m.(type) {
			case *ast.ForStmt, *ast.RangeStmt, *ast.FuncLit:
				if m != n {
					return false
				}
			case *ast.SwitchStmt:
				if m != n {
					visit(v.Body, true)
					return false
				}
			case *ast.BranchStmt:
				if v.Tok == token.CONTINUE || (v.Tok == token.BREAK && (!inSwitch || v.Label != nil)) || v.Tok == token.GOTO {
					found = true
				}
			}
			return true
		})
	}
	visit(body, false)
	return found
}

// listIteration recognises `for e := X.Front(); e != nil; e = e.Next()` and returns X.
func listIteration(f *ast.ForStmt) ast.Expr {
	init, ok := f.Init.(*ast.AssignStmt)
	if !ok || len(init.Lhs) != 1 || len(init.Rhs) != 1 {
		return nil
	}
	call, ok := init.Rhs[0].(*ast.CallExpr)
	if !ok {
		return nil
	}
	sel, ok := call.Fun.(*ast.SelectorExpr)
	if !ok || sel.Sel.Name != "Front" {
		return nil
	}
	be, ok := f.Cond.(*ast.BinaryExpr)
	if !ok || be.Op != token.NEQ {
		return nil
	}
	post, ok := f.Post.(*ast.AssignStmt)
	if !ok || len(post.Rhs) != 1 {
		return nil
	}
	pc, ok := post.Rhs[0].(*ast.CallExpr)
	if !ok {
		return nil
	}
	if ps, ok := pc.Fun.(*ast.SelectorExpr); !ok || ps.Sel.Name != "Next" {
		return nil
	}
	return sel.X
}

// canonicalCounter: for i := 0; i < N; i++ with i not assigned in the body.
func (w *walker) canonicalCounter(f *ast.ForStmt, cond *ast.BinaryExpr) bool {
	id, ok := ast.Unparen(cond.X).(*ast.Ident)
	if !ok {
		return false
	}
	obj := w.c.Info.ObjectOf(id)
	init, ok := f.Init.(*ast.AssignStmt)
	if !ok || len(init.Lhs) != 1 || len(init.Rhs) != 1 {
		return false
	}
	if lid, ok := init.Lhs[0].(*ast.Ident); !ok || w.c.Info.ObjectOf(lid) != obj {
		return false
	}
	if tv, ok := w.c.Info.Types[init.Rhs[0]]; !ok || tv.Value == nil || tv.Value.ExactString() != "0" {
		return false
	}
	post, ok := f.Post.(*ast.IncDecStmt)
	if !ok || post.Tok != token.INC {
		return false
	}
	if pid, ok := post.X.(*ast.Ident); !ok || w.c.Info.ObjectOf(pid) != obj {
		return false
	}
	// i assigned exactly by init and post
	return len(w.c.defs[obj]) == 2
}

// expr collects, in evaluation order, the stream events inside an expression.
// bind/label/discard apply to the outermost event-producing call.
func (w *walker) expr(e ast.Expr, bind interface{}, label string, discard bool, rest []ast.Stmt) []Node {
	if e == nil {
		return nil
	}
	var out []Node
	top := ast.Unparen(e)
	// peel conversions / transparent wrappers / type assertions to find the outermost call
	core := stripConv(w.c, top)
	var visit func(n ast.Expr, outer bool)
	visit = func(n ast.Expr, outer bool) {
		n = ast.Unparen(n)
		switch v := n.(type) {
		case *ast.CallExpr:
			if inner := stripConv(w.c, v); inner != ast.Expr(v) {
				// conversion / transparent wrapper: the wrapped expression carries the binding
				if outer {
					visit(inner, true)
					return
				}
			}
			w.call(v, &out, outer && v == core, bind, label, discard && v == top, rest, visit)
		case *ast.FuncLit:
			if w.usesStream(v) {
				out = append(out, &Unknown{Pos: v.Pos(), Reason: "stream captured by a closure"})
			}
		case *ast.BinaryExpr:
			if inner := stripConv(w.c, v); inner != ast.Expr(v) && outer {
				visit(inner, true)
				return
			}
			visit(v.X, false)
			visit(v.Y, false)
		case *ast.UnaryExpr:
			visit(v.X, false)
		case *ast.SelectorExpr:
			visit(v.X, false)
		case *ast.IndexExpr:
			visit(v.X, false)
			visit(v.Index, false)
		case *ast.SliceExpr:
			visit(v.X, false)
			for _, s := range []ast.Expr{v.Low, v.High, v.Max} {
				if s != nil {
					visit(s, false)
				}
			}
		case *ast.StarExpr:
			visit(v.X, false)
		case *ast.TypeAssertExpr:
			visit(v.X, outer)
		case *ast.CompositeLit:
			for _, el := range v.Elts {
				if kv, ok := el.(*ast.KeyValueExpr); ok {
					visit(kv.Value, false)
				} else {
					visit(el, false)
				}
			}
		case *ast.KeyValueExpr:
			visit(v.Value, false)
		case *ast.Ident:
			// bare mention of the stream outside a call (assignment, escape)
		}
	}
	visit(top, true)
	return out
}

func (w *walker) isStreamExpr(e ast.Expr) bool {
	e = ast.Unparen(e)
	switch v := e.(type) {
	case *ast.Ident:
		return w.c.Info.ObjectOf(v) == w.stream
	case *ast.CallExpr:
		// chained writer call: s.WriteX(..).WriteY(..)
		if sel, ok := v.Fun.(*ast.SelectorExpr); ok && w.x.IsOut(w.typeOf(v)) {
			return w.isStreamExpr(sel.X)
		}
	}
	return false
}

func (w *walker) typeOf(e ast.Expr) types.Type {
	if tv, ok := w.c.Info.Types[e]; ok && tv.Type != nil {
		return tv.Type
	}
	return types.Typ[types.Invalid]
}

// subWriterOf: if e denotes the bytes of a local sub-writer (o.ToByteArray(), or a local defined so),
// return that sub-writer variable.
func (w *walker) subWriterOf(e ast.Expr, depth int) types.Object {
	e = ast.Unparen(e)
	switch v := e.(type) {
	case *ast.CallExpr:
		if sel, ok := v.Fun.(*ast.SelectorExpr); ok && sel.Sel.Name == "ToByteArray" {
			if id, ok := ast.Unparen(sel.X).(*ast.Ident); ok {
				obj := w.c.Info.ObjectOf(id)
				if obj != nil && w.x.IsOut(obj.Type()) && obj != w.stream {
					return obj
				}
			}
		}
	case *ast.Ident:
		obj := w.c.Info.ObjectOf(v)
		if obj != nil && isLocalVar(obj) && depth < 2 {
			if d := w.c.singleDef(obj); d != nil {
				return w.subWriterOf(d, depth+1)
			}
		}
	}
	return nil
}

// bytesProducer: e is (a local defined as) a call of a module function that builds its result in a
// local root writer and returns its bytes (func (p *T) WriteVer0() []byte).
func (w *walker) bytesProducer(e ast.Expr, depth int) *ast.CallExpr {
	e = ast.Unparen(e)
	switch v := e.(type) {
	case *ast.CallExpr:
		fn := calleeOf(w.c.Info, v)
		if fn == nil {
			return nil
		}
		fi := w.x.P.FuncOf(fn)
		if fi == nil {
			return nil
		}
		for _, a := range v.Args {
			if tv, ok := w.c.Info.Types[a]; ok && w.x.IsStream(tv.Type) {
				return nil
			}
		}
		if outs, _ := w.x.LocalRoots(fi); len(outs) == 1 {
			return v
		}
		// a producer that delegates: it returns the bytes another producer made
		// (func (p *T) ResetTagHash() []byte { b := encodeTags(p.Tags); p.hash = h(b); return b })
		if depth < 2 && w.x.DelegateProducer(fi) != nil {
			return v
		}
	case *ast.Ident:
		obj := w.c.Info.ObjectOf(v)
		if obj != nil && isLocalVar(obj) && depth < 2 {
			if d := w.c.singleDef(obj); d != nil {
				return w.bytesProducer(d, depth+1)
			}
		}
	}
	return nil
}

// DelegateProducer: for a function without a root stream of its own whose every return statement
// returns bytes made by one and the same bytes-producing call in its body, that call.
func (x *Extractor) DelegateProducer(fi *core.FuncInfo) *ast.CallExpr {
	if fi == nil || fi.Decl.Body == nil {
		return nil
	}
	sig, _ := fi.Obj.Type().(*types.Signature)
	if sig == nil || sig.Results().Len() != 1 {
		return nil
	}
	if sl, ok := sig.Results().At(0).Type().Underlying().(*types.Slice); !ok || !types.Identical(sl.Elem(), types.Typ[types.Uint8]) {
		return nil
	}
	cw := &walker{x: x, c: x.Ctx(fi)}
	var found *ast.CallExpr
	okAll := true
	n := 0
	ast.Inspect(fi.Decl.Body, func(m ast.Node) bool {
		switch v := m.(type) {
		case *ast.FuncLit:
			return false
		case *ast.ReturnStmt:
			n++
			if len(v.Results) != 1 {
				okAll = false
				return true
			}
			pc := cw.bytesProducer(v.Results[0], 1)
			if pc == nil || (found != nil && found != pc) {
				okAll = false
			}
			found = pc
		}
		return true
	})
	if !okAll || n == 0 {
		return nil
	}
	return found
}

// eitherProducer: e is a local assigned exactly twice, once in each arm of one if/else statement, each
// time from a bytes-producing call: the condition and the two producers.
func (w *walker) eitherProducer(e ast.Expr) (ast.Expr, *ast.CallExpr, *ast.CallExpr) {
	id, ok := ast.Unparen(e).(*ast.Ident)
	if !ok {
		return nil, nil, nil
	}
	obj := w.c.Info.ObjectOf(id)
	if obj == nil || !isLocalVar(obj) {
		return nil, nil, nil
	}
	assignsIn := func(list []ast.Stmt) (ast.Expr, int) {
		var rhs ast.Expr
		n := 0
		for _, st := range list {
			ast.Inspect(st, func(m ast.Node) bool {
				if as, ok := m.(*ast.AssignStmt); ok && len(as.Lhs) == len(as.Rhs) {
					for i, l := range as.Lhs {
						if lid, ok := l.(*ast.Ident); ok && w.c.Info.ObjectOf(lid) == obj {
							rhs = as.Rhs[i]
							n++
						}
					}
				}
				return true
			})
		}
		return rhs, n
	}
	total := 0
	ast.Inspect(w.c.FI.Decl.Body, func(m ast.Node) bool {
		switch v := m.(type) {
		case *ast.AssignStmt:
			for _, l := range v.Lhs {
				if lid, ok := l.(*ast.Ident); ok && w.c.Info.ObjectOf(lid) == obj {
					total++
				}
			}
		case *ast.ValueSpec:
			for i, nm := range v.Names {
				if w.c.Info.Defs[nm] == obj && i < len(v.Values) {
					total++
				}
			}
		}
		return true
	})
	if total != 2 {
		return nil, nil, nil
	}
	var cond ast.Expr
	var pa, pb *ast.CallExpr
	ast.Inspect(w.c.FI.Decl.Body, func(m ast.Node) bool {
		ifs, ok := m.(*ast.IfStmt)
		if !ok || cond != nil || ifs.Init != nil {
			return true
		}
		els, ok := ifs.Else.(*ast.BlockStmt)
		if !ok {
			return true
		}
		ra, na := assignsIn(ifs.Body.List)
		rb, nb := assignsIn(els.List)
		if na != 1 || nb != 1 {
			return true
		}
		a, b := w.bytesProducer(ra, 1), w.bytesProducer(rb, 1)
		if a != nil && b != nil {
			cond, pa, pb = ifs.Cond, a, b
		}
		return true
	})
	return cond, pa, pb
}

// bytesConsumer: the bytes held in local o are handed (once) to a module function that opens a local
// root reader over its parameter (func (p *T) ReadVer0(b []byte)).
func (w *walker) bytesConsumer(o types.Object) *ast.CallExpr {
	var found *ast.CallExpr
	n := 0
	ast.Inspect(w.c.FI.Decl.Body, func(m ast.Node) bool {
		call, ok := m.(*ast.CallExpr)
		if !ok {
			return true
		}
		for _, a := range call.Args {
			if id, ok := ast.Unparen(a).(*ast.Ident); ok && w.c.Info.ObjectOf(id) == o {
				fn := calleeOf(w.c.Info, call)
				if fn == nil {
					continue
				}
				if fi := w.x.P.FuncOf(fn); fi != nil {
					if _, ins := w.x.LocalRoots(fi); len(ins) == 1 {
						found = call
						n++
					}
				}
			}
		}
		return true
	})
	if n == 1 {
		return found
	}
	return nil
}

// LocalRoots: local root streams of a function without stream parameters:
// o := io.NewDataOutputX() / in := io.NewDataInputX(<not a read of another stream>).
func (x *Extractor) LocalRoots(fi *core.FuncInfo) (outs, ins []types.Object) {
	if po, pi := x.StreamParams(fi); len(po)+len(pi) > 0 || fi.Decl.Body == nil {
		return nil, nil
	}
	c := x.Ctx(fi)
	info := c.Info
	ast.Inspect(fi.Decl.Body, func(n ast.Node) bool {
		as, ok := n.(*ast.AssignStmt)
		if !ok || len(as.Lhs) != 1 || len(as.Rhs) != 1 {
			return true
		}
		id, ok := as.Lhs[0].(*ast.Ident)
		if !ok {
			return true
		}
		obj := info.Defs[id]
		if obj == nil {
			return true
		}
		call, ok := as.Rhs[0].(*ast.CallExpr)
		if !ok {
			return true
		}
		if x.IsOut(obj.Type()) && x.isIOFunc(c, call, "NewDataOutputX") {
			outs = append(outs, obj)
		}
		if x.IsIn(obj.Type()) && x.isIOFunc(c, call, "NewDataInputX") && len(call.Args) == 1 {
			nested := false
			ast.Inspect(call.Args[0], func(m ast.Node) bool {
				if cc, ok := m.(*ast.CallExpr); ok {
					if sel, ok := cc.Fun.(*ast.SelectorExpr); ok && strings.HasPrefix(sel.Sel.Name, "Read") {
						if tv, ok := info.Types[sel.X]; ok && x.IsIn(tv.Type) {
							nested = true
						}
					}
				}
				if id, ok := m.(*ast.Ident); ok {
					if o := info.ObjectOf(id); o != nil {
						if _, isSub := c.subIn[o]; isSub && isLocalVar(o) {
							if d := c.singleDef(o); d != nil {
								if dc, ok := stripConv(c, d).(*ast.CallExpr); ok {
									if sel, ok := dc.Fun.(*ast.SelectorExpr); ok && strings.HasPrefix(sel.Sel.Name, "Read") {
										if tv, ok := info.Types[sel.X]; ok && x.IsIn(tv.Type) {
											nested = true
										}
									}
								}
							}
						}
					}
				}
				return true
			})
			if !nested {
				ins = append(ins, obj)
			}
		}
		return true
	})
	if len(outs) == 0 && len(ins) == 0 {
		// a writer that lays its bytes out with encoding/binary into the buffer it returns
		if br := x.ByteRoot(fi); br != nil && x.assemblesWithBinary(fi, br) {
			outs = append(outs, br)
		}
	}
	return
}

// assemblesWithBinary: the function writes its root buffer through binary.BigEndian Put…/Append…
// (at least once), and every such call targets the root itself (or a constant-offset slice of it).
func (x *Extractor) assemblesWithBinary(fi *core.FuncInfo, root types.Object) bool {
	info := fi.Pkg.TypesInfo
	uses, foreign := 0, 0
	// cursor slices of the root introduced in a for clause (for i, cell := 0, buf; …; cell = cell[W:])
	cursors := map[types.Object]bool{}
	ast.Inspect(fi.Decl.Body, func(n ast.Node) bool {
		if f, ok := n.(*ast.ForStmt); ok {
			if init, ok := f.Init.(*ast.AssignStmt); ok && init.Tok == token.DEFINE && len(init.Lhs) == len(init.Rhs) {
				for i, r := range init.Rhs {
					if rid, ok := ast.Unparen(r).(*ast.Ident); ok && info.ObjectOf(rid) == root {
						if lid, ok := init.Lhs[i].(*ast.Ident); ok {
							cursors[info.ObjectOf(lid)] = true
						}
					}
				}
			}
		}
		return true
	})
	ast.Inspect(fi.Decl.Body, func(n ast.Node) bool {
		call, ok := n.(*ast.CallExpr)
		if !ok || len(call.Args) < 2 {
			return true
		}
		sel, ok := call.Fun.(*ast.SelectorExpr)
		if !ok || !(strings.HasPrefix(sel.Sel.Name, "Put") || strings.HasPrefix(sel.Sel.Name, "Append")) {
			return true
		}
		inner, ok := ast.Unparen(sel.X).(*ast.SelectorExpr)
		if !ok || inner.Sel.Name != "BigEndian" {
			return true
		}
		dst := ast.Unparen(call.Args[0])
		if sl, ok := dst.(*ast.SliceExpr); ok {
			dst = ast.Unparen(sl.X)
		}
		if id, ok := dst.(*ast.Ident); ok && (info.ObjectOf(id) == root || cursors[info.ObjectOf(id)]) {
			uses++
		} else {
			foreign++
		}
		return true
	})
	return uses > 0 && foreign == 0
}

// RootSource: for a local root reader `in := io.NewDataInputX(src)`, the src expression.
func (x *Extractor) RootSource(fi *core.FuncInfo, root types.Object) ast.Expr {
	c := x.Ctx(fi)
	if d := c.singleDef(root); d != nil {
		if call, ok := d.(*ast.CallExpr); ok && len(call.Args) == 1 {
			return call.Args[0]
		}
	}
	return nil
}

// subGrammar extracts the grammar of a local sub-stream over its whole declaring function body
// (events on it are projected out of the enclosing function).
func (w *walker) subGrammar(sub types.Object) []Node {
	// find the block declaring sub and project from there
	var stmts []ast.Stmt
	ast.Inspect(w.c.FI.Decl.Body, func(n ast.Node) bool {
		if stmts != nil {
			return false
		}
		var list []ast.Stmt
		switch b := n.(type) {
		case *ast.BlockStmt:
			list = b.List
		case *ast.CaseClause:
			list = b.Body
		default:
			return true
		}
		for i, s := range list {
			declares := false
			switch d := s.(type) {
			case *ast.AssignStmt:
				if d.Tok == token.DEFINE {
					for _, l := range d.Lhs {
						if id, ok := l.(*ast.Ident); ok && w.c.Info.Defs[id] == sub {
							declares = true
						}
					}
				}
			case *ast.DeclStmt:
				if gd, ok := d.Decl.(*ast.GenDecl); ok {
					for _, sp := range gd.Specs {
						if vs, ok := sp.(*ast.ValueSpec); ok {
							for _, nm := range vs.Names {
								if w.c.Info.Defs[nm] == sub {
									declares = true
								}
							}
						}
					}
				}
			}
			if declares {
				stmts = list[i+1:]
				return false
			}
		}
		return true
	})
	if stmts == nil {
		return []Node{&Unknown{Pos: sub.Pos(), Reason: "sub-stream declaration not found in a block"}}
	}
	sw := &walker{x: w.x, c: w.c, stream: sub, out: w.x.IsOut(sub.Type())}
	g := sw.block(stmts)
	// a trailing Ret produced by the enclosing function's return is not part of the sub-stream
	for len(g) > 0 {
		if _, ok := g[len(g)-1].(*Ret); ok {
			g = g[:len(g)-1]
			continue
		}
		break
	}
	return g
}

var framedKinds = map[string]bool{"Blob": true, "IntBytes": true, "ShortBytes": true, "Bytes": true, "IntBytesLimit": true}

func (w *walker) call(v *ast.CallExpr, out *[]Node, outer bool, bind interface{}, label string, discard bool, rest []ast.Stmt, visit func(ast.Expr, bool)) {
	var b interface{}
	lbl := ""
	if outer {
		b, lbl = bind, label
	}
	sel, isSel := v.Fun.(*ast.SelectorExpr)
	// 1. primitive on the stream
	if isSel && w.isStreamExpr(sel.X) {
		// chained receiver events first
		if _, ok := ast.Unparen(sel.X).(*ast.CallExpr); ok {
			visit(sel.X, false)
		}
		fn := calleeOf(w.c.Info, v)
		name := sel.Sel.Name
		switch {
		case strings.HasPrefix(name, "Write") && w.out:
			kind := strings.TrimPrefix(name, "Write")
			if kind == "" {
				kind = "Slice"
			}
			p := &Prim{Pos: v.Pos(), Kind: kind, Method: fn, Call: v, Fn: w.c}
			if len(v.Args) > 0 {
				p.Arg = v.Args[0]
				// events inside the argument come first
				for _, a := range v.Args {
					visit(a, false)
				}
				if tv, ok := w.c.Info.Types[v.Args[0]]; ok && tv.Value != nil {
					p.Const = tv.Value
				} else if cst := w.constOf(v.Args[0]); cst != nil {
					p.Const = cst
				}
				p.Label = w.x.canonLabel(w.c, v.Args[0])
				if framedKinds[kind] {
					if sub := w.subWriterOf(v.Args[0], 0); sub != nil {
						*out = append(*out, &Nested{Pos: v.Pos(), Frame: kind, Body: w.subGrammar(sub), Fn: w.c})
						return
					}
					if pc := w.bytesProducer(v.Args[0], 0); pc != nil {
						cn := &Call{Pos: pc.Pos(), Callee: calleeOf(w.c.Info, pc), Expr: pc, Fn: w.c, StreamArg: -3}
						*out = append(*out, &Nested{Pos: v.Pos(), Frame: kind, Body: []Node{cn}, Fn: w.c})
						return
					}
					// a fixed-size buffer assembled in place (SetBytesLong(buf[:], off, this.Sum), ...) and
					// written in one go: the byte-level interpreter says which field's bytes sit where
					if kind == "Bytes" {
						if prims := w.bufferPrims(v); prims != nil {
							*out = append(*out, prims...)
							return
						}
					}
					// a buffer filled by one of two producers, chosen by an earlier if/else
					// (`if c { b = encodeA() } else { b = encodeB() }; ...; out.WriteBytes(b)`): the
					// write stands for that choice (the condition keeps its meaning from where it was
					// tested: the matcher names conditions, it does not re-evaluate them)
					if cond, pa, pb := w.eitherProducer(v.Args[0]); cond != nil {
						mk := func(pc *ast.CallExpr) []Node {
							cn := &Call{Pos: pc.Pos(), Callee: calleeOf(w.c.Info, pc), Expr: pc, Fn: w.c, StreamArg: -3}
							return []Node{&Nested{Pos: v.Pos(), Frame: kind, Body: []Node{cn}, Fn: w.c}}
						}
						*out = append(*out, &If{Pos: v.Pos(), Cond: cond, Then: mk(pa), Else: mk(pb), Fn: w.c})
						return
					}
				}
			}
			// a local holding a field except where one test replaced it by a constant
			if p.Const == nil && len(v.Args) == 1 {
				if base, cond, k := w.overrideLocal(v.Args[0]); cond != nil {
					pt, pf := *p, *p
					pt.Const, pt.Label = k, ""
					pf.Arg, pf.Label = base, w.x.canonLabel(w.c, base)
					*out = append(*out, &If{Pos: v.Pos(), Cond: cond, Then: []Node{&pt}, Else: []Node{&pf}, Fn: w.c})
					return
				}
			}
			// a tag local set from one test (`var tag byte; if C { tag = 6 }; out.WriteByte(tag)`):
			// the write stands for `if C { WriteByte(6) } else { WriteByte(0) }`
			if p.Const == nil && len(v.Args) == 1 {
				if cond, k, zero := w.flagLocal(v.Args[0]); cond != nil {
					pt, pf := *p, *p
					pt.Const, pf.Const = k, zero
					pt.Label, pf.Label = "", ""
					*out = append(*out, &If{Pos: v.Pos(), Cond: cond, Then: []Node{&pt}, Else: []Node{&pf}, Fn: w.c})
					return
				}
			}
			// WriteBool(b) with b a boolean variable/expression: the same as
			// `if b { WriteBool(true) } else { WriteBool(false) }`, which lets the reader's branch on
			// the value it read line up with the writer's later `if b { ... }`
			if kind == "Bool" && p.Const == nil && len(v.Args) == 1 {
				if tv, ok := w.c.Info.Types[v.Args[0]]; ok && tv.Type != nil {
					if b, ok := tv.Type.Underlying().(*types.Basic); ok && b.Info()&types.IsBoolean != 0 {
						if _, isCall := ast.Unparen(v.Args[0]).(*ast.CallExpr); !isCall {
							pt, pf := *p, *p
							pt.Const, pf.Const = constant.MakeBool(true), constant.MakeBool(false)
							pt.Label, pf.Label = "", ""
							*out = append(*out, &If{Pos: v.Pos(), Cond: v.Args[0], Then: []Node{&pt}, Else: []Node{&pf}, Fn: w.c})
							return
						}
					}
				}
			}
			*out = append(*out, p)
			return
		case strings.HasPrefix(name, "Read") && !w.out:
			kind := strings.TrimPrefix(name, "Read")
			for _, a := range v.Args {
				visit(a, false)
			}
			p := &Prim{Pos: v.Pos(), Kind: kind, Method: fn, Call: v, Fn: w.c, Bind: b, Label: lbl, Discard: discard}
			if outer && lbl != "" {
				p.Target = w.curTarget
			}
			if p.Bind == nil {
				p.Bind = v
			}
			if len(v.Args) > 0 {
				p.LenArg = v.Args[0]
			}
			if framedKinds[kind] {
				var sub types.Object
				if s, ok := w.c.subIn[v]; ok {
					sub = s
				} else if o, ok := b.(types.Object); ok {
					if s, ok := w.c.subIn[o]; ok {
						sub = s
					}
				}
				if sub != nil {
					*out = append(*out, &Nested{Pos: v.Pos(), Frame: kind, Body: w.subGrammar(sub), Fn: w.c})
					return
				}
				if o, ok := b.(types.Object); ok {
					if cc := w.bytesConsumer(o); cc != nil {
						cn := &Call{Pos: cc.Pos(), Callee: calleeOf(w.c.Info, cc), Expr: cc, Fn: w.c, StreamArg: -3}
						*out = append(*out, &Nested{Pos: v.Pos(), Frame: kind, Body: []Node{cn}, Fn: w.c})
						return
					}
				}
			}
			*out = append(*out, p)
			return
		case name == "ToByteArray" || name == "Size" || name == "Available":
			return
		case name == "WriteHeader" || name == "WriteOneWayHeader" || name == "WriteSecureHeader":
			*out = append(*out, &Call{Pos: v.Pos(), Callee: fn, Expr: v, Fn: w.c, StreamArg: -1})
			return
		default:
			// an unexported accessor of the stream type itself whose body is one `return <expr>`
			// (func (in *DataInputX) readArrayLen() int { return int(in.ReadShort()) }): the call
			// stands for that expression, read on the caller's stream
			if fn != nil {
				if hf := w.x.P.FuncOf(fn); hf != nil && hf.Decl.Body != nil && len(hf.Decl.Body.List) == 1 && len(v.Args) == 0 && hf.Pkg == w.c.FI.Pkg {
					if rs, ok := hf.Decl.Body.List[0].(*ast.ReturnStmt); ok && len(rs.Results) == 1 && hf.Decl.Recv != nil && len(hf.Decl.Recv.List) == 1 && len(hf.Decl.Recv.List[0].Names) == 1 {
						repl := map[types.Object]ast.Expr{w.c.Info.Defs[hf.Decl.Recv.List[0].Names[0]]: sel.X}
						ex, cached := w.x.accessor[v]
						if !cached {
							ex, _ = paths.Subst(w.c.Info, rs.Results[0], repl).(ast.Expr)
							if w.x.accessor == nil {
								w.x.accessor = map[*ast.CallExpr]ast.Expr{}
							}
							w.x.accessor[v] = ex
						}
						if ex != nil {
							visit(ex, outer)
							return
						}
					}
				}
			}
			// an unexported method of the stream type with a body of its own (a helper the stream's
			// exported methods share): followed like any helper that is handed the stream, which here is
			// its receiver
			if fn != nil && !fn.Exported() {
				if hf := w.x.P.FuncOf(fn); hf != nil && hf.Decl.Body != nil && hf.Pkg == w.c.FI.Pkg && hf != w.c.FI {
					for _, a := range v.Args {
						visit(a, false)
					}
					*out = append(*out, &Call{Pos: v.Pos(), Callee: fn, Expr: v, Fn: w.c, StreamArg: -1})
					return
				}
			}
			*out = append(*out, &Unknown{Pos: v.Pos(), Reason: "unclassified stream method " + name})
			return
		}
	}
	// 2. io.NewDataInputX(x): argument events handled by visiting args (Nested produced at the prim)
	// 3. stream passed as an argument or used as receiver of a non-primitive
	streamArg := -2
	for i, a := range v.Args {
		if w.isStreamExpr(a) {
			streamArg = i
		}
	}
	if streamArg == -2 {
		// plain call: look for events in receiver and args
		if isSel {
			visit(sel.X, false)
		}
		for _, a := range v.Args {
			visit(a, false)
		}
		return
	}
	// events in other args first
	if isSel {
		visit(sel.X, false)
	}
	for i, a := range v.Args {
		if i != streamArg {
			visit(a, false)
		}
	}
	fn := calleeOf(w.c.Info, v)
	if fn == nil {
		*out = append(*out, &Unknown{Pos: v.Pos(), Reason: "stream passed to a function value"})
		return
	}
	cn := &Call{Pos: v.Pos(), Callee: fn, Expr: v, Fn: w.c, StreamArg: streamArg, Bind: b}
	if sig, ok := fn.Type().(*types.Signature); ok && sig.Recv() != nil {
		if _, isIface := sig.Recv().Type().Underlying().(*types.Interface); isIface {
			cn.Iface = true
		}
	}
	if w.out {
		// label: receiver of a method (this.Tags.Write(out)) or first non-stream arg (WriteValue(out, this.Tags))
		if isSel {
			if _, ok := w.c.Info.Selections[sel]; ok {
				cn.Label = w.x.canonLabel(w.c, sel.X)
			}
		}
		if cn.Label == "" || cn.Label == "recv" {
			for i, a := range v.Args {
				if i != streamArg {
					if l := w.x.canonLabel(w.c, a); l != "" {
						cn.Label = l
					}
					break
				}
			}
		}
	} else {
		cn.Label = lbl
		if cn.Label == "" && isSel {
			if _, ok := w.c.Info.Selections[sel]; ok {
				cn.Label = w.x.canonLabel(w.c, sel.X)
			}
		}
	}
	*out = append(*out, cn)
}

// constOf: constant value of an expression: a typed constant, or a statically dispatched call of a
// module method whose body is `return <constant>` (GetValueType() on a concrete type).
func (w *walker) constOf(e ast.Expr) constant.Value {
	e = stripConv(w.c, e)
	if tv, ok := w.c.Info.Types[e]; ok && tv.Value != nil {
		return tv.Value
	}
	if call, ok := e.(*ast.CallExpr); ok && len(call.Args) == 0 {
		return w.x.ConstGetter(w.c.Info, call)
	}
	return nil
}

// ConstGetter: value of x.M() when M is statically resolved and its body is `return <constant>`.
func (x *Extractor) ConstGetter(info *types.Info, call *ast.CallExpr) constant.Value {
	fn := calleeOf(info, call)
	if fn == nil {
		return nil
	}
	sig, _ := fn.Type().(*types.Signature)
	if sig == nil || sig.Recv() == nil {
		return nil
	}
	if _, isIface := sig.Recv().Type().Underlying().(*types.Interface); isIface {
		return nil
	}
	fi := x.P.FuncOf(fn)
	if fi == nil || fi.Decl.Body == nil || len(fi.Decl.Body.List) != 1 {
		return nil
	}
	ret, ok := fi.Decl.Body.List[0].(*ast.ReturnStmt)
	if !ok || len(ret.Results) != 1 {
		return nil
	}
	if tv, ok := fi.Pkg.TypesInfo.Types[ret.Results[0]]; ok && tv.Value != nil {
		return tv.Value
	}
	return nil
}

// Dump renders a grammar for diagnostics.
func (x *Extractor) Dump(ns []Node, indent string) string {
	var sb strings.Builder
	for _, n := range ns {
		switch v := n.(type) {
		case *Prim:
			c := ""
			if v.Const != nil {
				c = "=" + v.Const.ExactString()
			}
			fmt.Fprintf(&sb, "%s%s%s %s\n", indent, v.Kind, c, v.Label)
		case *If:
			fmt.Fprintf(&sb, "%sif@%s {\n%s%s} else {\n%s%s}\n", indent, x.P.Pos(v.Pos), x.Dump(v.Then, indent+"  "), indent, x.Dump(v.Else, indent+"  "), indent)
		case *Loop:
			fmt.Fprintf(&sb, "%sloop {\n%s%s}\n", indent, x.Dump(v.Body, indent+"  "), indent)
		case *Call:
			fmt.Fprintf(&sb, "%scall %s %s\n", indent, core.FuncName(v.Callee), v.Label)
		case *Nested:
			fmt.Fprintf(&sb, "%snested %s {\n%s%s}\n", indent, v.Frame, x.Dump(v.Body, indent+"  "), indent)
		case *Ret:
			fmt.Fprintf(&sb, "%sreturn\n", indent)
		case *Panic:
			fmt.Fprintf(&sb, "%spanic\n", indent)
		case *Unknown:
			fmt.Fprintf(&sb, "%sUNKNOWN %s\n", indent, v.Reason)
		}
	}
	return sb.String()
}

// countDown: `for n := E; n > 0; n--` (also n != 0, 0 < n, n -= 1) runs E times; returns the counter
// identifier (its initial value is what the init statement bound it to).
func countDown(f *ast.ForStmt) ast.Expr {
	be, ok := ast.Unparen(f.Cond).(*ast.BinaryExpr)
	if !ok {
		return nil
	}
	if f.Init == nil {
		// for ; remaining > 0; remaining-- : the counter was bound before the loop
		var cid *ast.Ident
		if x, ok := ast.Unparen(be.X).(*ast.Ident); ok {
			cid = x
		} else if y, ok := ast.Unparen(be.Y).(*ast.Ident); ok {
			cid = y
		}
		if cid == nil {
			return nil
		}
		isC := func(e ast.Expr) bool { x, ok := ast.Unparen(e).(*ast.Ident); return ok && x.Name == cid.Name }
		isZ := func(e ast.Expr) bool { b, ok := ast.Unparen(e).(*ast.BasicLit); return ok && b.Value == "0" }
		if !(((be.Op == token.GTR || be.Op == token.NEQ) && isC(be.X) && isZ(be.Y)) || (be.Op == token.LSS && isZ(be.X) && isC(be.Y))) {
			return nil
		}
		switch p := f.Post.(type) {
		case *ast.IncDecStmt:
			if p.Tok == token.DEC && isC(p.X) {
				return cid
			}
		case *ast.AssignStmt:
			if p.Tok == token.SUB_ASSIGN && len(p.Lhs) == 1 && len(p.Rhs) == 1 && isC(p.Lhs[0]) {
				if b, ok := ast.Unparen(p.Rhs[0]).(*ast.BasicLit); ok && b.Value == "1" {
					return cid
				}
			}
		}
		return nil
	}
	init, ok := f.Init.(*ast.AssignStmt)
	if !ok || len(init.Lhs) != 1 || len(init.Rhs) != 1 {
		return nil
	}
	id, ok := init.Lhs[0].(*ast.Ident)
	if !ok {
		return nil
	}
	isID := func(e ast.Expr) bool { x, ok := ast.Unparen(e).(*ast.Ident); return ok && x.Name == id.Name }
	isZero := func(e ast.Expr) bool { b, ok := ast.Unparen(e).(*ast.BasicLit); return ok && b.Value == "0" }
	condOK := ((be.Op == token.GTR || be.Op == token.NEQ) && isID(be.X) && isZero(be.Y)) || (be.Op == token.LSS && isZero(be.X) && isID(be.Y))
	if !condOK {
		return nil
	}
	// the count: the initial value itself when it is a plain variable or field (this.RecordCount),
	// else the counter (bound by the init statement to what it read)
	var count ast.Expr = id
	rhs := ast.Unparen(init.Rhs[0])
	for {
		if call, ok := rhs.(*ast.CallExpr); ok && len(call.Args) == 1 {
			if fid, ok := call.Fun.(*ast.Ident); ok && (fid.Name == "int" || fid.Name == "int32" || fid.Name == "int64" || fid.Name == "uint" || fid.Name == "uint32") {
				rhs = ast.Unparen(call.Args[0])
				continue
			}
		}
		break
	}
	switch rhs.(type) {
	case *ast.Ident, *ast.SelectorExpr:
		count = rhs
	}
	switch p := f.Post.(type) {
	case *ast.IncDecStmt:
		if p.Tok == token.DEC && isID(p.X) {
			return count
		}
	case *ast.AssignStmt:
		if p.Tok == token.SUB_ASSIGN && len(p.Lhs) == 1 && len(p.Rhs) == 1 && isID(p.Lhs[0]) {
			if b, ok := ast.Unparen(p.Rhs[0]).(*ast.BasicLit); ok && b.Value == "1" {
				return count
			}
		}
	}
	return nil
}

// bufferPrims: `out.WriteBytes(buf)` where buf is a local buffer of fixed size that the function filled
// in place before this call. The function body is interpreted at bit level (E2) with every field of
// the receiver standing for a named input; the buffer must come out as a sequence of whole fields in
// big-endian byte order (constants allowed in between). The write then reads as the corresponding
// sequence of primitive writes, one per field. nil: not such a buffer (the caller falls back).
func (w *walker) bufferPrims(call *ast.CallExpr) []Node {
	if len(call.Args) != 1 || w.c.FI == nil || w.c.FI.Decl.Body == nil {
		return nil
	}
	arg := ast.Unparen(call.Args[0])
	if se, ok := arg.(*ast.SliceExpr); ok && se.Low == nil && se.High == nil {
		arg = ast.Unparen(se.X)
	}
	id, ok := arg.(*ast.Ident)
	if !ok {
		return nil
	}
	if obj := w.c.Info.ObjectOf(id); obj == nil || !isLocalVar(obj) {
		return nil
	}
	info := w.c.Info
	fields := map[string]ast.Expr{}
	ip := &bits.Interp{P: w.x.P}
	ip.Sel = func(sel *ast.SelectorExpr) *bits.Value {
		lbl := w.x.canonLabel(w.c, sel)
		if !isFieldLabel(lbl) {
			return nil
		}
		t := info.TypeOf(sel)
		b, ok := t.Underlying().(*types.Basic)
		if !ok {
			return nil
		}
		width := 0
		signed := false
		switch b.Kind() {
		case types.Int8, types.Uint8, types.Bool:
			width = 8
		case types.Int16, types.Uint16:
			width = 16
		case types.Int32, types.Uint32, types.Float32:
			width = 32
		case types.Int64, types.Uint64, types.Int, types.Uint, types.Float64:
			width = 64
		default:
			return nil
		}
		if b.Info()&types.IsInteger != 0 && b.Info()&types.IsUnsigned == 0 {
			signed = true
		}
		if _, seen := fields[lbl]; !seen {
			fields[lbl] = sel
		}
		return &bits.Value{V: bits.Input(lbl, width), Sign: signed}
	}
	var captured *bits.Value
	ip.CallHook = func(f *bits.Frame, c *ast.CallExpr) (*bits.Value, bool) {
		sel, ok := c.Fun.(*ast.SelectorExpr)
		if !ok {
			return nil, false
		}
		if tv, ok := f.Info().Types[sel.X]; !ok || !w.x.IsStream(tv.Type) {
			return nil, false
		}
		if c == call {
			captured = ip.Eval(f, c.Args[0], nil)
		}
		return &bits.Value{V: bits.Zero(1)}, true
	}
	fr := ip.NewFrame(w.c.FI)
	bufObj := w.c.Info.ObjectOf(id)
	steps, okPath := straightLineTo(w.c.Info, w.c.FI.Decl.Body, call, bufObj)
	if !okPath {
		return nil
	}
	for _, st := range steps {
		if fr.Err() != "" || captured != nil {
			break
		}
		if _, isRet := st.(*ast.ReturnStmt); isRet {
			break
		}
		ip.Exec(fr, st)
	}
	if captured == nil || captured.B == nil || captured.B.Len <= 0 || captured.B.Len > 256 {
		return nil
	}
	// segment the cells into whole fields
	type seg struct {
		label string
		width int // bytes
	}
	var segs []seg
	n := captured.B.Len
	for i := 0; i < n; {
		cell, has := captured.B.Cell(i)
		if !has {
			return nil
		}
		lbl, byteIdx, ok := cellOfInput(cell)
		if !ok {
			return nil
		}
		// a field starts with its most significant byte: byteIdx+1 bytes follow in descending order
		width := byteIdx + 1
		if i+width > n {
			return nil
		}
		for k := 1; k < width; k++ {
			c2, has := captured.B.Cell(i + k)
			if !has {
				return nil
			}
			l2, b2, ok := cellOfInput(c2)
			if !ok || l2 != lbl || b2 != byteIdx-k {
				return nil
			}
		}
		segs = append(segs, seg{lbl, width})
		i += width
	}
	var out []Node
	for _, sg := range segs {
		fe := fields[sg.label]
		if fe == nil {
			return nil
		}
		b, _ := info.TypeOf(fe).Underlying().(*types.Basic)
		if b == nil {
			return nil
		}
		declared := 0
		switch b.Kind() {
		case types.Int8, types.Uint8, types.Bool:
			declared = 1
		case types.Int16, types.Uint16:
			declared = 2
		case types.Int32, types.Uint32, types.Float32:
			declared = 4
		default:
			declared = 8
		}
		kind := ""
		switch {
		case b.Kind() == types.Float64 && sg.width == 8:
			kind = "Double"
		case b.Kind() == types.Float32 && sg.width == 4:
			kind = "Float"
		case sg.width == 1:
			kind = "Byte"
		case sg.width == 2:
			kind = "Short"
		case sg.width == 3:
			kind = "Int3"
		case sg.width == 4:
			kind = "Int"
		case sg.width == 5:
			kind = "Long5"
		case sg.width == 8:
			kind = "Long"
		default:
			return nil
		}
		if sg.width > declared {
			return nil
		}
		out = append(out, &Prim{Pos: call.Pos(), Kind: kind, Call: call, Arg: fe, Label: sg.label, Fn: w.c})
	}
	return out
}

// cellOfInput: the 8-bit cell is exactly byte k (bits 8k..8k+7, in order) of one named input.
func cellOfInput(cell bits.Vec) (string, int, bool) {
	if len(cell) != 8 {
		return "", 0, false
	}
	name := ""
	base := -1
	for j, b := range cell {
		if b.Top || b.C || len(b.Terms) != 1 {
			return "", 0, false
		}
		t := b.Terms[0]
		dot := strings.LastIndex(t, ".")
		if dot < 0 {
			return "", 0, false
		}
		var idx int
		if _, err := fmt.Sscanf(t[dot+1:], "%d", &idx); err != nil {
			return "", 0, false
		}
		if j == 0 {
			if idx%8 != 0 {
				return "", 0, false
			}
			name, base = t[:dot], idx
		} else if t[:dot] != name || idx != base+j {
			return "", 0, false
		}
	}
	return name, base / 8, true
}

// flagLocal: e is a local that is declared with the zero value and assigned exactly once more, a
// non-zero constant K, directly in the body of an `if C { x = K }` without else: the condition C, K and
// the zero constant. (cond == nil: not such a local.)
func (w *walker) flagLocal(e ast.Expr) (ast.Expr, constant.Value, constant.Value) {
	id, ok := ast.Unparen(stripConv(w.c, e)).(*ast.Ident)
	if !ok || w.c.FI == nil || w.c.FI.Decl.Body == nil {
		return nil, nil, nil
	}
	obj := w.c.Info.ObjectOf(id)
	if obj == nil || !isLocalVar(obj) {
		return nil, nil, nil
	}
	b, ok := obj.Type().Underlying().(*types.Basic)
	if !ok || b.Info()&types.IsInteger == 0 {
		return nil, nil, nil
	}
	info := w.c.Info
	zeroDecl, other := 0, 0
	var cond ast.Expr
	var k constant.Value
	var scan func(list []ast.Stmt, under *ast.IfStmt)
	scan = func(list []ast.Stmt, under *ast.IfStmt) {
		for _, st := range list {
			switch v := st.(type) {
			case *ast.DeclStmt:
				if gd, ok := v.Decl.(*ast.GenDecl); ok {
					for _, sp := range gd.Specs {
						if vs, ok := sp.(*ast.ValueSpec); ok {
							for i, nm := range vs.Names {
								if info.Defs[nm] != obj {
									continue
								}
								if i >= len(vs.Values) {
									zeroDecl++
								} else if tv, ok := info.Types[vs.Values[i]]; ok && tv.Value != nil && constant.Sign(constant.ToInt(tv.Value)) == 0 {
									zeroDecl++
								} else {
									other++
								}
							}
						}
					}
				}
			case *ast.AssignStmt:
				for i, l := range v.Lhs {
					lid, ok := l.(*ast.Ident)
					if !ok || info.ObjectOf(lid) != obj {
						continue
					}
					var val constant.Value
					if len(v.Lhs) == len(v.Rhs) {
						if tv, ok := info.Types[v.Rhs[i]]; ok && tv.Value != nil {
							val = constant.ToInt(tv.Value)
						}
					}
					switch {
					case val == nil || (v.Tok != token.ASSIGN && v.Tok != token.DEFINE):
						other++
					case under == nil && constant.Sign(val) == 0:
						zeroDecl++
					case under != nil && under.Else == nil && under.Init == nil && constant.Sign(val) != 0 && cond == nil:
						cond, k = under.Cond, val
					default:
						other++
					}
				}
			case *ast.IncDecStmt:
				if lid, ok := v.X.(*ast.Ident); ok && info.ObjectOf(lid) == obj {
					other++
				}
			case *ast.IfStmt:
				if under == nil {
					scan(v.Body.List, v)
					if v.Else != nil {
						ast.Inspect(v.Else, func(m ast.Node) bool {
							if as, ok := m.(*ast.AssignStmt); ok {
								for _, l := range as.Lhs {
									if lid, ok := l.(*ast.Ident); ok && info.ObjectOf(lid) == obj {
										other++
									}
								}
							}
							return true
						})
					}
				} else {
					ast.Inspect(v, func(m ast.Node) bool {
						if as, ok := m.(*ast.AssignStmt); ok {
							for _, l := range as.Lhs {
								if lid, ok := l.(*ast.Ident); ok && info.ObjectOf(lid) == obj {
									other++
								}
							}
						}
						return true
					})
				}
			case *ast.ForStmt, *ast.RangeStmt, *ast.SwitchStmt, *ast.BlockStmt:
				ast.Inspect(v, func(m ast.Node) bool {
					if as, ok := m.(*ast.AssignStmt); ok {
						for _, l := range as.Lhs {
							if lid, ok := l.(*ast.Ident); ok && info.ObjectOf(lid) == obj {
								other++
							}
						}
					}
					return true
				})
			}
		}
	}
	scan(w.c.FI.Decl.Body.List, nil)
	if zeroDecl != 1 || other != 0 || cond == nil {
		return nil, nil, nil
	}
	return cond, k, constant.MakeInt64(0)
}

// flagCond: a test of a flag local (x != 0, x == 0, x > 0, x == K, x != K) reads as the condition the
// flag was set from, or its negation.
func (w *walker) flagCond(c ast.Expr) ast.Expr {
	be, ok := ast.Unparen(c).(*ast.BinaryExpr)
	if !ok {
		return c
	}
	x, y, op := be.X, be.Y, be.Op
	if _, isC := w.c.Info.Types[x]; isC && w.c.Info.Types[x].Value != nil {
		x, y = y, x
		switch op {
		case token.LSS:
			op = token.GTR
		case token.GTR:
			op = token.LSS
		case token.LEQ:
			op = token.GEQ
		case token.GEQ:
			op = token.LEQ
		}
	}
	tv, ok := w.c.Info.Types[y]
	if !ok || tv.Value == nil {
		return c
	}
	cond, k, _ := w.flagLocal(x)
	if cond == nil {
		return c
	}
	cv := constant.ToInt(tv.Value)
	pos := true
	switch {
	case constant.Sign(cv) == 0 && (op == token.NEQ || (op == token.GTR && constant.Sign(k) > 0)):
		pos = true
	case constant.Sign(cv) == 0 && (op == token.EQL || (op == token.LEQ && constant.Sign(k) > 0)):
		pos = false
	case constant.Compare(cv, token.EQL, k) && op == token.EQL:
		pos = true
	case constant.Compare(cv, token.EQL, k) && op == token.NEQ:
		pos = false
	default:
		return c
	}
	if pos {
		return cond
	}
	n := &ast.UnaryExpr{OpPos: c.Pos(), Op: token.NOT, X: &ast.ParenExpr{Lparen: c.Pos(), X: cond, Rparen: c.End()}}
	if t, ok := w.c.Info.Types[cond]; ok {
		w.c.Info.Types[n] = t
		w.c.Info.Types[n.X] = t
	}
	return n
}

// overrideLocal: e is a local defined once from a field of the receiver (x := this.F) and assigned
// exactly once more, a constant K, directly in the body of an `if C { x = K }` without else at the top
// level of the function: the field expression, the condition and K. (cond == nil: not such a local.)
func (w *walker) overrideLocal(e ast.Expr) (ast.Expr, ast.Expr, constant.Value) {
	id, ok := ast.Unparen(stripConv(w.c, e)).(*ast.Ident)
	if !ok || w.c.FI == nil || w.c.FI.Decl.Body == nil {
		return nil, nil, nil
	}
	info := w.c.Info
	obj := info.ObjectOf(id)
	if obj == nil || !isLocalVar(obj) {
		return nil, nil, nil
	}
	var base, cond ast.Expr
	var k constant.Value
	nBase, nOver, other := 0, 0, 0
	assigns := func(n ast.Node) int {
		c := 0
		ast.Inspect(n, func(m ast.Node) bool {
			switch v := m.(type) {
			case *ast.AssignStmt:
				for _, l := range v.Lhs {
					if lid, ok := l.(*ast.Ident); ok && info.ObjectOf(lid) == obj {
						c++
					}
				}
			case *ast.IncDecStmt:
				if lid, ok := v.X.(*ast.Ident); ok && info.ObjectOf(lid) == obj {
					c++
				}
			}
			return true
		})
		return c
	}
	for _, st := range w.c.FI.Decl.Body.List {
		switch v := st.(type) {
		case *ast.AssignStmt:
			for i, l := range v.Lhs {
				lid, ok := l.(*ast.Ident)
				if !ok || info.ObjectOf(lid) != obj {
					continue
				}
				if len(v.Lhs) == len(v.Rhs) && (v.Tok == token.DEFINE || v.Tok == token.ASSIGN) && isFieldLabel(w.x.canonLabel(w.c, v.Rhs[i])) {
					base = v.Rhs[i]
					nBase++
				} else {
					other++
				}
			}
		case *ast.IfStmt:
			n := assigns(v)
			if n == 0 {
				continue
			}
			if n == 1 && v.Else == nil && v.Init == nil {
				for _, bs := range v.Body.List {
					as, ok := bs.(*ast.AssignStmt)
					if !ok || len(as.Lhs) != 1 || len(as.Rhs) != 1 || as.Tok != token.ASSIGN {
						continue
					}
					if lid, ok := as.Lhs[0].(*ast.Ident); ok && info.ObjectOf(lid) == obj {
						if tv, ok := info.Types[as.Rhs[0]]; ok && tv.Value != nil {
							cond, k = v.Cond, constant.ToInt(tv.Value)
							nOver++
						}
					}
				}
				if cond == nil {
					other++
				}
			} else {
				other += n
			}
		default:
			other += assigns(st)
		}
	}
	if nBase != 1 || nOver != 1 || other != 0 || base == nil || cond == nil {
		return nil, nil, nil
	}
	// inside the condition the local still holds the field
	if c2, ok := paths.Subst(info, cond, map[types.Object]ast.Expr{obj: base}).(ast.Expr); ok {
		cond = c2
	}
	if os.Getenv("WIRE_DEBUG") != "" {
		fmt.Fprintf(os.Stderr, "overrideLocal %s: base=%s cond=%s k=%s\n", id.Name, types.ExprString(base), types.ExprString(cond), k)
	}
	return base, cond, k
}

// constInduction: `for i := C0; i <op> C1; <step>` with constant C0, C1 and a constant step (++, --,
// += c, -= c, *= c, <<= c, >>= c), i not assigned in the body: the induction variable and the values it
// takes (at most 16).
func constInduction(info *types.Info, f *ast.ForStmt) (types.Object, []int64) {
	init, ok := f.Init.(*ast.AssignStmt)
	if !ok || len(init.Lhs) != 1 || len(init.Rhs) != 1 || init.Tok != token.DEFINE {
		return nil, nil
	}
	id, ok := init.Lhs[0].(*ast.Ident)
	if !ok {
		return nil, nil
	}
	iv := info.ObjectOf(id)
	if iv == nil {
		return nil, nil
	}
	cint := func(e ast.Expr) (int64, bool) {
		tv, ok := info.Types[e]
		if !ok || tv.Value == nil {
			return 0, false
		}
		return constant.Int64Val(constant.ToInt(tv.Value))
	}
	c0, ok := cint(init.Rhs[0])
	if !ok {
		return nil, nil
	}
	cond, ok := f.Cond.(*ast.BinaryExpr)
	if !ok {
		return nil, nil
	}
	cid, ok := ast.Unparen(cond.X).(*ast.Ident)
	if !ok || info.ObjectOf(cid) != iv {
		return nil, nil
	}
	c1, ok := cint(cond.Y)
	if !ok {
		return nil, nil
	}
	var step func(int64) (int64, bool)
	switch p := f.Post.(type) {
	case *ast.IncDecStmt:
		pid, ok := p.X.(*ast.Ident)
		if !ok || info.ObjectOf(pid) != iv {
			return nil, nil
		}
		if p.Tok == token.INC {
			step = func(x int64) (int64, bool) { return x + 1, true }
		} else {
			step = func(x int64) (int64, bool) { return x - 1, true }
		}
	case *ast.AssignStmt:
		if len(p.Lhs) != 1 || len(p.Rhs) != 1 {
			return nil, nil
		}
		pid, ok := p.Lhs[0].(*ast.Ident)
		if !ok || info.ObjectOf(pid) != iv {
			return nil, nil
		}
		c, ok := cint(p.Rhs[0])
		if !ok {
			return nil, nil
		}
		switch p.Tok {
		case token.ADD_ASSIGN:
			step = func(x int64) (int64, bool) { return x + c, true }
		case token.SUB_ASSIGN:
			step = func(x int64) (int64, bool) { return x - c, true }
		case token.MUL_ASSIGN:
			step = func(x int64) (int64, bool) { return x * c, true }
		case token.SHL_ASSIGN:
			step = func(x int64) (int64, bool) { return x << uint(c), c >= 0 && c < 63 }
		case token.SHR_ASSIGN:
			step = func(x int64) (int64, bool) { return x >> uint(c), c >= 0 && c < 63 }
		default:
			return nil, nil
		}
	default:
		return nil, nil
	}
	// width of the variable's type (a byte counter wraps)
	wrap := func(x int64) int64 { return x }
	if b, ok := iv.Type().Underlying().(*types.Basic); ok {
		switch b.Kind() {
		case types.Uint8:
			wrap = func(x int64) int64 { return x & 0xff }
		case types.Int8:
			wrap = func(x int64) int64 { return int64(int8(x)) }
		case types.Uint16:
			wrap = func(x int64) int64 { return x & 0xffff }
		case types.Int16:
			wrap = func(x int64) int64 { return int64(int16(x)) }
		case types.Uint32:
			wrap = func(x int64) int64 { return x & 0xffffffff }
		case types.Int32:
			wrap = func(x int64) int64 { return int64(int32(x)) }
		}
	}
	assigned := false
	ast.Inspect(f.Body, func(n ast.Node) bool {
		switch v := n.(type) {
		case *ast.AssignStmt:
			for _, l := range v.Lhs {
				if lid, ok := ast.Unparen(l).(*ast.Ident); ok && info.ObjectOf(lid) == iv {
					assigned = true
				}
			}
		case *ast.IncDecStmt:
			if lid, ok := ast.Unparen(v.X).(*ast.Ident); ok && info.ObjectOf(lid) == iv {
				assigned = true
			}
		case *ast.UnaryExpr:
			if v.Op == token.AND {
				if lid, ok := ast.Unparen(v.X).(*ast.Ident); ok && info.ObjectOf(lid) == iv {
					assigned = true
				}
			}
		}
		return true
	})
	if assigned {
		return nil, nil
	}
	holds := func(x int64) bool {
		switch cond.Op {
		case token.LSS:
			return x < c1
		case token.LEQ:
			return x <= c1
		case token.GTR:
			return x > c1
		case token.GEQ:
			return x >= c1
		case token.NEQ:
			return x != c1
		}
		return false
	}
	switch cond.Op {
	case token.LSS, token.LEQ, token.GTR, token.GEQ, token.NEQ:
	default:
		return nil, nil
	}
	var vals []int64
	x := c0
	for holds(x) {
		vals = append(vals, x)
		if len(vals) > 16 {
			return nil, nil
		}
		nx, ok := step(x)
		if !ok {
			return nil, nil
		}
		nx = wrap(nx)
		if nx == x {
			return nil, nil
		}
		x = nx
	}
	if len(vals) == 0 {
		return nil, nil
	}
	return iv, vals
}

func isByteSliceType(t types.Type) bool {
	sl, ok := t.Underlying().(*types.Slice)
	if !ok {
		return false
	}
	b, ok := sl.Elem().Underlying().(*types.Basic)
	return ok && b.Kind() == types.Uint8
}

// ByteRoot: the []byte local a function assembles and returns (every return hands back that variable),
// for writers that lay out their bytes with encoding/binary instead of a DataOutputX:
//
//	buf := make([]byte, 8, n)                       // a made part, filled by Put… at constant offsets
//	binary.BigEndian.PutUint32(buf[0:4], a)
//	buf = binary.BigEndian.AppendUint32(buf, w)     // and/or appended to, also in loops
//	return buf
func (x *Extractor) ByteRoot(fi *core.FuncInfo) types.Object {
	if fi == nil || fi.Decl.Body == nil {
		return nil
	}
	sig := fi.Obj.Type().(*types.Signature)
	if sig.Results().Len() != 1 || !isByteSliceType(sig.Results().At(0).Type()) {
		return nil
	}
	info := fi.Pkg.TypesInfo
	var root types.Object
	ok := true
	ast.Inspect(fi.Decl.Body, func(n ast.Node) bool {
		switch v := n.(type) {
		case *ast.FuncLit:
			return false
		case *ast.ReturnStmt:
			if len(v.Results) != 1 {
				ok = false
				return true
			}
			id, isId := ast.Unparen(v.Results[0]).(*ast.Ident)
			if !isId {
				ok = false
				return true
			}
			o := info.ObjectOf(id)
			if root != nil && root != o {
				ok = false
			}
			root = o
		}
		return true
	})
	if !ok || root == nil || !isLocalVar(root) || !isByteSliceType(root.Type()) {
		return nil
	}
	return root
}

func (w *walker) isRootIdent(e ast.Expr) bool {
	id, ok := ast.Unparen(e).(*ast.Ident)
	return ok && w.c.Info.ObjectOf(id) == w.stream
}

// binaryBE: call is binary.BigEndian.<name>(…); returns name.
func (w *walker) binaryBE(call *ast.CallExpr) string {
	sel, ok := call.Fun.(*ast.SelectorExpr)
	if !ok {
		return ""
	}
	inner, ok := ast.Unparen(sel.X).(*ast.SelectorExpr)
	if !ok || inner.Sel.Name != "BigEndian" {
		return ""
	}
	if id, ok := ast.Unparen(inner.X).(*ast.Ident); ok {
		if pn, ok := w.c.Info.Uses[id].(*types.PkgName); ok && pn.Imported().Path() == "encoding/binary" {
			return sel.Sel.Name
		}
	}
	return ""
}

func (w *walker) bytePrim(call *ast.CallExpr, kind string, arg ast.Expr) *Prim {
	p := &Prim{Pos: call.Pos(), Kind: kind, Call: call, Arg: arg, Fn: w.c}
	if tv, ok := w.c.Info.Types[arg]; ok && tv.Value != nil {
		p.Const = tv.Value
	} else if cst := w.constOf(arg); cst != nil {
		p.Const = cst
	}
	p.Label = w.x.canonLabel(w.c, arg)
	return p
}

var beKinds = map[string]string{"Uint16": "Short", "Uint32": "Int", "Uint64": "Long"}

// byteStmt translates one statement of a byte-root writer; ok=false leaves it to the general walker
// (loops, ifs and blocks come back here for their bodies).
func (w *walker) byteStmt(s ast.Stmt) ([]Node, bool) {
	info := w.c.Info
	cint := func(e ast.Expr) (int64, bool) {
		if e == nil {
			return 0, false
		}
		tv, ok := info.Types[e]
		if !ok || tv.Value == nil {
			return 0, false
		}
		return constant.Int64Val(constant.ToInt(tv.Value))
	}
	switch v := s.(type) {
	case *ast.AssignStmt:
		if len(v.Lhs) != 1 || len(v.Rhs) != 1 {
			return nil, false
		}
		// buf[k] = byte(x)
		if ix, ok := ast.Unparen(v.Lhs[0]).(*ast.IndexExpr); ok && w.isRootIdent(ix.X) {
			off, isC := cint(ix.Index)
			if !isC {
				return []Node{&Unknown{Pos: v.Pos(), Reason: "byte store at a non-constant offset of the assembled buffer"}}, true
			}
			fake := &ast.CallExpr{Fun: ix, Lparen: v.Pos(), Rparen: v.End()}
			w.setHdr(off, w.bytePrim(fake, "Byte", v.Rhs[0]), v.Pos())
			return nil, true
		}
		if !w.isRootIdent(v.Lhs[0]) {
			return nil, false
		}
		call, ok := ast.Unparen(v.Rhs[0]).(*ast.CallExpr)
		if !ok {
			return []Node{&Unknown{Pos: v.Pos(), Reason: "the assembled buffer is reassigned"}}, true
		}
		if id, ok := call.Fun.(*ast.Ident); ok {
			switch id.Name {
			case "make":
				if len(call.Args) >= 2 {
					if n, isC := cint(call.Args[1]); isC {
						w.hdrLen = n
						return nil, true
					}
				}
				return []Node{&Unknown{Pos: v.Pos(), Reason: "the assembled buffer is made with a non-constant length"}}, true
			case "append":
				if len(call.Args) >= 2 && w.isRootIdent(call.Args[0]) {
					var out []Node
					if call.Ellipsis.IsValid() && len(call.Args) == 2 {
						out = append(out, w.bytePrim(call, "Bytes", call.Args[1]))
						return out, true
					}
					for _, a := range call.Args[1:] {
						out = append(out, w.bytePrim(call, "Byte", a))
					}
					return out, true
				}
			}
		}
		if nm := w.binaryBE(call); strings.HasPrefix(nm, "Append") && len(call.Args) == 2 && w.isRootIdent(call.Args[0]) {
			if kind := beKinds[strings.TrimPrefix(nm, "Append")]; kind != "" {
				return []Node{w.bytePrim(call, kind, call.Args[1])}, true
			}
		}
		return []Node{&Unknown{Pos: v.Pos(), Reason: "the assembled buffer is reassigned from " + types.ExprString(call.Fun)}}, true
	case *ast.ExprStmt:
		call, ok := ast.Unparen(v.X).(*ast.CallExpr)
		if !ok {
			return nil, false
		}
		if nm := w.binaryBE(call); strings.HasPrefix(nm, "Put") && len(call.Args) == 2 {
			kind := beKinds[strings.TrimPrefix(nm, "Put")]
			dst := ast.Unparen(call.Args[0])
			off := int64(0)
			if sl, ok := dst.(*ast.SliceExpr); ok {
				dst = ast.Unparen(sl.X)
				if sl.Low != nil {
					o, isC := cint(sl.Low)
					if !isC {
						return []Node{&Unknown{Pos: v.Pos(), Reason: "Put at a non-constant offset of the assembled buffer"}}, true
					}
					off = o
				}
			}
			if w.isRootIdent(dst) && kind != "" {
				w.setHdr(off, w.bytePrim(call, kind, call.Args[1]), v.Pos())
				return nil, true
			}
		}
		return nil, false
	case *ast.ForStmt:
		if ns, ok := w.cursorLoop(v); ok {
			return ns, true
		}
		return nil, false
	case *ast.DeclStmt:
		return nil, false
	case *ast.ReturnStmt:
		return []Node{&Ret{Pos: v.Pos()}}, true
	}
	return nil, false
}

// cursorOf: the for statement walks the made part of the root buffer through a cursor slice:
//
//	for i, cell := 0, buf; i < N; i, cell = i+1, cell[W:] { … Put…(cell[a:b], v) … }
//
// returns the cursor variable, the counter, N and W.
func (w *walker) cursorOf(f *ast.ForStmt) (cur, cnt types.Object, n, width int64, ok bool) {
	info := w.c.Info
	init, ok1 := f.Init.(*ast.AssignStmt)
	post, ok2 := f.Post.(*ast.AssignStmt)
	cond, ok3 := f.Cond.(*ast.BinaryExpr)
	if !ok1 || !ok2 || !ok3 || init.Tok != token.DEFINE || len(init.Lhs) != 2 || len(init.Rhs) != 2 || len(post.Lhs) != 2 || len(post.Rhs) != 2 || cond.Op != token.LSS {
		return
	}
	cint := func(e ast.Expr) (int64, bool) {
		tv, ok := info.Types[e]
		if !ok || tv.Value == nil {
			return 0, false
		}
		return constant.Int64Val(constant.ToInt(tv.Value))
	}
	for i := 0; i < 2; i++ {
		id, isId := init.Lhs[i].(*ast.Ident)
		if !isId {
			return
		}
		o := info.ObjectOf(id)
		if w.isRootIdent(init.Rhs[i]) {
			cur = o
		} else if k, isC := cint(init.Rhs[i]); isC && k == 0 {
			cnt = o
		}
	}
	if cur == nil || cnt == nil {
		return
	}
	if cid, isId := ast.Unparen(cond.X).(*ast.Ident); !isId || info.ObjectOf(cid) != cnt {
		return
	}
	var isC bool
	if n, isC = cint(cond.Y); !isC || n <= 0 || n > 1<<16 {
		return
	}
	stepOK, advOK := false, false
	for i := 0; i < 2; i++ {
		id, isId := post.Lhs[i].(*ast.Ident)
		if !isId {
			return
		}
		switch info.ObjectOf(id) {
		case cnt:
			if be, isB := ast.Unparen(post.Rhs[i]).(*ast.BinaryExpr); isB && be.Op == token.ADD {
				if xid, isX := ast.Unparen(be.X).(*ast.Ident); isX && info.ObjectOf(xid) == cnt {
					if k, isK := cint(be.Y); isK && k == 1 {
						stepOK = true
					}
				}
			}
		case cur:
			if sl, isS := ast.Unparen(post.Rhs[i]).(*ast.SliceExpr); isS && sl.High == nil && sl.Low != nil {
				if xid, isX := ast.Unparen(sl.X).(*ast.Ident); isX && info.ObjectOf(xid) == cur {
					if k, isK := cint(sl.Low); isK && k > 0 {
						width, advOK = k, true
					}
				}
			}
		}
	}
	ok = stepOK && advOK
	return
}

// cursorLoop: N iterations, each laying W bytes out through the cursor: a counted loop over the prims of
// one cell (in offset order, covering the cell exactly), standing for N*W bytes of the made part.
func (w *walker) cursorLoop(f *ast.ForStmt) ([]Node, bool) {
	cur, cnt, n, width, ok := w.cursorOf(f)
	if !ok {
		return nil, false
	}
	info := w.c.Info
	cell := map[int64]*Prim{}
	bad := ""
	for _, st := range f.Body.List {
		es, isE := st.(*ast.ExprStmt)
		if !isE {
			bad = "a statement other than a Put… into the cursor"
			break
		}
		call, isC := ast.Unparen(es.X).(*ast.CallExpr)
		if !isC || len(call.Args) != 2 {
			bad = "a statement other than a Put… into the cursor"
			break
		}
		nm := w.binaryBE(call)
		kind := beKinds[strings.TrimPrefix(nm, "Put")]
		if !strings.HasPrefix(nm, "Put") || kind == "" {
			bad = "a statement other than a Put… into the cursor"
			break
		}
		dst := ast.Unparen(call.Args[0])
		off := int64(0)
		if sl, isS := dst.(*ast.SliceExpr); isS {
			dst = ast.Unparen(sl.X)
			if sl.Low != nil {
				tv, okc := info.Types[sl.Low]
				if !okc || tv.Value == nil {
					bad = "Put at a non-constant offset of the cursor"
					break
				}
				off, _ = constant.Int64Val(constant.ToInt(tv.Value))
			}
		}
		if id, isId := dst.(*ast.Ident); !isId || info.ObjectOf(id) != cur {
			bad = "Put into something other than the cursor"
			break
		}
		cell[off] = w.bytePrim(call, kind, call.Args[1])
	}
	_ = cnt
	var body []Node
	at := int64(0)
	for bad == "" && at < width {
		p, okp := cell[at]
		if !okp {
			bad = fmt.Sprintf("byte %d of a cell is never written", at)
			break
		}
		body = append(body, p)
		at += kindWidth[p.Kind]
	}
	if bad == "" && at != width {
		bad = "a cell is not covered exactly"
	}
	if bad != "" {
		return []Node{&Unknown{Pos: f.Pos(), Reason: "cursor loop over the assembled buffer: " + bad}}, true
	}
	cond := f.Cond.(*ast.BinaryExpr)
	lp := &Loop{Pos: f.Pos(), Stmt: f, Body: body, Bound: cond.Y, Fn: w.c}
	// the run of the made part this loop fills starts where the header prims so far end
	start := int64(0)
	for off, p := range w.hdr {
		if e := off + kindWidth[p.Kind]; e > start {
			start = e
		}
	}
	for off, sg := range w.hdrSeg {
		if e := off + sg.n; e > start {
			start = e
		}
	}
	w.hdrSeg[start] = hdrSegment{node: lp, n: n * width}
	return nil, true
}

func (w *walker) setHdr(off int64, p *Prim, pos token.Pos) {
	if _, dup := w.hdr[off]; dup {
		w.hdrBroken = "offset written twice"
	}
	w.hdr[off] = p
}

var kindWidth = map[string]int64{"Byte": 1, "Short": 2, "Int": 4, "Long": 8}

type hdrSegment struct {
	node Node
	n    int64
}

// withHeader puts the prims of the made part of the buffer, in offset order, in front of what was
// appended; the made part must be covered exactly.
func (w *walker) withHeader(g []Node, fi *core.FuncInfo) []Node {
	if w.hdrLen == 0 && len(w.hdr) == 0 && len(w.hdrSeg) == 0 {
		return g
	}
	var head []Node
	at := int64(0)
	for at < w.hdrLen {
		if sg, isSeg := w.hdrSeg[at]; isSeg && sg.n > 0 {
			head = append(head, sg.node)
			at += sg.n
			continue
		}
		p, ok := w.hdr[at]
		if !ok {
			w.hdrBroken = fmt.Sprintf("byte %d of the made part is never written", at)
			break
		}
		head = append(head, p)
		at += kindWidth[p.Kind]
	}
	if at != w.hdrLen && w.hdrBroken == "" {
		w.hdrBroken = "the made part is not covered exactly"
	}
	if w.hdrBroken != "" {
		return append([]Node{&Unknown{Pos: fi.Decl.Pos(), Reason: "assembled buffer: " + w.hdrBroken}}, g...)
	}
	return append(head, g...)
}

// typeSwitchTarget: the one field (selector expression) that an arm of the type switch assigns the
// bound value to (`case *T: this.Attr = mv`), if there is exactly one such target.
func (w *walker) typeSwitchTarget(v *ast.TypeSwitchStmt, bound *ast.Ident) ast.Expr {
	var tgt ast.Expr
	n := 0
	ast.Inspect(v.Body, func(m ast.Node) bool {
		as, ok := m.(*ast.AssignStmt)
		if !ok || len(as.Lhs) != 1 || len(as.Rhs) != 1 || as.Tok != token.ASSIGN {
			return true
		}
		id, ok := ast.Unparen(as.Rhs[0]).(*ast.Ident)
		if !ok || id.Name != bound.Name {
			return true
		}
		// the symbol of a type switch has one implicit object per clause
		if _, isVar := w.c.Info.Uses[id].(*types.Var); !isVar {
			return true
		}
		if _, isSel := ast.Unparen(as.Lhs[0]).(*ast.SelectorExpr); isSel {
			tgt = as.Lhs[0]
			n++
		}
		return true
	})
	if n == 1 {
		return tgt
	}
	return nil
}

// straightLineTo: the simple statements that run, in order, on the way from the top of body to the
// statement that contains call — the statements in front of it in every enclosing block. Compound
// statements on the way that do not contain the call are skipped when they do not mention buf (they
// cannot change what the buffer holds) and make the walk fail when they do.
func straightLineTo(info *types.Info, body *ast.BlockStmt, call *ast.CallExpr, buf types.Object) ([]ast.Stmt, bool) {
	contains := func(n ast.Node) bool { return n != nil && n.Pos() <= call.Pos() && call.End() <= n.End() }
	mentions := func(n ast.Node) bool {
		found := false
		ast.Inspect(n, func(m ast.Node) bool {
			if id, ok := m.(*ast.Ident); ok && info.ObjectOf(id) == buf {
				found = true
			}
			return !found
		})
		return found
	}
	var out []ast.Stmt
	list := body.List
	for depth := 0; depth < 12; depth++ {
		var next []ast.Stmt
		hit := false
		for _, st := range list {
			if !contains(st) {
				switch st.(type) {
				case *ast.IfStmt, *ast.ForStmt, *ast.RangeStmt, *ast.SwitchStmt, *ast.TypeSwitchStmt, *ast.SelectStmt, *ast.BlockStmt, *ast.LabeledStmt, *ast.GoStmt, *ast.DeferStmt:
					if mentions(st) {
						return nil, false
					}
					continue
				}
				out = append(out, st)
				continue
			}
			hit = true
			switch v := st.(type) {
			case *ast.ExprStmt, *ast.AssignStmt, *ast.ReturnStmt:
				out = append(out, st)
				return out, true
			case *ast.BlockStmt:
				next = v.List
			case *ast.IfStmt:
				if v.Init != nil {
					if contains(v.Init) {
						out = append(out, v.Init)
						return out, true
					}
					out = append(out, v.Init)
				}
				if contains(v.Cond) {
					return nil, false
				}
				if contains(v.Body) {
					next = v.Body.List
				} else if v.Else != nil && contains(v.Else) {
					next = []ast.Stmt{v.Else}
				} else {
					return nil, false
				}
			default:
				return nil, false
			}
			break
		}
		if !hit {
			return nil, false
		}
		list = next
	}
	return nil, false
}
