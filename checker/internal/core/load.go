// Package core: loading of /repo (go/packages, type-checked syntax), lookup helpers,
// obligations, evidence and known-findings plumbing shared by all property checkers.
package core

import (
	"fmt"
	"go/ast"
	"go/token"
	"go/types"
	"os"
	"path/filepath"
	"sort"
	"strings"

	"golang.org/x/tools/go/packages"
)

const ModPath = "github.com/whatap/golib"

// Program is the resolved program: every package of the module under analysis, parsed and
// type-checked with the real build's configuration.
type Program struct {
	Repo   string
	Fset   *token.FileSet
	Pkgs   []*packages.Package // module packages only, sorted by path
	ByPath map[string]*packages.Package
	All    []*packages.Package // every package incl. deps (initial set expanded), for SSA
	Config string              // build configuration label (GOOS/GOARCH)

	funcDecls map[*types.Func]*FuncInfo
	Funcs     []*FuncInfo // every function/method declared in module packages (incl. overlays)
}

// FuncInfo ties a types.Func to its declaration.
type FuncInfo struct {
	Obj  *types.Func
	Decl *ast.FuncDecl
	Pkg  *packages.Package
	File *ast.File
}

// Load parses and type-checks ./... of repo. overlay maps absolute file names to contents
// (used for the armed-rule canaries, which are analysed as if they were part of the package).
func Load(repo string, overlay map[string][]byte, goos, goarch string) (*Program, error) {
	env := append(os.Environ(), "GOFLAGS=-mod=mod", "GOPROXY=off", "GOSUMDB=off", "GOWORK=off", "GOTOOLCHAIN=local")
	label := "default"
	if goos != "" {
		env = append(env, "GOOS="+goos, "GOARCH="+goarch, "CGO_ENABLED=0")
		label = goos + "/" + goarch
	}
	cfg := &packages.Config{
		Mode: packages.NeedName | packages.NeedFiles | packages.NeedCompiledGoFiles | packages.NeedImports |
			packages.NeedDeps | packages.NeedTypes | packages.NeedSyntax | packages.NeedTypesInfo |
			packages.NeedTypesSizes | packages.NeedModule,
		Dir:     repo,
		Env:     env,
		Tests:   false,
		Overlay: overlay,
	}
	pkgs, err := packages.Load(cfg, "./...")
	if err != nil {
		return nil, fmt.Errorf("packages.Load: %w", err)
	}
	if len(pkgs) == 0 {
		return nil, fmt.Errorf("packages.Load returned zero packages for %s", repo)
	}
	p := &Program{Repo: repo, ByPath: map[string]*packages.Package{}, funcDecls: map[*types.Func]*FuncInfo{}, Config: label}
	var errs []string
	for _, pk := range pkgs {
		for _, e := range pk.Errors {
			errs = append(errs, e.Error())
		}
		if pk.Fset != nil {
			p.Fset = pk.Fset
		}
		if strings.HasPrefix(pk.PkgPath, ModPath) {
			p.Pkgs = append(p.Pkgs, pk)
			p.ByPath[pk.PkgPath] = pk
		}
	}
	if len(errs) > 0 {
		if len(errs) > 8 {
			errs = errs[:8]
		}
		return nil, fmt.Errorf("tree does not type-check: %s", strings.Join(errs, "; "))
	}
	if len(p.Pkgs) == 0 {
		return nil, fmt.Errorf("no packages of module %s under %s", ModPath, repo)
	}
	sort.Slice(p.Pkgs, func(i, j int) bool { return p.Pkgs[i].PkgPath < p.Pkgs[j].PkgPath })
	p.All = pkgs
	for _, pk := range p.Pkgs {
		for _, f := range pk.Syntax {
			for _, d := range f.Decls {
				fd, ok := d.(*ast.FuncDecl)
				if !ok {
					continue
				}
				obj, _ := pk.TypesInfo.Defs[fd.Name].(*types.Func)
				if obj == nil {
					continue
				}
				fi := &FuncInfo{Obj: obj, Decl: fd, Pkg: pk, File: f}
				p.funcDecls[obj] = fi
				p.Funcs = append(p.Funcs, fi)
			}
		}
	}
	return p, nil
}

// Pkg returns the module package with the given path relative to the module ("lang/pack").
func (p *Program) Pkg(rel string) *packages.Package {
	if rel == "" {
		return p.ByPath[ModPath]
	}
	return p.ByPath[ModPath+"/"+rel]
}

// FuncOf returns declaration info for a function object (nil for functions without a body in
// the module, e.g. stdlib).
func (p *Program) FuncOf(f *types.Func) *FuncInfo {
	if f == nil {
		return nil
	}
	if fi := p.funcDecls[f]; fi != nil {
		return fi
	}
	if o := f.Origin(); o != f {
		return p.funcDecls[o]
	}
	return nil
}

// Rel returns the path of pos relative to the repo plus the line.
func (p *Program) Pos(pos token.Pos) string {
	if !pos.IsValid() {
		return "?"
	}
	ps := p.Fset.Position(pos)
	f := ps.Filename
	if r, err := filepath.Rel(p.Repo, f); err == nil && !strings.HasPrefix(r, "..") {
		f = r
	}
	return fmt.Sprintf("%s:%d", f, ps.Line)
}

// File returns the repo-relative file of pos.
func (p *Program) FileOf(pos token.Pos) string {
	ps := p.Fset.Position(pos)
	f := ps.Filename
	if r, err := filepath.Rel(p.Repo, f); err == nil && !strings.HasPrefix(r, "..") {
		f = r
	}
	return f
}

// RelPkg returns the package path relative to the module.
func RelPkg(path string) string {
	if path == ModPath {
		return "."
	}
	return strings.TrimPrefix(path, ModPath+"/")
}

// FuncName gives a stable human name: "lang/pack.(*EventPack).Write" or "io.ToShort".
func FuncName(f *types.Func) string {
	if f == nil {
		return "<nil>"
	}
	pkg := ""
	if f.Pkg() != nil {
		pkg = RelPkg(f.Pkg().Path())
	}
	sig, _ := f.Type().(*types.Signature)
	if sig != nil && sig.Recv() != nil {
		t := sig.Recv().Type()
		ptr := ""
		if pt, ok := t.(*types.Pointer); ok {
			t = pt.Elem()
			ptr = "*"
		}
		name := t.String()
		if n, ok := t.(*types.Named); ok {
			name = n.Obj().Name()
		}
		return fmt.Sprintf("%s.(%s%s).%s", pkg, ptr, name, f.Name())
	}
	return pkg + "." + f.Name()
}

// RecvNamed returns the named receiver type of a method (nil for functions).
func RecvNamed(f *types.Func) *types.Named {
	sig, _ := f.Type().(*types.Signature)
	if sig == nil || sig.Recv() == nil {
		return nil
	}
	t := sig.Recv().Type()
	if pt, ok := t.(*types.Pointer); ok {
		t = pt.Elem()
	}
	n, _ := t.(*types.Named)
	return n
}

// Method finds the declared method name on named type T (pointer or value receiver) in pkg.
func (p *Program) Method(relPkg, typeName, method string) *FuncInfo {
	pk := p.Pkg(relPkg)
	if pk == nil {
		return nil
	}
	for _, fi := range p.Funcs {
		if fi.Pkg != pk || fi.Obj.Name() != method {
			continue
		}
		if n := RecvNamed(fi.Obj); n != nil && n.Obj().Name() == typeName {
			return fi
		}
	}
	return nil
}

// Func finds a package-level function.
func (p *Program) Func(relPkg, name string) *FuncInfo {
	pk := p.Pkg(relPkg)
	if pk == nil {
		return nil
	}
	for _, fi := range p.Funcs {
		if fi.Pkg == pk && fi.Obj.Name() == name && RecvNamed(fi.Obj) == nil {
			sig := fi.Obj.Type().(*types.Signature)
			if sig.Recv() == nil {
				return fi
			}
		}
	}
	return nil
}

// MethodsOf lists declared methods of the named type.
func (p *Program) MethodsOf(n *types.Named) []*FuncInfo {
	var out []*FuncInfo
	for _, fi := range p.Funcs {
		if rn := RecvNamed(fi.Obj); rn != nil && rn.Obj() == n.Obj() {
			out = append(out, fi)
		}
	}
	return out
}

// IsCanaryFile reports whether the file is one of the overlay canaries.
func IsCanaryFile(name string) bool {
	return strings.Contains(filepath.Base(name), "zz_verif_canary")
}
