package core

import (
	"encoding/json"
	"fmt"
	"os"
	"path/filepath"
	"sort"
	"strings"
	"time"
)

// Verdicts of an obligation.
const (
	OK        = "ok"
	Violation = "violation"
	Undecided = "undecided"
	Known     = "known"
	Info      = "info"
)

// Ob is one obligation: a rule applied to one construct of /repo.
type Ob struct {
	Rule      string `json:"rule"`
	Construct string `json:"construct"`
	Pos       string `json:"pos"`
	Verdict   string `json:"verdict"`
	Detail    string `json:"detail,omitempty"`
	Config    string `json:"config,omitempty"`
}

// RuleInfo documents a rule and its floor (minimum number of real instances).
type RuleInfo struct {
	ID    string `json:"id"`
	Doc   string `json:"doc"`
	Floor int    `json:"floor"`
	Count int    `json:"instances"`
}

// CanaryExpect: the armed-rule witness — rule must report a violation whose construct contains Sub
// at a position inside a canary overlay file.
type CanaryExpect struct {
	Rule string
	Sub  string
}

// Canary is a tiny overlay source file added (in memory only) to a package of /repo.
type Canary struct {
	RelDir string // package dir relative to repo, e.g. "lang/pack"
	Name   string // file name suffix
	Src    string
	Expect []CanaryExpect
	Spec   bool // not a canary: a reference (specification) source analysed together with the package
}

// Report accumulates the obligations of one property check.
type Report struct {
	Prop        string
	Tier        string
	Explanation string
	Assumptions []string
	NotDecided  []string
	rules       map[string]*RuleInfo
	ruleOrder   []string
	Obs         []Ob
	Stats       map[string]int
	Config      string
	seen        map[string]bool
}

func NewReport(prop, tier string) *Report {
	return &Report{Prop: prop, Tier: tier, rules: map[string]*RuleInfo{}, Stats: map[string]int{}, seen: map[string]bool{}}
}

// Rule declares a rule with a documentation line and a floor.
func (r *Report) Rule(id, doc string, floor int) {
	if _, ok := r.rules[id]; ok {
		return
	}
	r.rules[id] = &RuleInfo{ID: id, Doc: doc, Floor: floor}
	r.ruleOrder = append(r.ruleOrder, id)
}

func (r *Report) add(rule, construct, pos, verdict, detail string) {
	if _, ok := r.rules[rule]; !ok {
		panic("undeclared rule " + rule)
	}
	key := r.Config + "|" + rule + "|" + construct + "|" + verdict
	if r.seen[key] {
		return
	}
	r.seen[key] = true
	r.Obs = append(r.Obs, Ob{Rule: rule, Construct: construct, Pos: pos, Verdict: verdict, Detail: detail, Config: r.Config})
}

func (r *Report) OK(rule, construct, pos, detail string)    { r.add(rule, construct, pos, OK, detail) }
func (r *Report) Viol(rule, construct, pos, detail string)  { r.add(rule, construct, pos, Violation, detail) }
func (r *Report) Undec(rule, construct, pos, detail string) { r.add(rule, construct, pos, Undecided, detail) }
func (r *Report) Info(rule, construct, pos, detail string)  { r.add(rule, construct, pos, Info, detail) }

// Check records OK when cond holds and a violation otherwise.
func (r *Report) Check(cond bool, rule, construct, pos, okDetail, badDetail string) bool {
	if cond {
		r.OK(rule, construct, pos, okDetail)
	} else {
		r.Viol(rule, construct, pos, badDetail)
	}
	return cond
}

// KnownFinding is one entry of /verif/known_findings.json.
type KnownFinding struct {
	Property  string `json:"property"`
	Rule      string `json:"rule"`
	Construct string `json:"construct"`
	What      string `json:"what"`
	Input     string `json:"input_or_schedule,omitempty"`
}

type KnownFile struct {
	Findings []KnownFinding `json:"findings"`
	Fixed    []string       `json:"fixed"`
}

func LoadKnown(path string) (*KnownFile, error) {
	b, err := os.ReadFile(path)
	if err != nil {
		if os.IsNotExist(err) {
			return &KnownFile{}, nil
		}
		return nil, err
	}
	var k KnownFile
	if err := json.Unmarshal(b, &k); err != nil {
		return nil, fmt.Errorf("%s: %w", path, err)
	}
	return &k, nil
}

// Finish post-processes the obligations (canaries, floors, known findings), writes evidence and
// returns the process exit code.
func (r *Report) Finish(verifDir string, canaries []Canary, started time.Time, extra map[string]interface{}) int {
	// 1. canaries: every expected violation must be present; strip canary obligations.
	var real []Ob
	var canaryObs []Ob
	for _, o := range r.Obs {
		if IsCanaryFile(strings.SplitN(o.Pos, ":", 2)[0]) || strings.Contains(o.Construct, "zzCanary") {
			canaryObs = append(canaryObs, o)
		} else {
			real = append(real, o)
		}
	}
	canaryFired := 0
	for _, c := range canaries {
		for _, e := range c.Expect {
			found := false
			for _, o := range canaryObs {
				if o.Rule == e.Rule && (o.Verdict == Violation) && strings.Contains(o.Construct, e.Sub) {
					found = true
					break
				}
			}
			if !found {
				fmt.Printf("CHECKER-ERROR property=%s canary for rule %s (construct ~%q) did not fire: the rule is not armed\n", r.Prop, e.Rule, e.Sub)
				return 2
			}
			canaryFired++
		}
	}
	r.Obs = real

	// 2. floors.
	for _, o := range r.Obs {
		if o.Verdict == OK || o.Verdict == Violation {
			r.rules[o.Rule].Count++
		}
	}
	// count per config: floors are per configuration, so divide by number of configs seen.
	cfgs := map[string]bool{}
	for _, o := range r.Obs {
		cfgs[o.Config] = true
	}
	ncfg := len(cfgs)
	if ncfg == 0 {
		ncfg = 1
	}
	for _, id := range r.ruleOrder {
		ri := r.rules[id]
		if ri.Count/ncfg < ri.Floor {
			r.Obs = append(r.Obs, Ob{Rule: id, Construct: "floor", Pos: "-", Verdict: Undecided,
				Detail: fmt.Sprintf("rule matched %d instances per configuration, below its confirmed floor %d: the anchors were not found (renamed/removed?) so the property is not shown", ri.Count/ncfg, ri.Floor)})
		}
	}

	// 3. known findings.
	known, err := LoadKnown(filepath.Join(verifDir, "known_findings.json"))
	if err != nil {
		fmt.Printf("CHECKER-ERROR property=%s cannot read known_findings.json: %v\n", r.Prop, err)
		return 2
	}
	kidx := map[string]KnownFinding{}
	for _, k := range known.Findings {
		if k.Property == r.Prop {
			kidx[k.Rule+"|"+k.Construct] = k
		}
	}
	printed := map[string]bool{}
	for i := range r.Obs {
		o := &r.Obs[i]
		if o.Verdict != Violation {
			continue
		}
		if k, ok := kidx[o.Rule+"|"+o.Construct]; ok {
			o.Verdict = Known
			key := o.Rule + "|" + o.Construct
			if !printed[key] {
				printed[key] = true
				fmt.Printf("KNOWN-FINDING: property=%s rule=%s %s at %s: %s\n", r.Prop, o.Rule, o.Construct, o.Pos, k.What)
			}
		}
	}
	for key, k := range kidx {
		if !printed[key] {
			fmt.Printf("NOTE: known finding no longer reproduced (repaired?): property=%s rule=%s %s\n", r.Prop, k.Rule, k.Construct)
		}
	}

	// 4. tally.
	n := map[string]int{}
	for _, o := range r.Obs {
		n[o.Verdict]++
	}
	bad := n[Violation] + n[Undecided]
	sort.SliceStable(r.Obs, func(i, j int) bool {
		rank := func(v string) int {
			switch v {
			case Violation:
				return 0
			case Undecided:
				return 1
			case Known:
				return 2
			case OK:
				return 3
			}
			return 4
		}
		if rank(r.Obs[i].Verdict) != rank(r.Obs[j].Verdict) {
			return rank(r.Obs[i].Verdict) < rank(r.Obs[j].Verdict)
		}
		if r.Obs[i].Rule != r.Obs[j].Rule {
			return r.Obs[i].Rule < r.Obs[j].Rule
		}
		return r.Obs[i].Construct < r.Obs[j].Construct
	})

	// samples: up to 3 per rule of decided obligations + all violations (capped).
	var samples []Ob
	perRule := map[string]int{}
	for _, o := range r.Obs {
		if o.Verdict == Info {
			continue
		}
		lim := 3
		if o.Verdict == Violation || o.Verdict == Undecided {
			lim = 25
		}
		if perRule[o.Rule+o.Verdict] < lim {
			perRule[o.Rule+o.Verdict]++
			samples = append(samples, o)
		}
	}
	distinct := map[string]bool{}
	for _, o := range r.Obs {
		if o.Verdict != Info {
			distinct[o.Rule+"|"+o.Construct] = true
		}
	}
	var rules []RuleInfo
	for _, id := range r.ruleOrder {
		rules = append(rules, *r.rules[id])
	}
	obl := n[OK] + n[Violation] + n[Undecided] + n[Known]
	cov := map[string]interface{}{
		"explanation":         r.Explanation,
		"obligations":         obl,
		"discharged":          n[OK],
		"known_findings":      n[Known],
		"violations":          n[Violation],
		"undecided":           n[Undecided],
		"informational":       n[Info],
		"evaluations":         obl,
		"distinct_nontrivial": len(distinct),
		"rule":                "one obligation = one rule instance applied to one resolved construct of /repo (function pair, call site, lock region, table entry); distinct = distinct (rule, construct); all are non-trivial because vacuous rules are rejected by per-rule floors",
		"samples":             samples,
		"rules":               rules,
		"not_decided":         r.NotDecided,
		"canaries_fired":      canaryFired,
		"stats":               r.Stats,
		"exhaustive":          true,
		"checker_cmd":         fmt.Sprintf("bin/golibcheck -prop %s -tier %s", r.Prop, r.Tier),
		"trusted_base":        []string{"go/parser, go/types (x/tools v0.29.0 go/packages)", "the rule tables in /verif/checker/internal/props"},
	}
	for k, v := range extra {
		cov[k] = v
	}
	if r.Assumptions == nil {
		r.Assumptions = []string{}
	}
	if r.NotDecided == nil {
		r.NotDecided = []string{}
	}
	ev := map[string]interface{}{
		"property_id": r.Prop,
		"tier":        r.Tier,
		"seed":        seedFromEnv(),
		"level":       "other",
		"coverage":    cov,
		"assumptions": r.Assumptions,
		"wall_s":      time.Since(started).Seconds(),
		"violations":  n[Violation] + n[Undecided],
	}
	evdir := filepath.Join(verifDir, "evidence")
	if d := os.Getenv("GOLIBCHECK_EVIDENCE_DIR"); d != "" {
		evdir = d // development only (tools/mut.sh): keep mutant runs from overwriting the real evidence
	}
	os.MkdirAll(evdir, 0o755)
	if err := writeJSON(filepath.Join(evdir, r.Prop+".json"), ev); err != nil {
		fmt.Printf("CHECKER-ERROR property=%s cannot write evidence: %v\n", r.Prop, err)
		return 2
	}
	// full obligation list (not committed evidence contract, but useful): evidence/<id>.obligations.json
	writeJSON(filepath.Join(evdir, r.Prop+".obligations.json"), r.Obs)

	fmt.Printf("property=%s tier=%s obligations=%d discharged=%d known=%d violations=%d undecided=%d info=%d canaries=%d wall=%.1fs\n",
		r.Prop, r.Tier, obl, n[OK], n[Known], n[Violation], n[Undecided], n[Info], canaryFired, time.Since(started).Seconds())
	for _, ri := range rules {
		fmt.Printf("  rule %-28s instances=%-4d floor=%-4d %s\n", ri.ID, ri.Count, ri.Floor, ri.Doc)
	}
	vpath := filepath.Join(evdir, r.Prop+".violations.json")
	if bad > 0 {
		var vs []Ob
		for _, o := range r.Obs {
			if o.Verdict == Violation || o.Verdict == Undecided {
				vs = append(vs, o)
				fmt.Printf("  %s rule=%s construct=%s at %s: %s\n", strings.ToUpper(o.Verdict), o.Rule, o.Construct, o.Pos, o.Detail)
			}
		}
		writeJSON(vpath, vs)
		fmt.Printf("VIOLATION property=%s replay=%s\n", r.Prop, vpath)
		return 1
	}
	os.Remove(vpath)
	return 0
}

func seedFromEnv() int {
	var s int
	fmt.Sscanf(os.Getenv("VERIF_SEED"), "%d", &s)
	return s
}

func writeJSON(path string, v interface{}) error {
	b, err := json.MarshalIndent(v, "", " ")
	if err != nil {
		return err
	}
	return os.WriteFile(path, append(b, '\n'), 0o644)
}
