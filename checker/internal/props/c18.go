package props

import (
	"fmt"
	"go/ast"
	"go/token"
	"go/types"
	"strings"

	"golibcheck/internal/core"
	"golibcheck/internal/locks"
	"golibcheck/internal/paths"
)

// C18 — file configuration tracks the file, notifies observers and writes back safely.
func init() { register(&Checker{ID: "C18", Canaries: c18Canaries, Run: runC18}) }

func c18Canaries() []core.Canary {
	return []core.Canary{{RelDir: "config/conffile", Name: "c18", Src: `package conffile

import (
	"bufio"
	"os"
	"strconv"
)

// unguarded map read; inverted error handling
func (this *FileConfig) zzCanaryGetShort(key string, def int16) int16 {
	v := this.m[key]
	if v == "" {
		return def
	}
	n, err := strconv.ParseInt(v, 10, 16)
	if err != nil {
		return int16(n)
	}
	return def
}

// truncate-then-write
func zzCanaryWrite(path, content string) error {
	f, err := os.OpenFile(path, os.O_WRONLY|os.O_TRUNC, 0644)
	if err != nil {
		return err
	}
	defer f.Close()
	_, err = f.WriteString(content)
	return err
}

// drops what arrives with io.EOF
func zzCanaryLines(r *bufio.Reader) (out []string) {
	for {
		s, err := r.ReadString('\n')
		if err != nil {
			break
		}
		out = append(out, s)
	}
	return out
}
`, Expect: []core.CanaryExpect{{Rule: "C18.map-guard", Sub: "zzCanaryGetShort"}, {Rule: "C18.getters", Sub: "zzCanaryGetShort"}, {Rule: "C18.atomic-write", Sub: "zzCanaryWrite"}, {Rule: "C18.last-line", Sub: "zzCanaryLines"}}}}
}

func runC18(p *core.Program, r *core.Report) {
	r.Explanation = "Structural rules for the file configuration (config/conffile). Map guard: the key/value map is shared between the reload goroutine and every getter; every access to it (read, write, replacement, iteration) in every method must happen with the configuration's mutex held (lock-region dataflow on go/cfg). Getters: each typed getter returns the default for an empty value and for a parse error and the parsed value otherwise; no value obtained together with an error is consumed on the err != nil branch. Change detection: reload skips exactly when the file's modification time equals the last seen one (equality, not ordering) and compares it at full resolution; after applying a change it notifies the observer. Write-back: the parser never opens the configuration path for truncation/creation; it writes a temporary file in the same directory, syncs it and renames it over the original on every success path. Merge: SetValues re-reads the file through the parser, overlays the given keys (exclusions, prefix, suffix) and calls the parser's Write once."
	r.NotDecided = []string{"that comments and line order survive a write (string processing in DefaultFileParser.Write; values containing '=' in non-word-key lines are truncated — seen while reading, value-level)", "crash points as instants (the atomic-replace shape is the necessary condition)"}
	r.Rule("C18.map-guard", "every access to the configuration map happens under the configuration's mutex", 3)
	r.Rule("C18.getters", "typed getters fall back to the default on empty and on parse error; error polarity is right", 6)
	r.Rule("C18.trim", "the raw accessor hands out map values with the surrounding white space removed (the loader keeps what follows the value on its line; the typed getters parse what the accessor returns)", 1)
	r.Rule("C18.reload", "reload skips iff mtime == last (full resolution), applies, then notifies the observer", 3)
	r.Rule("C18.atomic-write", "the configuration path is never truncated in place: temp file in the same directory + Sync + Rename", 1)
	r.Rule("C18.merge", "SetValues re-reads the file, overlays the keys and writes once", 1)

	r.Rule("C18.apply-atomic", "a reload is one step for readers: the loop that stores a file's entries into the configuration map does not take the lock entry by entry", 1)
	c18ApplyAtomic(p, r)
	r.Rule("C18.observers", "whoever registers is notified: Add stores the observer under its name on every path (the latest registration under a name is the one in force); Run calls ApplyConfig on every registered observer", 2)
	c18Observers(p, r)
	r.Rule("C18.escape-all", "the escaping of values on the way into the file is applied to every occurrence (strings.Replace with a negative count): written values read back unchanged", 1)
	c18EscapeAll(p, r)
	r.Rule("C18.last-line", "the line-by-line rewrite loses no line: text a reader returns together with the end-of-file error (a last line without newline) is handled on the error path", 0)
	c18LastLine(p, r, "C18.last-line")
	c18Decimal(p, r)
	c18SyncWrite(p, r)
	c18MapGuard(p, r)
	c18Getters(p, r)
	c18Trim(p, r)
	c18Reload(p, r)
	c18AtomicWrite(p, r)
	c18Merge(p, r)
	c18Derived(p, r)
}

func c18MapGuard(p *core.Program, r *core.Report) {
	pk := p.Pkg("config/conffile")
	if pk == nil {
		r.Undec("C18.map-guard", "config/conffile", "-", "package not found")
		return
	}
	o, _ := pk.Types.Scope().Lookup("FileConfig").(*types.TypeName)
	if o == nil {
		r.Undec("C18.map-guard", "config/conffile.FileConfig", "-", "type not found")
		return
	}
	t := o.Type().(*types.Named)
	lf, _ := locks.FindLockField(t)
	if lf == "" {
		// no mutex at all: every method touching the map is a violation
		for _, fi := range p.MethodsOf(t) {
			touches := false
			if fi.Decl.Body == nil {
				continue
			}
			rn := recvName(fi)
			ast.Inspect(fi.Decl.Body, func(n ast.Node) bool {
				if sel, ok := n.(*ast.SelectorExpr); ok && sel.Sel.Name == "m" {
					if id, ok := sel.X.(*ast.Ident); ok && id.Name == rn {
						touches = true
					}
				}
				return true
			})
			if touches {
				r.Viol("C18.map-guard", "config/conffile.FileConfig."+fi.Obj.Name(), p.Pos(fi.Decl.Pos()), "the map shared with the reload goroutine is accessed and the type has no mutex: concurrent map read and map write aborts the process")
			}
		}
		return
	}
	tl := locks.Analyze(p, t)
	for _, fl := range tl.Order {
		var bad []string
		n := 0
		for _, ac := range fl.Accesses {
			if ac.Alias && !tl.ElemWritten[ac.Field] {
				continue // the map is replaced, never written in place: a snapshot reference is safe to read
			}
			if ac.Field != "m" {
				continue
			}
			n++
			if ac.Held != locks.Yes {
				w := "read"
				if ac.Write {
					w = "write"
				}
				bad = append(bad, w+" at "+p.Pos(ac.Pos))
			}
		}
		if n == 0 {
			continue
		}
		c := "config/conffile.FileConfig." + fl.FI.Obj.Name()
		if fl.FI.Obj.Name() == "newFileConfig" {
			continue
		}
		if len(bad) > 0 {
			r.Viol("C18.map-guard", c, p.Pos(fl.FI.Decl.Pos()), "map accessed without the mutex ("+strings.Join(uniq(bad), ", ")+") while the reload goroutine writes it: concurrent map read and map write")
		} else {
			r.OK("C18.map-guard", c, p.Pos(fl.FI.Decl.Pos()), fmt.Sprintf("%d map accesses, all under %s", n, lf))
		}
		if len(fl.Unpaired) > 0 {
			r.Viol("C18.map-guard", c+" lock pairing", p.Pos(fl.FI.Decl.Pos()), strings.Join(fl.Unpaired, "; "))
		}
	}
	// re-entry: a method holding the lock must not call a method that locks (RWMutex is not re-entrant for writers)
	may := tl.MayLock()
	for _, fl := range tl.Order {
		for _, cs := range fl.Calls {
			if cs.Held == locks.No {
				continue
			}
			if path, ok := may[cs.Callee]; ok {
				r.Viol("C18.map-guard", "config/conffile.FileConfig."+fl.FI.Obj.Name()+" -> "+cs.Callee.Name(), p.Pos(cs.Pos), "called with the mutex held and "+strings.Join(path, " -> ")+" takes it again: self-deadlock")
			}
		}
	}
}

func c18Getters(p *core.Program, r *core.Report) {
	pk := p.Pkg("config/conffile")
	if pk == nil {
		return
	}
	// typed getters: functions with `v == ""` fallback and a strconv parse
	for _, fi := range p.Funcs {
		if fi.Pkg != pk || fi.Decl.Body == nil || core.RecvNamed(fi.Obj) == nil || core.RecvNamed(fi.Obj).Obj().Name() != "FileConfig" {
			continue
		}
		parses := false
		ast.Inspect(fi.Decl.Body, func(n ast.Node) bool {
			if call, ok := n.(*ast.CallExpr); ok {
				if s := stripSpaces(types.ExprString(call.Fun)); strings.HasPrefix(s, "strconv.Parse") || s == "strconv.Atoi" {
					parses = true
				}
			}
			return true
		})
		if !parses {
			continue
		}
		// scalar getters only: a getter that collects parsed tokens into a set/list skips the malformed
		// ones instead of falling back to a default
		if res := fi.Obj.Type().(*types.Signature).Results(); res.Len() != 1 || !isBasicType(res.At(0).Type()) {
			continue
		}
		ginfo := fi.Pkg.TypesInfo
		gnorm := func(e ast.Expr) string { return stripSpaces(types.ExprString(e)) }
		ps, _ := paths.Enumerate(fi.Decl.Body, paths.Config{Info: ginfo,
			Cond: func(c ast.Expr, v bool) *paths.Event {
				return &paths.Event{Kind: "COND", Arg: condKey(ginfo, gnorm, c, v)}
			},
			Classify: func(n ast.Node) []paths.Event {
				if rs, ok := n.(*ast.ReturnStmt); ok && len(rs.Results) == 1 {
					s := stripSpaces(types.ExprString(rs.Results[0]))
					kind := "other"
					if strings.Contains(s, "def") {
						kind = "default"
					} else if strings.Contains(s, "value") || strings.Contains(s, "n") {
						kind = "parsed"
					}
					return []paths.Event{{Kind: "RETVAL", Arg: kind}}
				}
				return nil
			}})
		var probs []string
		for _, pa := range ps {
			empty := pa.HasArg("COND", cc("v", "==", `""`, true)) || pa.HasArg("COND", cc("len(v)", "==", "0", true))
			errT := pa.HasArg("COND", cc("err", "!=", "nil", true))
			errF := pa.HasArg("COND", cc("err", "!=", "nil", false))
			switch {
			case empty && !pa.HasArg("RETVAL", "default"):
				probs = append(probs, "an empty value does not yield the default")
			case errT && !pa.HasArg("RETVAL", "default"):
				probs = append(probs, "a malformed value does not yield the default (the result of the failed parse is returned)")
			case errF && !pa.HasArg("RETVAL", "parsed"):
				probs = append(probs, "a well-formed value is not returned")
			}
		}
		// the parse's verdict is listened to: a strconv result whose error is thrown away is the zero
		// value for anything malformed, not the caller's default
		ast.Inspect(fi.Decl.Body, func(n ast.Node) bool {
			as, ok := n.(*ast.AssignStmt)
			if !ok || len(as.Rhs) != 1 || len(as.Lhs) != 2 {
				return true
			}
			call, ok := ast.Unparen(as.Rhs[0]).(*ast.CallExpr)
			if !ok {
				return true
			}
			fn := calleeFunc(ginfo, call)
			if fn == nil || fn.Pkg() == nil || fn.Pkg().Path() != "strconv" || !(strings.HasPrefix(fn.Name(), "Parse") || fn.Name() == "Atoi") {
				return true
			}
			if id, ok := as.Lhs[1].(*ast.Ident); ok && id.Name == "_" {
				probs = append(probs, "the error of strconv."+fn.Name()+" is discarded: a malformed value yields the zero value instead of the supplied default")
			}
			return true
		})
		// the parse must reject what the result type cannot hold: parsing wider (Atoi, ParseInt(..., 64))
		// and then converting to a narrower integer wraps an out-of-range value instead of yielding the default
		parsedBits := map[types.Object]int64{}
		ast.Inspect(fi.Decl.Body, func(n ast.Node) bool {
			as, ok := n.(*ast.AssignStmt)
			if !ok || len(as.Rhs) != 1 || len(as.Lhs) < 1 {
				return true
			}
			call, ok := ast.Unparen(as.Rhs[0]).(*ast.CallExpr)
			if !ok {
				return true
			}
			var bits int64
			switch gnorm(call.Fun) {
			case "strconv.Atoi":
				bits = 64
			case "strconv.ParseInt", "strconv.ParseUint":
				if len(call.Args) == 3 {
					if b, ok := constIntOf(ginfo, call.Args[2]); ok {
						bits = b
						if b == 0 {
							bits = 64
						}
					}
				}
			}
			if bits > 0 {
				if id, ok := as.Lhs[0].(*ast.Ident); ok {
					parsedBits[ginfo.ObjectOf(id)] = bits
				}
			}
			return true
		})
		ast.Inspect(fi.Decl.Body, func(n ast.Node) bool {
			call, ok := n.(*ast.CallExpr)
			if !ok || len(call.Args) != 1 {
				return true
			}
			tv, ok := ginfo.Types[call.Fun]
			if !ok || !tv.IsType() {
				return true
			}
			tb, ok := tv.Type.Underlying().(*types.Basic)
			if !ok || tb.Info()&types.IsInteger == 0 {
				return true
			}
			if id, ok := ast.Unparen(call.Args[0]).(*ast.Ident); ok {
				if pb, ok := parsedBits[ginfo.ObjectOf(id)]; ok && int64(typeBits(tv.Type)) < pb {
					probs = append(probs, fmt.Sprintf("the value is parsed as a %d-bit integer and then converted to %s: an out-of-range number wraps around instead of falling back to the default", pb, tv.Type))
				}
			}
			return true
		})
		fileProbs(r, "C18.getters", core.FuncName(fi.Obj), p.Pos(fi.Decl.Pos()), uniq(probs), "default on empty and on parse error, parsed value otherwise")
	}
	nth := map[string]int{}
	for _, u := range scanErrChecksDeep(p, []string{"config/conffile"}) {
		c := core.FuncName(u.Fn.Obj) + " " + u.ValName
		nth[c]++
		c = fmt.Sprintf("%s #%d", c, nth[c])
		if u.Inverted {
			r.Viol("C18.getters", c, p.Pos(u.Pos), u.Detail)
		} else {
			r.OK("C18.getters", c, p.Pos(u.Pos), "")
		}
	}
}

// scanErrChecksDeep: like scanErrChecks but also `if v, err := f(); err != nil { use v }` (init form).
func scanErrChecksDeep(p *core.Program, rel []string) []errUse {
	out := scanErrChecks(p, rel)
	in := map[string]bool{}
	for _, r := range rel {
		in[r] = true
	}
	for _, fi := range p.Funcs {
		if !in[core.RelPkg(fi.Pkg.PkgPath)] || fi.Decl.Body == nil {
			continue
		}
		info := fi.Pkg.TypesInfo
		ast.Inspect(fi.Decl.Body, func(n ast.Node) bool {
			ifs, ok := n.(*ast.IfStmt)
			if !ok || ifs.Init == nil {
				return true
			}
			as, ok := ifs.Init.(*ast.AssignStmt)
			if !ok || len(as.Lhs) != 2 || len(as.Rhs) != 1 {
				return true
			}
			vid, ok1 := as.Lhs[0].(*ast.Ident)
			eid, ok2 := as.Lhs[1].(*ast.Ident)
			if !ok1 || !ok2 || vid.Name == "_" {
				return true
			}
			eobj, vobj := info.ObjectOf(eid), info.ObjectOf(vid)
			if eobj == nil || vobj == nil || !isErrorType(eobj.Type()) {
				return true
			}
			be, ok := ifs.Cond.(*ast.BinaryExpr)
			if !ok || (be.Op != token.NEQ && be.Op != token.EQL) {
				return true
			}
			l, lok := be.X.(*ast.Ident)
			rr, rok := be.Y.(*ast.Ident)
			if !lok || !rok || info.ObjectOf(l) != eobj || rr.Name != "nil" {
				return true
			}
			var errBranch ast.Node
			if be.Op == token.NEQ {
				errBranch = ifs.Body
			} else if ifs.Else != nil {
				errBranch = ifs.Else
			}
			u := errUse{Fn: fi, Pos: as.Pos(), ValName: vid.Name}
			if errBranch != nil && readsObj(info, errBranch, vobj) {
				u.Inverted = true
				u.Detail = "the result of the failed call is consumed on the err != nil branch"
			}
			out = append(out, u)
			return true
		})
	}
	return out
}

func c18Reload(p *core.Program, r *core.Report) {
	fi := p.Method("config/conffile", "FileConfig", "reload")
	c := "config/conffile.FileConfig.reload"
	if fi == nil || fi.Decl.Body == nil {
		r.Undec("C18.reload", c, "-", "not found")
		return
	}
	rn := recvName(fi)
	norm := func(e ast.Expr) string { return strings.ReplaceAll(stripSpaces(types.ExprString(e)), rn+".", "") }
	pos := p.Pos(fi.Decl.Pos())
	// new_time definition and the skip test
	var newTimeDef, skip string
	ast.Inspect(fi.Decl.Body, func(n ast.Node) bool {
		switch v := n.(type) {
		case *ast.AssignStmt:
			if len(v.Lhs) == 1 && len(v.Rhs) == 1 && norm(v.Lhs[0]) == "new_time" {
				newTimeDef = norm(v.Rhs[0])
			}
			// new_time, exists := fileModTime(path): what the helper returns for that result
			if len(v.Rhs) == 1 && len(v.Lhs) > 1 {
				if call, ok := ast.Unparen(v.Rhs[0]).(*ast.CallExpr); ok {
					rs := helperResults(p, fi.Pkg.TypesInfo, call)
					for i, l := range v.Lhs {
						if norm(l) == "new_time" && i < len(rs) {
							newTimeDef = norm(rs[i])
						}
					}
				}
			}
		case *ast.IfStmt:
			cs := norm(v.Cond)
			if strings.Contains(cs, "last_file_time") && strings.Contains(cs, "new_time") && len(v.Body.List) == 1 {
				if _, ok := v.Body.List[0].(*ast.ReturnStmt); ok {
					skip = cs
				}
			}
		}
		return true
	})
	r.Check(skip == "last_file_time==new_time" || skip == "new_time==last_file_time", "C18.reload", c+" change test", pos, "skips iff mtime == last seen",
		"the reload is skipped under `"+skip+"`, not exactly when the modification time is unchanged: a file restored with an older time stamp is never loaded")
	r.Check(strings.Contains(newTimeDef, "ModTime()") && !strings.HasSuffix(newTimeDef, ".Unix()"), "C18.reload", c+" mtime resolution", pos, "full-resolution modification time",
		"the modification time is truncated to seconds ("+newTimeDef+"): a second edit within the same second is missed")
	// observer notified after apply on the changed path
	rlIn := newInliner(p, fi, func(fn *types.Func) bool { return fn.Name() == "apply" })
	ps, _ := paths.Enumerate(fi.Decl.Body, paths.Config{Info: fi.Pkg.TypesInfo,
		Inline: rlIn.Body, // loadFile(path), notifyObservers() and the like are followed
		Cond: func(cnd ast.Expr, v bool) *paths.Event {
			return &paths.Event{Kind: "COND", Arg: fmt.Sprintf("%s=%v", norm(cnd), v)}
		},
		Classify: func(n ast.Node) []paths.Event {
			var out []paths.Event
			ast.Inspect(n, func(m ast.Node) bool {
				if call, ok := m.(*ast.CallExpr); ok {
					s := norm(call.Fun)
					switch {
					case s == "apply":
						out = append(out, paths.Event{Kind: "APPLY"})
					case strings.HasSuffix(s, "configObserver.Run"):
						out = append(out, paths.Event{Kind: "NOTIFY"})
					case strings.HasSuffix(s, "Parser.Read"):
						out = append(out, paths.Event{Kind: "PARSE"})
					}
				}
				return true
			})
			return out
		}})
	ok := false
	var probs []string
	for _, pa := range ps {
		ai := pa.Index("APPLY")
		if ai < 0 {
			continue
		}
		ok = true
		hasObs, noObs := false, false
		for _, e := range pa {
			if e.Kind == "COND" && strings.Contains(e.Arg, "configObserver") {
				// `obs != nil` taken, or `obs == nil` not taken
				if strings.HasSuffix(e.Arg, "!=nil=true") || strings.HasSuffix(e.Arg, "==nil=false") {
					hasObs = true
				} else {
					noObs = true
				}
			}
		}
		if hasObs {
			ni := pa.Index("NOTIFY")
			if ni < 0 || ni < ai {
				probs = append(probs, "a change is applied but the registered observer is not notified afterwards")
			}
		} else if !noObs && !pa.Has("PANIC") {
			probs = append(probs, "after applying a change reload can return without even looking at the observer (an early way out between apply and notify): observers miss the change")
		}
		if pi := pa.Index("PARSE"); pi < 0 || pi > ai {
			probs = append(probs, "the applied values do not come from parsing the file")
		}
	}
	if !ok {
		probs = append(probs, "no path applies a change")
	}
	fileProbs(r, "C18.reload", c+" apply/notify", pos, probs, "parse, apply, then notify the observer")
}

func c18AtomicWrite(p *core.Program, r *core.Report) {
	pk := p.Pkg("config/conffile")
	if pk == nil {
		return
	}
	for _, fi := range p.Funcs {
		if fi.Pkg != pk || fi.Decl.Body == nil {
			continue
		}
		info := fi.Pkg.TypesInfo
		writes := false
		var probs []string
		var temp, sync, rename bool
		ast.Inspect(fi.Decl.Body, func(n ast.Node) bool {
			call, ok := n.(*ast.CallExpr)
			if !ok {
				return true
			}
			s := stripSpaces(types.ExprString(call.Fun))
			switch {
			case s == "os.OpenFile" && len(call.Args) == 3:
				if flags, ok := constIntOf(info, call.Args[1]); ok {
					const oTrunc, oCreate, oWr, oRdwr = 0x200, 0x40, 0x1, 0x2
					if flags&(oWr|oRdwr) != 0 {
						writes = true
						if flags&oTrunc != 0 {
							probs = append(probs, "opens `"+stripSpaces(types.ExprString(call.Args[0]))+"` with O_TRUNC at "+p.Pos(call.Pos())+": between the truncation and the end of the write the file on disk is empty or partial")
						}
					}
				}
			case s == "os.Create" || s == "ioutil.WriteFile" || s == "os.WriteFile":
				writes = true
				probs = append(probs, s+" rewrites the target in place at "+p.Pos(call.Pos()))
			case s == "os.CreateTemp" || s == "ioutil.TempFile":
				writes = true
				if len(call.Args) >= 1 && strings.Contains(stripSpaces(types.ExprString(call.Args[0])), "filepath.Dir(") {
					temp = true
				} else {
					probs = append(probs, "the temporary file is not created in the target's directory (rename across file systems is not atomic)")
				}
			case strings.HasSuffix(s, ".Sync"):
				sync = true
			case s == "os.Rename":
				rename = true
			}
			return true
		})
		if !writes {
			continue
		}
		c := core.FuncName(fi.Obj)
		if len(probs) == 0 && !(temp && sync && rename) {
			// a function that only opens for reading+writing without truncation (line scan) is fine if it never writes
			wr := false
			ast.Inspect(fi.Decl.Body, func(n ast.Node) bool {
				if call, ok := n.(*ast.CallExpr); ok {
					s := stripSpaces(types.ExprString(call.Fun))
					if strings.HasSuffix(s, ".WriteString") || strings.HasSuffix(s, ".Write") || s == "io.WriteString" || strings.HasPrefix(s, "fmt.Fprint") {
						wr = true
					}
				}
				return true
			})
			if wr {
				probs = append(probs, fmt.Sprintf("content is written without the temp-file (%v) + Sync (%v) + Rename (%v) sequence", temp, sync, rename))
			}
		}
		fileProbs(r, "C18.atomic-write", c, p.Pos(fi.Decl.Pos()), probs, "temporary file in the same directory, Sync, Rename over the original")
	}
}

// c18Derived: state derived from the configuration map follows the map. (a) A field of FileConfig
// that holds derived data (a map or sync.Map other than the configuration map itself: a cache of parsed
// values) is touched by every method that writes the configuration map — otherwise a getter keeps
// answering from the old file content. (b) The modification time of the last file seen is advanced
// only by the poller (reload and the unexported helpers it alone calls): a writer that marks its own
// version as seen makes the poller skip it, and the observers never hear of it.
func c18Derived(p *core.Program, r *core.Report) {
	t := namedIn(p, "config/conffile", "FileConfig")
	if t == nil {
		return
	}
	st, ok := t.Underlying().(*types.Struct)
	if !ok {
		return
	}
	var caches []string
	for i := 0; i < st.NumFields(); i++ {
		f := st.Field(i)
		if f.Name() == "m" {
			continue
		}
		switch u := f.Type().Underlying().(type) {
		case *types.Map:
			caches = append(caches, f.Name())
		case *types.Struct:
			_ = u
			if nt := namedOf(f.Type()); nt != nil && nt.Obj().Name() == "Map" && nt.Obj().Pkg() != nil && nt.Obj().Pkg().Path() == "sync" {
				caches = append(caches, f.Name())
			}
		}
	}
	methods := p.MethodsOf(t)
	// which methods touch which field (directly or through same-receiver helpers, one level)
	touches := func(fi *core.FuncInfo, field string, depth int) bool { return false }
	var touchesRec func(fi *core.FuncInfo, field string, depth int) bool
	touchesRec = func(fi *core.FuncInfo, field string, depth int) bool {
		if fi.Decl.Body == nil || depth > 2 {
			return false
		}
		rn := recvName(fi)
		found := false
		ast.Inspect(fi.Decl.Body, func(n ast.Node) bool {
			switch v := n.(type) {
			case *ast.SelectorExpr:
				if id, ok := ast.Unparen(v.X).(*ast.Ident); ok && id.Name == rn && v.Sel.Name == field {
					found = true
				}
			case *ast.CallExpr:
				if sel, ok := v.Fun.(*ast.SelectorExpr); ok {
					if id, ok := ast.Unparen(sel.X).(*ast.Ident); ok && id.Name == rn {
						for _, m := range methods {
							if m.Obj.Name() == sel.Sel.Name && m != fi && touchesRec(m, field, depth+1) {
								found = true
							}
						}
					}
				}
			}
			return !found
		})
		return found
	}
	touches = touchesRec
	writesMap := func(fi *core.FuncInfo) bool {
		if fi.Decl.Body == nil {
			return false
		}
		rn := recvName(fi)
		w := false
		ast.Inspect(fi.Decl.Body, func(n ast.Node) bool {
			as, ok := n.(*ast.AssignStmt)
			if !ok {
				return true
			}
			for _, l := range as.Lhs {
				e := ast.Unparen(l)
				if ix, ok := e.(*ast.IndexExpr); ok {
					e = ast.Unparen(ix.X)
				}
				if sel, ok := e.(*ast.SelectorExpr); ok && sel.Sel.Name == "m" {
					if id, ok := ast.Unparen(sel.X).(*ast.Ident); ok && id.Name == rn {
						w = true
					}
				}
			}
			return true
		})
		return w
	}
	if len(caches) == 0 {
		r.OK("C18.reload", "config/conffile.FileConfig derived state", "-", "no cache of derived values beside the configuration map")
	}
	for _, cf := range caches {
		for _, fi := range methods {
			if !writesMap(fi) {
				continue
			}
			r.Check(touches(fi, cf, 0), "C18.reload", "config/conffile.FileConfig."+fi.Obj.Name()+" keeps "+cf+" in step", p.Pos(fi.Decl.Pos()), "the derived data is dropped or updated with the map",
				fi.Obj.Name()+" changes the configuration map and leaves "+cf+" (data derived from the map) as it was: getters go on answering from the previous file content")
		}
	}
	// (b) who advances last_file_time
	callers := map[*core.FuncInfo][]*core.FuncInfo{}
	for _, fi := range methods {
		if fi.Decl.Body == nil {
			continue
		}
		rn := recvName(fi)
		ast.Inspect(fi.Decl.Body, func(n ast.Node) bool {
			if call, ok := n.(*ast.CallExpr); ok {
				if sel, ok := call.Fun.(*ast.SelectorExpr); ok {
					if id, ok := ast.Unparen(sel.X).(*ast.Ident); ok && id.Name == rn {
						for _, m := range methods {
							if m.Obj.Name() == sel.Sel.Name {
								callers[m] = append(callers[m], fi)
							}
						}
					}
				}
			}
			return true
		})
	}
	var pollerOnly func(fi *core.FuncInfo, depth int) bool
	pollerOnly = func(fi *core.FuncInfo, depth int) bool {
		if fi.Obj.Name() == "reload" {
			return true
		}
		if fi.Obj.Exported() || depth > 3 || len(callers[fi]) == 0 {
			return false
		}
		for _, c := range callers[fi] {
			if !pollerOnly(c, depth+1) {
				return false
			}
		}
		return true
	}
	for _, fi := range methods {
		if fi.Decl.Body == nil {
			continue
		}
		rn := recvName(fi)
		sets := false
		ast.Inspect(fi.Decl.Body, func(n ast.Node) bool {
			if as, ok := n.(*ast.AssignStmt); ok {
				for _, l := range as.Lhs {
					if sel, ok := ast.Unparen(l).(*ast.SelectorExpr); ok && sel.Sel.Name == "last_file_time" {
						if id, ok := ast.Unparen(sel.X).(*ast.Ident); ok && id.Name == rn {
							sets = true
						}
					}
				}
			}
			return true
		})
		if sets {
			r.Check(pollerOnly(fi, 0), "C18.reload", "config/conffile.FileConfig."+fi.Obj.Name()+" sets last_file_time", p.Pos(fi.Decl.Pos()), "only the poller records which file version it has seen",
				fi.Obj.Name()+" records a file version as seen although it is not (only) part of reload: the poller skips that version and the observers are not notified of it")
		}
	}
}

func c18Merge(p *core.Program, r *core.Report) {
	fi := p.Method("config/conffile", "FileConfig", "SetValues")
	c := "config/conffile.FileConfig.SetValues"
	if fi == nil || fi.Decl.Body == nil {
		r.Undec("C18.merge", c, "-", "not found")
		return
	}
	rn := recvName(fi)
	norm := func(e ast.Expr) string { return strings.ReplaceAll(stripSpaces(types.ExprString(e)), rn+".", "") }
	var baseDef string
	reads, writes := 0, 0
	overlay := false
	var writeArg string
	ast.Inspect(fi.Decl.Body, func(n ast.Node) bool {
		switch v := n.(type) {
		case *ast.AssignStmt:
			if len(v.Rhs) == 1 {
				if call, ok := v.Rhs[0].(*ast.CallExpr); ok && norm(call.Fun) == "conf.Parser.Read" {
					reads++
					baseDef = norm(v.Lhs[0])
				}
			}
			if len(v.Lhs) == 1 {
				if ix, ok := v.Lhs[0].(*ast.IndexExpr); ok && norm(ix.X) == baseDef && baseDef != "" {
					overlay = true
				}
			}
		case *ast.CallExpr:
			if norm(v.Fun) == "conf.Parser.Write" && len(v.Args) == 2 {
				writes++
				writeArg = strings.TrimPrefix(norm(v.Args[1]), "&")
			}
			// the overlay loop handed to a helper: the re-read map is passed to a function of the
			// package that stores into that parameter
			if baseDef != "" {
				for i, a := range v.Args {
					if norm(a) == baseDef && helperStoresInto(p, fi.Pkg.TypesInfo, v, i, 0) {
						overlay = true
					}
				}
			}
		}
		return true
	})
	ok := reads == 1 && writes == 1 && overlay && writeArg == baseDef
	r.Check(ok, "C18.merge", c, p.Pos(fi.Decl.Pos()), "re-reads the file, overlays the keys, writes once",
		fmt.Sprintf("the written map is not the freshly re-read file content overlaid with the given keys (parser reads=%d, writes=%d, overlay=%v, written=%s): keys edited on disk since the last reload are overwritten with stale values", reads, writes, overlay, writeArg))
}

// c18Trim: every value that leaves the configuration map through a return statement of a FileConfig
// method is passed through strings.TrimSpace (directly at the return). `key=6600 ` in the file must
// read as 6600 through GetInt, not fall back to the default.
func c18Trim(p *core.Program, r *core.Report) {
	t := namedIn(p, "config/conffile", "FileConfig")
	if t == nil {
		return
	}
	for _, fi := range p.MethodsOf(t) {
		if fi.Decl.Body == nil {
			continue
		}
		info := fi.Pkg.TypesInfo
		rn := recvName(fi)
		// locals holding a value looked up in the map: v, ok := this.m[key] / v := this.m[key]
		vals := map[types.Object]bool{}
		ast.Inspect(fi.Decl.Body, func(n ast.Node) bool {
			as, ok := n.(*ast.AssignStmt)
			if !ok || len(as.Rhs) != 1 || len(as.Lhs) == 0 {
				return true
			}
			ix, ok := ast.Unparen(as.Rhs[0]).(*ast.IndexExpr)
			if !ok || stripSpaces(types.ExprString(ix.X)) != rn+".m" {
				return true
			}
			if id, ok := as.Lhs[0].(*ast.Ident); ok && id.Name != "_" {
				if b, ok := info.TypeOf(id).Underlying().(*types.Basic); ok && b.Info()&types.IsString != 0 {
					vals[info.ObjectOf(id)] = true
				}
			}
			return true
		})
		if len(vals) == 0 {
			continue
		}
		n := 0
		var probs []string
		ast.Inspect(fi.Decl.Body, func(m ast.Node) bool {
			rs, ok := m.(*ast.ReturnStmt)
			if !ok {
				return true
			}
			for _, res := range rs.Results {
				mentions := false
				ast.Inspect(res, func(k ast.Node) bool {
					if id, ok := k.(*ast.Ident); ok && vals[info.ObjectOf(id)] {
						mentions = true
					}
					return true
				})
				if !mentions {
					continue
				}
				n++
				call, ok := ast.Unparen(res).(*ast.CallExpr)
				if !ok || !isCallTo(info, call, "strings", "TrimSpace") {
					probs = append(probs, p.Pos(rs.Pos())+": the map value is returned as stored (`"+types.ExprString(res)+"`): trailing blanks of the line reach the parsers, which then fall back to the default")
				}
			}
			return true
		})
		if n > 0 {
			fileProbs(r, "C18.trim", core.FuncName(fi.Obj), p.Pos(fi.Decl.Pos()), probs, "map values leave through strings.TrimSpace")
		}
	}
}

// helperStoresInto: the callee of call (a function or method of the module with a body) assigns to an
// element of its i-th parameter, itself or through one more helper.
func helperStoresInto(p *core.Program, info *types.Info, call *ast.CallExpr, i, depth int) bool {
	if depth > 2 {
		return false
	}
	var id *ast.Ident
	switch f := ast.Unparen(call.Fun).(type) {
	case *ast.Ident:
		id = f
	case *ast.SelectorExpr:
		id = f.Sel
	}
	if id == nil {
		return false
	}
	fn, _ := info.Uses[id].(*types.Func)
	if fn == nil {
		return false
	}
	hf := p.FuncOf(fn)
	if hf == nil || hf.Decl.Body == nil {
		return false
	}
	var param types.Object
	k := 0
	for _, f := range hf.Decl.Type.Params.List {
		for _, n := range f.Names {
			if k == i {
				param = hf.Pkg.TypesInfo.Defs[n]
			}
			k++
		}
	}
	if param == nil {
		return false
	}
	hinfo := hf.Pkg.TypesInfo
	found := false
	ast.Inspect(hf.Decl.Body, func(n ast.Node) bool {
		switch v := n.(type) {
		case *ast.AssignStmt:
			for _, l := range v.Lhs {
				if ix, ok := ast.Unparen(l).(*ast.IndexExpr); ok {
					if x, ok := ast.Unparen(ix.X).(*ast.Ident); ok && hinfo.ObjectOf(x) == param {
						found = true
					}
				}
			}
		case *ast.CallExpr:
			for j, a := range v.Args {
				if x, ok := ast.Unparen(a).(*ast.Ident); ok && hinfo.ObjectOf(x) == param && helperStoresInto(p, hinfo, v, j, depth+1) {
					found = true
				}
			}
		}
		return true
	})
	return found
}

// c18LastLine: the write-back copies the file line by line; every line survives, the last one too. A
// reader call that can hand back text TOGETHER with the end-of-file error (bufio.Reader.ReadString /
// ReadBytes: a last line without a newline) must have that text looked at on the error path: an
// `if err != nil { …; break }` that leaves the loop without mentioning what was read drops the last
// line of every file that does not end in a newline. (ReadLine and Scanner never return both.)
func c18LastLine(p *core.Program, r *core.Report, rule string) {
	for _, fi := range p.Funcs {
		if fi.Decl.Body == nil || core.RelPkg(fi.Pkg.PkgPath) != "config/conffile" {
			continue
		}
		info := fi.Pkg.TypesInfo
		ast.Inspect(fi.Decl.Body, func(n ast.Node) bool {
			blk, ok := n.(*ast.BlockStmt)
			if !ok {
				return true
			}
			for i, st := range blk.List {
				as, ok := st.(*ast.AssignStmt)
				if !ok || len(as.Lhs) != 2 || len(as.Rhs) != 1 {
					continue
				}
				call, ok := ast.Unparen(as.Rhs[0]).(*ast.CallExpr)
				if !ok {
					continue
				}
				fn := calleeFunc(info, call)
				if fn == nil || fn.Pkg() == nil || fn.Pkg().Path() != "bufio" || (fn.Name() != "ReadString" && fn.Name() != "ReadBytes") {
					continue
				}
				did, ok1 := as.Lhs[0].(*ast.Ident)
				eid, ok2 := as.Lhs[1].(*ast.Ident)
				if !ok1 || !ok2 || did.Name == "_" || eid.Name == "_" {
					continue
				}
				derived := map[types.Object]bool{info.ObjectOf(did): true}
				errObj := info.ObjectOf(eid)
				mentions := func(n ast.Node) bool {
					found := false
					ast.Inspect(n, func(m ast.Node) bool {
						if id, ok := m.(*ast.Ident); ok && derived[info.ObjectOf(id)] {
							found = true
						}
						return !found
					})
					return found
				}
				c := core.FuncName(fi.Obj) + " " + fn.Name()
				judged := false
				for _, nx := range blk.List[i+1:] {
					// locals computed from the text carry it
					if a2, ok := nx.(*ast.AssignStmt); ok {
						for k, rh := range a2.Rhs {
							if mentions(rh) && k < len(a2.Lhs) {
								if lid, ok := a2.Lhs[k].(*ast.Ident); ok {
									derived[info.ObjectOf(lid)] = true
								}
							}
						}
						continue
					}
					ifs, ok := nx.(*ast.IfStmt)
					if !ok {
						if mentions(nx) {
							break // the text is used before the error is looked at
						}
						continue
					}
					be, ok := ast.Unparen(ifs.Cond).(*ast.BinaryExpr)
					if !ok || be.Op != token.NEQ {
						if mentions(ifs) {
							break
						}
						continue
					}
					x, isId := ast.Unparen(be.X).(*ast.Ident)
					if !isId || info.ObjectOf(x) != errObj {
						if mentions(ifs) {
							break
						}
						continue
					}
					leaves := false
					if len(ifs.Body.List) > 0 {
						switch l := ifs.Body.List[len(ifs.Body.List)-1].(type) {
						case *ast.BranchStmt:
							leaves = l.Tok == token.BREAK
						case *ast.ReturnStmt:
							leaves = true
						}
					}
					judged = true
					if leaves && !mentions(ifs.Body) {
						r.Viol(rule, c, p.Pos(call.Pos()), "the text "+fn.Name()+" returns together with the end-of-file error is never looked at: the branch taken on the error leaves the loop without it, so a last line without a newline is dropped from the rewritten file")
					} else {
						r.OK(rule, c, p.Pos(call.Pos()), "what arrives with the error is handled")
					}
					break
				}
				if !judged {
					r.OK(rule, c, p.Pos(call.Pos()), "the text is used before the error is tested")
				}
			}
			return true
		})
	}
}
