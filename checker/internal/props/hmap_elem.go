package props

import (
	"fmt"
	"go/ast"
	"go/token"
	"go/types"
	"strings"

	"golibcheck/internal/core"
)

// checkElemAsserts: a method of the collection that takes an enumeration of the collection itself
// (`en := this.Keys()`) and asserts the type of an element (`en.NextElement().(T)`) names a type the
// enumerator can yield. The enumerator is resolved from the constructing method (composite literal or
// New…Enumer call); the static types of the return expressions of its Next… method are collected, with
// the discriminator (Type / isEntry) folded to the value the constructor gave where that is a constant.
// T is accepted iff some yielded static type S is identical to T, or S is an interface T implements.
// Anything unresolved is accepted (no obligation): the rule only reports an assertion that cannot succeed
// for any element, which makes the method panic on every non-empty collection.
func (h *hmapType) checkElemAsserts() {
	for _, fi := range h.p.MethodsOf(h.t) {
		if fi.Decl.Body == nil || fi.Decl.Recv == nil {
			continue
		}
		info := fi.Pkg.TypesInfo
		rn := recvName(fi)
		enumOf := map[types.Object]*core.FuncInfo{}
		bind := func(lhs ast.Expr, rhs ast.Expr) {
			id, ok := lhs.(*ast.Ident)
			if !ok {
				return
			}
			call, ok := ast.Unparen(rhs).(*ast.CallExpr)
			if !ok {
				return
			}
			sel, ok := call.Fun.(*ast.SelectorExpr)
			if !ok {
				return
			}
			if x, ok := sel.X.(*ast.Ident); !ok || x.Name != rn {
				return
			}
			ctor := h.p.Method(core.RelPkg(h.t.Obj().Pkg().Path()), h.t.Obj().Name(), sel.Sel.Name)
			if ctor == nil || ctor.Decl.Body == nil {
				return
			}
			if o := info.ObjectOf(id); o != nil {
				enumOf[o] = ctor
			}
		}
		ast.Inspect(fi.Decl.Body, func(n ast.Node) bool {
			switch v := n.(type) {
			case *ast.AssignStmt:
				if len(v.Lhs) == len(v.Rhs) {
					for i := range v.Lhs {
						bind(v.Lhs[i], v.Rhs[i])
					}
				}
			case *ast.ValueSpec:
				if len(v.Names) == len(v.Values) {
					for i := range v.Names {
						bind(v.Names[i], v.Values[i])
					}
				}
			}
			return true
		})
		if len(enumOf) == 0 {
			continue
		}
		ast.Inspect(fi.Decl.Body, func(n ast.Node) bool {
			ta, ok := n.(*ast.TypeAssertExpr)
			if !ok || ta.Type == nil {
				return true
			}
			call, ok := ast.Unparen(ta.X).(*ast.CallExpr)
			if !ok {
				return true
			}
			sel, ok := call.Fun.(*ast.SelectorExpr)
			if !ok || !strings.HasPrefix(sel.Sel.Name, "Next") {
				return true
			}
			id, ok := sel.X.(*ast.Ident)
			if !ok {
				return true
			}
			ctor := enumOf[info.ObjectOf(id)]
			if ctor == nil {
				return true
			}
			T := info.TypeOf(ta.Type)
			yields, ok := h.enumYields(ctor, sel.Sel.Name)
			if !ok || T == nil || len(yields) == 0 {
				return true
			}
			c := fmt.Sprintf("%s.%s:%s.%s().(%s)", h.name, fi.Obj.Name(), ctor.Obj.Name(), sel.Sel.Name, types.ExprString(ta.Type))
			pos := h.p.Pos(ta.Pos())
			var ys []string
			for _, S := range yields {
				ys = append(ys, types.TypeString(S, func(*types.Package) string { return "" }))
				if types.Identical(S, T) {
					h.r.OK(h.pre+".elem-assert", c, pos, "enumerator yields exactly this type")
					return true
				}
				if it, ok := S.Underlying().(*types.Interface); ok && (it.Empty() || types.Implements(T, it)) {
					h.r.OK(h.pre+".elem-assert", c, pos, "enumerator yields interface "+ys[len(ys)-1]+" which the asserted type implements")
					return true
				}
			}
			h.r.Viol(h.pre+".elem-assert", c, pos, fmt.Sprintf("%s() yields %s, never the asserted %s: the assertion panics for every element", ctor.Obj.Name(), strings.Join(ys, " | "), types.ExprString(ta.Type)))
			return true
		})
	}
}

// enumCtor resolves the enumerator type a constructor method builds and the constant values it gives to
// the enumerator's fields.
func (h *hmapType) enumCtor(fi *core.FuncInfo) (*types.Named, map[string]ast.Expr) {
	info := fi.Pkg.TypesInfo
	var et *types.Named
	given := map[string]ast.Expr{}
	ast.Inspect(fi.Decl.Body, func(n ast.Node) bool {
		switch v := n.(type) {
		case *ast.CompositeLit:
			if tv, ok := info.Types[v]; ok {
				if nn := namedOf(tv.Type); nn != nil && strings.Contains(nn.Obj().Name(), "Enumer") {
					et = nn
					for _, el := range v.Elts {
						if kv, ok := el.(*ast.KeyValueExpr); ok {
							given[types.ExprString(kv.Key)] = kv.Value
						}
					}
				}
			}
		case *ast.CallExpr:
			if id, ok := v.Fun.(*ast.Ident); ok && strings.HasPrefix(id.Name, "New") && strings.Contains(id.Name, "Enumer") {
				if cfi := h.p.Func(core.RelPkg(h.t.Obj().Pkg().Path()), id.Name); cfi != nil && cfi.Decl.Body != nil {
					if rt := cfi.Obj.Type().(*types.Signature).Results(); rt.Len() == 1 {
						et = namedOf(rt.At(0).Type())
					}
					params := map[types.Object]int{}
					i := 0
					for _, f := range cfi.Decl.Type.Params.List {
						for _, nm := range f.Names {
							params[cfi.Pkg.TypesInfo.Defs[nm]] = i
							i++
						}
					}
					ast.Inspect(cfi.Decl.Body, func(m ast.Node) bool {
						if as, ok := m.(*ast.AssignStmt); ok && len(as.Lhs) == 1 && len(as.Rhs) == 1 {
							if sel, ok := as.Lhs[0].(*ast.SelectorExpr); ok {
								if rid, ok := as.Rhs[0].(*ast.Ident); ok {
									if pi, ok := params[cfi.Pkg.TypesInfo.ObjectOf(rid)]; ok && pi < len(v.Args) {
										given[sel.Sel.Name] = v.Args[pi]
									}
								}
							}
						}
						return true
					})
				}
			}
		}
		return true
	})
	return et, given
}

// enumYields: static types of what et.<next>() can return when built by ctor.
func (h *hmapType) enumYields(ctor *core.FuncInfo, next string) ([]types.Type, bool) {
	ts, _, ok := h.enumYieldsX(ctor, next)
	return ts, ok
}

// enumYieldsX also hands back the returned expressions themselves.
func (h *hmapType) enumYieldsX(ctor *core.FuncInfo, next string) ([]types.Type, []ast.Expr, bool) {
	et, given := h.enumCtor(ctor)
	if et == nil {
		return nil, nil, false
	}
	cinfo := ctor.Pkg.TypesInfo
	var m *core.FuncInfo
	for _, x := range h.p.MethodsOf(et) {
		if x.Obj.Name() == next && x.Decl.Body != nil {
			m = x
		}
	}
	if m == nil {
		return nil, nil, false
	}
	info := m.Pkg.TypesInfo
	rn := recvName(m)
	constOf := func(field string) (string, bool) {
		g, ok := given[field]
		if !ok {
			// a field the constructor leaves unset holds its zero value
			return "zero", true
		}
		if tv, ok := cinfo.Types[g]; ok && tv.Value != nil {
			return tv.Value.ExactString(), true
		}
		return "", false
	}
	isRecvField := func(e ast.Expr) (string, bool) {
		if sel, ok := ast.Unparen(e).(*ast.SelectorExpr); ok {
			if id, ok := sel.X.(*ast.Ident); ok && id.Name == rn {
				return sel.Sel.Name, true
			}
		}
		return "", false
	}
	var out []types.Type
	var outE []ast.Expr
	var walk func(list []ast.Stmt)
	walkStmt := func(s ast.Stmt) { walk([]ast.Stmt{s}) }
	walk = func(list []ast.Stmt) {
		for _, s := range list {
			switch v := s.(type) {
			case *ast.ReturnStmt:
				for _, e := range v.Results {
					if id, ok := e.(*ast.Ident); ok && id.Name == "nil" {
						continue
					}
					if t := info.TypeOf(e); t != nil {
						out = append(out, t)
						outE = append(outE, e)
					}
				}
			case *ast.BlockStmt:
				walk(v.List)
			case *ast.IfStmt:
				// fold `if this.isEntry` / `if !this.isEntry` / `== true|false` on a constant-given field
				cond := ast.Unparen(v.Cond)
				neg := false
				if u, ok := cond.(*ast.UnaryExpr); ok && u.Op == token.NOT {
					neg, cond = true, ast.Unparen(u.X)
				}
				if b, ok := cond.(*ast.BinaryExpr); ok && (b.Op == token.EQL || b.Op == token.NEQ) {
					if tv, ok := info.Types[b.Y]; ok && tv.Value != nil && (tv.Value.ExactString() == "true" || tv.Value.ExactString() == "false") {
						if (tv.Value.ExactString() == "false") != (b.Op == token.NEQ) {
							neg = !neg
						}
						cond = ast.Unparen(b.X)
					}
				}
				folded := false
				if f, ok := isRecvField(cond); ok && info.TypeOf(cond) != nil && types.Identical(info.TypeOf(cond).Underlying(), types.Typ[types.Bool]) {
					if val, ok := constOf(f); ok {
						truth := val == "true"
						if neg {
							truth = !truth
						}
						folded = true
						if truth {
							walk(v.Body.List)
						} else if v.Else != nil {
							walkStmt(v.Else)
						}
					}
				}
				if !folded {
					walk(v.Body.List)
					if v.Else != nil {
						walkStmt(v.Else)
					}
				}
			case *ast.SwitchStmt:
				var pick *ast.CaseClause
				decided := false
				if v.Tag != nil {
					if f, ok := isRecvField(v.Tag); ok {
						if val, ok := constOf(f); ok {
							decided = true
							var def *ast.CaseClause
							for _, cc := range v.Body.List {
								cl := cc.(*ast.CaseClause)
								if cl.List == nil {
									def = cl
									continue
								}
								for _, e := range cl.List {
									tv, ok := info.Types[e]
									if !ok || tv.Value == nil {
										decided = false
										continue
									}
									cv := tv.Value.ExactString()
									if cv == val || (val == "zero" && (cv == "0" || cv == "false" || cv == `""`)) {
										pick = cl
									}
								}
							}
							if pick == nil {
								pick = def
							}
						}
					}
				}
				if decided {
					if pick != nil {
						walk(pick.Body)
					}
				} else {
					for _, cc := range v.Body.List {
						walk(cc.(*ast.CaseClause).Body)
					}
				}
			case *ast.ForStmt:
				walk(v.Body.List)
			case *ast.RangeStmt:
				walk(v.Body.List)
			case *ast.LabeledStmt:
				walkStmt(v.Stmt)
			}
		}
	}
	walk(m.Decl.Body.List)
	return out, outE, true
}

// checkForeign: a collection's bucket table holds only entries the collection made itself. An entry
// (or a whole bucket array) taken over from another instance of the type is shared: a later put,
// removal or growth on one instance rewrites chains the other still walks. Reported: copy(recv.table,
// other.table), recv.table = other.table, recv.table[i] = other.table[j] / an entry walked out of
// other's chains, where `other` is a parameter (or local) of the collection's own type.
func (h *hmapType) checkForeign() {
	n := 0
	for _, fi := range h.p.MethodsOf(h.t) {
		if fi.Decl.Body == nil {
			continue
		}
		info := fi.Pkg.TypesInfo
		rn := recvName(fi)
		// other instances: identifiers of the collection's type other than the receiver
		isOther := func(e ast.Expr) bool {
			root := rootOf(e)
			if root == nil || root.Name == rn {
				return false
			}
			nt := namedOf(info.TypeOf(root))
			return nt != nil && nt.Obj() == h.t.Obj()
		}
		isTableOf := func(e ast.Expr, own bool) bool {
			e = ast.Unparen(e)
			if ix, ok := e.(*ast.IndexExpr); ok {
				e = ast.Unparen(ix.X)
			}
			if sl, ok := e.(*ast.SliceExpr); ok {
				e = ast.Unparen(sl.X)
			}
			sel, ok := e.(*ast.SelectorExpr)
			if !ok || sel.Sel.Name != "table" {
				return false
			}
			if own {
				id, ok := ast.Unparen(sel.X).(*ast.Ident)
				return ok && id.Name == rn
			}
			return isOther(sel.X)
		}
		var probs []string
		touches := false
		ast.Inspect(fi.Decl.Body, func(m ast.Node) bool {
			switch v := m.(type) {
			case *ast.CallExpr:
				if id, ok := v.Fun.(*ast.Ident); ok && id.Name == "copy" && len(v.Args) == 2 {
					if isTableOf(v.Args[0], true) {
						touches = true
						if isTableOf(v.Args[1], false) {
							probs = append(probs, h.p.Pos(v.Pos())+": copy() of another instance's bucket array into this one: both collections now share their chain entries")
						}
					}
				}
			case *ast.AssignStmt:
				for i, l := range v.Lhs {
					if i >= len(v.Rhs) || !isTableOf(l, true) {
						continue
					}
					touches = true
					if isTableOf(v.Rhs[i], false) {
						probs = append(probs, h.p.Pos(v.Pos())+": a bucket (array) of another instance is installed in this one: both collections now share their chain entries")
					}
				}
			}
			return true
		})
		if touches {
			n++
			if len(probs) > 0 {
				h.r.Viol(h.pre+".own-entries", h.name+"."+fi.Obj.Name(), h.p.Pos(fi.Decl.Pos()), strings.Join(uniq(probs), "; "))
			} else {
				h.r.OK(h.pre+".own-entries", h.name+"."+fi.Obj.Name(), h.p.Pos(fi.Decl.Pos()), "the table is filled from this instance only")
			}
		}
	}
}
