package props

import (
	"go/ast"
	"go/token"
	"go/types"

	"golibcheck/internal/core"
)

// errUse is one `v, err := f(...)` followed by a test of err.
type errUse struct {
	Fn       *core.FuncInfo
	Pos      token.Pos
	ValName  string
	Inverted bool   // v is consumed on the branch where err != nil
	Detail   string
}

// scanErrChecks finds every `v, err := call` whose next statement is `if err != nil {..} [else {..}]`
// or `if err == nil {..} else {..}` and reports whether v is read on the error branch
// (contradiction rule: the value of a failed call is meaningless).
func scanErrChecks(p *core.Program, relPkgs []string) []errUse {
	in := map[string]bool{}
	for _, r := range relPkgs {
		in[r] = true
	}
	var out []errUse
	for _, fi := range p.Funcs {
		if !in[core.RelPkg(fi.Pkg.PkgPath)] || fi.Decl.Body == nil || core.IsCanaryFile(p.FileOf(fi.Decl.Pos())) && false {
			continue
		}
		info := fi.Pkg.TypesInfo
		var visitBlock func(list []ast.Stmt)
		visitBlock = func(list []ast.Stmt) {
			for i, s := range list {
				as, ok := s.(*ast.AssignStmt)
				if !ok || len(as.Lhs) != 2 || len(as.Rhs) != 1 || i+1 >= len(list) {
					continue
				}
				vid, ok1 := as.Lhs[0].(*ast.Ident)
				eid, ok2 := as.Lhs[1].(*ast.Ident)
				if !ok1 || !ok2 || vid.Name == "_" || eid.Name == "_" {
					continue
				}
				eobj := info.ObjectOf(eid)
				vobj := info.ObjectOf(vid)
				if eobj == nil || vobj == nil || !isErrorType(eobj.Type()) {
					continue
				}
				ifs, ok := list[i+1].(*ast.IfStmt)
				if !ok || ifs.Init != nil {
					continue
				}
				be, ok := ifs.Cond.(*ast.BinaryExpr)
				if !ok || (be.Op != token.NEQ && be.Op != token.EQL) {
					continue
				}
				l, lok := be.X.(*ast.Ident)
				rr, rok := be.Y.(*ast.Ident)
				if !lok || !rok || info.ObjectOf(l) != eobj || rr.Name != "nil" {
					continue
				}
				var errBranch ast.Node
				if be.Op == token.NEQ {
					errBranch = ifs.Body
				} else if ifs.Else != nil {
					errBranch = ifs.Else
				}
				u := errUse{Fn: fi, Pos: as.Pos(), ValName: vid.Name}
				if errBranch != nil && readsObj(info, errBranch, vobj) {
					u.Inverted = true
					u.Detail = "the result of the failed call is consumed on the err != nil branch"
				}
				out = append(out, u)
			}
		}
		ast.Inspect(fi.Decl.Body, func(n ast.Node) bool {
			switch b := n.(type) {
			case *ast.BlockStmt:
				visitBlock(b.List)
			case *ast.CaseClause:
				visitBlock(b.Body)
			}
			return true
		})
	}
	return out
}

func isErrorType(t types.Type) bool {
	n, ok := t.(*types.Named)
	return ok && n.Obj().Name() == "error" && n.Obj().Pkg() == nil
}

// readsObj: the object is read (not merely assigned) somewhere in n.
func readsObj(info *types.Info, n ast.Node, obj types.Object) bool {
	found := false
	assigned := map[*ast.Ident]bool{}
	ast.Inspect(n, func(m ast.Node) bool {
		if as, ok := m.(*ast.AssignStmt); ok && as.Tok == token.ASSIGN {
			for _, l := range as.Lhs {
				if id, ok := l.(*ast.Ident); ok {
					assigned[id] = true
				}
			}
		}
		return true
	})
	ast.Inspect(n, func(m ast.Node) bool {
		if id, ok := m.(*ast.Ident); ok && !assigned[id] && info.ObjectOf(id) == obj {
			found = true
		}
		return !found
	})
	return found
}
