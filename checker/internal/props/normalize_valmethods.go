package props

import (
	"go/ast"
	"go/token"
	"go/types"

	"golang.org/x/tools/go/ast/astutil"

	"golibcheck/internal/core"
	"golibcheck/internal/paths"
)

// normalizeValueMethods: arithmetic that a clean-up moved into methods of a small unexported value
// type of the same package (`type registerWord uint32` with `get`, `with`, `raise`, `max`) is put back
// where it is used, so that the rules that read the body of an anchored method see the shifts, masks,
// comparisons and stores themselves and not a call they would have to trust.
//
//   - A method whose body is one `return E` is expanded as an expression: `T(x).get(s)` becomes
//     `(E[w := T(x), shift := s])` wherever it stands.
//   - A method whose returns are all in tail position (the last statement, or the arms of a final
//     if/else, or `if c { …; return … }` followed by the rest) is expanded as statements where a
//     statement is `lhs… = conv(recv.m(args))`, `lhs… := recv.m(args)` or `return conv(recv.m(args))`:
//     the statement is replaced by the method's body, each `return R…` by the statement itself with
//     the call replaced by R….
//
// Only value receivers of unexported named types with a basic underlying type are treated (a new
// name for a machine word); receiver and arguments must be free of calls (conversions excepted), so
// nothing is evaluated twice or in a different order. Everything else is left as it stands.
func normalizeValueMethods(p *core.Program) {
	cands := map[*types.Func]*core.FuncInfo{}
	producers := map[*types.Func]bool{}
	expandedProducerCalls = nil
	for _, fi := range p.Funcs {
		// a package function that encodes into a stream of its own and hands back the bytes
		// (func encodeRecs(n int, ver byte, next func() *Rec) []byte { o := io.NewDataOutputX(); …;
		// return o.ToByteArray() }), shared by several writers: expanded where a writer assigns its result
		if fi.Decl.Body != nil && fi.Decl.Recv == nil && !fi.Obj.Exported() && isBytesProducer(fi) {
			cands[fi.Obj] = fi
			producers[fi.Obj] = true
			continue
		}
		if fi.Decl.Body == nil || fi.Decl.Recv == nil || len(fi.Decl.Recv.List) != 1 {
			continue
		}
		sig := fi.Obj.Type().(*types.Signature)
		if sig.Recv() == nil || sig.Variadic() {
			continue
		}
		nt, ok := sig.Recv().Type().(*types.Named)
		if !ok || nt.Obj().Exported() || nt.Obj().Pkg() != fi.Obj.Pkg() {
			continue
		}
		if _, isBasic := nt.Underlying().(*types.Basic); !isBasic {
			continue
		}
		if len(fi.Decl.Recv.List[0].Names) != 1 || sig.Results().Len() == 0 {
			continue
		}
		named := false
		if fi.Decl.Type.Results != nil {
			for _, f := range fi.Decl.Type.Results.List {
				if len(f.Names) > 0 {
					named = true
				}
			}
		}
		if named {
			continue
		}
		cands[fi.Obj] = fi
	}
	if len(cands) == 0 {
		return
	}
	used := map[[2]*types.Func]bool{}
	for pass := 0; pass < 4; pass++ {
		changed := false
		for _, fi := range p.Funcs {
			if fi.Decl.Body == nil {
				continue
			}
			v := &valInliner{p: p, fi: fi, info: fi.Pkg.TypesInfo, cands: cands, used: used, producers: producers}
			if v.exprPass() {
				changed = true
			}
			if v.stmtPass(fi.Decl.Body, 0) {
				changed = true
			}
		}
		if !changed {
			break
		}
	}
}

type valInliner struct {
	p     *core.Program
	fi    *core.FuncInfo
	info  *types.Info
	cands map[*types.Func]*core.FuncInfo
	used  map[[2]*types.Func]bool
	// producers: candidates that are package functions (no receiver); arguments with effects are bound
	// to the parameter in front of the expanded body
	producers map[*types.Func]bool
	pre       []ast.Stmt
}

// callOf: e (conversions and parentheses stripped) is a call of a candidate method other than the
// function being rewritten; returns the call, the callee and the receiver expression.
func (v *valInliner) callOf(e ast.Expr) (*ast.CallExpr, *core.FuncInfo, ast.Expr) {
	call, ok := ast.Unparen(e).(*ast.CallExpr)
	if !ok || call.Ellipsis.IsValid() {
		return nil, nil, nil
	}
	if id, isId := ast.Unparen(call.Fun).(*ast.Ident); isId {
		fn, _ := v.info.Uses[id].(*types.Func)
		if fn == nil || fn == v.fi.Obj || !v.producers[fn] {
			return nil, nil, nil
		}
		hf := v.cands[fn]
		if hf == nil || hf.Pkg != v.fi.Pkg {
			return nil, nil, nil
		}
		return call, hf, nil
	}
	sel, ok := ast.Unparen(call.Fun).(*ast.SelectorExpr)
	if !ok {
		return nil, nil, nil
	}
	fn, _ := v.info.Uses[sel.Sel].(*types.Func)
	if fn == nil || fn == v.fi.Obj {
		return nil, nil, nil
	}
	hf := v.cands[fn]
	if hf == nil || hf.Pkg != v.fi.Pkg {
		return nil, nil, nil
	}
	if !v.pure(sel.X) {
		return nil, nil, nil
	}
	for _, a := range call.Args {
		if !v.pure(a) {
			return nil, nil, nil
		}
	}
	return call, hf, sel.X
}

// pure: no call (conversions excepted), no receive, no function literal.
func (v *valInliner) pure(e ast.Expr) bool {
	ok := true
	ast.Inspect(e, func(n ast.Node) bool {
		switch x := n.(type) {
		case *ast.CallExpr:
			if tv, has := v.info.Types[x.Fun]; !has || !tv.IsType() {
				ok = false
			}
		case *ast.FuncLit:
			ok = false
		case *ast.UnaryExpr:
			if x.Op == token.ARROW {
				ok = false
			}
		}
		return ok
	})
	return ok
}

func (v *valInliner) bind(hf *core.FuncInfo, call *ast.CallExpr, recv ast.Expr) map[types.Object]ast.Expr {
	repl := map[types.Object]ast.Expr{}
	i := 0
	for _, f := range hf.Decl.Type.Params.List {
		if len(f.Names) == 0 {
			return nil
		}
		for _, nm := range f.Names {
			obj := v.info.Defs[nm]
			if obj == nil || i >= len(call.Args) {
				return nil
			}
			// the argument is converted to the parameter's type on the way in
			if v.producers[hf.Obj] && !v.pure(call.Args[i]) {
				// evaluated once, in front of the body, under the parameter's own name
				v.pre = append(v.pre, &ast.AssignStmt{Lhs: []ast.Expr{nm}, TokPos: call.Args[i].Pos(), Tok: token.DEFINE, Rhs: []ast.Expr{call.Args[i]}})
			} else {
				repl[obj] = v.convTo(obj.Type(), call.Args[i])
			}
			i++
		}
	}
	if i != len(call.Args) {
		return nil
	}
	if hf.Decl.Recv == nil {
		return repl
	}
	ro := v.info.Defs[hf.Decl.Recv.List[0].Names[0]]
	if ro == nil {
		return nil
	}
	repl[ro] = recv
	return repl
}

// convTo wraps an untyped constant argument in a conversion to the parameter type, so that the
// expanded expression keeps the width the method computed in.
func (v *valInliner) convTo(t types.Type, a ast.Expr) ast.Expr {
	tv, ok := v.info.Types[a]
	if !ok || tv.Value == nil {
		return a
	}
	if b, isBasic := tv.Type.(*types.Basic); !isBasic || b.Info()&types.IsUntyped == 0 {
		return a
	}
	bt, isBasic := t.Underlying().(*types.Basic)
	if !isBasic {
		return a
	}
	if _, isNamed := t.(*types.Named); isNamed {
		return a
	}
	id := &ast.Ident{NamePos: a.Pos(), Name: bt.Name()}
	v.info.Uses[id] = types.Universe.Lookup(bt.Name())
	v.info.Types[id] = types.TypeAndValue{Type: t}
	setIsType(v.info, id, t)
	c := &ast.CallExpr{Fun: id, Lparen: a.Pos(), Args: []ast.Expr{a}, Rparen: a.End()}
	v.info.Types[c] = types.TypeAndValue{Type: t, Value: tv.Value}
	return c
}

// setIsType records id as a type expression (types.TypeAndValue has no exported mode setter: the
// entry is copied from another identifier of the universe that denotes a type).
func setIsType(info *types.Info, id *ast.Ident, t types.Type) {
	for e, tv := range info.Types {
		if tv.IsType() && types.Identical(tv.Type, t) {
			if _, isId := e.(*ast.Ident); isId {
				info.Types[id] = tv
				return
			}
		}
	}
}

func singleReturn(hf *core.FuncInfo) ast.Expr {
	if len(hf.Decl.Body.List) != 1 {
		return nil
	}
	rs, ok := hf.Decl.Body.List[0].(*ast.ReturnStmt)
	if !ok || len(rs.Results) != 1 {
		return nil
	}
	return rs.Results[0]
}

// exprPass expands single-return methods wherever they are called in the function.
func (v *valInliner) exprPass() bool {
	changed := false
	astutil.Apply(v.fi.Decl.Body, nil, func(c *astutil.Cursor) bool {
		e, ok := c.Node().(*ast.CallExpr)
		if !ok {
			return true
		}
		call, hf, recv := v.callOf(e)
		if call == nil {
			return true
		}
		body := singleReturn(hf)
		if body == nil {
			return true
		}
		repl := v.bind(hf, call, recv)
		if repl == nil {
			return true
		}
		nu, _ := paths.Subst(v.info, body, repl).(ast.Expr)
		if nu == nil {
			return true
		}
		par := &ast.ParenExpr{Lparen: call.Pos(), X: nu, Rparen: call.End()}
		if tv, has := v.info.Types[e]; has {
			v.info.Types[par] = tv
		}
		c.Replace(par)
		changed = true
		return true
	})
	return changed
}

func hasReturn(n ast.Node) bool {
	found := false
	ast.Inspect(n, func(m ast.Node) bool {
		switch m.(type) {
		case *ast.ReturnStmt:
			found = true
		case *ast.FuncLit:
			return false
		}
		return !found
	})
	return found
}

// tailRewrite: list with every return (all in tail position) replaced by mk(results).
func tailRewrite(list []ast.Stmt, mk func([]ast.Expr) []ast.Stmt) ([]ast.Stmt, bool) {
	for i, st := range list {
		if !hasReturn(st) {
			continue
		}
		head := append([]ast.Stmt{}, list[:i]...)
		rest := list[i+1:]
		switch s := st.(type) {
		case *ast.ReturnStmt:
			if len(rest) != 0 {
				return nil, false
			}
			return append(head, mk(s.Results)...), true
		case *ast.BlockStmt:
			if len(rest) != 0 {
				return nil, false
			}
			in, ok := tailRewrite(s.List, mk)
			if !ok {
				return nil, false
			}
			return append(head, in...), true
		case *ast.IfStmt:
			if s.Init != nil && hasReturn(s.Init) {
				return nil, false
			}
			if len(s.Body.List) == 0 {
				return nil, false
			}
			then, ok := tailRewrite(s.Body.List, mk)
			if !ok {
				return nil, false
			}
			_, thenReturns := lastStmt(s.Body.List).(*ast.ReturnStmt)
			var els []ast.Stmt
			switch e := s.Else.(type) {
			case nil:
				if !thenReturns || len(rest) == 0 {
					return nil, false
				}
				els, ok = tailRewrite(rest, mk)
				if !ok {
					return nil, false
				}
			case *ast.BlockStmt:
				if len(rest) != 0 {
					return nil, false
				}
				els, ok = tailRewrite(e.List, mk)
				if !ok {
					return nil, false
				}
			case *ast.IfStmt:
				if len(rest) != 0 {
					return nil, false
				}
				els, ok = tailRewrite([]ast.Stmt{e}, mk)
				if !ok {
					return nil, false
				}
			default:
				return nil, false
			}
			ni := &ast.IfStmt{If: s.If, Init: s.Init, Cond: s.Cond,
				Body: &ast.BlockStmt{Lbrace: s.Body.Lbrace, List: then, Rbrace: s.Body.Rbrace},
				Else: &ast.BlockStmt{Lbrace: s.Body.Rbrace, List: els, Rbrace: s.End()}}
			return append(head, ni), true
		default:
			return nil, false
		}
	}
	return nil, false
}

func lastStmt(l []ast.Stmt) ast.Stmt {
	if len(l) == 0 {
		return nil
	}
	return l[len(l)-1]
}

// stmtPass expands tail-return methods at statement level.
func (v *valInliner) stmtPass(b *ast.BlockStmt, depth int) bool {
	if b == nil || depth > 8 {
		return false
	}
	changed := false
	for i, st := range b.List {
		if nb := v.expandStmt(st); nb != nil {
			b.List[i] = nb
			changed = true
			continue
		}
		switch s := st.(type) {
		case *ast.BlockStmt:
			changed = v.stmtPass(s, depth+1) || changed
		case *ast.IfStmt:
			changed = v.stmtPass(s.Body, depth+1) || changed
			for e := s.Else; e != nil; {
				switch x := e.(type) {
				case *ast.BlockStmt:
					changed = v.stmtPass(x, depth+1) || changed
					e = nil
				case *ast.IfStmt:
					changed = v.stmtPass(x.Body, depth+1) || changed
					e = x.Else
				default:
					e = nil
				}
			}
		case *ast.ForStmt:
			changed = v.stmtPass(s.Body, depth+1) || changed
		case *ast.RangeStmt:
			changed = v.stmtPass(s.Body, depth+1) || changed
		case *ast.SwitchStmt:
			for _, c := range s.Body.List {
				if cc, ok := c.(*ast.CaseClause); ok {
					blk := &ast.BlockStmt{List: cc.Body}
					if v.stmtPass(blk, depth+1) {
						cc.Body = blk.List
						changed = true
					}
				}
			}
		}
	}
	return changed
}

// stripConv: the expression under conversions and parentheses, and a function that puts an
// expression back under the same wrappers.
func (v *valInliner) stripConv(e ast.Expr) (ast.Expr, func(ast.Expr) ast.Expr) {
	wrap := func(x ast.Expr) ast.Expr { return x }
	for {
		switch x := e.(type) {
		case *ast.ParenExpr:
			e = x.X
			continue
		case *ast.CallExpr:
			if tv, has := v.info.Types[x.Fun]; has && tv.IsType() && len(x.Args) == 1 {
				outer, conv := wrap, x
				wrap = func(in ast.Expr) ast.Expr {
					c := &ast.CallExpr{Fun: conv.Fun, Lparen: conv.Lparen, Args: []ast.Expr{in}, Rparen: conv.Rparen}
					if tv, has := v.info.Types[conv]; has {
						v.info.Types[c] = types.TypeAndValue{Type: tv.Type}
					}
					return outer(c)
				}
				e = x.Args[0]
				continue
			}
		}
		return e, wrap
	}
}

func (v *valInliner) expandStmt(st ast.Stmt) ast.Stmt {
	var rhs ast.Expr
	var mk func(call *ast.CallExpr, wrap func(ast.Expr) ast.Expr) func([]ast.Expr) []ast.Stmt
	switch s := st.(type) {
	case *ast.AssignStmt:
		if len(s.Rhs) != 1 || (s.Tok != token.ASSIGN && s.Tok != token.DEFINE) {
			return nil
		}
		for _, l := range s.Lhs {
			if !v.pure(l) {
				return nil
			}
		}
		rhs = s.Rhs[0]
		mk = func(call *ast.CallExpr, wrap func(ast.Expr) ast.Expr) func([]ast.Expr) []ast.Stmt {
			return func(res []ast.Expr) []ast.Stmt {
				if len(res) != len(s.Lhs) {
					return nil
				}
				out := make([]ast.Expr, len(res))
				for i, r := range res {
					out[i] = r
					if len(res) == 1 {
						out[i] = wrap(r)
					}
				}
				if len(out) > 1 && v.independent(s.Lhs, out) {
					// a, b := R1, R2 as two statements: a flag among them is then a plain boolean local
					var sts []ast.Stmt
					for i := range out {
						sts = append(sts, &ast.AssignStmt{Lhs: []ast.Expr{s.Lhs[i]}, TokPos: s.TokPos, Tok: s.Tok, Rhs: []ast.Expr{out[i]}})
					}
					return sts
				}
				return []ast.Stmt{&ast.AssignStmt{Lhs: s.Lhs, TokPos: s.TokPos, Tok: s.Tok, Rhs: out}}
			}
		}
	case *ast.ReturnStmt:
		if len(s.Results) != 1 {
			return nil
		}
		rhs = s.Results[0]
		mk = func(call *ast.CallExpr, wrap func(ast.Expr) ast.Expr) func([]ast.Expr) []ast.Stmt {
			return func(res []ast.Expr) []ast.Stmt {
				if len(res) == 1 {
					return []ast.Stmt{&ast.ReturnStmt{Return: s.Return, Results: []ast.Expr{wrap(res[0])}}}
				}
				return []ast.Stmt{&ast.ReturnStmt{Return: s.Return, Results: res}}
			}
		}
	default:
		return nil
	}
	inner, wrap := v.stripConv(rhs)
	call, hf, recv := v.callOf(inner)
	if call == nil || singleReturn(hf) != nil {
		return nil
	}
	if v.producers[hf.Obj] {
		// a producer is expanded only where its bytes go into a field (this.Records = encode(…)): a
		// local that receives them is followed by the wire engine itself, to the write that emits it
		as, ok := st.(*ast.AssignStmt)
		if !ok || len(as.Lhs) != 1 {
			return nil
		}
		if _, isField := ast.Unparen(as.Lhs[0]).(*ast.SelectorExpr); !isField {
			return nil
		}
	}
	if _, isRet := st.(*ast.ReturnStmt); isRet {
		sig := hf.Obj.Type().(*types.Signature)
		if sig.Results().Len() != 1 && inner != ast.Unparen(rhs) {
			return nil
		}
	}
	// a method with locals is expanded once per function: its locals keep their identity
	if v.used[[2]*types.Func{v.fi.Obj, hf.Obj}] {
		return nil
	}
	v.pre = nil
	repl := v.bind(hf, call, recv)
	if repl == nil {
		return nil
	}
	bad := false
	ast.Inspect(hf.Decl.Body, func(n ast.Node) bool {
		switch n.(type) {
		case *ast.DeferStmt, *ast.GoStmt, *ast.SelectStmt, *ast.FuncLit, *ast.LabeledStmt, *ast.BranchStmt:
			bad = true
		}
		return !bad
	})
	if bad {
		return nil
	}
	// parameters and the receiver must not be assigned in the body (they stand for the arguments)
	ast.Inspect(hf.Decl.Body, func(n ast.Node) bool {
		switch x := n.(type) {
		case *ast.AssignStmt:
			for _, l := range x.Lhs {
				if id, ok := ast.Unparen(l).(*ast.Ident); ok {
					if _, isParam := repl[v.info.ObjectOf(id)]; isParam {
						bad = true
					}
				}
			}
		case *ast.IncDecStmt:
			if id, ok := ast.Unparen(x.X).(*ast.Ident); ok {
				if _, isParam := repl[v.info.ObjectOf(id)]; isParam {
					bad = true
				}
			}
		case *ast.UnaryExpr:
			if x.Op == token.AND {
				if id, ok := ast.Unparen(x.X).(*ast.Ident); ok {
					if _, isParam := repl[v.info.ObjectOf(id)]; isParam {
						bad = true
					}
				}
			}
		}
		return !bad
	})
	if bad {
		return nil
	}
	body, _ := paths.Subst(v.info, hf.Decl.Body, repl).(*ast.BlockStmt)
	if body == nil {
		return nil
	}
	failed := false
	maker := mk(call, wrap)
	list, ok := tailRewrite(body.List, func(res []ast.Expr) []ast.Stmt {
		out := maker(res)
		if out == nil {
			failed = true
		}
		return out
	})
	if !ok || failed {
		return nil
	}
	if !v.producers[hf.Obj] {
		v.used[[2]*types.Func{v.fi.Obj, hf.Obj}] = true
	} else {
		expandedProducerCalls = append(expandedProducerCalls, hf.Obj)
	}
	list = append(append([]ast.Stmt{}, v.pre...), list...)
	v.pre = nil
	return &ast.BlockStmt{Lbrace: st.Pos(), List: list, Rbrace: st.End()}
}

// independent: the left-hand sides are distinct plain identifiers (no blank) none of which occurs in a
// right-hand side, and the right-hand sides are free of calls: the tuple assignment can be split.
func (v *valInliner) independent(lhs, rhs []ast.Expr) bool {
	objs := map[types.Object]bool{}
	for _, l := range lhs {
		id, ok := l.(*ast.Ident)
		if !ok || id.Name == "_" {
			return false
		}
		o := v.info.ObjectOf(id)
		if o == nil || objs[o] {
			return false
		}
		objs[o] = true
	}
	ok := true
	for _, r := range rhs {
		if !v.pure(r) {
			return false
		}
		ast.Inspect(r, func(n ast.Node) bool {
			if id, isId := n.(*ast.Ident); isId && objs[v.info.ObjectOf(id)] {
				ok = false
			}
			return ok
		})
	}
	return ok
}

// isBytesProducer: the function returns []byte, makes an output stream of its own and every return
// hands back that stream's bytes.
func isBytesProducer(fi *core.FuncInfo) bool {
	sig := fi.Obj.Type().(*types.Signature)
	if sig.Results().Len() != 1 || sig.Variadic() || !isByteSlice(sig.Results().At(0).Type()) {
		return false
	}
	info := fi.Pkg.TypesInfo
	makes, rets, good := 0, 0, 0
	ast.Inspect(fi.Decl.Body, func(n ast.Node) bool {
		switch x := n.(type) {
		case *ast.FuncLit:
			return false
		case *ast.CallExpr:
			if sel, ok := ast.Unparen(x.Fun).(*ast.SelectorExpr); ok && sel.Sel.Name == "NewDataOutputX" {
				if fn, _ := info.Uses[sel.Sel].(*types.Func); fn != nil && fn.Pkg() != nil && fn.Pkg().Path() == core.ModPath+"/io" {
					makes++
				}
			}
		case *ast.ReturnStmt:
			rets++
			if len(x.Results) == 1 {
				if c, ok := ast.Unparen(x.Results[0]).(*ast.CallExpr); ok {
					if sel, ok := ast.Unparen(c.Fun).(*ast.SelectorExpr); ok && sel.Sel.Name == "ToByteArray" {
						good++
					}
				}
			}
		}
		return true
	})
	return makes == 1 && rets == 1 && good == 1
}

// expandedEverywhere: fi is a shared bytes producer and no call of it is left anywhere in the program
// after normalisation (every call stood in a statement that was replaced by its body).
func expandedEverywhere(p *core.Program, fi *core.FuncInfo) bool {
	if fi.Decl.Recv != nil || fi.Obj.Exported() || !isBytesProducer(fi) {
		return false
	}
	left, seen := 0, 0
	for _, g := range p.Funcs {
		if g.Decl.Body == nil || g.Pkg != fi.Pkg {
			continue
		}
		ast.Inspect(g.Decl.Body, func(n ast.Node) bool {
			if c, ok := n.(*ast.CallExpr); ok {
				if id, ok := ast.Unparen(c.Fun).(*ast.Ident); ok && g.Pkg.TypesInfo.Uses[id] == types.Object(fi.Obj) {
					left++
				}
			}
			return true
		})
	}
	for _, k := range expandedProducerCalls {
		if k == fi.Obj {
			seen++
		}
	}
	return left == 0 && seen > 0
}

// expandedProducerCalls: one entry per expanded call of a bytes producer (reset per loaded program).
var expandedProducerCalls []*types.Func
