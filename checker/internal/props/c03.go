package props

import (
	"fmt"
	"go/ast"
	"go/types"
	"strings"

	"golibcheck/internal/core"
	"golibcheck/internal/wire"
)

// C03 — every pack type survives serialize/deserialize with all carried fields intact.
// Decided here: layout agreement writer~reader for every codec pair of lang/pack on every joint path
// (both header forms, every version/flag branch), field correspondence, count links, registry
// agreement, container identity stamping, zip status inverse, error-check polarity.

var c03Unpaired = map[string]string{
	"lang/pack.ReadShortArray":                                  "helper: counted shorts, reached from readTxcallerPOidMeter",
	"lang/pack.ToBytesPackECB":                                  "writer-only padded variant of ToBytesPack (no reader in the library)",
	"lang/pack.(*CounterPack1).ReadDropMap":                     "helper inlined from CounterPack1.Read",
	"lang/pack.(*CounterPack1).readTxcallerUnknown":             "helper inlined from CounterPack1.Read",
	"lang/pack.(*CounterPack1).readTxcallerOkindMeterDeprecated": "helper inlined from CounterPack1.Read",
	"lang/pack.(*CounterPack1).writeTxcallerOther":              "helper inlined from CounterPack1.Write",
	"lang/pack.(*ErrorSnapPack1).SetStack":                      "writer-only: fills the opaque Stack blob (decoded by the collector)",
	"lang/pack.(*LogSinkPack).GetTabAsBytes":                    "writer-only view of the tag map (same grammar as ResetTagHash)",
	"lang/pack.(*LogSinkPack).ResetTagHash":                     "helper inlined from LogSinkPack.Write",
	"lang/pack.(*LogSinkZipPack).GetRecords":                    "reader of the record buffer produced by logsink/zip (checked in C16)",
	"lang/pack.(*StatServicePack).SetRecords":                   "writer-only in the Go port (no GetRecords)",
}

func init() {
	register(&Checker{ID: "C03", Canaries: c03Canaries, Run: runC03})
}

func c03Canaries() []core.Canary {
	return []core.Canary{{RelDir: "lang/pack", Name: "c03", Src: `package pack

import (
	"strconv"

	"github.com/whatap/golib/io"
)

type zzCanarySwap struct {
	A int32
	B int64
	C int32
	D int32
}

// layout disagreement: Int,Long written, Long,Int read
func (this *zzCanarySwap) Write(o *io.DataOutputX) { o.WriteInt(this.A); o.WriteLong(this.B) }
func (this *zzCanarySwap) Read(in *io.DataInputX)  { this.B = in.ReadLong(); this.A = in.ReadInt() }

type zzCanaryLabel struct{ C, D int32 }

// same widths, swapped targets
func (this *zzCanaryLabel) Write(o *io.DataOutputX) { o.WriteInt(this.C); o.WriteInt(this.D) }
func (this *zzCanaryLabel) Read(in *io.DataInputX)  { this.D = in.ReadInt(); this.C = in.ReadInt() }

type zzCanaryCount struct{ Xs []int32 }

// loop over a count that is not the one written
func (this *zzCanaryCount) Write(o *io.DataOutputX) {
	o.WriteShort(7)
	for _, x := range this.Xs {
		o.WriteInt(x)
	}
}
func (this *zzCanaryCount) Read(in *io.DataInputX) {
	n := int(in.ReadShort())
	for i := 0; i < n; i++ {
		this.Xs = append(this.Xs, in.ReadInt())
	}
}

type zzCanaryTail3 struct{ a, b int32 }

// optional tail decided by what is left on the stream the pack was handed
func (this *zzCanaryTail3) Write(o *io.DataOutputX) {
	o.WriteInt(this.a)
	if this.b != 0 {
		o.WriteInt(this.b)
	}
}
func (this *zzCanaryTail3) Read(in *io.DataInputX) {
	this.a = in.ReadInt()
	if in.Available() > 0 {
		this.b = in.ReadInt()
	}
}

type zzCanaryShortTail struct{ a, b, c int64 }

// takes a present tail of two small decimals (2 bytes) for a missing one
func (this *zzCanaryShortTail) zzRead(in *io.DataInputX) {
	din := io.NewDataInputX(in.ReadBlob())
	this.a = din.ReadLong()
	if din.Available() < 4 {
		return
	}
	this.b = din.ReadDecimal()
	this.c = din.ReadDecimal()
}

func zzCanaryErr(s string) int {
	v, err := strconv.Atoi(s)
	if err != nil {
		return v
	}
	return 0
}
`, Expect: []core.CanaryExpect{
		{Rule: "C03.pairs", Sub: "zzCanarySwap"},
		{Rule: "C03.fields", Sub: "zzCanaryLabel"},
		{Rule: "C03.countlink", Sub: "zzCanaryCount"},
		{Rule: "C03.errcheck", Sub: "zzCanaryErr"},
		{Rule: "C03.selfdelim", Sub: "zzCanaryTail3"},
		{Rule: "C03.tail-threshold", Sub: "zzCanaryShortTail"},
	}}}
}

func runC03(p *core.Program, r *core.Report) {
	r.Explanation = "Static wire-grammar agreement for lang/pack. For every writer/reader pair the checker extracts, from the type-checked syntax, the grammar of stream events (primitives with kind and field label, counted loops, flag/version branches, nested blobs, calls of other codecs) and walks writer and reader in lock step over every joint path (interval/atom refinement of branch conditions, constants written by the writer drive the reader's branches). A pair is discharged when on every path each primitive the writer emits is consumed by a reader primitive of the same wire kind, loops are driven by the count the writer emitted, nested blobs end together, and field labels correspond. Registry, container stamping, zip-status and error-polarity rules are AST rules over resolved callees. Nothing is executed; value equality through narrowing conversions and gzip itself are not decided."
	r.NotDecided = []string{"value equality through lossy conversions (int32(ReadDecimal()))", "byte identity of re-encoding where the writer mutates the pack while writing", "gzip correctness (trusted stdlib)"}
	r.Assumptions = []string{"go/types resolution of callees; io primitives have the widths proved in C01", "callee codec pairs consumed at call sites are discharged by their own obligation in this or a sibling property"}
	x := wire.NewExtractor(p)
	r.Rule("C03.registry", "CreatePack case K creates a type whose GetPackType() returns K; no constant twice", 24)
	r.Rule("C03.pairs", "writer and reader of every lang/pack codec pair agree on the layout on every joint path", 75)
	r.Rule("C03.fields", "every field the writer emits is stored by the reader into the same field (no swap, no drop)", 60)
	r.Rule("C03.countlink", "every reader loop is driven by the count the writer emitted for that repetition", 60)
	r.Rule("C03.classified", "every lang/pack function touching a root stream is paired, reached from a pair, or listed with a reason", 8)
	r.Rule("C03.fresh", "every pack the factory hands out is freshly allocated", 20)
	r.Rule("C03.taghash", "LogSinkPack keeps its cached tag hash consistent with its tags (reset after every change; Write emits the recomputed hash): re-encoding is byte-identical", 2)
	r.Rule("C03.containers", "record containers stamp Pcode/Oid/Okind/Onode on every element they return", 2)
	r.Rule("C03.zipstatus", "doZip marks the pack ZIPPED exactly when it compresses; doUnZip decompresses exactly when marked", 1)
	r.Rule("C03.errcheck", "a value obtained together with an error is not consumed on the err != nil branch", 2)
	r.Rule("C03.selfdelim", "no pack decoder decides an optional section by what is left on the stream it was handed (packs are concatenated inside zip and composite packs: the bytes left are the next pack's); Available() is asked only of a stream built over a length-delimited blob", 0)
	ownExtentRule(p, r, "C03.selfdelim", "lang/pack", "inside a zip or composite pack what is left there is the next pack, which is swallowed; decoding does not consume exactly the encoding")

	r.Rule("C03.empty-blob", "a record blob that was never filled decodes as no records: a getter that opens a stream over a blob field and reads a count from it first rules out the empty blob (a decoded pack holds an empty, non-nil blob where the original held nil — a nil test alone lets it through to a read that fails)", 6)
	c03EmptyBlob(p, r, "C03.empty-blob", "lang/pack")
	r.Rule("C03.in-place", "decoders store what they read into the container itself (no decode into a range copy, no append after a full-length make)", 60)
	decodeInPlace(p, x, r, "C03.in-place", []string{"lang/pack"})
	r.Rule("C03.tail-threshold", "an optional tail is not taken for missing because little is left: a byte threshold on what is left of the decoder's own blob is no larger than the shortest encoding of the reads it guards", 0)
	tailGuardRule(p, r, "C03.tail-threshold", "lang/pack")
	r.Rule("C03.stateless", "what a pack encodes or decodes to depends on that pack and those bytes only: no function of lang/pack writes package-level state (shared with C16.stateless)", 1)
	statelessRule(p, r, "C03.stateless", []string{"lang/pack"})
	r.Rule("C03.verbatim-input", "a decoder entry point builds its input stream over the bytes it was handed (or an explicit re-slice), never over what a function made of them", 2)
	c03VerbatimInput(p, r, "C03.verbatim-input", []string{"lang/pack"})
	r.Rule("C03.order", "record containers carry the inner packs in the order given: no function taking or returning a list of packs hands it to a sorting, shuffling or reversing routine", 1)
	keepOrderRule(p, r, "C03.order", []string{"lang/pack"}, "Pack")
	checkRegistry(p, r, "C03.registry", "lang/pack", "CreatePack", "Pack", "GetPackType")

	pairs, unpaired := discoverPairs(p, x, []string{"lang/pack"})
	// cross-owner pair
	if w, rd := p.Method("lang/pack", "StatServicePack", "WriteRec"), p.Func("lang/pack", "ReadRec"); w != nil && rd != nil {
		wo, _ := x.StreamParams(w)
		_, ri := x.StreamParams(rd)
		if len(wo) == 1 && len(ri) == 1 {
			pairs = append(pairs, codecPair{W: w, R: rd, WS: wo[0], RS: ri[0], Name: core.FuncName(w.Obj) + " ~ " + core.FuncName(rd.Obj)})
		}
	}
	runPairs(p, x, r, pairs, pairRules{"C03.pairs", "C03.fields", "C03.countlink"}, tierDepth(r))

	// classification of unpaired codec functions
	reach := reachableFromPairs(p, pairs)
	for _, u := range unpaired {
		name := core.FuncName(u.Obj)
		if name == "lang/pack.ReadRec" || name == "lang/pack.(*StatServicePack).WriteRec" {
			continue
		}
		pos := p.Pos(u.Decl.Pos())
		if reason, ok := c03Unpaired[name]; ok {
			r.OK("C03.classified", name, pos, reason)
		} else if reach[u.Obj] {
			r.OK("C03.classified", name, pos, "reached from a checked codec pair")
		} else if expandedEverywhere(p, u) {
			r.OK("C03.classified", name, pos, "a shared bytes producer, judged where it is called: its body stands in each calling writer, and those are paired")
		} else {
			r.Undec("C03.classified", name, pos, "codec function is neither paired, reached from a pair, nor listed: its layout is not shown to have a reader")
		}
	}

	c03Containers(p, r)
	c05TagHash(p, r, "C03.taghash")
	checkFactoryFresh(p, r, "C03.fresh", "lang/pack", "CreatePack")
	c03ZipStatus(p, r)
	r.Rule("C03.zip-complete", "the gzip stream handed back by DoZip is complete: the compressor's Close() has run before its buffer is read", 1)
	gzipClosedBeforeRead(p, r, "C03.zip-complete", []string{"util/compressutil"})
	noSilentTruncation(p, r, "C03.zip-complete", []string{"util/compressutil"})
	r.Rule("C03.zippure", "compressutil.DoZip/UnZip are stateless (no package-level variable): results never alias reused storage", 2)
	c03ZipPure(p, r)
	nth := map[string]int{}
	for _, u := range scanErrChecks(p, []string{"lang/pack"}) {
		c := core.FuncName(u.Fn.Obj) + " " + u.ValName
		nth[c]++
		c = fmt.Sprintf("%s #%d", c, nth[c])
		if u.Inverted {
			r.Viol("C03.errcheck", c, p.Pos(u.Pos), u.Detail)
		} else {
			r.OK("C03.errcheck", c, p.Pos(u.Pos), "")
		}
	}
}

func tierDepth(r *core.Report) int {
	if r.Tier == "thorough" {
		return 6
	}
	return 4
}

// reachableFromPairs: module functions statically called (transitively) from any paired function.
func reachableFromPairs(p *core.Program, pairs []codecPair) map[*types.Func]bool {
	seen := map[*types.Func]bool{}
	var visit func(fi *core.FuncInfo, d int)
	visit = func(fi *core.FuncInfo, d int) {
		if fi == nil || fi.Decl.Body == nil || d > 8 {
			return
		}
		ast.Inspect(fi.Decl.Body, func(n ast.Node) bool {
			call, ok := n.(*ast.CallExpr)
			if !ok {
				return true
			}
			var id *ast.Ident
			switch f := ast.Unparen(call.Fun).(type) {
			case *ast.Ident:
				id = f
			case *ast.SelectorExpr:
				id = f.Sel
			}
			if id == nil {
				return true
			}
			if fn, ok := fi.Pkg.TypesInfo.Uses[id].(*types.Func); ok && !seen[fn] {
				seen[fn] = true
				visit(p.FuncOf(fn), d+1)
			}
			return true
		})
	}
	for _, cp := range pairs {
		visit(cp.W, 0)
		visit(cp.R, 0)
	}
	return seen
}

// c03Containers: a GetRecords that decodes packs with ReadPack in a loop must stamp the four identity
// fields of the container on the element before it is appended.
func c03Containers(p *core.Program, r *core.Report) {
	want := []string{"Pcode", "Oid", "Okind", "Onode"}
	setters := map[string]string{"SetPCODE": "Pcode", "SetOID": "Oid", "SetOKIND": "Okind", "SetONODE": "Onode"}
	for _, fi := range p.Funcs {
		if core.RelPkg(fi.Pkg.PkgPath) != "lang/pack" || fi.Obj.Name() != "GetRecords" || fi.Decl.Body == nil {
			continue
		}
		info := fi.Pkg.TypesInfo
		ast.Inspect(fi.Decl.Body, func(n ast.Node) bool {
			loop, ok := n.(*ast.ForStmt)
			if !ok {
				return true
			}
			readsPack := false
			ast.Inspect(loop.Body, func(m ast.Node) bool {
				if c, ok := m.(*ast.CallExpr); ok && isCallTo(info, c, core.ModPath+"/lang/pack", "ReadPack") {
					readsPack = true
				}
				return true
			})
			if !readsPack {
				return true
			}
			got := map[string]bool{}
			// scan the loop body and, through same-receiver helper calls (extracted stamping helpers), their bodies
			var scan func(body ast.Node, sfi *core.FuncInfo, depth int)
			scan = func(body ast.Node, sfi *core.FuncInfo, depth int) {
				ast.Inspect(body, func(m ast.Node) bool {
					switch v := m.(type) {
					case *ast.CallExpr:
						if sel, ok := v.Fun.(*ast.SelectorExpr); ok {
							if f, ok := setters[sel.Sel.Name]; ok && len(v.Args) == 1 && isRecvField(info, sfi, v.Args[0], f) {
								got[f] = true
							}
							if depth < 2 {
								if fn, _ := info.Uses[sel.Sel].(*types.Func); fn != nil {
									if rid, isId := ast.Unparen(sel.X).(*ast.Ident); isId && sfi.Decl.Recv != nil && len(sfi.Decl.Recv.List) == 1 && len(sfi.Decl.Recv.List[0].Names) == 1 &&
										info.ObjectOf(rid) == info.Defs[sfi.Decl.Recv.List[0].Names[0]] {
										if cfi := p.FuncOf(fn); cfi != nil && cfi.Decl.Body != nil && cfi.Pkg == sfi.Pkg {
											scan(cfi.Decl.Body, cfi, depth+1)
										}
									}
								}
							}
						}
					case *ast.AssignStmt:
						for i, l := range v.Lhs {
							if sel, ok := l.(*ast.SelectorExpr); ok && i < len(v.Rhs) {
								for _, f := range want {
									if sel.Sel.Name == f && isRecvField(info, sfi, v.Rhs[i], f) {
										got[f] = true
									}
								}
							}
						}
					}
					return true
				})
			}
			scan(loop.Body, fi, 0)
			// a stamp that is applied only when the container's value is non-zero leaves the record's own
			// (possibly different) identity in place: the stamp must not sit under a condition
			var conditional []string
			var findGuarded func(body ast.Node, sfi *core.FuncInfo, guarded bool, depth int)
			findGuarded = func(body ast.Node, sfi *core.FuncInfo, guarded bool, depth int) {
				var visit func(n ast.Node, g bool)
				visit = func(n ast.Node, g bool) {
					switch v := n.(type) {
					case nil:
						return
					case *ast.IfStmt:
						// a guard that only selects which elements are returned (type test, nil test of the
						// element) is fine; a guard over the container's identity fields is not
						cs := stripSpaces(types.ExprString(v.Cond))
						overIdentity := false
						for _, f := range want {
							if strings.Contains(cs, "."+f) {
								overIdentity = true
							}
						}
						visit(v.Body, g || overIdentity)
						if v.Else != nil {
							visit(v.Else, g || overIdentity)
						}
						return
					case *ast.BlockStmt:
						for _, s := range v.List {
							visit(s, g)
						}
						return
					case *ast.ExprStmt:
						if call, ok := v.X.(*ast.CallExpr); ok {
							if sel, ok := call.Fun.(*ast.SelectorExpr); ok {
								if f, ok := setters[sel.Sel.Name]; ok && g {
									conditional = append(conditional, f)
								}
							}
						}
					case *ast.AssignStmt:
						for _, l := range v.Lhs {
							if sel, ok := l.(*ast.SelectorExpr); ok && g {
								for _, f := range want {
									if sel.Sel.Name == f {
										conditional = append(conditional, f)
									}
								}
							}
						}
					case *ast.ForStmt:
						visit(v.Body, g)
					case *ast.RangeStmt:
						visit(v.Body, g)
					}
				}
				visit(body, guarded)
			}
			findGuarded(loop.Body, fi, false, 0)
			var missing []string
			for _, f := range want {
				if !got[f] {
					missing = append(missing, f)
				}
			}
			c := core.FuncName(fi.Obj)
			if len(conditional) > 0 {
				r.Viol("C03.containers", c, p.Pos(loop.Pos()), "the container's "+strings.Join(uniq(conditional), ", ")+" is stamped on the inner pack only under a condition on the container's own value: a record that carries a different value keeps it")
			} else if len(missing) > 0 {
				r.Viol("C03.containers", c, p.Pos(loop.Pos()), "inner packs are returned without the container's "+strings.Join(missing, ", "))
			} else {
				r.OK("C03.containers", c, p.Pos(loop.Pos()), "all four identity fields stamped from the container")
			}
			return false
		})
	}
}

func isRecvField(info *types.Info, fi *core.FuncInfo, e ast.Expr, field string) bool {
	sel, ok := ast.Unparen(e).(*ast.SelectorExpr)
	if !ok || sel.Sel.Name != field {
		return false
	}
	id, ok := ast.Unparen(sel.X).(*ast.Ident)
	if !ok || fi.Decl.Recv == nil || len(fi.Decl.Recv.List[0].Names) == 0 {
		return false
	}
	return info.ObjectOf(id) == info.Defs[fi.Decl.Recv.List[0].Names[0]]
}

// c03ZipStatus: for every type with doZip/doUnZip: the constant assigned to Status before DoZip is the
// constant doUnZip tests before UnZip; DoZip result is returned only after the assignment; every
// other return of doZip returns its input unchanged.
func c03ZipStatus(p *core.Program, r *core.Report) {
	for _, pk := range []string{"lang/pack"} {
		pkg := p.Pkg(pk)
		if pkg == nil {
			continue
		}
		for _, fi := range p.Funcs {
			if fi.Pkg != pkg || fi.Obj.Name() != "doZip" || fi.Decl.Body == nil {
				continue
			}
			n := core.RecvNamed(fi.Obj)
			if n == nil {
				continue
			}
			un := p.Method(pk, n.Obj().Name(), "doUnZip")
			c := pk + "." + n.Obj().Name() + ".doZip~doUnZip"
			pos := p.Pos(fi.Decl.Pos())
			if un == nil {
				r.Undec("C03.zipstatus", c, pos, "no doUnZip")
				continue
			}
			info := fi.Pkg.TypesInfo
			// doZip: sequence of statements; find Status assignment const and DoZip return
			var setConst, guardConst, unGuard string
			okShape := true
			var why []string
			list := fi.Decl.Body.List
			sawSet := false
			for _, s := range list {
				switch v := s.(type) {
				case *ast.IfStmt:
					// guards returning the input unchanged
					if be, ok := v.Cond.(*ast.BinaryExpr); ok {
						if sel, ok := be.X.(*ast.SelectorExpr); ok && sel.Sel.Name == "Status" {
							if tv, ok := info.Types[be.Y]; ok && tv.Value != nil {
								guardConst = be.Op.String() + tv.Value.ExactString()
							}
						}
					}
					for _, bs := range v.Body.List {
						if rs, ok := bs.(*ast.ReturnStmt); ok {
							if len(rs.Results) == 0 || !isParam(info, fi, rs.Results[0]) {
								okShape = false
								why = append(why, "an early return does not return the input unchanged")
							}
						}
						if as, ok := bs.(*ast.AssignStmt); ok && assignsField(as, "Status") {
							okShape = false
							why = append(why, "Status assigned on a non-compressing path")
						}
					}
				case *ast.AssignStmt:
					if assignsField(v, "Status") {
						if tv, ok := info.Types[v.Rhs[0]]; ok && tv.Value != nil {
							setConst = tv.Value.ExactString()
							sawSet = true
						}
					}
				case *ast.ReturnStmt:
					if len(v.Results) >= 1 {
						if call, ok := v.Results[0].(*ast.CallExpr); ok && isCallTo(info, call, core.ModPath+"/util/compressutil", "DoZip") {
							if !sawSet {
								okShape = false
								why = append(why, "compressed data returned without marking Status")
							}
						} else if sawSet {
							okShape = false
							why = append(why, "Status marked ZIPPED but the returned data is not the DoZip result")
						}
					}
				}
			}
			uinfo := un.Pkg.TypesInfo
			unzips := false
			ast.Inspect(un.Decl.Body, func(m ast.Node) bool {
				if ifs, ok := m.(*ast.IfStmt); ok {
					if be, ok := ifs.Cond.(*ast.BinaryExpr); ok {
						if sel, ok := be.X.(*ast.SelectorExpr); ok && sel.Sel.Name == "Status" {
							if tv, ok := uinfo.Types[be.Y]; ok && tv.Value != nil {
								unGuard = be.Op.String() + tv.Value.ExactString()
							}
						}
					}
				}
				if call, ok := m.(*ast.CallExpr); ok && isCallTo(uinfo, call, core.ModPath+"/util/compressutil", "UnZip") {
					unzips = true
				}
				return true
			})
			if !unzips {
				okShape = false
				why = append(why, "doUnZip never calls UnZip")
			}
			if setConst == "" || unGuard != "!="+setConst {
				okShape = false
				why = append(why, fmt.Sprintf("doZip marks Status=%s but doUnZip passes the data through under Status%s", setConst, unGuard))
			}
			_ = guardConst
			if okShape {
				r.OK("C03.zipstatus", c, pos, "Status="+setConst+" set exactly on the compressing path; doUnZip guard "+unGuard)
			} else {
				r.Viol("C03.zipstatus", c, pos, strings.Join(why, "; "))
			}
		}
	}
}

func assignsField(as *ast.AssignStmt, f string) bool {
	for _, l := range as.Lhs {
		if sel, ok := l.(*ast.SelectorExpr); ok && sel.Sel.Name == f {
			return true
		}
	}
	return false
}

func isParam(info *types.Info, fi *core.FuncInfo, e ast.Expr) bool {
	id, ok := ast.Unparen(e).(*ast.Ident)
	if !ok {
		return false
	}
	obj := info.ObjectOf(id)
	for _, f := range fi.Decl.Type.Params.List {
		for _, n := range f.Names {
			if info.Defs[n] == obj {
				return true
			}
		}
	}
	return false
}

// c03ZipPure: compressutil.DoZip/UnZip keep no state between calls: they touch no package-level
// variable, so the slice they return cannot alias storage a later call overwrites.
func c03ZipPure(p *core.Program, r *core.Report) {
	pk := p.Pkg("util/compressutil")
	if pk == nil {
		r.Undec("C03.zippure", "util/compressutil", "-", "package not found")
		return
	}
	for _, name := range []string{"DoZip", "UnZip"} {
		fi := p.Func("util/compressutil", name)
		if fi == nil || fi.Decl.Body == nil {
			r.Undec("C03.zippure", "util/compressutil."+name, "-", "function not found")
			continue
		}
		var bad []string
		seen := map[*types.Func]bool{}
		var visit func(f *core.FuncInfo, d int)
		visit = func(f *core.FuncInfo, d int) {
			ast.Inspect(f.Decl.Body, func(n ast.Node) bool {
				id, ok := n.(*ast.Ident)
				if !ok {
					return true
				}
				switch o := f.Pkg.TypesInfo.Uses[id].(type) {
				case *types.Var:
					if !o.IsField() && o.Pkg() != nil && o.Parent() == o.Pkg().Scope() && strings.HasPrefix(o.Pkg().Path(), core.ModPath) {
						bad = append(bad, o.Pkg().Name()+"."+o.Name()+" at "+p.Pos(id.Pos()))
					}
				case *types.Func:
					if cf := p.FuncOf(o); cf != nil && cf.Decl.Body != nil && !seen[o] && d < 4 {
						seen[o] = true
						visit(cf, d+1)
					}
				}
				return true
			})
		}
		visit(fi, 0)
		c := "util/compressutil." + name
		if len(bad) > 0 {
			r.Viol("C03.zippure", c, p.Pos(fi.Decl.Pos()), "uses package-level state: "+strings.Join(bad, ", ")+" — the returned slice may alias storage reused by the next call")
		} else {
			r.OK("C03.zippure", c, p.Pos(fi.Decl.Pos()), "no package-level variable reachable")
		}
	}
}

// c03EmptyBlob: in every method of relPkg other than Read/Write that opens io.NewDataInputX over a
// byte-slice field of its receiver (directly, or by handing the field to a helper of the package that
// opens the stream over that parameter) and reads from the stream outside any loop, the way to that
// read has established that the field is not empty: `len(this.F) == 0` found false (or `> 0` true).
// `this.F == nil` alone is not enough: ReadBlob/ReadBytes hand a decoded pack an empty, non-nil slice.
func c03EmptyBlob(p *core.Program, r *core.Report, rule, relPkg string) {
	pk := p.Pkg(relPkg)
	if pk == nil {
		return
	}
	// opensOver: does fn open a stream over its i-th parameter and read from it outside loops?
	readsOutsideLoop := func(fi *core.FuncInfo, stream types.Object) bool {
		info := fi.Pkg.TypesInfo
		found := false
		var walk func(n ast.Node, inLoop bool)
		walk = func(n ast.Node, inLoop bool) {
			ast.Inspect(n, func(m ast.Node) bool {
				switch v := m.(type) {
				case *ast.ForStmt:
					if v.Init != nil {
						walk(v.Init, inLoop)
					}
					walk(v.Body, true)
					return false
				case *ast.RangeStmt:
					walk(v.Body, true)
					return false
				case *ast.CallExpr:
					if sel, ok := v.Fun.(*ast.SelectorExpr); ok && strings.HasPrefix(sel.Sel.Name, "Read") {
						if id, ok := ast.Unparen(sel.X).(*ast.Ident); ok && info.ObjectOf(id) == stream && !inLoop {
							found = true
						}
					}
				}
				return true
			})
		}
		walk(fi.Decl.Body, false)
		return found
	}
	streamOver := func(fi *core.FuncInfo, matches func(ast.Expr) bool) (types.Object, *ast.CallExpr) {
		info := fi.Pkg.TypesInfo
		var obj types.Object
		var at *ast.CallExpr
		ast.Inspect(fi.Decl.Body, func(n ast.Node) bool {
			as, ok := n.(*ast.AssignStmt)
			if !ok || len(as.Lhs) != 1 || len(as.Rhs) != 1 {
				return true
			}
			call, ok := ast.Unparen(as.Rhs[0]).(*ast.CallExpr)
			if !ok || !isCallTo(info, call, core.ModPath+"/io", "NewDataInputX") || len(call.Args) != 1 || !matches(call.Args[0]) {
				return true
			}
			if id, ok := as.Lhs[0].(*ast.Ident); ok {
				obj, at = info.ObjectOf(id), call
			}
			return true
		})
		return obj, at
	}
	for _, fi := range p.Funcs {
		if fi.Pkg != pk || fi.Decl.Body == nil || core.RecvNamed(fi.Obj) == nil || fi.Obj.Name() == "Read" || fi.Obj.Name() == "Write" {
			continue
		}
		info := fi.Pkg.TypesInfo
		rn := recvName(fi)
		isField := func(e ast.Expr) (string, bool) {
			sel, ok := ast.Unparen(e).(*ast.SelectorExpr)
			if !ok {
				return "", false
			}
			id, ok := ast.Unparen(sel.X).(*ast.Ident)
			if !ok || id.Name != rn {
				return "", false
			}
			if _, isSlice := info.TypeOf(sel).Underlying().(*types.Slice); !isSlice {
				return "", false
			}
			return sel.Sel.Name, true
		}
		type site struct {
			field string
			node  ast.Node
		}
		var sites []site
		var fld string
		if st, at := streamOver(fi, func(e ast.Expr) bool {
			f, ok := isField(e)
			if ok {
				fld = f
			}
			return ok
		}); st != nil && readsOutsideLoop(fi, st) {
			sites = append(sites, site{fld, at})
		}
		// the field handed to a helper that opens the stream over its parameter
		ast.Inspect(fi.Decl.Body, func(n ast.Node) bool {
			call, ok := n.(*ast.CallExpr)
			if !ok {
				return true
			}
			var id *ast.Ident
			switch f := ast.Unparen(call.Fun).(type) {
			case *ast.Ident:
				id = f
			case *ast.SelectorExpr:
				id = f.Sel
			}
			if id == nil {
				return true
			}
			fn, _ := info.Uses[id].(*types.Func)
			if fn == nil || fn.Pkg() != fi.Obj.Pkg() {
				return true
			}
			hf := p.FuncOf(fn)
			if hf == nil || hf.Decl.Body == nil || hf == fi {
				return true
			}
			for i, a := range call.Args {
				f, ok := isField(a)
				if !ok {
					continue
				}
				var pobj types.Object
				k := 0
				for _, pf := range hf.Decl.Type.Params.List {
					for _, nm := range pf.Names {
						if k == i {
							pobj = hf.Pkg.TypesInfo.Defs[nm]
						}
						k++
					}
				}
				if pobj == nil {
					continue
				}
				hinfo := hf.Pkg.TypesInfo
				if st, _ := streamOver(hf, func(e ast.Expr) bool {
					x, ok := ast.Unparen(e).(*ast.Ident)
					return ok && hinfo.ObjectOf(x) == pobj
				}); st != nil && readsOutsideLoop(hf, st) {
					sites = append(sites, site{f, call})
				}
			}
			return true
		})
		for _, s := range sites {
			nonEmpty := false
			for _, a := range dominatingAtoms(fi, s.node) {
				k := condKey(info, func(e ast.Expr) string { return strings.ReplaceAll(stripSpaces(types.ExprString(e)), rn+".", "") }, a.E, a.V)
				if k == "len("+s.field+")==0=false" || k == "len("+s.field+")>0=true" || k == "len("+s.field+")>=1=true" {
					nonEmpty = true
				}
			}
			c := core.FuncName(fi.Obj) + " decodes " + s.field
			r.Check(nonEmpty, rule, c, p.Pos(fi.Decl.Pos()), "the empty blob is ruled out before the first read",
				"a count is read from a stream over "+s.field+" without `len("+s.field+") == 0` having been ruled out: a pack that never had records (or was decoded from one) makes the read fail instead of yielding no records")
		}
	}
}

// c03VerbatimInput: a decoder entry point decodes the bytes it was handed. Where a function of the
// package builds its input stream from a []byte parameter, the stream is made over that parameter
// itself (or an explicit re-slice of it, which is framing) — never over what some function made of it
// (trimmed, unpadded, copied with changes): an encoding may legitimately end in the bytes such a
// function removes, and then a pack that was written does not read back.
func c03VerbatimInput(p *core.Program, r *core.Report, rule string, relPkgs []string) {
	in := map[string]bool{}
	for _, k := range relPkgs {
		in[k] = true
	}
	for _, fi := range p.Funcs {
		if fi.Decl.Body == nil || !in[core.RelPkg(fi.Pkg.PkgPath)] {
			continue
		}
		info := fi.Pkg.TypesInfo
		bparams := map[types.Object]bool{}
		for _, f := range fi.Decl.Type.Params.List {
			for _, nm := range f.Names {
				if o := info.Defs[nm]; o != nil && isByteSlice(o.Type()) {
					bparams[o] = true
				}
			}
		}
		if len(bparams) == 0 {
			continue
		}
		mentions := func(e ast.Expr) bool {
			found := false
			ast.Inspect(e, func(n ast.Node) bool {
				if id, ok := n.(*ast.Ident); ok && bparams[info.ObjectOf(id)] {
					found = true
				}
				return !found
			})
			return found
		}
		ast.Inspect(fi.Decl.Body, func(n ast.Node) bool {
			call, ok := n.(*ast.CallExpr)
			if !ok || len(call.Args) != 1 || !isCallTo(info, call, core.ModPath+"/io", "NewDataInputX") {
				return true
			}
			arg := call.Args[0]
			// follow one local: x := f(b); NewDataInputX(x)
			if id, ok := ast.Unparen(arg).(*ast.Ident); ok && !bparams[info.ObjectOf(id)] {
				if d := singleDefIn(info, fi.Decl.Body, info.ObjectOf(id)); d != nil {
					arg = d
				}
			}
			if !mentions(arg) {
				return true
			}
			bad := ""
			ast.Inspect(arg, func(m ast.Node) bool {
				c, ok := m.(*ast.CallExpr)
				if !ok {
					return true
				}
				if tv, has := info.Types[c.Fun]; has && tv.IsType() {
					return true
				}
				for _, a := range c.Args {
					if mentions(a) {
						bad = types.ExprString(c)
					}
				}
				return true
			})
			c := core.FuncName(fi.Obj) + " decodes what it was handed"
			r.Check(bad == "", rule, c, p.Pos(call.Pos()), "the input stream is made over the parameter itself",
				"the input stream is made over "+bad+", not over the bytes handed in: whatever that function removes or rewrites is missing from the decoding (an encoding may end in exactly those bytes)")
			return true
		})
	}
}

// singleDefIn: the one expression a local is assigned in body (nil if none or several).
func singleDefIn(info *types.Info, body *ast.BlockStmt, obj types.Object) ast.Expr {
	var def ast.Expr
	n := 0
	ast.Inspect(body, func(m ast.Node) bool {
		if as, ok := m.(*ast.AssignStmt); ok && len(as.Lhs) == len(as.Rhs) {
			for i, l := range as.Lhs {
				if id, ok := l.(*ast.Ident); ok && info.ObjectOf(id) == obj {
					def = as.Rhs[i]
					n++
				}
			}
		}
		return true
	})
	if n == 1 {
		return def
	}
	return nil
}
