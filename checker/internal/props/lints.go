package props

import (
	"fmt"
	"go/ast"
	"go/constant"
	"go/token"
	"go/types"
	"golibcheck/internal/paths"
	"regexp"
	"strings"

	"golibcheck/internal/core"
)

// shiftWidthLint: a shift whose constant count is at least the width of its (sized) operand always
// yields 0 (or the sign): the bits the code meant to select are gone (`uint32(x) >> 32`). One
// obligation per function of the given packages that shifts by a constant.
func shiftWidthLint(p *core.Program, r *core.Report, rule string, relPkgs []string) {
	in := map[string]bool{}
	for _, k := range relPkgs {
		in[k] = true
	}
	sizes := types.SizesFor("gc", "amd64")
	for _, fi := range p.Funcs {
		if !in[core.RelPkg(fi.Pkg.PkgPath)] || fi.Decl.Body == nil {
			continue
		}
		info := fi.Pkg.TypesInfo
		n := 0
		var probs []string
		ast.Inspect(fi.Decl.Body, func(m ast.Node) bool {
			be, ok := m.(*ast.BinaryExpr)
			if !ok || (be.Op != token.SHL && be.Op != token.SHR) {
				return true
			}
			ctv, ok := info.Types[be.Y]
			if !ok || ctv.Value == nil {
				return true
			}
			if xtv, ok := info.Types[be.X]; ok && xtv.Value != nil {
				return true // constant expression
			}
			k, exact := constant.Int64Val(constant.ToInt(ctv.Value))
			if !exact {
				return true
			}
			t := info.TypeOf(be.X)
			b, ok := t.Underlying().(*types.Basic)
			if !ok || b.Info()&types.IsInteger == 0 || b.Info()&types.IsUntyped != 0 {
				return true
			}
			n++
			w := sizes.Sizeof(t) * 8
			if k >= w {
				probs = append(probs, fmt.Sprintf("%s: `%s` shifts a %d-bit operand by %d: the result no longer depends on the operand's bits", p.Pos(be.Pos()), types.ExprString(be), w, k))
			}
			return true
		})
		if n > 0 {
			fileProbs(r, rule, core.FuncName(fi.Obj), p.Pos(fi.Decl.Pos()), probs, fmt.Sprintf("%d constant shifts, each narrower than its operand", n))
		}
	}
}

var compareName = regexp.MustCompile(`(?i)compar|^less`)

// subtractCompareLint: a comparison result produced by subtracting two 64-bit (or word-sized) values
// (and narrowing the difference) has the wrong sign once the difference overflows: the order is no
// longer antisymmetric/transitive. One obligation per compare-like function of the given packages.
func subtractCompareLint(p *core.Program, r *core.Report, rule string, relPkgs []string) {
	in := map[string]bool{}
	for _, k := range relPkgs {
		in[k] = true
	}
	for _, fi := range p.Funcs {
		if !in[core.RelPkg(fi.Pkg.PkgPath)] || fi.Decl.Body == nil || !compareName.MatchString(fi.Obj.Name()) {
			continue
		}
		sig := fi.Obj.Type().(*types.Signature)
		if sig.Results().Len() != 1 {
			continue
		}
		if b, ok := sig.Results().At(0).Type().Underlying().(*types.Basic); !ok || b.Info()&types.IsInteger == 0 {
			continue
		}
		info := fi.Pkg.TypesInfo
		var probs []string
		ast.Inspect(fi.Decl.Body, func(m ast.Node) bool {
			if _, ok := m.(*ast.FuncLit); ok {
				return false
			}
			rs, ok := m.(*ast.ReturnStmt)
			if !ok || len(rs.Results) != 1 {
				return true
			}
			e := stripConvs(info, rs.Results[0])
			be, ok := ast.Unparen(e).(*ast.BinaryExpr)
			if !ok || be.Op != token.SUB {
				return true
			}
			if tv, ok := info.Types[be]; ok && tv.Value != nil {
				return true
			}
			wide := func(x ast.Expr) bool {
				b, ok := info.TypeOf(x).Underlying().(*types.Basic)
				if !ok {
					return false
				}
				switch b.Kind() {
				case types.Int64, types.Uint64:
					return true // (differences of lengths and of type codes, both of type int, cannot overflow)
				}
				return false
			}
			if wide(be.X) || wide(be.Y) {
				probs = append(probs, fmt.Sprintf("%s: `%s` returns a difference of wide integers as the order: it overflows (and is narrowed) for far-apart values, so a < b and b < a can both hold", p.Pos(rs.Pos()), types.ExprString(rs.Results[0])))
			}
			return true
		})
		fileProbs(r, rule, core.FuncName(fi.Obj), p.Pos(fi.Decl.Pos()), probs, "no order is computed as an overflowing difference")
	}
}

// swappedArgsLint: a call that passes two of its own variables in each other's place — the argument in
// position i is a variable named like parameter j of the callee and the argument in position j is
// named like parameter i (same types, so the compiler is silent): getAlphaMM(m, log2m) for
// func getAlphaMM(log2m, m). One obligation per function that makes such-shaped calls (two or more
// identifier arguments matching parameter names of a callee of this module).
func swappedArgsLint(p *core.Program, r *core.Report, rule string, relPkgs []string) {
	in := map[string]bool{}
	for _, k := range relPkgs {
		in[k] = true
	}
	for _, fi := range p.Funcs {
		if !in[core.RelPkg(fi.Pkg.PkgPath)] || fi.Decl.Body == nil {
			continue
		}
		info := fi.Pkg.TypesInfo
		n := 0
		var probs []string
		ast.Inspect(fi.Decl.Body, func(m ast.Node) bool {
			call, ok := m.(*ast.CallExpr)
			if !ok || len(call.Args) < 2 {
				return true
			}
			fn := calleeFunc(info, call)
			if fn == nil {
				return true
			}
			cfi := p.FuncOf(fn)
			if cfi == nil || cfi.Decl.Type.Params == nil {
				return true
			}
			var pnames []string
			var ptypes []types.Type
			for _, f := range cfi.Decl.Type.Params.List {
				for _, nm := range f.Names {
					pnames = append(pnames, nm.Name)
					ptypes = append(ptypes, cfi.Pkg.TypesInfo.TypeOf(f.Type))
				}
			}
			if len(pnames) != len(call.Args) {
				return true
			}
			argName := func(e ast.Expr) string {
				e = stripConvs(info, e)
				switch v := ast.Unparen(e).(type) {
				case *ast.Ident:
					return v.Name
				case *ast.SelectorExpr:
					return v.Sel.Name
				}
				return ""
			}
			matched := 0
			for i, a := range call.Args {
				if an := argName(a); an != "" && an == pnames[i] {
					matched++
				}
			}
			for i := range call.Args {
				for j := i + 1; j < len(call.Args); j++ {
					ai, aj := argName(call.Args[i]), argName(call.Args[j])
					if ai == "" || aj == "" || ai == aj || pnames[i] == pnames[j] {
						continue
					}
					oneSided := (ai == pnames[j] && aj != pnames[j] && ai != pnames[i]) || (aj == pnames[i] && ai != pnames[i] && aj != pnames[j])
					if (ai == pnames[j] && aj == pnames[i] || oneSided) && types.Identical(ptypes[i], ptypes[j]) {
						probs = append(probs, fmt.Sprintf("%s: %s is called with `%s` for parameter %s and `%s` for parameter %s: the two arguments are in each other's place", p.Pos(call.Pos()), fn.Name(), types.ExprString(call.Args[i]), pnames[i], types.ExprString(call.Args[j]), pnames[j]))
					}
				}
			}
			if matched >= 2 {
				n++
			}
			return true
		})
		if n > 0 || len(probs) > 0 {
			fileProbs(r, rule, core.FuncName(fi.Obj), p.Pos(fi.Decl.Pos()), uniq(probs), fmt.Sprintf("%d call(s) pass same-named variables in parameter order", n))
		}
	}
}

// gzipClosedBeforeRead: a gzip/zlib/flate writer emits its last block and trailer in Close(). The
// bytes of the underlying buffer are complete only after a Close() that has already RUN: on every
// path that reads the buffer (Bytes()/String()) a non-deferred Close() of the compressor precedes
// the read. One obligation per function of the given packages that creates a compressing writer.
func gzipClosedBeforeRead(p *core.Program, r *core.Report, rule string, relPkgs []string) {
	in := map[string]bool{}
	for _, k := range relPkgs {
		in[k] = true
	}
	for _, fi := range p.Funcs {
		if !in[core.RelPkg(fi.Pkg.PkgPath)] || fi.Decl.Body == nil {
			continue
		}
		info := fi.Pkg.TypesInfo
		// the compressor local(s) and the buffer(s) they write into
		comp := map[types.Object]types.Object{}
		ast.Inspect(fi.Decl.Body, func(n ast.Node) bool {
			as, ok := n.(*ast.AssignStmt)
			if !ok || len(as.Rhs) != 1 || len(as.Lhs) < 1 {
				return true
			}
			call, ok := ast.Unparen(as.Rhs[0]).(*ast.CallExpr)
			if !ok || len(call.Args) < 1 {
				return true
			}
			fn := calleeFunc(info, call)
			if fn == nil || fn.Pkg() == nil || !strings.HasPrefix(fn.Pkg().Path(), "compress/") || !strings.HasPrefix(fn.Name(), "NewWriter") {
				return true
			}
			lid, ok := as.Lhs[0].(*ast.Ident)
			a0 := ast.Unparen(call.Args[0])
			if u, isU := a0.(*ast.UnaryExpr); isU && u.Op == token.AND {
				a0 = ast.Unparen(u.X)
			}
			bid, ok2 := a0.(*ast.Ident)
			if ok && ok2 {
				comp[info.ObjectOf(lid)] = info.ObjectOf(bid)
			}
			return true
		})
		if len(comp) == 0 {
			continue
		}
		bufs := map[types.Object]bool{}
		for _, b := range comp {
			bufs[b] = true
		}
		ps, over := paths.Enumerate(fi.Decl.Body, paths.Config{Info: info,
			Classify: func(n ast.Node) []paths.Event {
				var out []paths.Event
				if _, isDefer := n.(*ast.DeferStmt); isDefer {
					return nil
				}
				ast.Inspect(n, func(m ast.Node) bool {
					call, ok := m.(*ast.CallExpr)
					if !ok {
						return true
					}
					sel, ok := call.Fun.(*ast.SelectorExpr)
					if !ok {
						return true
					}
					id, ok := ast.Unparen(sel.X).(*ast.Ident)
					if !ok {
						return true
					}
					o := info.ObjectOf(id)
					if _, isComp := comp[o]; isComp && sel.Sel.Name == "Close" {
						out = append(out, paths.Event{Kind: "ZCLOSE", Pos: call.Pos()})
					}
					if bufs[o] && (sel.Sel.Name == "Bytes" || sel.Sel.Name == "String") {
						out = append(out, paths.Event{Kind: "ZREAD", Pos: call.Pos()})
					}
					return true
				})
				return out
			}})
		c := core.FuncName(fi.Obj)
		pos := p.Pos(fi.Decl.Pos())
		if over {
			r.Undec(rule, c, pos, "too many paths")
			continue
		}
		bad := ""
		reads := 0
		for _, pa := range ps {
			ri := pa.Index("ZREAD")
			if ri < 0 {
				continue
			}
			reads++
			ci := pa.Index("ZCLOSE")
			if ci < 0 || ci > ri {
				bad = p.Pos(pa[ri].Pos)
			}
		}
		if reads == 0 {
			continue
		}
		r.Check(bad == "", rule, c, pos, "the compressor is closed before its buffer is read", "the compressed bytes are read at "+bad+" before the compressor's Close() has run (a deferred Close runs after the read): the stream lacks its final block and trailer and cannot be decompressed")
	}
}

// payloadNotTruncated: a stream writer does not cut its payload down before writing it. In the
// writer methods of the given packages no slice- or string-typed parameter is re-assigned to a
// sub-slice of itself with an upper bound other than its own length (b = b[:N]); such a writer
// silently emits less than it was handed, which no length prefix can make up for. One obligation per
// writer with a payload parameter.
func payloadNotTruncated(p *core.Program, r *core.Report, rule string, relPkg, recvType string) {
	t := namedIn(p, relPkg, recvType)
	if t == nil {
		r.Undec(rule, relPkg+"."+recvType+" payload", "-", "type not found")
		return
	}
	for _, fi := range p.MethodsOf(t) {
		if fi.Decl.Body == nil || !strings.HasPrefix(fi.Obj.Name(), "Write") {
			continue
		}
		info := fi.Pkg.TypesInfo
		params := map[types.Object]bool{}
		for _, f := range fi.Decl.Type.Params.List {
			for _, n := range f.Names {
				o := info.Defs[n]
				if o == nil {
					continue
				}
				switch u := o.Type().Underlying().(type) {
				case *types.Slice:
					params[o] = true
				case *types.Basic:
					if u.Info()&types.IsString != 0 {
						params[o] = true
					}
				}
			}
		}
		if len(params) == 0 {
			continue
		}
		var probs []string
		ast.Inspect(fi.Decl.Body, func(n ast.Node) bool {
			as, ok := n.(*ast.AssignStmt)
			if !ok || len(as.Lhs) != len(as.Rhs) {
				return true
			}
			for i, l := range as.Lhs {
				id, ok := ast.Unparen(l).(*ast.Ident)
				if !ok || !params[info.ObjectOf(id)] {
					continue
				}
				se, ok := ast.Unparen(as.Rhs[i]).(*ast.SliceExpr)
				if !ok {
					continue
				}
				x, ok := ast.Unparen(se.X).(*ast.Ident)
				if !ok || info.ObjectOf(x) != info.ObjectOf(id) {
					continue
				}
				full := se.High == nil || stripSpaces(types.ExprString(se.High)) == "len("+id.Name+")"
				if lo, isC := constIntOf(info, se.Low); se.Low != nil && (!isC || lo != 0) {
					full = false
				}
				if !full {
					probs = append(probs, fmt.Sprintf("the payload parameter %s is cut to %s before it is written", id.Name, stripSpaces(types.ExprString(se))))
				}
			}
			return true
		})
		fileProbs(r, rule, core.FuncName(fi.Obj)+" payload", p.Pos(fi.Decl.Pos()), probs, "the payload parameter is written as handed in")
	}
}

// rawWidthInvariant: a byte-slice field that a type's Write emits without a length (WriteBytes(f))
// and its Read restores with a constant length (f = ReadBytes(N)) holds exactly N bytes by
// convention. Every other assignment to that field in the package stores a value whose length the
// path has established: a literal of N elements, a ReadBytes(N), or a value x on a path where
// len(x) == N was found true. Otherwise Write emits more or fewer bytes than Read consumes: the
// value differs from its own decoded encoding and shifts everything after it.
func rawWidthInvariant(p *core.Program, r *core.Report, rule, relPkg string) {
	pk := p.Pkg(relPkg)
	if pk == nil {
		return
	}
	type fixed struct {
		f types.Object
		n int64
	}
	var fields []fixed
	for _, fi := range p.Funcs {
		if fi.Pkg != pk || fi.Decl.Body == nil || fi.Obj.Name() != "Read" || core.RecvNamed(fi.Obj) == nil {
			continue
		}
		info := fi.Pkg.TypesInfo
		ast.Inspect(fi.Decl.Body, func(n ast.Node) bool {
			as, ok := n.(*ast.AssignStmt)
			if !ok || len(as.Lhs) != 1 || len(as.Rhs) != 1 {
				return true
			}
			sel, ok := ast.Unparen(as.Lhs[0]).(*ast.SelectorExpr)
			if !ok {
				return true
			}
			call, ok := ast.Unparen(as.Rhs[0]).(*ast.CallExpr)
			if !ok || len(call.Args) != 1 {
				return true
			}
			if cs, ok := call.Fun.(*ast.SelectorExpr); !ok || cs.Sel.Name != "ReadBytes" {
				return true
			}
			k, isC := constIntOf(info, call.Args[0])
			f, _ := info.ObjectOf(sel.Sel).(*types.Var)
			if isC && f != nil && f.IsField() {
				fields = append(fields, fixed{f, k})
			}
			return true
		})
	}
	for _, fx := range fields {
		for _, fi := range p.Funcs {
			if fi.Pkg != pk || fi.Decl.Body == nil || fi.Obj.Name() == "Read" {
				continue
			}
			info := fi.Pkg.TypesInfo
			norm := func(e ast.Expr) string { return stripSpaces(types.ExprString(e)) }
			stores := 0
			ps, over := paths.Enumerate(fi.Decl.Body, paths.Config{Info: info,
				Cond: func(c ast.Expr, v bool) *paths.Event {
					return &paths.Event{Kind: "COND", Arg: condKey(info, norm, c, v), Pos: c.Pos()}
				},
				Classify: func(n ast.Node) []paths.Event {
					var out []paths.Event
					// the field given its value in a composite literal (return &T{Value: v}) is a store too
					if _, isAssign := n.(*ast.AssignStmt); !isAssign || true {
						ast.Inspect(n, func(k ast.Node) bool {
							if _, isLit := k.(*ast.FuncLit); isLit {
								return false
							}
							cl, ok := k.(*ast.CompositeLit)
							if !ok {
								return true
							}
							for _, el := range cl.Elts {
								kv, ok := el.(*ast.KeyValueExpr)
								if !ok {
									continue
								}
								kid, ok := kv.Key.(*ast.Ident)
								if !ok || info.ObjectOf(kid) != fx.f {
									continue
								}
								stores++
								rhs := ast.Unparen(kv.Value)
								arg := "var:" + norm(rhs)
								if lit, ok := rhs.(*ast.CompositeLit); ok {
									arg = fmt.Sprintf("lit:%d", len(lit.Elts))
								}
								if c2, ok := rhs.(*ast.CallExpr); ok {
									if id, ok := c2.Fun.(*ast.Ident); ok && id.Name == "make" && len(c2.Args) >= 2 {
										if kk, isC := constIntOf(info, c2.Args[1]); isC {
											arg = fmt.Sprintf("lit:%d", kk)
										}
									}
								}
								out = append(out, paths.Event{Kind: "STORE", Arg: arg, Pos: kv.Pos()})
							}
							return true
						})
					}
					as, ok := n.(*ast.AssignStmt)
					if !ok || len(as.Lhs) != len(as.Rhs) {
						return out
					}
					// a local (or parameter) given a literal of known length: its width from here on
					for i, l := range as.Lhs {
						if lid, ok := ast.Unparen(l).(*ast.Ident); ok {
							if lit, ok := ast.Unparen(as.Rhs[i]).(*ast.CompositeLit); ok {
								out = append(out, paths.Event{Kind: "WIDTH", Arg: fmt.Sprintf("%s=%d", lid.Name, len(lit.Elts)), Pos: as.Pos()})
							} else {
								out = append(out, paths.Event{Kind: "WIDTH", Arg: lid.Name + "=?", Pos: as.Pos()})
							}
						}
					}
					for i, l := range as.Lhs {
						sel, ok := ast.Unparen(l).(*ast.SelectorExpr)
						if !ok || info.ObjectOf(sel.Sel) != fx.f {
							continue
						}
						stores++
						rhs := ast.Unparen(as.Rhs[i])
						arg := "var:" + norm(rhs)
						switch v := rhs.(type) {
						case *ast.CompositeLit:
							arg = fmt.Sprintf("lit:%d", len(v.Elts))
						case *ast.CallExpr:
							if cs, ok := v.Fun.(*ast.SelectorExpr); ok && cs.Sel.Name == "ReadBytes" && len(v.Args) == 1 {
								if k, isC := constIntOf(info, v.Args[0]); isC {
									arg = fmt.Sprintf("lit:%d", k)
								}
							}
							if id, ok := v.Fun.(*ast.Ident); ok && id.Name == "make" && len(v.Args) >= 2 {
								if k, isC := constIntOf(info, v.Args[1]); isC {
									arg = fmt.Sprintf("lit:%d", k)
								}
							}
						}
						out = append(out, paths.Event{Kind: "STORE", Arg: arg, Pos: as.Pos()})
					}
					return out
				}})
			if stores == 0 {
				continue
			}
			c := core.FuncName(fi.Obj) + " stores " + fx.f.Name()
			pos := p.Pos(fi.Decl.Pos())
			if over {
				r.Undec(rule, c, pos, "too many paths")
				continue
			}
			var probs []string
			for _, pa := range ps {
				if !pa.Consistent() {
					continue
				}
				for i, e := range pa {
					if e.Kind != "STORE" {
						continue
					}
					if strings.HasPrefix(e.Arg, "lit:") {
						if e.Arg != fmt.Sprintf("lit:%d", fx.n) {
							probs = append(probs, fmt.Sprintf("%s bytes are stored where Read restores %d", strings.TrimPrefix(e.Arg, "lit:"), fx.n))
						}
						continue
					}
					x := strings.TrimPrefix(e.Arg, "var:")
					ok := false
					for _, b := range pa[:i] {
						if b.Kind == "COND" && b.Arg == fmt.Sprintf("len(%s)==%d=true", x, fx.n) {
							ok = true
						}
						if b.Kind == "WIDTH" && strings.HasPrefix(b.Arg, x+"=") {
							ok = b.Arg == fmt.Sprintf("%s=%d", x, fx.n)
						}
					}
					if !ok {
						probs = append(probs, fmt.Sprintf("`%s` is stored without len(%s) == %d having been established on the path: Write emits its bytes without a length and Read consumes exactly %d", x, x, fx.n, fx.n))
					}
				}
			}
			fileProbs(r, rule, c, pos, uniq(probs), fmt.Sprintf("only %d-byte values are stored", fx.n))
		}
	}
}

// noSilentTruncation: the decompressor reads its input to the end. In the given packages nothing
// bounds a reader silently (io.LimitReader, io.LimitedReader, io.CopyN): such a bound does not report
// that it cut the stream, so a payload that inflates beyond it comes back shortened and the records
// behind the cut are lost or garbled. One obligation per function that reads a stream to its end.
func noSilentTruncation(p *core.Program, r *core.Report, rule string, relPkgs []string) {
	in := map[string]bool{}
	for _, k := range relPkgs {
		in[k] = true
	}
	for _, fi := range p.Funcs {
		if !in[core.RelPkg(fi.Pkg.PkgPath)] || fi.Decl.Body == nil {
			continue
		}
		info := fi.Pkg.TypesInfo
		readsAll := false
		var probs []string
		ast.Inspect(fi.Decl.Body, func(n ast.Node) bool {
			switch v := n.(type) {
			case *ast.CallExpr:
				switch {
				case isCallTo(info, v, "io/ioutil", "ReadAll") || isCallTo(info, v, "io", "ReadAll") || isCallTo(info, v, "io", "Copy"):
					readsAll = true
				case isCallTo(info, v, "io", "LimitReader") || isCallTo(info, v, "io", "CopyN"):
					probs = append(probs, fmt.Sprintf("%s: %s cuts the stream off without reporting it", p.Pos(v.Pos()), stripSpaces(types.ExprString(v.Fun))))
				}
			case *ast.CompositeLit:
				if nt := namedOf(info.TypeOf(v)); nt != nil && nt.Obj().Name() == "LimitedReader" && nt.Obj().Pkg() != nil && nt.Obj().Pkg().Path() == "io" {
					probs = append(probs, fmt.Sprintf("%s: io.LimitedReader cuts the stream off without reporting it", p.Pos(v.Pos())))
				}
			}
			return true
		})
		if readsAll || len(probs) > 0 {
			fileProbs(r, rule, core.FuncName(fi.Obj)+" reads to the end", p.Pos(fi.Decl.Pos()), probs, "the stream is read to its end")
		}
	}
}

// encodesUnaltered: a function that encodes a pack it was handed (WritePack(out, x), x.Write(out),
// ToBytesPack(x)) does not change that pack around the encoding: no setter call and no field
// assignment on x in the same function. A pack "temporarily" altered for its own encoding (project
// code blanked to save bytes, restored afterwards) goes on the wire as a different pack.
func encodesUnaltered(p *core.Program, x interface{ IsStream(types.Type) bool }, r *core.Report, rule string, relPkgs []string) {
	in := map[string]bool{}
	for _, k := range relPkgs {
		in[k] = true
	}
	for _, fi := range p.Funcs {
		if !in[core.RelPkg(fi.Pkg.PkgPath)] || fi.Decl.Body == nil {
			continue
		}
		info := fi.Pkg.TypesInfo
		encoded := map[types.Object]bool{}
		ast.Inspect(fi.Decl.Body, func(n ast.Node) bool {
			call, ok := n.(*ast.CallExpr)
			if !ok {
				return true
			}
			name := ""
			var recv ast.Expr
			switch f := ast.Unparen(call.Fun).(type) {
			case *ast.Ident:
				name = f.Name
			case *ast.SelectorExpr:
				name, recv = f.Sel.Name, f.X
			}
			switch {
			case name == "WritePack" || name == "ToBytesPack" || name == "WriteStep":
				for _, a := range call.Args {
					if id, ok := ast.Unparen(a).(*ast.Ident); ok {
						if tv, ok := info.Types[a]; ok && !x.IsStream(tv.Type) {
							if o := info.ObjectOf(id); o != nil {
								encoded[o] = true
							}
						}
					}
				}
			case name == "Write" && recv != nil && len(call.Args) == 1:
				if tv, ok := info.Types[call.Args[0]]; ok && x.IsStream(tv.Type) {
					if id, ok := ast.Unparen(recv).(*ast.Ident); ok {
						if o := info.ObjectOf(id); o != nil && id.Name != recvName(fi) {
							encoded[o] = true
						}
					}
				}
			}
			return true
		})
		if len(encoded) == 0 {
			continue
		}
		var probs []string
		ast.Inspect(fi.Decl.Body, func(n ast.Node) bool {
			switch v := n.(type) {
			case *ast.CallExpr:
				if sel, ok := v.Fun.(*ast.SelectorExpr); ok && strings.HasPrefix(sel.Sel.Name, "Set") && len(v.Args) >= 1 {
					if id, ok := ast.Unparen(sel.X).(*ast.Ident); ok && encoded[info.ObjectOf(id)] {
						probs = append(probs, fmt.Sprintf("%s: %s.%s(...) changes the pack this function encodes", p.Pos(v.Pos()), id.Name, sel.Sel.Name))
					}
				}
			case *ast.AssignStmt:
				for _, l := range v.Lhs {
					if sel, ok := ast.Unparen(l).(*ast.SelectorExpr); ok {
						if id, ok := ast.Unparen(sel.X).(*ast.Ident); ok && encoded[info.ObjectOf(id)] {
							probs = append(probs, fmt.Sprintf("%s: %s.%s is assigned in the function that encodes the pack", p.Pos(v.Pos()), id.Name, sel.Sel.Name))
						}
					}
				}
			}
			return true
		})
		fileProbs(r, rule, core.FuncName(fi.Obj)+" encodes its packs unaltered", p.Pos(fi.Decl.Pos()), uniq(probs), "the packs handed in are encoded as they are")
	}
}

// freshBytesResult: a function of the given packages that returns a byte slice taken from a
// bytes.Buffer (X.Bytes()) hands out the buffer's own backing array. That is the caller's to keep only
// if the buffer is the function's own: a local created here (new(bytes.Buffer), &bytes.Buffer{},
// var, bytes.NewBuffer). A buffer that outlives the call — taken from a sync.Pool, a package-level
// variable, a field of such an object, a parameter — is written again by the next call, and the bytes
// handed out earlier change under their holder. A copy (append([]byte(nil), X.Bytes()...),
// bytes.Clone) is always the caller's own.
func freshBytesResult(p *core.Program, r *core.Report, rule string, relPkgs []string) {
	in := map[string]bool{}
	for _, k := range relPkgs {
		in[k] = true
	}
	for _, fi := range p.Funcs {
		if !in[core.RelPkg(fi.Pkg.PkgPath)] || fi.Decl.Body == nil {
			continue
		}
		sig := fi.Obj.Type().(*types.Signature)
		retBytes := false
		for i := 0; i < sig.Results().Len(); i++ {
			if isByteSlice(sig.Results().At(i).Type()) {
				retBytes = true
			}
		}
		if !retBytes {
			continue
		}
		info := fi.Pkg.TypesInfo
		// enclosing-call map to recognise copies
		copied := map[*ast.CallExpr]bool{}
		ast.Inspect(fi.Decl.Body, func(n ast.Node) bool {
			call, ok := n.(*ast.CallExpr)
			if !ok {
				return true
			}
			isCopy := false
			switch f := ast.Unparen(call.Fun).(type) {
			case *ast.Ident:
				isCopy = (f.Name == "append" && call.Ellipsis.IsValid()) || f.Name == "copy" || f.Name == "string"
			case *ast.SelectorExpr:
				isCopy = f.Sel.Name == "Clone"
			}
			if isCopy {
				for _, a := range call.Args {
					ast.Inspect(a, func(m ast.Node) bool {
						if c, ok := m.(*ast.CallExpr); ok {
							copied[c] = true
						}
						return true
					})
				}
			}
			return true
		})
		var classify func(e ast.Expr, depth int) string // "" = own, else why it outlives the call
		classify = func(e ast.Expr, depth int) string {
			e = ast.Unparen(e)
			if depth > 6 {
				return ""
			}
			switch v := e.(type) {
			case *ast.SelectorExpr:
				return classify(v.X, depth+1)
			case *ast.StarExpr:
				return classify(v.X, depth+1)
			case *ast.TypeAssertExpr:
				return classify(v.X, depth+1)
			case *ast.UnaryExpr:
				return classify(v.X, depth+1)
			case *ast.CallExpr:
				if sel, ok := ast.Unparen(v.Fun).(*ast.SelectorExpr); ok {
					if fn, _ := info.Uses[sel.Sel].(*types.Func); fn != nil && fn.Pkg() != nil && fn.Pkg().Path() == "sync" && fn.Name() == "Get" {
						return "it comes from a sync.Pool (" + types.ExprString(sel.X) + ") and goes back to it"
					}
				}
				return ""
			case *ast.Ident:
				o, _ := info.ObjectOf(v).(*types.Var)
				if o == nil {
					return ""
				}
				if o.Pkg() != nil && o.Parent() == o.Pkg().Scope() {
					return "it is the package-level variable " + o.Name()
				}
				// parameters and receivers outlive the call
				if fi.Decl.Recv != nil {
					for _, f := range fi.Decl.Recv.List {
						for _, n := range f.Names {
							if info.Defs[n] == types.Object(o) {
								return "it belongs to the receiver"
							}
						}
					}
				}
				var why string
				ast.Inspect(fi.Decl.Body, func(n ast.Node) bool {
					if as, ok := n.(*ast.AssignStmt); ok {
						for i, l := range as.Lhs {
							if id, ok := l.(*ast.Ident); ok && info.ObjectOf(id) == types.Object(o) {
								var rhs ast.Expr
								if len(as.Rhs) == len(as.Lhs) {
									rhs = as.Rhs[i]
								} else if len(as.Rhs) == 1 {
									rhs = as.Rhs[0]
								}
								if rhs != nil {
									if w := classify(rhs, depth+1); w != "" {
										why = w
									}
								}
							}
						}
					}
					return true
				})
				return why
			}
			return ""
		}
		n := 0
		bad := ""
		ast.Inspect(fi.Decl.Body, func(m ast.Node) bool {
			call, ok := m.(*ast.CallExpr)
			if !ok {
				return true
			}
			sel, ok := ast.Unparen(call.Fun).(*ast.SelectorExpr)
			if !ok || (sel.Sel.Name != "Bytes" && sel.Sel.Name != "ToByteArray") {
				return true
			}
			// bytes.Buffer.Bytes(), or the output stream's ToByteArray() (the bytes of the buffer behind it)
			if nt := namedOf(info.TypeOf(sel.X)); nt == nil || nt.Obj().Pkg() == nil ||
				!((nt.Obj().Pkg().Path() == "bytes" && nt.Obj().Name() == "Buffer" && sel.Sel.Name == "Bytes") ||
					(strings.HasSuffix(nt.Obj().Pkg().Path(), "/golib/io") && nt.Obj().Name() == "DataOutputX" && sel.Sel.Name == "ToByteArray")) {
				return true
			}
			n++
			if copied[call] {
				return true
			}
			if why := classify(sel.X, 0); why != "" {
				bad = "hands out " + types.ExprString(call) + " (at " + p.Pos(call.Pos()) + "), the backing array of a buffer that outlives the call: " + why + "; the next call writes over the bytes an earlier caller still holds"
			}
			return true
		})
		if n > 0 {
			r.Check(bad == "", rule, core.FuncName(fi.Obj)+" result storage", p.Pos(fi.Decl.Pos()), "the bytes handed out belong to a buffer created in this call (or are a copy)", bad)
		}
	}
}

func isByteSlice(t types.Type) bool {
	sl, ok := t.Underlying().(*types.Slice)
	if !ok {
		return false
	}
	b, ok := sl.Elem().Underlying().(*types.Basic)
	return ok && b.Kind() == types.Byte
}

// noSelfCacheRule: the clock helpers answer from the clock each time they are asked. A function of
// the given packages that writes a package-level variable (assignment, or Store/Swap/CompareAndSwap
// on a package-level atomic or sync value) and also reads that variable is remembering its own
// earlier answer: the answer then depends on when the function was last called, not only on the
// clock (and the correction applied to it), and outlives a change of the correction. Judged are the
// functions that read the clock (time.Now, directly or through the package) and look a variable up
// before they write it; variables a function only writes (set-up, the synchronised clock tick), reads
// back after setting (a setter returning the new value), only reads (configuration set by others),
// or fills on demand from its key alone (time zone -> helper) are not remembered clock readings.
func noSelfCacheRule(p *core.Program, r *core.Report, rule string, pkgs []string) {
	for _, rel := range pkgs {
		pk := p.Pkg(rel)
		if pk == nil {
			continue
		}
		// functions that read the clock: time.Now() directly, or through functions of the package
		readsClock := map[*types.Func]bool{}
		for round := 0; round < 4; round++ {
			for _, fi := range p.Funcs {
				if fi.Pkg != pk || fi.Decl.Body == nil || readsClock[fi.Obj] {
					continue
				}
				ast.Inspect(fi.Decl.Body, func(n ast.Node) bool {
					if call, ok := n.(*ast.CallExpr); ok {
						if fn := calleeFunc(fi.Pkg.TypesInfo, call); fn != nil {
							if (fn.Pkg() != nil && fn.Pkg().Path() == "time" && (fn.Name() == "Now" || fn.Name() == "Since")) || readsClock[fn] {
								readsClock[fi.Obj] = true
							}
						}
					}
					return true
				})
			}
		}
		for _, fi := range p.Funcs {
			if fi.Pkg != pk || fi.Decl.Body == nil || fi.Obj.Name() == "init" {
				continue
			}
			sig := fi.Obj.Type().(*types.Signature)
			if sig.Results().Len() == 0 {
				continue
			}
			info := fi.Pkg.TypesInfo
			pkgVar := func(e ast.Expr) *types.Var {
				root := rootOf(e)
				if root == nil {
					return nil
				}
				v, ok := info.ObjectOf(root).(*types.Var)
				if !ok || v.Pkg() == nil || v.Parent() != v.Pkg().Scope() {
					return nil
				}
				return v
			}
			written := map[*types.Var]token.Pos{}
			writeIdents := map[*ast.Ident]bool{}
			ast.Inspect(fi.Decl.Body, func(n ast.Node) bool {
				switch v := n.(type) {
				case *ast.AssignStmt:
					for _, l := range v.Lhs {
						if pv := pkgVar(l); pv != nil {
							if old, had := written[pv]; !had || v.Pos() < old {
								written[pv] = v.Pos()
							}
							writeIdents[rootOf(l)] = true
						}
					}
				case *ast.CallExpr:
					if sel, ok := ast.Unparen(v.Fun).(*ast.SelectorExpr); ok {
						switch sel.Sel.Name {
						case "Store", "Swap", "CompareAndSwap":
							if pv := pkgVar(sel.X); pv != nil {
								if old, had := written[pv]; !had || v.Pos() < old {
									written[pv] = v.Pos()
								}
								writeIdents[rootOf(sel.X)] = true
							}
						}
					}
				}
				return true
			})
			if len(written) == 0 || !readsClock[fi.Obj] {
				continue // a table filled on demand from its key alone (time zone -> helper) is not a remembered clock reading
			}
			bad := ""
			ast.Inspect(fi.Decl.Body, func(n ast.Node) bool {
				id, ok := n.(*ast.Ident)
				if !ok || writeIdents[id] {
					return true
				}
				if v, ok := info.ObjectOf(id).(*types.Var); ok {
					if wp, w := written[v]; w && id.Pos() < wp { // read first, written afterwards: looked up, then refreshed
						bad = "reads package-level `" + v.Name() + "` (" + p.Pos(id.Pos()) + ") and writes it (" + p.Pos(wp) + "): it answers from what it remembered at an earlier call, so the answer no longer follows the clock and its correction"
					}
				}
				return true
			})
			r.Check(bad == "", rule, core.FuncName(fi.Obj), p.Pos(fi.Decl.Pos()), "writes package-level state it never reads back", bad)
		}
	}
}

// digitCountRule: a loop that counts the digits of a number in radix R by taking one digit off per
// iteration — `for v := u; v OP K; v >>= s` (R = 1<<s) or `v /= R`, the body adding one to a counter —
// runs while another digit is left, that is while v >= R. Written `v > R` it comes out one short for
// every value whose leading digit is 1 followed by zeros (u = R, R*R, …): the leading digit is dropped.
func digitCountRule(p *core.Program, r *core.Report, rule string, rels []string) {
	in := map[string]bool{}
	for _, k := range rels {
		in[k] = true
	}
	for _, fi := range p.Funcs {
		if fi.Decl.Body == nil || !in[core.RelPkg(fi.Pkg.PkgPath)] {
			continue
		}
		info := fi.Pkg.TypesInfo
		ast.Inspect(fi.Decl.Body, func(n ast.Node) bool {
			f, ok := n.(*ast.ForStmt)
			if !ok || f.Cond == nil || f.Post == nil || f.Init == nil {
				return true
			}
			init, ok := f.Init.(*ast.AssignStmt)
			if !ok || len(init.Lhs) != 1 {
				return true
			}
			vid, ok := init.Lhs[0].(*ast.Ident)
			if !ok {
				return true
			}
			obj := info.ObjectOf(vid)
			post, ok := f.Post.(*ast.AssignStmt)
			if !ok || len(post.Lhs) != 1 || len(post.Rhs) != 1 {
				return true
			}
			if pid, ok := post.Lhs[0].(*ast.Ident); !ok || info.ObjectOf(pid) != obj {
				return true
			}
			k, isConst := constIntOf(info, post.Rhs[0])
			if !isConst || k <= 0 {
				return true
			}
			var radix int64
			switch post.Tok {
			case token.SHR_ASSIGN:
				if k > 30 {
					return true
				}
				radix = 1 << uint(k)
			case token.QUO_ASSIGN:
				radix = k
			default:
				return true
			}
			if radix < 2 {
				return true
			}
			// the body only counts
			if len(f.Body.List) != 1 {
				return true
			}
			switch b := f.Body.List[0].(type) {
			case *ast.IncDecStmt:
				if b.Tok != token.INC {
					return true
				}
			case *ast.AssignStmt:
				if b.Tok != token.ADD_ASSIGN {
					return true
				}
			default:
				return true
			}
			be, ok := ast.Unparen(f.Cond).(*ast.BinaryExpr)
			if !ok {
				return true
			}
			cid, ok := ast.Unparen(stripConvs(info, be.X)).(*ast.Ident)
			if !ok || info.ObjectOf(cid) != obj {
				return true
			}
			bound, isConst := constIntOf(info, be.Y)
			if !isConst {
				return true
			}
			good := (be.Op == token.GEQ && bound == radix) || (be.Op == token.GTR && bound == radix-1)
			c := core.FuncName(fi.Obj) + " digit count"
			r.Check(good, rule, c, p.Pos(f.Pos()), "counts while v >= radix",
				fmt.Sprintf("the digit-counting loop runs while %s (radix %d): a number that is exactly the radix, or a power of it, is counted one digit short and loses its leading digit in the text", types.ExprString(f.Cond), radix))
			return true
		})
	}
}

// floorSearchRule: a table of interval starts is searched with sort.Search for the entry that contains
// an instant, stepping back one from the answer (`n := sort.Search(…); … n-1`): the predicate has to be
// the strict `start > t` (first entry beyond t, whose predecessor contains t). With `start >= t` an
// instant that is exactly a start is given to the entry before it.
func floorSearchRule(p *core.Program, r *core.Report, rule string, rels []string) {
	in := map[string]bool{}
	for _, k := range rels {
		in[k] = true
	}
	for _, fi := range p.Funcs {
		if fi.Decl.Body == nil || !in[core.RelPkg(fi.Pkg.PkgPath)] {
			continue
		}
		info := fi.Pkg.TypesInfo
		ast.Inspect(fi.Decl.Body, func(n ast.Node) bool {
			as, ok := n.(*ast.AssignStmt)
			if !ok || len(as.Lhs) != 1 || len(as.Rhs) != 1 {
				return true
			}
			call, ok := ast.Unparen(as.Rhs[0]).(*ast.CallExpr)
			if !ok || !isCallTo(info, call, "sort", "Search") || len(call.Args) != 2 {
				return true
			}
			lit, ok := ast.Unparen(call.Args[1]).(*ast.FuncLit)
			nid, ok2 := as.Lhs[0].(*ast.Ident)
			if !ok || !ok2 || len(lit.Body.List) != 1 {
				return true
			}
			rs, ok := lit.Body.List[0].(*ast.ReturnStmt)
			if !ok || len(rs.Results) != 1 {
				return true
			}
			be, ok := ast.Unparen(rs.Results[0]).(*ast.BinaryExpr)
			if !ok {
				return true
			}
			// the answer is stepped back by one somewhere in the function
			nobj := info.ObjectOf(nid)
			stepsBack := false
			ast.Inspect(fi.Decl.Body, func(m ast.Node) bool {
				if b, ok := m.(*ast.BinaryExpr); ok && b.Op == token.SUB {
					if id, ok := ast.Unparen(b.X).(*ast.Ident); ok && info.ObjectOf(id) == nobj {
						if k, isC := constIntOf(info, b.Y); isC && k == 1 {
							stepsBack = true
						}
					}
				}
				return true
			})
			if !stepsBack {
				return true
			}
			// which side is the table entry (indexed by the literal's parameter)?
			var iobj types.Object
			if lit.Type.Params != nil && len(lit.Type.Params.List) == 1 && len(lit.Type.Params.List[0].Names) == 1 {
				iobj = info.Defs[lit.Type.Params.List[0].Names[0]]
			}
			usesI := func(e ast.Expr) bool {
				found := false
				ast.Inspect(e, func(m ast.Node) bool {
					if id, ok := m.(*ast.Ident); ok && iobj != nil && info.ObjectOf(id) == iobj {
						found = true
					}
					return !found
				})
				return found
			}
			strict := false
			switch {
			case usesI(be.X) && !usesI(be.Y):
				strict = be.Op == token.GTR
			case usesI(be.Y) && !usesI(be.X):
				strict = be.Op == token.LSS
			default:
				return true
			}
			c := core.FuncName(fi.Obj) + " containing-entry search"
			r.Check(strict, rule, c, p.Pos(call.Pos()), "first entry beyond the instant, then one back",
				"the search finds the first entry whose start is >= the instant and steps back one: an instant that is exactly the start of an entry is given to the entry before it (the previous day's date and weekday at midnight)")
			return true
		})
	}
}
