package props

import (
	"fmt"
	"go/ast"
	"go/constant"
	"go/token"
	"go/types"
	"golibcheck/internal/paths"
	"regexp"
	"strings"

	"golibcheck/internal/core"
)

// shiftWidthLint: a shift whose constant count is at least the width of its (sized) operand always
// yields 0 (or the sign): the bits the code meant to select are gone (`uint32(x) >> 32`). One
// obligation per function of the given packages that shifts by a constant.
func shiftWidthLint(p *core.Program, r *core.Report, rule string, relPkgs []string) {
	in := map[string]bool{}
	for _, k := range relPkgs {
		in[k] = true
	}
	sizes := types.SizesFor("gc", "amd64")
	for _, fi := range p.Funcs {
		if !in[core.RelPkg(fi.Pkg.PkgPath)] || fi.Decl.Body == nil {
			continue
		}
		info := fi.Pkg.TypesInfo
		n := 0
		var probs []string
		ast.Inspect(fi.Decl.Body, func(m ast.Node) bool {
			be, ok := m.(*ast.BinaryExpr)
			if !ok || (be.Op != token.SHL && be.Op != token.SHR) {
				return true
			}
			ctv, ok := info.Types[be.Y]
			if !ok || ctv.Value == nil {
				return true
			}
			if xtv, ok := info.Types[be.X]; ok && xtv.Value != nil {
				return true // constant expression
			}
			k, exact := constant.Int64Val(constant.ToInt(ctv.Value))
			if !exact {
				return true
			}
			t := info.TypeOf(be.X)
			b, ok := t.Underlying().(*types.Basic)
			if !ok || b.Info()&types.IsInteger == 0 || b.Info()&types.IsUntyped != 0 {
				return true
			}
			n++
			w := sizes.Sizeof(t) * 8
			if k >= w {
				probs = append(probs, fmt.Sprintf("%s: `%s` shifts a %d-bit operand by %d: the result no longer depends on the operand's bits", p.Pos(be.Pos()), types.ExprString(be), w, k))
			}
			return true
		})
		if n > 0 {
			fileProbs(r, rule, core.FuncName(fi.Obj), p.Pos(fi.Decl.Pos()), probs, fmt.Sprintf("%d constant shifts, each narrower than its operand", n))
		}
	}
}

var compareName = regexp.MustCompile(`(?i)compar|^less`)

// subtractCompareLint: a comparison result produced by subtracting two 64-bit (or word-sized) values
// (and narrowing the difference) has the wrong sign once the difference overflows: the order is no
// longer antisymmetric/transitive. One obligation per compare-like function of the given packages.
func subtractCompareLint(p *core.Program, r *core.Report, rule string, relPkgs []string) {
	in := map[string]bool{}
	for _, k := range relPkgs {
		in[k] = true
	}
	for _, fi := range p.Funcs {
		if !in[core.RelPkg(fi.Pkg.PkgPath)] || fi.Decl.Body == nil || !compareName.MatchString(fi.Obj.Name()) {
			continue
		}
		sig := fi.Obj.Type().(*types.Signature)
		if sig.Results().Len() != 1 {
			continue
		}
		if b, ok := sig.Results().At(0).Type().Underlying().(*types.Basic); !ok || b.Info()&types.IsInteger == 0 {
			continue
		}
		info := fi.Pkg.TypesInfo
		var probs []string
		ast.Inspect(fi.Decl.Body, func(m ast.Node) bool {
			if _, ok := m.(*ast.FuncLit); ok {
				return false
			}
			rs, ok := m.(*ast.ReturnStmt)
			if !ok || len(rs.Results) != 1 {
				return true
			}
			e := stripConvs(info, rs.Results[0])
			be, ok := ast.Unparen(e).(*ast.BinaryExpr)
			if !ok || be.Op != token.SUB {
				return true
			}
			if tv, ok := info.Types[be]; ok && tv.Value != nil {
				return true
			}
			wide := func(x ast.Expr) bool {
				b, ok := info.TypeOf(x).Underlying().(*types.Basic)
				if !ok {
					return false
				}
				switch b.Kind() {
				case types.Int64, types.Uint64:
					return true // (differences of lengths and of type codes, both of type int, cannot overflow)
				}
				return false
			}
			if wide(be.X) || wide(be.Y) {
				probs = append(probs, fmt.Sprintf("%s: `%s` returns a difference of wide integers as the order: it overflows (and is narrowed) for far-apart values, so a < b and b < a can both hold", p.Pos(rs.Pos()), types.ExprString(rs.Results[0])))
			}
			return true
		})
		fileProbs(r, rule, core.FuncName(fi.Obj), p.Pos(fi.Decl.Pos()), probs, "no order is computed as an overflowing difference")
	}
}

// swappedArgsLint: a call that passes two of its own variables in each other's place — the argument in
// position i is a variable named like parameter j of the callee and the argument in position j is
// named like parameter i (same types, so the compiler is silent): getAlphaMM(m, log2m) for
// func getAlphaMM(log2m, m). One obligation per function that makes such-shaped calls (two or more
// identifier arguments matching parameter names of a callee of this module).
func swappedArgsLint(p *core.Program, r *core.Report, rule string, relPkgs []string) {
	in := map[string]bool{}
	for _, k := range relPkgs {
		in[k] = true
	}
	for _, fi := range p.Funcs {
		if !in[core.RelPkg(fi.Pkg.PkgPath)] || fi.Decl.Body == nil {
			continue
		}
		info := fi.Pkg.TypesInfo
		n := 0
		var probs []string
		ast.Inspect(fi.Decl.Body, func(m ast.Node) bool {
			call, ok := m.(*ast.CallExpr)
			if !ok || len(call.Args) < 2 {
				return true
			}
			fn := calleeFunc(info, call)
			if fn == nil {
				return true
			}
			cfi := p.FuncOf(fn)
			if cfi == nil || cfi.Decl.Type.Params == nil {
				return true
			}
			var pnames []string
			var ptypes []types.Type
			for _, f := range cfi.Decl.Type.Params.List {
				for _, nm := range f.Names {
					pnames = append(pnames, nm.Name)
					ptypes = append(ptypes, cfi.Pkg.TypesInfo.TypeOf(f.Type))
				}
			}
			if len(pnames) != len(call.Args) {
				return true
			}
			argName := func(e ast.Expr) string {
				e = stripConvs(info, e)
				switch v := ast.Unparen(e).(type) {
				case *ast.Ident:
					return v.Name
				case *ast.SelectorExpr:
					return v.Sel.Name
				}
				return ""
			}
			matched := 0
			for i, a := range call.Args {
				if an := argName(a); an != "" && an == pnames[i] {
					matched++
				}
			}
			for i := range call.Args {
				for j := i + 1; j < len(call.Args); j++ {
					ai, aj := argName(call.Args[i]), argName(call.Args[j])
					if ai == "" || aj == "" || ai == aj || pnames[i] == pnames[j] {
						continue
					}
					oneSided := (ai == pnames[j] && aj != pnames[j] && ai != pnames[i]) || (aj == pnames[i] && ai != pnames[i] && aj != pnames[j])
					if (ai == pnames[j] && aj == pnames[i] || oneSided) && types.Identical(ptypes[i], ptypes[j]) {
						probs = append(probs, fmt.Sprintf("%s: %s is called with `%s` for parameter %s and `%s` for parameter %s: the two arguments are in each other's place", p.Pos(call.Pos()), fn.Name(), types.ExprString(call.Args[i]), pnames[i], types.ExprString(call.Args[j]), pnames[j]))
					}
				}
			}
			if matched >= 2 {
				n++
			}
			return true
		})
		if n > 0 || len(probs) > 0 {
			fileProbs(r, rule, core.FuncName(fi.Obj), p.Pos(fi.Decl.Pos()), uniq(probs), fmt.Sprintf("%d call(s) pass same-named variables in parameter order", n))
		}
	}
}

// gzipClosedBeforeRead: a gzip/zlib/flate writer emits its last block and trailer in Close(). The
// bytes of the underlying buffer are complete only after a Close() that has already RUN: on every
// path that reads the buffer (Bytes()/String()) a non-deferred Close() of the compressor precedes
// the read. One obligation per function of the given packages that creates a compressing writer.
func gzipClosedBeforeRead(p *core.Program, r *core.Report, rule string, relPkgs []string) {
	in := map[string]bool{}
	for _, k := range relPkgs {
		in[k] = true
	}
	for _, fi := range p.Funcs {
		if !in[core.RelPkg(fi.Pkg.PkgPath)] || fi.Decl.Body == nil {
			continue
		}
		info := fi.Pkg.TypesInfo
		// the compressor local(s) and the buffer(s) they write into
		comp := map[types.Object]types.Object{}
		ast.Inspect(fi.Decl.Body, func(n ast.Node) bool {
			as, ok := n.(*ast.AssignStmt)
			if !ok || len(as.Rhs) != 1 || len(as.Lhs) < 1 {
				return true
			}
			call, ok := ast.Unparen(as.Rhs[0]).(*ast.CallExpr)
			if !ok || len(call.Args) < 1 {
				return true
			}
			fn := calleeFunc(info, call)
			if fn == nil || fn.Pkg() == nil || !strings.HasPrefix(fn.Pkg().Path(), "compress/") || !strings.HasPrefix(fn.Name(), "NewWriter") {
				return true
			}
			lid, ok := as.Lhs[0].(*ast.Ident)
			a0 := ast.Unparen(call.Args[0])
			if u, isU := a0.(*ast.UnaryExpr); isU && u.Op == token.AND {
				a0 = ast.Unparen(u.X)
			}
			bid, ok2 := a0.(*ast.Ident)
			if ok && ok2 {
				comp[info.ObjectOf(lid)] = info.ObjectOf(bid)
			}
			return true
		})
		if len(comp) == 0 {
			continue
		}
		bufs := map[types.Object]bool{}
		for _, b := range comp {
			bufs[b] = true
		}
		ps, over := paths.Enumerate(fi.Decl.Body, paths.Config{Info: info,
			Classify: func(n ast.Node) []paths.Event {
				var out []paths.Event
				if _, isDefer := n.(*ast.DeferStmt); isDefer {
					return nil
				}
				ast.Inspect(n, func(m ast.Node) bool {
					call, ok := m.(*ast.CallExpr)
					if !ok {
						return true
					}
					sel, ok := call.Fun.(*ast.SelectorExpr)
					if !ok {
						return true
					}
					id, ok := ast.Unparen(sel.X).(*ast.Ident)
					if !ok {
						return true
					}
					o := info.ObjectOf(id)
					if _, isComp := comp[o]; isComp && sel.Sel.Name == "Close" {
						out = append(out, paths.Event{Kind: "ZCLOSE", Pos: call.Pos()})
					}
					if bufs[o] && (sel.Sel.Name == "Bytes" || sel.Sel.Name == "String") {
						out = append(out, paths.Event{Kind: "ZREAD", Pos: call.Pos()})
					}
					return true
				})
				return out
			}})
		c := core.FuncName(fi.Obj)
		pos := p.Pos(fi.Decl.Pos())
		if over {
			r.Undec(rule, c, pos, "too many paths")
			continue
		}
		bad := ""
		reads := 0
		for _, pa := range ps {
			ri := pa.Index("ZREAD")
			if ri < 0 {
				continue
			}
			reads++
			ci := pa.Index("ZCLOSE")
			if ci < 0 || ci > ri {
				bad = p.Pos(pa[ri].Pos)
			}
		}
		if reads == 0 {
			continue
		}
		r.Check(bad == "", rule, c, pos, "the compressor is closed before its buffer is read", "the compressed bytes are read at "+bad+" before the compressor's Close() has run (a deferred Close runs after the read): the stream lacks its final block and trailer and cannot be decompressed")
	}
}
