package props

import (
	"os"
	"fmt"
	"go/ast"
	"go/token"
	"go/types"
	"regexp"
	"strings"

	"golibcheck/internal/core"
	"golibcheck/internal/paths"
	"golang.org/x/tools/go/packages"
)

// C16 — log-sink zip batching emits every record exactly once, in order, decodably.
func init() { register(&Checker{ID: "C16", Canaries: c16Canaries, Run: runC16}) }

func c16Canaries() []core.Canary {
	return []core.Canary{{RelDir: "logsink/zip", Name: "c16", Src: `package zip

import (
	"bytes"

	"github.com/whatap/golib/lang/pack"
)

type zzCanarySender struct {
	ZipSendProxyThread
	buf bytes.Buffer
	n   int
}

// hands the reusable buffer to the client and resets it; counts twice
func (this *zzCanarySender) sendAndClear() {
	if this.buf.Len() == 0 {
		return
	}
	p := pack.NewZipPack()
	p.RecordCount = this.n
	p.Records = this.buf.Bytes()
	this.client.SendFlush(p, true)
	this.buf.Reset()
	this.n = 0
}
`, Expect: []core.CanaryExpect{{Rule: "C16.alias", Sub: "zzCanarySender).sendAndClear"}}}}
}

func zipMethod(p *core.Program, name string) *core.FuncInfo {
	return p.Method("logsink/zip", "ZipSendProxyThread", name)
}

type zipCtx struct {
	p     *core.Program
	fi    *core.FuncInfo
	recv  string
	roles [][2]string // field path inside a nested batch record -> the name the rules use
}

var zipSimpleParen = regexp.MustCompile(`(^|[^\w.)\]])\(([A-Za-z_][\w.]*(\(\))?)\)`)

var zipLenOfBuf = regexp.MustCompile(`len\(((?:\w+\.)*(?:buffer|buf))\)`)

func (z *zipCtx) norm(e ast.Expr) string {
	s := strings.ReplaceAll(stripSpaces(types.ExprString(e)), z.recv+".", "")
	// a batch buffer kept as a plain byte slice: len(buffer) is its length
	s = zipLenOfBuf.ReplaceAllString(s, "$1.Len()")
	if len(z.roles) > 0 {
		for _, ro := range z.roles {
			s = replaceWord(s, ro[0], ro[1])
		}
		// (batch.size()) after inlining an accessor: the parentheses carry nothing
		s = zipSimpleParen.ReplaceAllString(s, "$1$2")
	}
	return s
}

// replaceWord replaces from by to where from is not preceded by an identifier character or a dot.
func replaceWord(s, from, to string) string {
	var b strings.Builder
	for i := 0; i < len(s); {
		if strings.HasPrefix(s[i:], from) && (i == 0 || !(isIdentByte(s[i-1]) || s[i-1] == '.')) {
			j := i + len(from)
			if j == len(s) || !isIdentByte(s[j]) {
				b.WriteString(to)
				i = j
				continue
			}
		}
		b.WriteByte(s[i])
		i++
	}
	return b.String()
}

func isIdentByte(c byte) bool {
	return c == '_' || (c >= '0' && c <= '9') || (c >= 'a' && c <= 'z') || (c >= 'A' && c <= 'Z')
}

// zipRoles: when the sender keeps its batch in a nested record (this.batch.buffer, this.batch.count)
// the rules still speak of "buffer" and "packCount". The buffer is the one bytes.Buffer reachable
// through a struct-typed field of the sender; the counter is the one nested integer field that is
// both incremented by one and set to zero somewhere in the package.
func zipRoles(p *core.Program, pk *packages.Package, named *types.Named) [][2]string {
	st, ok := named.Underlying().(*types.Struct)
	if !ok {
		return nil
	}
	direct := map[string]bool{}
	for i := 0; i < st.NumFields(); i++ {
		direct[st.Field(i).Name()] = true
	}
	type leaf struct {
		path string
		v    *types.Var
	}
	var bufs, ints []leaf
	for i := 0; i < st.NumFields(); i++ {
		f := st.Field(i)
		t := f.Type()
		if pt, ok := t.(*types.Pointer); ok {
			t = pt.Elem()
		}
		nt, ok := t.(*types.Named)
		if !ok || nt.Obj().Pkg() != named.Obj().Pkg() {
			continue
		}
		ist, ok := nt.Underlying().(*types.Struct)
		if !ok {
			continue
		}
		for j := 0; j < ist.NumFields(); j++ {
			g := ist.Field(j)
			gt := g.Type()
			if pt, ok := gt.(*types.Pointer); ok {
				gt = pt.Elem()
			}
			if gn, ok := gt.(*types.Named); ok && gn.Obj().Pkg() != nil && gn.Obj().Pkg().Path() == "bytes" && gn.Obj().Name() == "Buffer" {
				bufs = append(bufs, leaf{f.Name() + "." + g.Name(), g})
			}
			if b, ok := gt.Underlying().(*types.Basic); ok && b.Info()&types.IsInteger != 0 {
				ints = append(ints, leaf{f.Name() + "." + g.Name(), g})
			}
		}
	}
	var out [][2]string
	if !direct["buffer"] && !direct["buf"] && len(bufs) == 1 {
		out = append(out, [2]string{bufs[0].path, "buffer"})
	}
	if !direct["packCount"] && !direct["n"] {
		var cands []leaf
		for _, c := range ints {
			inc, zero := false, false
			for _, f := range pk.Syntax {
				ast.Inspect(f, func(n ast.Node) bool {
					fieldIs := func(e ast.Expr) bool {
						sel, ok := ast.Unparen(e).(*ast.SelectorExpr)
						return ok && pk.TypesInfo.ObjectOf(sel.Sel) == types.Object(c.v)
					}
					switch v := n.(type) {
					case *ast.IncDecStmt:
						if v.Tok == token.INC && fieldIs(v.X) {
							inc = true
						}
					case *ast.AssignStmt:
						if len(v.Lhs) == 1 && len(v.Rhs) == 1 && fieldIs(v.Lhs[0]) {
							rs := stripSpaces(types.ExprString(v.Rhs[0]))
							if v.Tok == token.ADD_ASSIGN && rs == "1" {
								inc = true
							}
							if v.Tok == token.ASSIGN && rs == "0" {
								zero = true
							}
						}
					}
					return true
				})
			}
			if inc && zero {
				cands = append(cands, c)
			}
		}
		if len(cands) == 1 {
			out = append(out, [2]string{cands[0].path, "packCount"})
		}
	}
	return out
}

// config: events of the sender's methods. Same-receiver helper calls (doZip) are inlined.
func (z *zipCtx) config(inline bool) paths.Config {
	info := z.fi.Pkg.TypesInfo
	in := newInliner(z.p, z.fi, func(fn *types.Func) bool { return fn.Name() == "sendAndClear" || (!inline && fn.Name() == "doZip") })
	cfg := paths.Config{
		Info:   info,
		Expand: in.Expand,
		Cond: func(c ast.Expr, v bool) *paths.Event {
			return &paths.Event{Kind: "COND", Arg: condKey(info, z.norm, c, v), Pos: c.Pos()}
		},
		Classify: func(n ast.Node) []paths.Event {
			var out []paths.Event
			switch v := n.(type) {
			case *ast.AssignStmt:
				for i, l := range v.Lhs {
					ls := z.norm(l)
					rs := ""
					var rhs ast.Expr
					if i < len(v.Rhs) {
						rhs = v.Rhs[i]
						rs = z.norm(rhs)
					} else if len(v.Rhs) == 1 {
						rhs = v.Rhs[0]
						rs = z.norm(rhs)
					}
					// a batch buffer kept as a plain byte slice: append is the write, re-slicing to nothing
					// (or nil) the reset
					if (ls == "buffer" || ls == "buf") && rhs != nil && isByteSlice(info.TypeOf(l)) {
						switch rv := ast.Unparen(rhs).(type) {
						case *ast.CallExpr:
							if id, ok := rv.Fun.(*ast.Ident); ok && id.Name == "append" && len(rv.Args) >= 2 && z.norm(rv.Args[0]) == ls {
								out = append(out, paths.Event{Kind: "WRITE", Pos: v.Pos()})
							}
						case *ast.SliceExpr:
							if z.norm(rv.X) == ls && rv.High != nil {
								if k, ok := constIntOf(info, rv.High); ok && k == 0 {
									out = append(out, paths.Event{Kind: "RESET", Arg: ls, Pos: v.Pos()})
								}
							}
						case *ast.Ident:
							if rv.Name == "nil" {
								out = append(out, paths.Event{Kind: "RESET", Arg: ls, Pos: v.Pos()})
							}
						}
					}
					switch {
					case strings.HasSuffix(ls, ".Records"):
						kind := "RECORDS"
						arg := "other"
						switch {
						case strings.HasSuffix(rs, ".Bytes()"):
							arg = "alias:" + strings.TrimSuffix(rs, ".Bytes()")
						case strings.HasPrefix(rs, "append([]byte(nil),") || strings.HasPrefix(rs, "bytes.Clone(") || strings.HasPrefix(rs, "append([]byte{},"):
							arg = "copy"
						case strings.Contains(rs, "DoZip("):
							arg = "fresh"
						case rs == "nil":
							arg = "nil"
						default:
							// storage owned by the sender (a field, or an append onto a field's backing array)
							// is rewritten by the next flush just like the buffer itself
							base := ast.Unparen(rhs)
							if call, ok := base.(*ast.CallExpr); ok && len(call.Args) >= 1 {
								if id, ok := call.Fun.(*ast.Ident); ok && id.Name == "append" {
									base = ast.Unparen(call.Args[0])
								}
							}
							for {
								if se, ok := base.(*ast.SliceExpr); ok {
									base = ast.Unparen(se.X)
									continue
								}
								break
							}
							if sel, ok := base.(*ast.SelectorExpr); ok {
								if id, ok := ast.Unparen(sel.X).(*ast.Ident); ok && id.Name == z.recv {
									arg = "alias:" + sel.Sel.Name
								}
							}
						}
						out = append(out, paths.Event{Kind: kind, Arg: arg, Pos: v.Pos()})
					case strings.HasSuffix(ls, ".RecordCount"):
						out = append(out, paths.Event{Kind: "SETCOUNT", Arg: v.Tok.String() + rs, Pos: v.Pos()})
					case strings.HasSuffix(ls, ".Status"):
						out = append(out, paths.Event{Kind: "SETSTATUS", Arg: rs, Pos: v.Pos()})
					case ls == "packCount":
						out = append(out, paths.Event{Kind: "PACKCOUNT", Arg: v.Tok.String() + rs, Pos: v.Pos()})
					case ls == "firstTime":
						out = append(out, paths.Event{Kind: "FIRSTTIME", Arg: rs, Pos: v.Pos()})
					case ls == "p" && strings.Contains(rs, "NewZipPack()"):
						out = append(out, paths.Event{Kind: "NEWPACK", Pos: v.Pos()})
					default:
						// a local used as the batch's record counter
						if id, ok := ast.Unparen(l).(*ast.Ident); ok && isIntLocal(info, id) {
							switch {
							case (v.Tok == token.ASSIGN || v.Tok == token.DEFINE) && rs == "0":
								out = append(out, paths.Event{Kind: "LZERO", Arg: id.Name, Pos: v.Pos()})
							case v.Tok == token.ADD_ASSIGN && rs == "1", (v.Tok == token.ASSIGN) && (rs == id.Name+"+1" || rs == "1+"+id.Name):
								out = append(out, paths.Event{Kind: "LINC", Arg: id.Name, Pos: v.Pos()})
							default:
								out = append(out, paths.Event{Kind: "LSET", Arg: id.Name, Pos: v.Pos()})
							}
						}
					}
				}
			case *ast.IncDecStmt:
				ls := z.norm(v.X)
				if strings.HasSuffix(ls, ".RecordCount") {
					out = append(out, paths.Event{Kind: "SETCOUNT", Arg: v.Tok.String(), Pos: v.Pos()})
				}
				if ls == "packCount" {
					out = append(out, paths.Event{Kind: "PACKCOUNT", Arg: v.Tok.String(), Pos: v.Pos()})
				}
				if id, ok := ast.Unparen(v.X).(*ast.Ident); ok && isIntLocal(info, id) {
					if v.Tok == token.INC {
						out = append(out, paths.Event{Kind: "LINC", Arg: id.Name, Pos: v.Pos()})
					} else {
						out = append(out, paths.Event{Kind: "LSET", Arg: id.Name, Pos: v.Pos()})
					}
				}
			}
			ast.Inspect(n, func(m ast.Node) bool {
				call, ok := m.(*ast.CallExpr)
				if !ok {
					return true
				}
				s := z.norm(call.Fun)
				switch {
				case strings.HasSuffix(s, "buffer.Write") || strings.HasSuffix(s, "buf.Write"):
					out = append(out, paths.Event{Kind: "WRITE", Pos: call.Pos()})
				case strings.HasSuffix(s, "buffer.Reset") || strings.HasSuffix(s, "buf.Reset"):
					out = append(out, paths.Event{Kind: "RESET", Arg: strings.TrimSuffix(s, ".Reset"), Pos: call.Pos()})
				case strings.HasSuffix(s, ".SendFlush") || strings.HasSuffix(s, ".Send"):
					out = append(out, paths.Event{Kind: "SEND", Pos: call.Pos()})
				case s == "sendAndClear":
					out = append(out, paths.Event{Kind: "FLUSH", Pos: call.Pos()})
				case s == "Append":
					out = append(out, paths.Event{Kind: "APPENDREC", Pos: call.Pos()})
				case strings.Contains(s, "Queue.Get"):
					out = append(out, paths.Event{Kind: "GETQ", Pos: call.Pos()})
				case strings.HasSuffix(s, "compressutil.DoZip"):
					out = append(out, paths.Event{Kind: "COMPRESS", Pos: call.Pos()})
				case s == "pack.WritePack":
					out = append(out, paths.Event{Kind: "ENCODE", Pos: call.Pos()})
				}
				return true
			})
			return out
		},
	}
	// unexported helpers of the sender (doZip, extracted batch helpers) are followed, parameters
	// replaced by the arguments; sendAndClear is the FLUSH event itself
	cfg.Inline = in.Body
	return cfg
}

func runC16(p *core.Program, r *core.Report) {
	r.Explanation = "Structural rules for the log-sink zip sender (logsink/zip). Defaults: GetInstance is interpreted on the no-options path (option struct all zero): the four limits in force at return must be the built-in 64 KiB / 5000 ms / 100 bytes / 1000. Counting: every record written into the batch buffer is followed by exactly one count increment; the pack's RecordCount is the counter; buffer reset, counter reset and first-time reset happen together and only after the send; nothing is sent for an empty buffer. Aliasing: on no path does a pack whose Records still alias a reusable buffer (Bytes() of a buffer that is Reset or belongs to the sender) reach the client. Compression: compress iff Status==0 and len(Records) >= min, Status=ZIPPED exactly on the compressing path; after a send inside SendDirect's loop the next batch starts from a fresh pack. Triggers: after each append the size limit is tested, and the wait limit once a batch is open; the background loop flushes on stop and on idle. Decodability: the batch is the concatenation of WritePack outputs (reader side: C03 ZipPack.GetRecords)."
	r.NotDecided = []string{"exactly-once over histories with a concurrent producer", "timing of the background goroutine"}
	r.Rule("C16.defaults", "with no size/time options the built-in defaults (65536, 5000, 100, 1000) are in force after GetInstance", 4)
	r.Rule("C16.count", "one count per record written; RecordCount from the counter; resets together after the send; empty buffer sends nothing", 3)
	r.Rule("C16.alias", "no pack aliasing a reusable buffer reaches the client", 2)
	r.Rule("C16.zip", "compress iff Status==0 && len >= min; ZIPPED exactly when compressed; fresh pack per batch", 2)
	r.Rule("C16.triggers", "size limit tested after every append; wait limit once a batch is open; run() flushes on stop and on idle", 2)
	r.Rule("C16.decodable", "batch body is the concatenation of WritePack encodings of the records", 2)
	r.Rule("C16.queue", "the queue the sender drains keeps its contract (C11's put/get/timeout/wake-up/FIFO rules on util/queue.RequestQueue): the timed get gives up when its time is over, so a partial batch is flushed by the wait limit", 8)
	importQueueRules(p, r, "C16.queue")
	r.Rule("C16.zip-complete", "the gzip stream handed back by DoZip is complete: the compressor's Close() has run before its buffer is read", 1)
	gzipClosedBeforeRead(p, r, "C16.zip-complete", []string{"util/compressutil"})
	noSilentTruncation(p, r, "C16.zip-complete", []string{"util/compressutil"})
	r.Rule("C16.stateless", "what a record or a batch encodes to depends on that record or batch only: no function of lang/pack writes package-level state (a cache of encoded pieces filled while writing makes a later payload carry an earlier record's bytes)", 1)
	statelessRule(p, r, "C16.stateless", []string{"lang/pack"})
	r.Rule("C16.handed-over", "a pack already handed to the client is never altered: behind Send/SendFlush the sender neither passes the pack on (recycling, reset) nor assigns through it", 1)
	c16HandedOver(p, r, "C16.handed-over")
	r.Rule("C16.zip-fresh", "the compressed bytes DoZip hands back are the caller's own: they are not the backing array of a buffer that is reused by the next compression (pooled, package-level), so a pack already handed to the client is not rewritten", 1)
	freshBytesResult(p, r, "C16.zip-fresh", []string{"util/compressutil"})
	c16Defaults(p, r)
	for _, name := range []string{"Append", "sendAndClear", "SendDirect", "run"} {
		if zipMethod(p, name) == nil {
			r.Undec("C16.count", "logsink/zip.(*ZipSendProxyThread)."+name, "-", "method not found")
		}
	}
	c16Paths(p, r)
	c16LiveLimits(p, r)
}

// c16LiveLimits: the limits ApplyConfig may change while the sender runs are read where they are
// used. No method copies such a field into a local before a loop and then uses the copy inside the
// loop: the background loop would go on with the value from before the configuration change.
func c16LiveLimits(p *core.Program, r *core.Report) {
	ac := zipMethod(p, "ApplyConfig")
	if ac == nil || ac.Decl.Body == nil {
		return
	}
	live := map[types.Object]bool{}
	ainfo := ac.Pkg.TypesInfo
	arn := recvName(ac)
	ast.Inspect(ac.Decl.Body, func(n ast.Node) bool {
		if as, ok := n.(*ast.AssignStmt); ok {
			for _, l := range as.Lhs {
				if sel, ok := ast.Unparen(l).(*ast.SelectorExpr); ok {
					if id, ok := ast.Unparen(sel.X).(*ast.Ident); ok && id.Name == arn {
						if f, ok := ainfo.ObjectOf(sel.Sel).(*types.Var); ok && f.IsField() {
							live[f] = true
						}
					}
				}
			}
		}
		return true
	})
	if len(live) == 0 {
		return
	}
	t := core.RecvNamed(ac.Obj)
	for _, fi := range p.MethodsOf(t) {
		if fi.Decl.Body == nil || fi == ac {
			continue
		}
		info := fi.Pkg.TypesInfo
		loops := 0
		var probs []string
		ast.Inspect(fi.Decl.Body, func(n ast.Node) bool {
			loop, ok := n.(*ast.ForStmt)
			if !ok {
				return true
			}
			// the background loops only (for {} / for true {}): a bounded loop over one call's
			// records may well work with the limit it started with
			if loop.Cond != nil {
				if tv, ok := info.Types[loop.Cond]; !ok || tv.Value == nil {
					return true
				}
			}
			loops++
			// locals used in the loop that were defined before it from a live limit
			ast.Inspect(loop.Body, func(m ast.Node) bool {
				id, ok := m.(*ast.Ident)
				if !ok {
					return true
				}
				v, ok := info.Uses[id].(*types.Var)
				if !ok || v.IsField() || v.Pos() >= loop.Pos() || v.Pos() < fi.Decl.Body.Pos() {
					return true
				}
				d := localDefIn(info, fi.Decl.Body, id)
				if d == nil || d.Pos() >= loop.Pos() {
					return true
				}
				ast.Inspect(d, func(k ast.Node) bool {
					if sel, ok := k.(*ast.SelectorExpr); ok {
						if f, ok := info.ObjectOf(sel.Sel).(*types.Var); ok && live[f] {
							probs = append(probs, fmt.Sprintf("%s is copied from %s before the loop at %s and used inside it: a later ApplyConfig does not reach the loop", id.Name, f.Name(), p.Pos(loop.Pos())))
						}
					}
					return true
				})
				return true
			})
			return true
		})
		if loops > 0 {
			fileProbs(r, "C16.triggers", core.FuncName(fi.Obj)+" live limits", p.Pos(fi.Decl.Pos()), uniq(probs), "limits are read inside the loop that uses them")
		}
	}
}

func c16Defaults(p *core.Program, r *core.Report) {
	fi := p.Func("logsink/zip", "GetInstance")
	if fi == nil || fi.Decl.Body == nil {
		r.Undec("C16.defaults", "logsink/zip.GetInstance", "-", "not found")
		return
	}
	info := fi.Pkg.TypesInfo
	want := map[string]int64{"logsinkMaxBufferSize": 64 * 1024, "logsinkMaxWaitTime": 5000, "logsinkZipMinSize": 100, "logsinkQueueSize": 1000}
	val := map[string]string{} // field -> value text ("const:n", "zero", "?")
	// the option struct: the local handed to the option functions inside the loop over the variadic
	// options (whatever it is called); on the no-options path all of its fields are zero
	var optObj types.Object
	ast.Inspect(fi.Decl.Body, func(n ast.Node) bool {
		rs, ok := n.(*ast.RangeStmt)
		if !ok {
			return true
		}
		ast.Inspect(rs.Body, func(m ast.Node) bool {
			if call, ok := m.(*ast.CallExpr); ok {
				for _, a := range call.Args {
					if u, isU := ast.Unparen(a).(*ast.UnaryExpr); isU && u.Op == token.AND {
						a = u.X
					}
					if id, ok := ast.Unparen(a).(*ast.Ident); ok && optObj == nil {
						if _, isVar := info.ObjectOf(id).(*types.Var); isVar {
							optObj = info.ObjectOf(id)
						}
					}
				}
			}
			return true
		})
		return true
	})
	// the option record's type: what the variadic option functions take (func(*T)); a fresh T made
	// anywhere on the no-options path has all fields zero, whichever helper makes it
	var optType *types.Named
	if sig, ok := fi.Obj.Type().(*types.Signature); ok && sig.Variadic() && sig.Params().Len() > 0 {
		if sl, ok := sig.Params().At(sig.Params().Len() - 1).Type().(*types.Slice); ok {
			if fs, ok := sl.Elem().Underlying().(*types.Signature); ok && fs.Params().Len() == 1 {
				optType = namedOf(fs.Params().At(0).Type())
			}
			// or an interface with one method taking the record (opt.apply(o))
			if it, ok := sl.Elem().Underlying().(*types.Interface); ok && it.NumMethods() == 1 {
				if ms, ok := it.Method(0).Type().(*types.Signature); ok && ms.Params().Len() == 1 {
					optType = namedOf(ms.Params().At(0).Type())
				}
			}
		}
	}
	if optType == nil && optObj != nil {
		optType = namedOf(optObj.Type())
	}
	freshOpt := func(info *types.Info, e ast.Expr) bool {
		if optType == nil {
			return false
		}
		e = ast.Unparen(e)
		if u, ok := e.(*ast.UnaryExpr); ok && u.Op == token.AND {
			e = ast.Unparen(u.X)
		}
		switch v := e.(type) {
		case *ast.CompositeLit:
			nt := namedOf(info.TypeOf(v))
			return nt != nil && nt.Obj() == optType.Obj() && len(v.Elts) == 0
		case *ast.CallExpr:
			if id, ok := v.Fun.(*ast.Ident); ok && id.Name == "new" && len(v.Args) == 1 {
				nt := namedOf(info.TypeOf(v.Args[0]))
				return nt != nil && nt.Obj() == optType.Obj()
			}
		}
		return false
	}
	// a small interpreter of the no-options path: option-struct objects whose fields are all zero
	// (the fresh struct, and a helper's receiver/parameter bound to it), locals with known values,
	// helpers (one or several results, named or not) run on their own environment
	type dflEnv struct {
		info     *types.Info
		zero     map[types.Object]bool
		loc      map[types.Object]string
		maybeRet bool
	}
	var queueCap []string
	var queuePos token.Pos
	// record values (a struct of limits handled as one value): "rec:<n>" names an entry of recs
	recs := map[string]map[string]string{}
	newRec := func(m map[string]string) string {
		id := fmt.Sprintf("rec:%d", len(recs))
		recs[id] = m
		return id
	}
	copyRec := func(id string) string {
		m := map[string]string{}
		for k, v := range recs[id] {
			m[k] = v
		}
		return newRec(m)
	}
	var eval func(env *dflEnv, e ast.Expr) string
	var callHelper func(env *dflEnv, call *ast.CallExpr, depth int) []string
	isZeroStruct := func(env *dflEnv, e ast.Expr) bool {
		e = ast.Unparen(e)
		if u, ok := e.(*ast.UnaryExpr); ok && u.Op == token.AND {
			e = ast.Unparen(u.X)
		}
		if st, ok := e.(*ast.StarExpr); ok {
			e = ast.Unparen(st.X)
		}
		id, ok := e.(*ast.Ident)
		return ok && env.zero[env.info.ObjectOf(id)]
	}
	depthOf := 0
	eval = func(env *dflEnv, e ast.Expr) string {
		e = ast.Unparen(e)
		if n, ok := constIntOf(env.info, e); ok {
			return fmt.Sprintf("const:%d", n)
		}
		switch v := e.(type) {
		case *ast.SelectorExpr:
			if isZeroStruct(env, v.X) {
				if t := env.info.TypeOf(v); t != nil {
					if _, isStruct := t.Underlying().(*types.Struct); isStruct {
						return "zs" // a record field of the all-zero option record is an all-zero record
					}
				}
				return "const:0"
			}
			// a field of a record value held in a local (s.logsinkMaxWaitTime)
			if id, ok := ast.Unparen(v.X).(*ast.Ident); ok {
				if rv, ok := env.loc[env.info.ObjectOf(id)]; ok && strings.HasPrefix(rv, "rec:") {
					if fv, ok := recs[rv][v.Sel.Name]; ok {
						return fv
					}
				}
			}
			// a limit of the sender read back after it was set
			if _, tracked := want[v.Sel.Name]; tracked {
				if cur, ok := val[v.Sel.Name]; ok {
					return cur
				}
			}
		case *ast.Ident:
			if env.zero[env.info.ObjectOf(v)] {
				return "zs"
			}
			if s, ok := env.loc[env.info.ObjectOf(v)]; ok {
				return s
			}
			// a package-level record of built-in values (var defaults = settings{a: A, b: B})
			if pv, ok := env.info.ObjectOf(v).(*types.Var); ok && pv.Pkg() != nil && pv.Parent() == pv.Pkg().Scope() {
				if _, isStruct := pv.Type().Underlying().(*types.Struct); isStruct {
					se := &strEval{p: p, info: env.info}
					if lit, linfo := se.pkgVarInit(pv); lit != nil {
						m := map[string]string{}
						okLit := true
						for _, el := range lit.Elts {
							kv, isKV := el.(*ast.KeyValueExpr)
							if !isKV {
								okLit = false
								break
							}
							kid, isId := kv.Key.(*ast.Ident)
							n, isC := constIntOf(linfo, kv.Value)
							if !isId || !isC {
								okLit = false
								break
							}
							m[kid.Name] = fmt.Sprintf("const:%d", n)
						}
						if okLit {
							return newRec(m)
						}
					}
				}
			}
		case *ast.CallExpr:
			if freshOpt(env.info, v) {
				return "zs"
			}
			// the queue the sender drains is made with the limit in force
			if fn := calleeFunc(env.info, v); fn != nil && fn.Pkg() != nil && strings.HasSuffix(fn.Pkg().Path(), "util/queue") && strings.HasPrefix(fn.Name(), "NewRequest") && len(v.Args) >= 1 {
				queueCap = append(queueCap, eval(env, v.Args[0]))
				queuePos = v.Pos()
				return "?queue"
			}
			if tv, ok := env.info.Types[v.Fun]; ok && tv.IsType() && len(v.Args) == 1 {
				return eval(env, v.Args[0])
			}
			if rs := callHelper(env, v, depthOf+1); len(rs) == 1 {
				return rs[0]
			}
		case *ast.UnaryExpr, *ast.CompositeLit:
			if freshOpt(env.info, e) {
				return "zs"
			}
			if u, ok := e.(*ast.UnaryExpr); ok && u.Op == token.AND {
				if id, ok := ast.Unparen(u.X).(*ast.Ident); ok && env.zero[env.info.ObjectOf(id)] {
					return "zs"
				}
			}
		}
		return "?" + types.ExprString(e)
	}
	// truth of a condition when every option field is zero: (value, known)
	var zeroCond func(env *dflEnv, e ast.Expr) (bool, bool)
	zeroCond = func(env *dflEnv, e ast.Expr) (bool, bool) {
		e = ast.Unparen(e)
		switch v := e.(type) {
		case *ast.UnaryExpr:
			if v.Op == token.NOT {
				b, ok := zeroCond(env, v.X)
				return !b, ok
			}
		case *ast.BinaryExpr:
			switch v.Op {
			case token.LAND, token.LOR:
				a, ok1 := zeroCond(env, v.X)
				b, ok2 := zeroCond(env, v.Y)
				if v.Op == token.LAND {
					if (ok1 && !a) || (ok2 && !b) {
						return false, true
					}
					return a && b, ok1 && ok2
				}
				if (ok1 && a) || (ok2 && b) {
					return true, true
				}
				return a || b, ok1 && ok2
			case token.EQL, token.NEQ, token.LSS, token.LEQ, token.GTR, token.GEQ:
				xs, ys := eval(env, v.X), eval(env, v.Y)
				var x, y int64
				if _, err := fmt.Sscanf(xs, "const:%d", &x); err != nil {
					return false, false
				}
				if _, err := fmt.Sscanf(ys, "const:%d", &y); err != nil {
					return false, false
				}
				switch v.Op {
				case token.EQL:
					return x == y, true
				case token.NEQ:
					return x != y, true
				case token.LSS:
					return x < y, true
				case token.LEQ:
					return x <= y, true
				case token.GTR:
					return x > y, true
				case token.GEQ:
					return x >= y, true
				}
			}
		}
		return false, false
	}
	// run: executes a statement list; a return statement's values come back as (values, true)
	var run func(env *dflEnv, list []ast.Stmt, results []types.Object, sure bool) ([]string, bool)
	assign := func(env *dflEnv, l ast.Expr, s string) {
		switch lv := ast.Unparen(l).(type) {
		case *ast.SelectorExpr:
			// s.f = v with s a record value held in a local
			if id, ok := ast.Unparen(lv.X).(*ast.Ident); ok {
				if rv, ok := env.loc[env.info.ObjectOf(id)]; ok && strings.HasPrefix(rv, "rec:") {
					recs[rv][lv.Sel.Name] = s
					return
				}
			}
			// p.settings = <record>: every limit the record carries is now in force
			if strings.HasPrefix(s, "rec:") && !isZeroStruct(env, lv.X) {
				for f, fv := range recs[s] {
					if _, tracked := want[f]; tracked {
						val[f] = fv
					}
				}
				return
			}
			if _, tracked := want[lv.Sel.Name]; tracked && !isZeroStruct(env, lv.X) {
				val[lv.Sel.Name] = s
			}
		case *ast.Ident:
			if o := env.info.ObjectOf(lv); o != nil {
				if s == "zs" {
					env.zero[o] = true
					delete(env.loc, o)
				} else {
					env.loc[o] = s
					delete(env.zero, o)
				}
			}
		}
	}
	run = func(env *dflEnv, list []ast.Stmt, results []types.Object, sure bool) ([]string, bool) {
		for _, s := range list {
			switch v := s.(type) {
			case *ast.AssignStmt:
				if len(v.Rhs) == 1 && len(v.Lhs) > 1 {
					var rs []string
					if call, ok := ast.Unparen(v.Rhs[0]).(*ast.CallExpr); ok {
						rs = callHelper(env, call, depthOf+1)
					}
					for i, l := range v.Lhs {
						if i < len(rs) && sure {
							assign(env, l, rs[i])
						} else {
							assign(env, l, "?"+types.ExprString(v.Rhs[0]))
						}
					}
					continue
				}
				vals := make([]string, len(v.Lhs))
				for i := range v.Lhs {
					if i < len(v.Rhs) && v.Tok != token.ADD_ASSIGN && v.Tok != token.SUB_ASSIGN {
						vals[i] = eval(env, v.Rhs[i])
					} else {
						vals[i] = "?"
					}
					if !sure {
						// an assignment under an undecided condition may or may not happen
						if lv, ok := ast.Unparen(v.Lhs[i]).(*ast.SelectorExpr); !ok || val[lv.Sel.Name] != vals[i] {
							if id, isId := ast.Unparen(v.Lhs[i]).(*ast.Ident); !isId || env.loc[env.info.ObjectOf(id)] != vals[i] {
								vals[i] = "?maybe " + strings.TrimPrefix(vals[i], "?")
							}
						}
					}
				}
				for i, l := range v.Lhs {
					assign(env, l, vals[i])
				}
			case *ast.DeclStmt:
				if gd, ok := v.Decl.(*ast.GenDecl); ok {
					for _, sp := range gd.Specs {
						if vs, ok := sp.(*ast.ValueSpec); ok {
							for i, n := range vs.Names {
								if i < len(vs.Values) {
									assign(env, n, eval(env, vs.Values[i]))
								} else if nt := namedOf(env.info.TypeOf(n)); nt != nil && optType != nil && nt.Obj() == optType.Obj() {
									assign(env, n, "zs")
								} else {
									assign(env, n, "const:0")
								}
							}
						}
					}
				}
			case *ast.IfStmt:
				if v.Init != nil {
					if rs, done := run(env, []ast.Stmt{v.Init}, results, sure); done {
						return rs, true
					}
				}
				var arms [][]ast.Stmt
				b, known := zeroCond(env, v.Cond)
				elseList := func() []ast.Stmt {
					if blk, ok := v.Else.(*ast.BlockStmt); ok {
						return blk.List
					} else if v.Else != nil {
						return []ast.Stmt{v.Else}
					}
					return nil
				}
				if known {
					if b {
						arms = [][]ast.Stmt{v.Body.List}
					} else {
						arms = [][]ast.Stmt{elseList()}
					}
					for _, a := range arms {
						if rs, done := run(env, a, results, sure); done {
							return rs, true
						}
					}
				} else {
					// unrelated condition: both arms may run
					// (an arm that returns ends its own path only; a helper that may have returned
					// early has no decided result)
					for _, a := range [][]ast.Stmt{v.Body.List, elseList()} {
						if _, done := run(env, a, results, false); done {
							env.maybeRet = true
						}
					}
				}
			case *ast.BlockStmt:
				if rs, done := run(env, v.List, results, sure); done {
					return rs, true
				}
			case *ast.ReturnStmt:
				var rs []string
				if len(v.Results) == 0 {
					for _, o := range results {
						rs = append(rs, env.loc[o])
					}
				} else if len(v.Results) == 1 && len(results) > 1 {
					if call, ok := ast.Unparen(v.Results[0]).(*ast.CallExpr); ok {
						rs = callHelper(env, call, depthOf+1)
					}
				} else {
					for _, e := range v.Results {
						rs = append(rs, eval(env, e))
					}
				}
				return rs, true
			case *ast.RangeStmt:
				// options loop: not taken on the no-options path
			case *ast.ExprStmt:
				// a helper called for what it stores (p.applySizes(o))
				if call, ok := ast.Unparen(v.X).(*ast.CallExpr); ok && sure {
					callHelper(env, call, depthOf+1)
				}
			}
		}
		return nil, false
	}
	callHelper = func(env *dflEnv, call *ast.CallExpr, depth int) []string {
		if depth > 4 {
			return nil
		}
		var fn *types.Func
		var recvExpr ast.Expr
		switch f := ast.Unparen(call.Fun).(type) {
		case *ast.Ident:
			fn, _ = env.info.Uses[f].(*types.Func)
		case *ast.SelectorExpr:
			fn, _ = env.info.Uses[f.Sel].(*types.Func)
			if _, isPkg := env.info.Uses[identOf(f.X)].(*types.PkgName); !isPkg {
				recvExpr = f.X
			}
		}
		if fn == nil {
			return nil
		}
		hf := p.FuncOf(fn)
		if hf == nil || hf.Decl.Body == nil {
			return nil
		}
		sub := &dflEnv{info: hf.Pkg.TypesInfo, zero: map[types.Object]bool{}, loc: map[types.Object]string{}}
		if recvExpr != nil && hf.Decl.Recv != nil && len(hf.Decl.Recv.List) == 1 && len(hf.Decl.Recv.List[0].Names) == 1 {
			ro := sub.info.Defs[hf.Decl.Recv.List[0].Names[0]]
			if isZeroStruct(env, recvExpr) {
				sub.zero[ro] = true
			} else if rv := eval(env, recvExpr); strings.HasPrefix(rv, "rec:") {
				if _, isPtr := ro.Type().(*types.Pointer); isPtr {
					sub.loc[ro] = rv
				} else {
					sub.loc[ro] = copyRec(rv) // a value receiver works on its own copy
				}
			}
		}
		i := 0
		for _, f := range hf.Decl.Type.Params.List {
			for _, n := range f.Names {
				if i < len(call.Args) {
					po := sub.info.Defs[n]
					if isZeroStruct(env, call.Args[i]) {
						sub.zero[po] = true
					} else if av := eval(env, call.Args[i]); av == "zs" {
						sub.zero[po] = true
					} else {
						sub.loc[po] = av
					}
				}
				i++
			}
		}
		var results []types.Object
		if hf.Decl.Type.Results != nil {
			for _, f := range hf.Decl.Type.Results.List {
				for _, n := range f.Names {
					o := sub.info.Defs[n]
					results = append(results, o)
					sub.loc[o] = "const:0"
				}
			}
		}
		old := depthOf
		depthOf = depth
		rs, _ := run(sub, hf.Decl.Body.List, results, true)
		depthOf = old
		if sub.maybeRet {
			return nil
		}
		return rs
	}
	top := &dflEnv{info: info, zero: map[types.Object]bool{}, loc: map[types.Object]string{}}
	if optObj != nil {
		top.zero[optObj] = true
	}
	run(top, fi.Decl.Body.List, nil, true)
	if len(queueCap) > 0 {
		wq := fmt.Sprintf("const:%d", want["logsinkQueueSize"])
		bad := ""
		for _, q := range queueCap {
			if q != wq {
				bad = q
			}
		}
		r.Check(bad == "", "C16.defaults", "logsink/zip.GetInstance queue capacity", p.Pos(queuePos), "the queue is made with the queue size in force",
			fmt.Sprintf("with no option supplied the queue is made with capacity %s, not the built-in %d (0 is an unbounded queue)", strings.TrimPrefix(bad, "const:"), want["logsinkQueueSize"]))
	}
	for f, w := range want {
		c := "logsink/zip.GetInstance default " + f
		got := val[f]
		r.Check(got == fmt.Sprintf("const:%d", w), "C16.defaults", c, p.Pos(fi.Decl.Pos()), fmt.Sprintf("%d in force", w),
			fmt.Sprintf("with no option supplied the value in force is %s, not the built-in %d", strings.TrimPrefix(got, "const:"), w))
	}
}

func c16Paths(p *core.Program, r *core.Report) {
	// every type in the package with a sendAndClear/Append/SendDirect/doZip method (incl. canary)
	pk := p.Pkg("logsink/zip")
	if pk == nil {
		return
	}
	for _, fi := range p.Funcs {
		if fi.Pkg != pk || fi.Decl.Body == nil || core.RecvNamed(fi.Obj) == nil {
			continue
		}
		tn := core.RecvNamed(fi.Obj).Obj().Name()
		name := "logsink/zip.(*" + tn + ")." + fi.Obj.Name()
		pos := p.Pos(fi.Decl.Pos())
		z := &zipCtx{p: p, fi: fi, recv: recvName(fi), roles: zipRoles(p, pk, core.RecvNamed(fi.Obj))}
		switch fi.Obj.Name() {
		case "sendAndClear":
			ps, _ := paths.Enumerate(fi.Decl.Body, z.config(true))
			var cnt, alias []string
			for _, pa := range ps {
				if !pa.Consistent() {
					continue
				}
				si := pa.Index("SEND")
				if si < 0 {
					if pa.Has("RESET") || pa.Has("PACKCOUNT") {
						cnt = append(cnt, "state is reset on a path that sends nothing")
					}
					continue
				}
				if !(pa.HasArg("COND", cc("buffer.Len()", "==", "0", false)) || pa.HasArg("COND", cc("buf.Len()", "==", "0", false)) || pa.HasArg("COND", cc("buffer.Len()", ">", "0", true)) || pa.HasArg("COND", cc("buf.Len()", ">", "0", true))) {
					cnt = append(cnt, "a pack is sent without testing that the buffer is non-empty")
				}
				ci := -1
				for i, e := range pa[:si] {
					if e.Kind == "SETCOUNT" && (e.Arg == "=packCount" || e.Arg == "=n") {
						ci = i
					}
				}
				if ci < 0 {
					cnt = append(cnt, "RecordCount is not taken from the record counter before the send")
				}
				after := pa[si:]
				if tn == "ZipSendProxyThread" && (!after.Has("RESET") || !after.HasArg("PACKCOUNT", "=0") || !after.HasArg("FIRSTTIME", "0")) {
					cnt = append(cnt, "buffer reset, packCount=0 and firstTime=0 do not all follow the send: "+pa.String())
				}
				for _, e := range pa[:si] {
					if e.Kind == "RESET" || (e.Kind == "PACKCOUNT" && e.Arg == "=0") {
						cnt = append(cnt, "batch state is reset before the send")
					}
				}
				// aliasing state at SEND
				state := ""
				for _, e := range pa[:si] {
					if e.Kind == "RECORDS" {
						state = e.Arg
					}
				}
				if strings.HasPrefix(state, "alias:") {
					buf := strings.TrimPrefix(state, "alias:")
					reused := true // a buffer that is a field of the sender is reused by later appends
					for _, e := range after {
						if e.Kind == "RESET" && e.Arg == buf {
							reused = true
						}
					}
					if reused {
						alias = append(alias, "on the path "+pa.String()+" the pack handed to the client still aliases `"+buf+"`, which is reset and refilled afterwards: a client that retains the pack sends bytes of later records")
					}
				}
			}
			fileProbs(r, "C16.count", name, pos, cnt, "count/reset discipline holds on every path")
			fileProbs(r, "C16.alias", name, pos, alias, "Records is a copy or freshly compressed storage on every path reaching the client")
			if tn == "ZipSendProxyThread" {
				fileProbs(r, "C16.zip", name+" compression at send", pos, zipAtSend(ps), "compressed iff Status==0 && len(Records) >= min; ZIPPED exactly then")
			}
		case "SendDirect":
			ps, over := paths.Enumerate(fi.Decl.Body, z.config(true))
			if over {
				r.Undec("C16.alias", name, pos, "too many paths")
				continue
			}
			var cnt, alias, zp []string
			localCounter := false
			incs := map[string]bool{}
			for _, pa := range ps {
				for _, e := range pa {
					if e.Kind == "LINC" {
						incs[e.Arg] = true
					}
				}
			}
			for _, pa := range ps {
				for _, e := range pa {
					if e.Kind == "SETCOUNT" && strings.HasPrefix(e.Arg, "=") && incs[strings.TrimPrefix(e.Arg, "=")] {
						localCounter = true
					}
				}
			}
			for _, pa := range ps {
				if !pa.Consistent() {
					continue
				}
				// the count may be kept in a local and stored into the pack when it is built: then the
				// rule is stated on values — at every send RecordCount equals the number of records
				// written into the buffer since it was last reset
				if os.Getenv("C16_DEBUG") != "" {
					fmt.Fprintln(os.Stderr, "C16 SendDirect path:", pa.String())
				}
				if localCounter {
					written, rc, known := 0, 0, true
					loc := map[string]int{}
					locKnown := map[string]bool{}
					for _, e := range pa {
						switch e.Kind {
						case "WRITE":
							written++
						case "RESET":
							written = 0
						case "LZERO":
							loc[e.Arg], locKnown[e.Arg] = 0, true
						case "LINC":
							loc[e.Arg]++
						case "LSET":
							locKnown[e.Arg] = false
						case "NEWPACK":
							rc, known = 0, true
						case "SETCOUNT":
							switch {
							case e.Arg == "++" || e.Arg == "+=1":
								rc++
							case e.Arg == "=0":
								rc, known = 0, true
							case strings.HasPrefix(e.Arg, "="):
								n := strings.TrimPrefix(e.Arg, "=")
								rc, known = loc[n], locKnown[n]
							default:
								known = false
							}
						case "SEND":
							if !known {
								cnt = append(cnt, "the RecordCount of a pack that is sent is not derived from the records written")
							} else if rc != written {
								cnt = append(cnt, fmt.Sprintf("a pack holding %d records is sent with RecordCount %d", written, rc))
							}
						}
					}
				}
				// each WRITE followed by exactly one RecordCount++ before the next WRITE/SEND
				for i, e := range pa {
					if e.Kind == "WRITE" && !localCounter {
						n := 0
						for j := i + 1; j < len(pa) && pa[j].Kind != "WRITE" && pa[j].Kind != "SEND"; j++ {
							if pa[j].Kind == "SETCOUNT" && (pa[j].Arg == "++" || pa[j].Arg == "+=1") {
								n++
							}
						}
						if n != 1 {
							cnt = append(cnt, fmt.Sprintf("a record written to the batch is counted %d times", n))
						}
					}
					if e.Kind == "SEND" {
						state := ""
						for _, g := range pa[:i] {
							if g.Kind == "RECORDS" {
								state = g.Arg
							}
						}
						if strings.HasPrefix(state, "alias:") {
							alias = append(alias, "a pack aliasing the local batch buffer (reset right after the send) reaches the client")
						}
						// next batch starts from a fresh pack
						for j := i + 1; j < len(pa); j++ {
							if pa[j].Kind == "NEWPACK" || (pa[j].Kind == "SETSTATUS" && (pa[j].Arg == "0" || pa[j].Arg == "pack.UN_ZIPPED")) {
								break
							}
							if pa[j].Kind == "WRITE" || pa[j].Kind == "COND" && strings.Contains(pa[j].Arg, "Status") {
								zp = append(zp, "after a batch is sent the same pack object is reused for the next batch without a fresh Status: once compressed, later batches skip compression but stay flagged compressed")
								break
							}
						}
					}
				}
			}
			fileProbs(r, "C16.count", name, pos, cnt, "one RecordCount++ per record written")
			fileProbs(r, "C16.alias", name, pos, alias, "Records is a copy or freshly compressed storage on every path reaching the client")
			fileProbs(r, "C16.zip", name+" fresh pack per batch", pos, zp, "NewZipPack() after every send")
			if tn == "ZipSendProxyThread" {
				fileProbs(r, "C16.zip", name+" compression at send", pos, zipAtSend(ps), "compressed iff Status==0 && len(Records) >= min; ZIPPED exactly then")
			}
		case "doZip":
			ps, _ := paths.Enumerate(fi.Decl.Body, z.config(false))
			var zp []string
			for _, pa := range ps {
				comp := pa.Has("COMPRESS")
				st := pa.HasArg("SETSTATUS", "pack.ZIPPED")
				g1 := pa.HasArg("COND", cc("p.Status", "==", "0", true))
				g2 := pa.HasArg("COND", cc("len(p.Records)", ">=", "logsinkZipMinSize", true))
				if comp != st {
					zp = append(zp, "Status=ZIPPED and compression do not go together on a path: "+pa.String())
				}
				if comp && !(g1 && g2) {
					zp = append(zp, "compresses without Status==0 && len(Records) >= logsinkZipMinSize")
				}
				if !comp && g1 && g2 {
					zp = append(zp, "does not compress although the payload reached the minimum size")
				}
			}
			fileProbs(r, "C16.zip", name, pos, zp, "compress iff Status==0 && len(Records) >= min; ZIPPED exactly then")
		case "Append":
			ps, _ := paths.Enumerate(fi.Decl.Body, z.config(false))
			var cnt, trg []string
			for _, pa := range ps {
				if !pa.Consistent() {
					continue
				}
				wi := pa.Index("WRITE")
				if wi < 0 {
					cnt = append(cnt, "a path does not write the record into the batch buffer")
					continue
				}
				if pa.Count("WRITE") != 1 || pa.CountArg("PACKCOUNT", "+=1")+pa.CountArg("PACKCOUNT", "++") != 1 {
					cnt = append(cnt, "the record is not counted exactly once")
				}
				if pa.Index("ENCODE") < 0 || pa.Index("ENCODE") > wi {
					cnt = append(cnt, "the bytes written are not the WritePack encoding of the record")
				}
				sizeT := pa.HasArg("COND", cc("buffer.Len()", ">=", "logsinkMaxBufferSize", true))
				sizeF := pa.HasArg("COND", cc("buffer.Len()", ">=", "logsinkMaxBufferSize", false))
				if !sizeT && !sizeF {
					trg = append(trg, "the buffer size limit is not tested after appending on the path "+pa.String())
				}
				waitT := pa.HasArg("COND", cc("p.Time-firstTime", ">=", "logsinkMaxWaitTime", true))
				if (sizeT || waitT) && !pa.Has("FLUSH") {
					trg = append(trg, "a limit is reached but the batch is not flushed")
				}
				if !sizeT && !waitT && pa.Has("FLUSH") {
					trg = append(trg, "flushes although no limit is reached")
				}
				open := pa.HasArg("COND", cc("firstTime", "==", "0", false))
				if open && !sizeT && !waitT && !pa.HasArg("COND", cc("p.Time-firstTime", ">=", "logsinkMaxWaitTime", false)) {
					trg = append(trg, "with a batch open the waiting-time limit is not tested")
				}
			}
			fileProbs(r, "C16.count", name, pos, cnt, "one WritePack encoding written, counted once")
			fileProbs(r, "C16.triggers", name, pos, trg, "size limit always tested; wait limit once a batch is open; flush iff a limit is reached")
			r.OK("C16.decodable", name, pos, "buffer receives dout bytes of pack.WritePack")
		case "ApplyConfig":
			// the pending batch is the sender's until it is sent: re-configuring does not touch it. No
			// statement of ApplyConfig (helpers followed) resets or replaces the batch buffer — the records
			// in it would be dropped while their count and the batch's first time stay
			{
				acIn2 := newInliner(p, fi, nil)
				drops := ""
				seenB := map[*ast.BlockStmt]bool{}
				var scan func(b *ast.BlockStmt, depth int)
				scan = func(b *ast.BlockStmt, depth int) {
					if b == nil || seenB[b] || depth > 3 {
						return
					}
					seenB[b] = true
					ast.Inspect(b, func(m ast.Node) bool {
						switch v := m.(type) {
						case *ast.AssignStmt:
							for _, l := range v.Lhs {
								if z.norm(l) == "buffer" {
									drops = "replaces the batch buffer at " + p.Pos(v.Pos())
								}
							}
						case *ast.CallExpr:
							if s := z.norm(v.Fun); s == "buffer.Reset" || s == "buffer.Truncate" {
								drops = "resets the batch buffer at " + p.Pos(v.Pos())
							}
							if hb := acIn2.Body(v); hb != nil {
								scan(hb, depth+1)
							}
						}
						return true
					})
				}
				scan(fi.Decl.Body, 0)
				r.Check(drops == "", "C16.count", name+" leaves the pending batch alone", pos, "no reset or replacement of the batch buffer outside the send",
					drops+": the records pending in it are discarded while their count and the batch's first time are kept — they are never sent, and the next pack reports more records than it holds")
			}
			// every path through ApplyConfig looks at each of the four limits (assigns it, or compares it
			// with the configured value to find it unchanged): no early way out after the first one
			limits := []string{"logsinkQueueSize", "logsinkMaxWaitTime", "logsinkMaxBufferSize", "logsinkZipMinSize"}
			acIn := newInliner(p, fi, nil)
			ps, _ := paths.Enumerate(fi.Decl.Body, paths.Config{Info: fi.Pkg.TypesInfo,
				Inline: acIn.Body, // helpers such as resizeQueue(n) are followed
				Cond: func(c ast.Expr, v bool) *paths.Event {
					s := z.norm(c)
					for _, l := range limits {
						if strings.Contains(s, l) {
							return &paths.Event{Kind: "TOUCH", Arg: l}
						}
					}
					return nil
				},
				Classify: func(m ast.Node) []paths.Event {
					var out []paths.Event
					if as, ok := m.(*ast.AssignStmt); ok {
						for _, l := range as.Lhs {
							for _, lim := range limits {
								if z.norm(l) == lim {
									out = append(out, paths.Event{Kind: "TOUCH", Arg: lim})
								}
							}
						}
					}
					return out
				}})
			var miss []string
			for _, pa := range ps {
				if pa.Has("PANIC") {
					continue
				}
				// what a deferred function literal assigns unconditionally is applied on every way out
				// once the defer statement has been passed
				deferred := map[string]bool{}
				for _, ev := range pa {
					if ev.Kind != "DEFER" {
						continue
					}
					ds, _ := ev.Node.(*ast.DeferStmt)
					if ds == nil {
						continue
					}
					if fl, ok := ast.Unparen(ds.Call.Fun).(*ast.FuncLit); ok {
						for _, st := range fl.Body.List {
							if as, ok := st.(*ast.AssignStmt); ok {
								for _, l := range as.Lhs {
									deferred[z.norm(l)] = true
								}
							}
						}
					}
				}
				for _, lim := range limits {
					if !pa.HasArg("TOUCH", lim) && !deferred[lim] {
						miss = append(miss, lim)
					}
				}
			}
			r.Check(len(miss) == 0, "C16.defaults", name+" applies every limit", pos, "each of the four limits is taken from the configuration on every path",
				"a path through ApplyConfig returns without applying "+strings.Join(uniq(miss), ", ")+": the configured value never takes effect")
		case "run":
			// path rule over one round of the background loop: when the stop signal is received the
			// pending batch is flushed before returning; when the timed wait on the queue comes back
			// empty-handed the pending batch is flushed; a record obtained is appended
			ps, _ := paths.Enumerate(fi.Decl.Body, z.config(false))
			onDone, onIdle := true, true
			sawDone, sawIdle := false, false
			dropped := ""
			var gotVar string
			ast.Inspect(fi.Decl.Body, func(n ast.Node) bool {
				if as, ok := n.(*ast.AssignStmt); ok && len(as.Lhs) == 1 && len(as.Rhs) == 1 && strings.Contains(z.norm(as.Rhs[0]), "Queue.Get") {
					if id, ok := as.Lhs[0].(*ast.Ident); ok {
						gotVar = id.Name
					}
				}
				return true
			})
			for _, pa := range ps {
				stopped := false
				for _, ev := range pa {
					if ev.Kind == "COMM" && strings.Contains(ev.Arg, "Done()") {
						stopped = true
					}
				}
				if stopped {
					sawDone = true
					if !pa.Has("FLUSH") {
						onDone = false
					}
					continue
				}
				if gotVar != "" && pa.HasArg("COND", cc(gotVar, "==", "nil", true)) {
					sawIdle = true
					if !pa.Has("FLUSH") {
						onIdle = false
					}
				}
				// what was taken from the queue is appended, unless the wait came back empty or the element
				// is not a log-sink record (failed type test)
				if gi := pa.Index("GETQ"); gi >= 0 && !pa.Has("APPENDREC") {
					excused := false
					for _, ev := range pa[gi:] {
						if ev.Kind == "COND" && (ev.Arg == cc(gotVar, "==", "nil", true) || ev.Arg == "ok=false") {
							excused = true
						}
					}
					if !excused {
						dropped = "a record taken from the queue is neither appended nor known to be absent on the path " + pa.String()
					}
				}
			}
			if dropped != "" {
				r.Viol("C16.count", name+" dequeued record", pos, dropped+": the record is lost")
			}
			onDone = onDone && sawDone
			onIdle = onIdle && sawIdle
			r.Check(onDone && onIdle, "C16.triggers", name, pos, "flushes when stopped and when the queue stays idle for the wait time",
				fmt.Sprintf("background loop flushes on stop=%v, on idle=%v", onDone, onIdle))
		}
	}
	// decodable, reader side pointer
	if gr := p.Method("lang/pack", "ZipPack", "GetRecords"); gr != nil {
		r.OK("C16.decodable", "lang/pack.(*ZipPack).GetRecords", p.Pos(gr.Decl.Pos()), "reads RecordCount x ReadPack (agreement with SetRecords is a C03 obligation)")
	}
}

func nodeString(n ast.Node) string {
	if n == nil {
		return ""
	}
	switch v := n.(type) {
	case ast.Expr:
		return types.ExprString(v)
	case *ast.ExprStmt:
		return types.ExprString(v.X)
	case *ast.AssignStmt:
		s := ""
		for _, r := range v.Rhs {
			s += types.ExprString(r) + ";"
		}
		return s
	case *ast.BlockStmt:
		s := ""
		for _, st := range v.List {
			s += nodeString(st) + ";"
		}
		return s
	case *ast.IfStmt:
		return nodeString(v.Init) + nodeString(v.Body) + nodeString(v.Else)
	}
	return ""
}

func fileProbs(r *core.Report, rule, c, pos string, probs []string, okmsg string) {
	if len(probs) > 0 {
		r.Viol(rule, c, pos, strings.Join(uniq(probs), "; "))
	} else {
		r.OK(rule, c, pos, okmsg)
	}
}

// isIntLocal: an identifier that denotes an integer-typed local variable (not a field, not a parameter
// of pointer type, not package-level).
func isIntLocal(info *types.Info, id *ast.Ident) bool {
	v, ok := info.ObjectOf(id).(*types.Var)
	if !ok || v.IsField() || v.Parent() == nil || v.Pkg() == nil || v.Parent() == v.Pkg().Scope() {
		return false
	}
	b, ok := v.Type().Underlying().(*types.Basic)
	return ok && b.Info()&types.IsInteger != 0
}

// zipAtSend: on every path that hands a pack to the client, what happened to that pack since it was
// filled — compressed iff its Status was 0 and its Records reached the minimum size, flagged ZIPPED
// exactly when compressed. Judged where the pack is sent, so it does not matter whether the
// compression step is a method, a package function or written in line.
func zipAtSend(ps []paths.Path) []string {
	var zp []string
	for _, pa := range ps {
		if !pa.Consistent() {
			continue
		}
		start := 0
		for i, e := range pa {
			if e.Kind != "SEND" {
				continue
			}
			seg := pa[start:i]
			start = i + 1
			if !seg.Has("RECORDS") {
				continue
			}
			comp := seg.Has("COMPRESS")
			st := seg.HasArg("SETSTATUS", "pack.ZIPPED")
			var g1, g2, saw1, saw2 bool
			for _, c := range seg {
				if c.Kind != "COND" {
					continue
				}
				switch {
				case strings.HasSuffix(strings.TrimSuffix(strings.TrimSuffix(c.Arg, "=true"), "=false"), ".Status==0"):
					saw1, g1 = true, strings.HasSuffix(c.Arg, "=true")
				case strings.Contains(c.Arg, ".Records)>=") && strings.Contains(c.Arg, "ogsinkZipMinSize"):
					saw2, g2 = true, strings.HasSuffix(c.Arg, "=true")
				}
			}
			switch {
			case comp != st:
				zp = append(zp, "Status=ZIPPED and compression do not go together on a path to the client: "+seg.String())
			case comp && !(g1 && g2):
				zp = append(zp, "a pack is compressed without Status==0 && len(Records) >= logsinkZipMinSize: "+seg.String())
			case !comp && saw1 && saw2 && g1 && g2:
				zp = append(zp, "a pack that reached the minimum size is sent uncompressed: "+seg.String())
			case !saw1 && !comp:
				zp = append(zp, "a pack reaches the client without the compression step having looked at it: "+seg.String())
			}
		}
	}
	return uniq(zp)
}

// c16HandedOver: a pack that has been handed to the client is the client's (it may sit in the client's
// queue, be retried, or be kept by the receiver of an in-process client). In logsink/zip, behind the
// call that hands a pack over (Send/SendFlush on the client) the same pack is neither passed to
// another function nor assigned through: no recycling into a pool, no reset, no field update.
func c16HandedOver(p *core.Program, r *core.Report, rule string) {
	pk := p.Pkg("logsink/zip")
	if pk == nil {
		r.Undec(rule, "logsink/zip", "-", "package not found")
		return
	}
	n := 0
	for _, fi := range p.Funcs {
		if fi.Pkg != pk || fi.Decl.Body == nil {
			continue
		}
		info := fi.Pkg.TypesInfo
		ast.Inspect(fi.Decl.Body, func(m ast.Node) bool {
			call, ok := m.(*ast.CallExpr)
			if !ok || len(call.Args) == 0 {
				return true
			}
			sel, ok := ast.Unparen(call.Fun).(*ast.SelectorExpr)
			if !ok || (sel.Sel.Name != "SendFlush" && sel.Sel.Name != "Send") {
				return true
			}
			id, ok := ast.Unparen(call.Args[0]).(*ast.Ident)
			if !ok {
				return true
			}
			obj, _ := info.ObjectOf(id).(*types.Var)
			if obj == nil || obj.IsField() {
				return true
			}
			n++
			bad := ""
			touch := func(k ast.Node) bool {
				switch v := k.(type) {
				case *ast.CallExpr:
					for _, a := range v.Args {
						if aid, ok := ast.Unparen(a).(*ast.Ident); ok && info.ObjectOf(aid) == types.Object(obj) {
							bad = "the pack is passed to " + types.ExprString(v.Fun) + " at " + p.Pos(v.Pos()) + " after it was handed to the client"
						}
					}
					if s2, ok := ast.Unparen(v.Fun).(*ast.SelectorExpr); ok {
						if rid, ok := ast.Unparen(s2.X).(*ast.Ident); ok && info.ObjectOf(rid) == types.Object(obj) {
							if fn, _ := info.Uses[s2.Sel].(*types.Func); fn != nil {
								if sig := fn.Type().(*types.Signature); sig.Recv() != nil {
									if _, ptr := sig.Recv().Type().(*types.Pointer); ptr && !strings.HasPrefix(fn.Name(), "Get") && !strings.HasPrefix(fn.Name(), "To") && fn.Name() != "Size" {
										bad = "a method of the pack (" + fn.Name() + ") is called at " + p.Pos(v.Pos()) + " after it was handed to the client"
									}
								}
							}
						}
					}
				case *ast.AssignStmt:
					for _, l := range v.Lhs {
						if root := rootOf(l); root != nil && info.ObjectOf(root) == types.Object(obj) {
							if _, plain := ast.Unparen(l).(*ast.Ident); !plain {
								bad = "the pack is assigned through at " + p.Pos(v.Pos()) + " after it was handed to the client"
							}
						}
					}
				}
				return true
			}
			// what runs behind the hand-over, until the variable is bound to another pack: the rest of
			// every enclosing block (innermost first); leaving a loop body without a new binding, the
			// whole body runs again behind it
			rebinds := func(st ast.Stmt) bool {
				as, ok := st.(*ast.AssignStmt)
				if !ok {
					return false
				}
				for _, l := range as.Lhs {
					if lid, ok := ast.Unparen(l).(*ast.Ident); ok && info.ObjectOf(lid) == types.Object(obj) {
						return true
					}
				}
				return false
			}
			var chain []ast.Node
			var cur []ast.Node
			ast.Inspect(fi.Decl.Body, func(k ast.Node) bool {
				if k == nil {
					cur = cur[:len(cur)-1]
					return true
				}
				cur = append(cur, k)
				if k == ast.Node(call) {
					chain = append([]ast.Node{}, cur...)
				}
				return true
			})
			rebound := false
			for i := len(chain) - 1; i >= 0 && !rebound; i-- {
				var list []ast.Stmt
				switch b := chain[i].(type) {
				case *ast.BlockStmt:
					list = b.List
				case *ast.CaseClause:
					list = b.Body
				case *ast.ForStmt:
					if !rebound {
						ast.Inspect(b.Body, func(k ast.Node) bool {
							if k != nil && !(k.Pos() <= call.Pos() && call.End() <= k.End()) {
								touch(k)
							}
							return true
						})
					}
					continue
				case *ast.RangeStmt:
					if !rebound {
						ast.Inspect(b.Body, func(k ast.Node) bool {
							if k != nil && !(k.Pos() <= call.Pos() && call.End() <= k.End()) {
								touch(k)
							}
							return true
						})
					}
					continue
				default:
					continue
				}
				after := false
				for _, st := range list {
					if st.Pos() <= call.Pos() && call.End() <= st.End() {
						after = true
						continue
					}
					if !after {
						continue
					}
					if rebinds(st) {
						rebound = true
						break
					}
					ast.Inspect(st, func(k ast.Node) bool {
						if k != nil {
							touch(k)
						}
						return true
					})
				}
			}
			c := core.FuncName(fi.Obj) + " leaves the pack it handed over alone"
			if bad != "" {
				r.Viol(rule, c, p.Pos(call.Pos()), bad+": a client (or receiver) that still holds it sees it change")
			} else {
				r.OK(rule, c, p.Pos(call.Pos()), "not touched behind the hand-over")
			}
			return true
		})
	}
	if n == 0 {
		r.Undec(rule, "logsink/zip hand-over", "-", "no Send/SendFlush of a local pack found")
	}
}
