package props

import (
	"golibcheck/internal/paths"
	"fmt"
	"go/ast"
	"go/token"
	"go/types"

	"golibcheck/internal/core"
	"golibcheck/internal/wire"
)

// decodeInPlace: two shapes by which a decoder consumes the right bytes and still loses what it read
// (the layout rules cannot see them: the stream events are unchanged).
//
//	(a) for _, e := range xs { e.Read(in) } with xs a slice of struct VALUES and Read on a pointer
//	    receiver: every element is decoded into the loop variable's copy and discarded;
//	(b) xs := make([]T, n) ... xs = append(xs, v): the result starts with n zero entries, the decoded
//	    ones follow (order and count are lost).
//
// One obligation per function that reads from a stream in the given packages.
func decodeInPlace(p *core.Program, x *wire.Extractor, r *core.Report, rule string, relPkgs []string) {
	in := map[string]bool{}
	for _, k := range relPkgs {
		in[k] = true
	}
	for _, fi := range p.Funcs {
		if !in[core.RelPkg(fi.Pkg.PkgPath)] || fi.Decl.Body == nil || core.IsCanaryFile(p.Fset.Position(fi.Decl.Pos()).Filename) && false {
			continue
		}
		_, ins := rootStreams(x, fi)
		if len(ins) == 0 {
			continue
		}
		info := fi.Pkg.TypesInfo
		var probs []string
		isStreamArg := func(call *ast.CallExpr) bool {
			for _, a := range call.Args {
				if tv, ok := info.Types[a]; ok && x.IsStream(tv.Type) {
					return true
				}
			}
			return false
		}
		// (a)
		ast.Inspect(fi.Decl.Body, func(n ast.Node) bool {
			rs, ok := n.(*ast.RangeStmt)
			if !ok || rs.Value == nil {
				return true
			}
			vid, ok := rs.Value.(*ast.Ident)
			if !ok || vid.Name == "_" {
				return true
			}
			vobj := info.ObjectOf(vid)
			if vobj == nil {
				return true
			}
			if _, isStruct := vobj.Type().Underlying().(*types.Struct); !isStruct {
				return true // pointers, interfaces, scalars: the element itself is reached
			}
			ast.Inspect(rs.Body, func(m ast.Node) bool {
				call, ok := m.(*ast.CallExpr)
				if !ok {
					return true
				}
				sel, ok := call.Fun.(*ast.SelectorExpr)
				if !ok {
					return true
				}
				id, ok := ast.Unparen(sel.X).(*ast.Ident)
				if !ok || info.ObjectOf(id) != vobj {
					return true
				}
				fn, _ := info.Uses[sel.Sel].(*types.Func)
				if fn == nil {
					return true
				}
				sig := fn.Type().(*types.Signature)
				if sig.Recv() == nil {
					return true
				}
				if _, ptr := sig.Recv().Type().(*types.Pointer); ptr && isStreamArg(call) {
					probs = append(probs, fmt.Sprintf("%s: %s.%s(...) decodes into the range variable, a copy of the element: the bytes are consumed and the element stays zero", p.Pos(call.Pos()), id.Name, fn.Name()))
				}
				return true
			})
			return true
		})
		// (b)
		made := map[types.Object]token.Pos{}
		ast.Inspect(fi.Decl.Body, func(n ast.Node) bool {
			as, ok := n.(*ast.AssignStmt)
			if !ok || len(as.Lhs) != len(as.Rhs) {
				return true
			}
			for i, rhs := range as.Rhs {
				call, ok := ast.Unparen(rhs).(*ast.CallExpr)
				if !ok {
					continue
				}
				fid, ok := call.Fun.(*ast.Ident)
				if !ok {
					continue
				}
				if _, isB := info.Uses[fid].(*types.Builtin); !isB {
					continue
				}
				var target types.Object
				switch l := ast.Unparen(as.Lhs[i]).(type) {
				case *ast.Ident:
					target = info.ObjectOf(l)
				case *ast.SelectorExpr:
					target = info.ObjectOf(l.Sel)
				}
				if target == nil {
					continue
				}
				switch fid.Name {
				case "make":
					if len(call.Args) == 2 {
						if _, isSlice := info.TypeOf(call).Underlying().(*types.Slice); isSlice {
							if tv, ok := info.Types[call.Args[1]]; ok && tv.Value != nil && tv.Value.String() == "0" {
								continue
							}
							made[target] = call.Pos()
						}
					}
				case "append":
					if len(call.Args) >= 1 {
						var src types.Object
						switch a := ast.Unparen(call.Args[0]).(type) {
						case *ast.Ident:
							src = info.ObjectOf(a)
						case *ast.SelectorExpr:
							src = info.ObjectOf(a.Sel)
						}
						if src == target {
							if mp, ok := made[target]; ok && mp < call.Pos() {
								probs = append(probs, fmt.Sprintf("%s: append to a slice that make() at %s already gave its full length: the decoded elements follow that many zero entries", p.Pos(call.Pos()), p.Pos(mp)))
							}
						}
					}
				}
			}
			return true
		})
		// (c) an element that is read inside a decoding loop and then skipped: every path through the
		// loop body that reads a value into a local and goes on to the next iteration hands that local
		// on (as an argument of a call, or on the right of an assignment) before it does
		probs = append(probs, droppedElements(p, x, fi)...)
		fileProbs(r, rule, core.FuncName(fi.Obj), p.Pos(fi.Decl.Pos()), probs, "decoded elements are stored into the container itself")
	}
}

// droppedElements: see (c) in decodeInPlace.
func droppedElements(p *core.Program, x *wire.Extractor, fi *core.FuncInfo) []string {
	info := fi.Pkg.TypesInfo
	var probs []string
	isStream := func(e ast.Expr) bool {
		tv, ok := info.Types[e]
		return ok && x.IsStream(tv.Type)
	}
	readsStream := func(call *ast.CallExpr) bool {
		if sel, ok := call.Fun.(*ast.SelectorExpr); ok && isStream(sel.X) {
			return true
		}
		for _, a := range call.Args {
			if isStream(a) {
				return true
			}
		}
		return false
	}
	ast.Inspect(fi.Decl.Body, func(n ast.Node) bool {
		var body *ast.BlockStmt
		switch v := n.(type) {
		case *ast.ForStmt:
			body = v.Body
		case *ast.RangeStmt:
			body = v.Body
		}
		if body == nil {
			return true
		}
		locals := map[types.Object]string{}
		okVars := map[types.Object]string{} // comma-ok of a type assertion on a read local -> that local
		ps, over := paths.Enumerate(body, paths.Config{Info: info,
			Cond: func(c ast.Expr, v bool) *paths.Event {
				// absent (nil) or foreign-typed elements may be skipped: x == nil, !ok of x.(T)
				c = ast.Unparen(c)
				if be, ok := c.(*ast.BinaryExpr); ok && (be.Op == token.EQL || be.Op == token.NEQ) {
					for _, pr := range [][2]ast.Expr{{be.X, be.Y}, {be.Y, be.X}} {
						if nid, ok := ast.Unparen(pr[1]).(*ast.Ident); ok && nid.Name == "nil" {
							if id, ok := ast.Unparen(pr[0]).(*ast.Ident); ok {
								if nm, isRead := locals[info.ObjectOf(id)]; isRead && (be.Op == token.EQL) == v {
									return &paths.Event{Kind: "ABSENT", Arg: nm, Pos: c.Pos()}
								}
							}
						}
					}
				}
				if id, ok := c.(*ast.Ident); ok {
					if nm, isOk := okVars[info.ObjectOf(id)]; isOk && !v {
						return &paths.Event{Kind: "ABSENT", Arg: nm, Pos: c.Pos()}
					}
				}
				return nil
			},
			Classify: func(m ast.Node) []paths.Event {
				var out []paths.Event
				mention := func(e ast.Node, kind string) {
					ast.Inspect(e, func(k ast.Node) bool {
						if id, ok := k.(*ast.Ident); ok {
							if o := info.ObjectOf(id); o != nil {
								if nm, isRead := locals[o]; isRead {
									out = append(out, paths.Event{Kind: kind, Arg: nm, Pos: id.Pos()})
								}
							}
						}
						return true
					})
				}
				switch v := m.(type) {
				case *ast.AssignStmt:
					// p, ok := x.(T) on a read local: p is x under another type, ok says whether it is a T
					if len(v.Rhs) == 1 && len(v.Lhs) <= 2 {
						if ta, isTA := ast.Unparen(v.Rhs[0]).(*ast.TypeAssertExpr); isTA {
							if xid, ok := ast.Unparen(ta.X).(*ast.Ident); ok {
								if nm, isRead := locals[info.ObjectOf(xid)]; isRead {
									if lid, ok := v.Lhs[0].(*ast.Ident); ok && lid.Name != "_" {
										if o := info.ObjectOf(lid); o != nil {
											locals[o] = nm
										}
									}
									if len(v.Lhs) == 2 {
										if oid, ok := v.Lhs[1].(*ast.Ident); ok && oid.Name != "_" {
											if o := info.ObjectOf(oid); o != nil {
												okVars[o] = nm
											}
										}
									}
									return out
								}
							}
						}
					}
					// stores first (the right-hand sides), then the definitions this statement makes
					for i, l := range v.Lhs {
						if lid, ok := l.(*ast.Ident); ok && lid.Name == "_" {
							continue
						}
						if i < len(v.Rhs) {
							if c, isCall := ast.Unparen(v.Rhs[i]).(*ast.CallExpr); isCall && readsStream(c) {
								for _, a := range c.Args {
									mention(a, "STORE")
								}
								continue
							}
							mention(v.Rhs[i], "STORE")
						}
					}
					for i, l := range v.Lhs {
						lid, ok := l.(*ast.Ident)
						if !ok || lid.Name == "_" || i >= len(v.Rhs) || len(v.Lhs) != len(v.Rhs) {
							continue
						}
						if c, isCall := ast.Unparen(stripConvs(info, v.Rhs[i])).(*ast.CallExpr); isCall && readsStream(c) {
							if o := info.ObjectOf(lid); o != nil && !isStream(lid) {
								locals[o] = lid.Name
								out = append(out, paths.Event{Kind: "READ", Arg: lid.Name, Pos: lid.Pos()})
							}
						}
					}
				case *ast.ExprStmt:
					if c, ok := v.X.(*ast.CallExpr); ok {
						for _, a := range c.Args {
							mention(a, "STORE")
						}
					}
				case *ast.ReturnStmt:
					for _, e := range v.Results {
						mention(e, "STORE")
					}
				}
				return out
			}})
		if over {
			return true
		}
		for _, pa := range ps {
			if len(pa) > 0 && (pa[len(pa)-1].Kind == "PANIC") {
				continue
			}
			for i, e := range pa {
				if e.Kind != "READ" {
					continue
				}
				used := false
				for _, f := range pa[i+1:] {
					if (f.Kind == "STORE" || f.Kind == "ABSENT") && f.Arg == e.Arg {
						used = true
					}
				}
				if !used {
					probs = append(probs, fmt.Sprintf("%s: `%s` is read from the stream inside the decoding loop and dropped on a path that goes on to the next element: the decoded container misses it", p.Pos(e.Pos), e.Arg))
				}
			}
		}
		return true
	})
	return uniq(probs)
}
