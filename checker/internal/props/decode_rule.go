package props

import (
	"fmt"
	"go/ast"
	"go/token"
	"go/types"

	"golibcheck/internal/core"
	"golibcheck/internal/wire"
)

// decodeInPlace: two shapes by which a decoder consumes the right bytes and still loses what it read
// (the layout rules cannot see them: the stream events are unchanged).
//
//	(a) for _, e := range xs { e.Read(in) } with xs a slice of struct VALUES and Read on a pointer
//	    receiver: every element is decoded into the loop variable's copy and discarded;
//	(b) xs := make([]T, n) ... xs = append(xs, v): the result starts with n zero entries, the decoded
//	    ones follow (order and count are lost).
//
// One obligation per function that reads from a stream in the given packages.
func decodeInPlace(p *core.Program, x *wire.Extractor, r *core.Report, rule string, relPkgs []string) {
	in := map[string]bool{}
	for _, k := range relPkgs {
		in[k] = true
	}
	for _, fi := range p.Funcs {
		if !in[core.RelPkg(fi.Pkg.PkgPath)] || fi.Decl.Body == nil || core.IsCanaryFile(p.Fset.Position(fi.Decl.Pos()).Filename) && false {
			continue
		}
		_, ins := rootStreams(x, fi)
		if len(ins) == 0 {
			continue
		}
		info := fi.Pkg.TypesInfo
		var probs []string
		isStreamArg := func(call *ast.CallExpr) bool {
			for _, a := range call.Args {
				if tv, ok := info.Types[a]; ok && x.IsStream(tv.Type) {
					return true
				}
			}
			return false
		}
		// (a)
		ast.Inspect(fi.Decl.Body, func(n ast.Node) bool {
			rs, ok := n.(*ast.RangeStmt)
			if !ok || rs.Value == nil {
				return true
			}
			vid, ok := rs.Value.(*ast.Ident)
			if !ok || vid.Name == "_" {
				return true
			}
			vobj := info.ObjectOf(vid)
			if vobj == nil {
				return true
			}
			if _, isStruct := vobj.Type().Underlying().(*types.Struct); !isStruct {
				return true // pointers, interfaces, scalars: the element itself is reached
			}
			ast.Inspect(rs.Body, func(m ast.Node) bool {
				call, ok := m.(*ast.CallExpr)
				if !ok {
					return true
				}
				sel, ok := call.Fun.(*ast.SelectorExpr)
				if !ok {
					return true
				}
				id, ok := ast.Unparen(sel.X).(*ast.Ident)
				if !ok || info.ObjectOf(id) != vobj {
					return true
				}
				fn, _ := info.Uses[sel.Sel].(*types.Func)
				if fn == nil {
					return true
				}
				sig := fn.Type().(*types.Signature)
				if sig.Recv() == nil {
					return true
				}
				if _, ptr := sig.Recv().Type().(*types.Pointer); ptr && isStreamArg(call) {
					probs = append(probs, fmt.Sprintf("%s: %s.%s(...) decodes into the range variable, a copy of the element: the bytes are consumed and the element stays zero", p.Pos(call.Pos()), id.Name, fn.Name()))
				}
				return true
			})
			return true
		})
		// (b)
		made := map[types.Object]token.Pos{}
		ast.Inspect(fi.Decl.Body, func(n ast.Node) bool {
			as, ok := n.(*ast.AssignStmt)
			if !ok || len(as.Lhs) != len(as.Rhs) {
				return true
			}
			for i, rhs := range as.Rhs {
				call, ok := ast.Unparen(rhs).(*ast.CallExpr)
				if !ok {
					continue
				}
				fid, ok := call.Fun.(*ast.Ident)
				if !ok {
					continue
				}
				if _, isB := info.Uses[fid].(*types.Builtin); !isB {
					continue
				}
				var target types.Object
				switch l := ast.Unparen(as.Lhs[i]).(type) {
				case *ast.Ident:
					target = info.ObjectOf(l)
				case *ast.SelectorExpr:
					target = info.ObjectOf(l.Sel)
				}
				if target == nil {
					continue
				}
				switch fid.Name {
				case "make":
					if len(call.Args) == 2 {
						if _, isSlice := info.TypeOf(call).Underlying().(*types.Slice); isSlice {
							if tv, ok := info.Types[call.Args[1]]; ok && tv.Value != nil && tv.Value.String() == "0" {
								continue
							}
							made[target] = call.Pos()
						}
					}
				case "append":
					if len(call.Args) >= 1 {
						var src types.Object
						switch a := ast.Unparen(call.Args[0]).(type) {
						case *ast.Ident:
							src = info.ObjectOf(a)
						case *ast.SelectorExpr:
							src = info.ObjectOf(a.Sel)
						}
						if src == target {
							if mp, ok := made[target]; ok && mp < call.Pos() {
								probs = append(probs, fmt.Sprintf("%s: append to a slice that make() at %s already gave its full length: the decoded elements follow that many zero entries", p.Pos(call.Pos()), p.Pos(mp)))
							}
						}
					}
				}
			}
			return true
		})
		fileProbs(r, rule, core.FuncName(fi.Obj), p.Pos(fi.Decl.Pos()), probs, "decoded elements are stored into the container itself")
	}
}
