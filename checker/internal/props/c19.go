package props

import (
	"regexp"
	"go/constant"
	"fmt"
	"go/ast"
	"go/token"
	"go/types"
	"math"
	"strings"

	"golibcheck/internal/core"
)

// C19 — calendar helpers agree with the standard calendar for 2000-2099.
// Agreement per instant is a numeric statement; what is decided are its table- and shape-level
// necessary conditions.
func init() { register(&Checker{ID: "C19", Canaries: c19Canaries, Run: runC19}) }

func c19Canaries() []core.Canary {
	return []core.Canary{{RelDir: "util/dateutil", Name: "c19", Src: `package dateutil

import (
	"bytes"
	"sort"
	"time"
)

// minutes computed from the hour remainder with the wrong divisor, milliseconds padded to two digits
func (this *DateTimeHelper) zzCanaryStamp(time int64) string {
	if time < this.BASE_TIME {
		return ""
	}
	dtime := (int)((time - this.BASE_TIME) % MILLIS_PER_DAY)
	hh := (int)(dtime / MILLIS_PER_HOUR)
	dtime = (int)(dtime % MILLIS_PER_HOUR)
	mm := (int)(dtime / MILLIS_PER_SECOND)
	sss := (int)(dtime % 1000)
	var buffer bytes.Buffer
	buffer.WriteString(mk2(hh))
	buffer.WriteString(mk2(mm))
	buffer.WriteString(mk2(sss))
	return buffer.String()
}

// a 12-hour layout without an AM/PM marker
func zzCanaryClock(ms int64) string {
	return time.UnixMilli(ms).UTC().Format("030405")
}

// an instant that is exactly a start goes to the entry before it
func zzCanaryDayIndex(starts []int64, t int64) int {
	n := sort.Search(len(starts), func(i int) bool { return starts[i] >= t })
	if n == 0 {
		return 0
	}
	return n - 1
}
`, Expect: []core.CanaryExpect{{Rule: "C19.fields", Sub: "zzCanaryStamp"}, {Rule: "C19.layouts", Sub: "zzCanaryClock"}, {Rule: "C19.search", Sub: "zzCanaryDayIndex"}}}}
}

func runC19(p *core.Program, r *core.Report) {
	r.Explanation = "Table- and shape-level necessary conditions of calendar agreement (util/dateutil). Tables: month lengths are 31,28,31,30,31,30,31,31,30,31,30,31; the leap-year predicate, interpreted for all 400 residues, is the Gregorian rule; the base instant is 2000-01-01 00:00:00; the weekday table starts at Saturday's index; MILLIS_PER_* have their stated values; month lengths are never used without the leap correction. Units: each unit function is (t - BASE)/STEP with STEP the constant its name states. Fields: an interval analysis of every formatter's decomposition chain (day remainder -> hour -> minute -> second -> millisecond) bounds each field and requires the padding helper / format verb to be as wide as the field's maximum (hh<=23, mm,ss<=59 -> 2 digits; millis<=999 -> 3 digits). Format/parse: DateFormat.format and Parse handle the same letter set with equal widths, and both treat a literal separator as one rune."
	r.NotDecided = []string{"agreement with the standard library for each instant (numeric)", "weekday names", "pattern round trip beyond per-letter width agreement"}
	r.Rule("C19.search", "a day is found in the table of day starts as the entry before the first start beyond the instant (strict predicate when the answer is stepped back by one)", 0)
	floorSearchRule(p, r, "C19.search", []string{"util/dateutil"})
	r.Rule("C19.tables", "month lengths, Gregorian leap rule (400 residues), base instant, weekday start, MILLIS_PER_* values, leap correction wherever month lengths are used", 7)
	r.Rule("C19.units", "unit functions are (t-BASE)/STEP with the STEP their name states", 5)
	r.Rule("C19.wrappers", "the exported package functions hand the instant they were given to the helper unchanged (or the current clock reading)", 10)
	r.Rule("C19.fields", "every formatted field fits the fixed width it is padded to (interval analysis of the decomposition)", 6)
	r.Rule("C19.layouts", "standard-library layouts used by the calendar helpers are 24-hour (no 03/3 hour token without an AM/PM marker)", 0)
	r.Rule("C19.format-parse", "DateFormat.format and Parse: same letters, same widths, separators one rune on both sides", 8)
	c19Tables(p, r)
	c19Units(p, r)
	c19Wrappers(p, r)
	c19Fields(p, r)
	c19Pad(p, r)
	c19Verbs(p, r)
	c19Base10(p, r)
	c19Layouts(p, r)
	c19FormatParse(p, r)
}

func c19Tables(p *core.Program, r *core.Report) {
	pk := p.Pkg("util/dateutil")
	if pk == nil {
		r.Undec("C19.tables", "util/dateutil", "-", "package not found")
		return
	}
	info := pk.TypesInfo
	lit := func(name string) []string {
		var out []string
		for _, f := range pk.Syntax {
			ast.Inspect(f, func(n ast.Node) bool {
				vs, ok := n.(*ast.ValueSpec)
				if !ok {
					return true
				}
				for i, nm := range vs.Names {
					if nm.Name == name && i < len(vs.Values) {
						if cl, ok := vs.Values[i].(*ast.CompositeLit); ok {
							for _, e := range cl.Elts {
								if tv, ok := info.Types[e]; ok && tv.Value != nil {
									out = append(out, strings.Trim(tv.Value.ExactString(), `"`))
								}
							}
						}
					}
				}
				return true
			})
		}
		return out
	}
	md := strings.Join(lit("mdayLen"), ",")
	r.Check(md == "31,28,31,30,31,30,31,31,30,31,30,31", "C19.tables", "util/dateutil.mdayLen", "-", md, "month length table is "+md)
	// constants
	want := map[string]int64{"MILLIS_PER_SECOND": 1000, "MILLIS_PER_MINUTE": 60000, "MILLIS_PER_FIVE_MINUTE": 300000, "MILLIS_PER_TEN_MINUTE": 600000, "MILLIS_PER_HOUR": 3600000, "MILLIS_PER_DAY": 86400000}
	okc := true
	var bad []string
	for n, w := range want {
		c, ok := pk.Types.Scope().Lookup(n).(*types.Const)
		if !ok || c.Val().ExactString() != fmt.Sprint(w) {
			okc = false
			bad = append(bad, n)
		}
	}
	r.Check(okc, "C19.tables", "util/dateutil.MILLIS_PER_*", "-", "1000/60000/300000/600000/3600000/86400000", "wrong step constants: "+strings.Join(bad, ","))
	// leap rule over all residues
	if fi := p.Func("util/dateutil", "isYun"); fi != nil && fi.Decl.Body != nil {
		yobj := fi.Pkg.TypesInfo.Defs[fi.Decl.Type.Params.List[0].Names[0]]
		wrong := -1
		for y := int64(0); y < 400; y++ {
			ev := &ordEval{info: fi.Pkg.TypesInfo, side: func(ast.Expr) (string, string) { return "", "" }, ints: map[types.Object]int64{yobj: y}, bools: map[string]bool{}}
			res, ret := ev.run(fi.Decl.Body.List)
			if ev.err != "" || !ret || !res.isBool {
				r.Undec("C19.tables", "util/dateutil.isYun", p.Pos(fi.Decl.Pos()), "leap predicate outside the fragment: "+ev.err)
				wrong = -2
				break
			}
			if res.b != ((y%4 == 0 && y%100 != 0) || y%400 == 0) {
				wrong = int(y)
				break
			}
		}
		if wrong >= 0 {
			r.Viol("C19.tables", "util/dateutil.isYun", p.Pos(fi.Decl.Pos()), fmt.Sprintf("leap-year predicate disagrees with the Gregorian rule for year residue %d", wrong))
		} else if wrong == -1 {
			r.OK("C19.tables", "util/dateutil.isYun", p.Pos(fi.Decl.Pos()), "Gregorian rule on all 400 residues")
		}
	} else {
		r.Undec("C19.tables", "util/dateutil.isYun", "-", "not found")
	}
	// base instant and weekday start
	{
		// every time.Date(...) the package evaluates (the constructor or a helper it delegates to) is the base instant
		n, okb := 0, true
		var at string
		want := []int64{2000, 1, 1, 0, 0, 0, 0}
		for _, fi := range p.Funcs {
			if fi.Pkg != pk || fi.Decl.Body == nil || core.IsCanaryFile(p.Fset.Position(fi.Decl.Pos()).Filename) {
				continue
			}
			finfo := fi.Pkg.TypesInfo
			ast.Inspect(fi.Decl.Body, func(m ast.Node) bool {
				call, ok := m.(*ast.CallExpr)
				if !ok || len(call.Args) != 8 || !isCallTo(finfo, call, "time", "Date") {
					return true
				}
				allConst := true
				for _, a := range call.Args[:7] {
					if _, ok := constIntOf(finfo, a); !ok {
						allConst = false // a date assembled from parsed fields (DateFormat.Parse), not the base instant
					}
				}
				if !allConst {
					return true
				}
				n++
				at = p.Pos(call.Pos())
				for i, a := range call.Args[:7] {
					if v, ok := constIntOf(finfo, a); !ok || v != want[i] {
						okb = false
					}
				}
				return true
			})
		}
		r.Check(n >= 1 && okb, "C19.tables", "util/dateutil.newDateTimeHelper base instant", at, "2000-01-01 00:00:00.000", "the base instant is not 2000-01-01 00:00:00")
	}
	if fi := p.Method("util/dateutil", "DateTimeHelper", "open"); fi != nil {
		// the weekday label table, by shape: the package-level table of exactly seven constant texts
		// (positional, or keyed by constants such as time.Sunday), under whatever name
		wd := lit("wday")
		wdName := "wday"
		if len(wd) != 7 {
			for _, f := range pk.Syntax {
				for _, d := range f.Decls {
					gd, ok := d.(*ast.GenDecl)
					if !ok || gd.Tok != token.VAR {
						continue
					}
					for _, sp := range gd.Specs {
						vs := sp.(*ast.ValueSpec)
						for i, nm := range vs.Names {
							if i >= len(vs.Values) {
								continue
							}
							cl, ok := vs.Values[i].(*ast.CompositeLit)
							if !ok || len(cl.Elts) != 7 {
								continue
							}
							labels := make([]string, 7)
							good := true
							for pos, el := range cl.Elts {
								k, val := int64(pos), el
								if kv, ok := el.(*ast.KeyValueExpr); ok {
									kk, ok := constIntOf(info, kv.Key)
									if !ok {
										good = false
										break
									}
									k, val = kk, kv.Value
								}
								tv, ok := info.Types[val]
								if !ok || tv.Value == nil || tv.Value.Kind() != constant.String || k < 0 || k > 6 {
									good = false
									break
								}
								labels[k] = constant.StringVal(tv.Value)
							}
							if good {
								wd, wdName = labels, nm.Name
							}
						}
					}
				}
			}
		}
		start := int64(-1)
		finfo := fi.Pkg.TypesInfo
		// the local that indexes the weekday table (directly, or stored in the day and used as the index
		// by an accessor), and the constant it starts from
		var idxObj types.Object
		ast.Inspect(fi.Decl.Body, func(m ast.Node) bool {
			if ix, ok := m.(*ast.IndexExpr); ok {
				if id, ok := ast.Unparen(ix.X).(*ast.Ident); ok && id.Name == wdName {
					if o := finfo.ObjectOf(id); o != nil && o.Parent() == o.Pkg().Scope() {
						if iid, ok := ast.Unparen(ix.Index).(*ast.Ident); ok {
							idxObj = finfo.ObjectOf(iid)
						}
					}
				}
			}
			// day.wday = wd with wd an integer-typed local: the weekday number itself is stored
			if as, ok := m.(*ast.AssignStmt); ok && len(as.Lhs) == 1 && len(as.Rhs) == 1 && idxObj == nil {
				if sel, ok := ast.Unparen(as.Lhs[0]).(*ast.SelectorExpr); ok && strings.Contains(strings.ToLower(sel.Sel.Name), "wday") {
					if rid, ok := ast.Unparen(stripConvs(finfo, as.Rhs[0])).(*ast.Ident); ok {
						if o, isVar := finfo.ObjectOf(rid).(*types.Var); isVar && !o.IsField() && isBasicType(o.Type()) {
							if b, ok := o.Type().Underlying().(*types.Basic); ok && b.Info()&types.IsInteger != 0 {
								idxObj = o
							}
						}
					}
				}
			}
			return true
		})
		ast.Inspect(fi.Decl.Body, func(m ast.Node) bool {
			if as, ok := m.(*ast.AssignStmt); ok && len(as.Lhs) == 1 && as.Tok == token.DEFINE && idxObj != nil {
				if id, ok := as.Lhs[0].(*ast.Ident); ok && finfo.ObjectOf(id) == idxObj {
					start, _ = constIntOf(finfo, as.Rhs[0])
				}
			}
			return true
		})
		if start < 0 {
			// the index expression of the weekday table, evaluated for the first day: every local holds
			// the value it is first given (seq 0, the first year/month/day of the loops)
			var idxExpr ast.Expr
			ast.Inspect(fi.Decl.Body, func(m ast.Node) bool {
				if ix, ok := m.(*ast.IndexExpr); ok && idxExpr == nil {
					if id, ok := ast.Unparen(ix.X).(*ast.Ident); ok && id.Name == wdName {
						if o := finfo.ObjectOf(id); o != nil && o.Pkg() != nil && o.Parent() == o.Pkg().Scope() {
							idxExpr = ix.Index
						}
					}
				}
				return true
			})
			if idxExpr != nil {
				ce := &constEvaluator{p: p}
				fr := &cframe{info: finfo, env: map[types.Object]*cval{}}
				ast.Inspect(fi.Decl.Body, func(m ast.Node) bool {
					if m == nil || m.Pos() >= idxExpr.Pos() {
						return m == nil || m.Pos() < idxExpr.Pos()
					}
					if as, ok := m.(*ast.AssignStmt); ok && as.Tok == token.DEFINE && len(as.Lhs) == len(as.Rhs) {
						for i, l := range as.Lhs {
							if id, ok := l.(*ast.Ident); ok {
								if v, ok := ce.expr(fr, as.Rhs[i]); ok && v != nil {
									if o := finfo.ObjectOf(id); o != nil {
										if _, had := fr.env[o]; !had {
											fr.env[o] = v
										}
									}
								}
							}
						}
					}
					return true
				})
				if v, ok := ce.expr(fr, idxExpr); ok && v != nil && v.k == 'i' {
					start = v.n
				}
			}
		}
		r.Check(start >= 0 && int(start) < len(wd) && wd[start] == "Sat" && len(wd) == 7, "C19.tables", "util/dateutil.open weekday start", p.Pos(fi.Decl.Pos()), "2000-01-01 is a Saturday", fmt.Sprintf("weekday enumeration starts at index %d of %v, which is not Saturday", start, wd))
		// the weekday index advances by one and wraps after the last name: `if i == N-1 { i = 0 } else { i++ }`
		// or `i = (i + 1) % N` with N the number of weekday names
		if idxObj != nil && len(wd) > 0 {
			wrapOK, wrapSeen := false, ""
			isIdx := func(e ast.Expr) bool {
				id, ok := ast.Unparen(e).(*ast.Ident)
				return ok && finfo.ObjectOf(id) == idxObj
			}
			ast.Inspect(fi.Decl.Body, func(m ast.Node) bool {
				switch v := m.(type) {
				case *ast.IfStmt:
					if be, ok := ast.Unparen(v.Cond).(*ast.BinaryExpr); ok && isIdx(be.X) {
						if k, ok := constIntOf(finfo, be.Y); ok {
							switch be.Op {
							case token.EQL, token.GEQ:
								wrapSeen = fmt.Sprintf("wraps at index %d", k)
								wrapOK = k == int64(len(wd)-1)
							case token.GTR:
								wrapSeen = fmt.Sprintf("wraps above index %d", k)
								wrapOK = k == int64(len(wd)-2)
							}
						}
					}
				case *ast.AssignStmt:
					if len(v.Lhs) == 1 && len(v.Rhs) == 1 && isIdx(v.Lhs[0]) {
						if be, ok := ast.Unparen(v.Rhs[0]).(*ast.BinaryExpr); ok && be.Op == token.REM {
							if k, ok := constIntOf(finfo, be.Y); ok {
								wrapSeen = fmt.Sprintf("wraps modulo %d", k)
								wrapOK = k == int64(len(wd))
							}
						}
					}
				}
				return true
			})
			if wrapSeen != "" {
				r.Check(wrapOK, "C19.tables", "util/dateutil.open weekday wrap", p.Pos(fi.Decl.Pos()), wrapSeen, fmt.Sprintf("the weekday index %s but there are %d weekday names: a name is skipped (or the table is overrun) every week", wrapSeen, len(wd)))
			}
		}
		step := false
		dayMs := func(e ast.Expr) bool { v, ok := constIntOf(finfo, e); return ok && v == 86400000 }
		ast.Inspect(fi.Decl.Body, func(m ast.Node) bool {
			if as, ok := m.(*ast.AssignStmt); ok && len(as.Lhs) == 1 && len(as.Rhs) == 1 {
				if as.Tok == token.ADD_ASSIGN && dayMs(as.Rhs[0]) {
					step = true
				}
				if be, ok := ast.Unparen(as.Rhs[0]).(*ast.BinaryExpr); ok && as.Tok == token.ASSIGN && be.Op == token.ADD {
					l := types.ExprString(as.Lhs[0])
					if (types.ExprString(be.X) == l && dayMs(be.Y)) || (types.ExprString(be.Y) == l && dayMs(be.X)) {
						step = true
					}
				}
			}
			return true
		})
		if !step {
			// closed form: time = BASE + seq*MILLIS_PER_DAY with seq counted up by one per day
			counters := map[string]bool{}
			ast.Inspect(fi.Decl.Body, func(m ast.Node) bool {
				if inc, ok := m.(*ast.IncDecStmt); ok && inc.Tok == token.INC {
					if id, ok := inc.X.(*ast.Ident); ok {
						counters[id.Name] = true
					}
				}
				return true
			})
			ast.Inspect(fi.Decl.Body, func(m ast.Node) bool {
				as, ok := m.(*ast.AssignStmt)
				if !ok || len(as.Lhs) != 1 || len(as.Rhs) != 1 || as.Tok != token.ASSIGN {
					return true
				}
				f, ok := linearize(finfo, nil, as.Rhs[0], func(x ast.Expr) (string, bool) {
					switch v := ast.Unparen(x).(type) {
					case *ast.Ident:
						if _, isVar := finfo.ObjectOf(v).(*types.Var); isVar {
							return "v:" + v.Name, true
						}
					case *ast.SelectorExpr:
						return "f:" + stripSpaces(types.ExprString(v)), true
					}
					return "", false
				})
				if !ok {
					return true
				}
				for k, coef := range f {
					if coef == 86400000 && strings.HasPrefix(k, "v:") && counters[strings.TrimPrefix(k, "v:")] {
						step = true
					}
				}
				return true
			})
		}
		r.Check(step, "C19.tables", "util/dateutil.open day step", p.Pos(fi.Decl.Pos()), "consecutive days are one MILLIS_PER_DAY apart", "the day table is not built with a MILLIS_PER_DAY step")
	}
	// month lengths only together with the leap correction
	for _, fi := range p.Funcs {
		if fi.Pkg != pk || fi.Decl.Body == nil {
			continue
		}
		uses, leap := false, false
		ast.Inspect(fi.Decl.Body, func(m ast.Node) bool {
			switch v := m.(type) {
			case *ast.IndexExpr:
				if types.ExprString(v.X) == "mdayLen" {
					// a constant month other than February has the same length every year
					if k, ok := constIntOf(fi.Pkg.TypesInfo, v.Index); ok && k != 1 {
						return true
					}
					uses = true
				}
			case *ast.CallExpr:
				if types.ExprString(v.Fun) == "isYun" {
					leap = true
				}
			}
			return true
		})
		if uses {
			r.Check(leap, "C19.tables", core.FuncName(fi.Obj)+" month length use", p.Pos(fi.Decl.Pos()), "mdayLen used together with isYun", "month lengths are taken from the non-leap table without the leap-year correction: 29 February is mishandled")
		}
	}
}

func c19Units(p *core.Program, r *core.Report) {
	want := map[string]string{"getDateUnit": "MILLIS_PER_DAY", "getTenMinUnit": "MILLIS_PER_TEN_MINUTE", "getFiveMinUnit": "MILLIS_PER_FIVE_MINUTE", "getMinUnit": "MILLIS_PER_MINUTE", "getHourUnit": "MILLIS_PER_HOUR"}
	for name, step := range want {
		fi := p.Method("util/dateutil", "DateTimeHelper", name)
		c := "util/dateutil.(*DateTimeHelper)." + name
		if fi == nil || fi.Decl.Body == nil || len(fi.Decl.Body.List) == 0 {
			r.Undec("C19.units", c, "-", "not found")
			continue
		}
		info := fi.Pkg.TypesInfo
		rs, ok := fi.Decl.Body.List[len(fi.Decl.Body.List)-1].(*ast.ReturnStmt)
		if !ok || len(rs.Results) != 1 || fi.Decl.Type.Params.NumFields() != 1 {
			r.Undec("C19.units", c, p.Pos(fi.Decl.Pos()), "no single result")
			continue
		}
		tobj := info.Defs[fi.Decl.Type.Params.List[0].Names[0]]
		var stepWant int64 = -1
		if pk := p.Pkg("util/dateutil"); pk != nil {
			if cst, isC := pk.Types.Scope().Lookup(step).(*types.Const); isC {
				fmt.Sscanf(cst.Val().ExactString(), "%d", &stepWant)
			}
		}
		// every value the function returns (not only the last return: a remembered answer handed out
		// on an earlier return makes the unit depend on what was asked before), with locals and value
		// helpers (unitOf(t, step)) expanded
		var rets []*ast.ReturnStmt
		ast.Inspect(fi.Decl.Body, func(n ast.Node) bool {
			switch v := n.(type) {
			case *ast.FuncLit:
				return false
			case *ast.ReturnStmt:
				rets = append(rets, v)
			}
			return true
		})
		good := len(rets) > 0
		s := ""
		for _, ret := range rets {
			if len(ret.Results) != 1 {
				good = false
				continue
			}
			val := stripConvs(info, inlineValue(p, fi, ret.Results[0], 0))
			one := false
			if be, isB := val.(*ast.BinaryExpr); isB && be.Op == token.QUO {
				if k, isC := constIntOf(info, stripConvs(info, be.Y)); isC && k == stepWant && stepWant > 0 {
					if sub, isS := stripConvs(info, be.X).(*ast.BinaryExpr); isS && sub.Op == token.SUB {
						tid, okT := stripConvs(info, sub.X).(*ast.Ident)
						bsel, okB := stripConvs(info, sub.Y).(*ast.SelectorExpr)
						if okT && okB && info.ObjectOf(tid) == tobj && bsel.Sel.Name == "BASE_TIME" {
							one = true
						}
					}
				}
			}
			if !one {
				good = false
				s = strings.ReplaceAll(stripSpaces(types.ExprString(val)), recvName(fi)+".", "")
			}
		}
		r.Check(good, "C19.units", c, p.Pos(fi.Decl.Pos()), "(t-BASE)/"+step, "a returned unit is computed as `"+s+"`, not (t-BASE)/"+step)
	}
}

// interval analysis of the formatter decomposition chains
type ival struct{ lo, hi float64 }

func c19Fields(p *core.Program, r *core.Report) {
	pk := p.Pkg("util/dateutil")
	if pk == nil {
		return
	}
	consts := func(info *types.Info, e ast.Expr) (float64, bool) {
		if n, ok := constIntOf(info, e); ok {
			return float64(n), true
		}
		return 0, false
	}
	for _, fi := range p.Funcs {
		if fi.Pkg != pk || fi.Decl.Body == nil || core.RecvNamed(fi.Obj) == nil {
			continue
		}
		info := fi.Pkg.TypesInfo
		rn := recvName(fi)
		env := map[string]ival{}
		guarded := false
		// an unexported helper that every caller reaches only behind its own `time < BASE_TIME` way out,
		// handing on its own time parameter, starts out with that established
		if !fi.Obj.Exported() {
			calls, allGuarded := 0, true
			for _, cf := range p.Funcs {
				if cf.Pkg != fi.Pkg || cf.Decl.Body == nil || cf == fi {
					continue
				}
				crn := recvName(cf)
				ast.Inspect(cf.Decl.Body, func(n ast.Node) bool {
					call, ok := n.(*ast.CallExpr)
					if !ok || calleeFunc(cf.Pkg.TypesInfo, call) != fi.Obj {
						return true
					}
					calls++
					g := false
					ast.Inspect(cf.Decl.Body, func(m ast.Node) bool {
						if ifs, ok := m.(*ast.IfStmt); ok && ifs.End() < call.Pos() && len(ifs.Body.List) > 0 {
							cs := strings.ReplaceAll(stripSpaces(types.ExprString(ifs.Cond)), crn+".", "")
							if _, isRet := ifs.Body.List[len(ifs.Body.List)-1].(*ast.ReturnStmt); isRet && cs == "time<BASE_TIME" {
								g = true
							}
						}
						return true
					})
					if !g {
						allGuarded = false
					}
					return true
				})
			}
			if calls > 0 && allGuarded {
				guarded = true
			}
		}
		var eval func(e ast.Expr) (ival, bool)
		eval = func(e ast.Expr) (ival, bool) {
			e = ast.Unparen(e)
			if c, ok := consts(info, e); ok {
				return ival{c, c}, true
			}
			switch v := e.(type) {
			case *ast.Ident:
				if iv, ok := env[v.Name]; ok {
					return iv, true
				}
			case *ast.CallExpr:
				if tv, ok := info.Types[v.Fun]; ok && tv.IsType() && len(v.Args) == 1 {
					return eval(v.Args[0])
				}
			case *ast.BinaryExpr:
				if v.Op == token.SUB && strings.ReplaceAll(stripSpaces(types.ExprString(v.Y)), rn+".", "") == "BASE_TIME" && isParamIdent(info, fi, v.X) {
					if guarded {
						return ival{0, math.Inf(1)}, true
					}
					return ival{math.Inf(-1), math.Inf(1)}, true
				}
				a, ok1 := eval(v.X)
				c, ok2 := consts(info, v.Y)
				if ok1 && ok2 && c > 0 {
					switch v.Op {
					case token.QUO:
						return ival{math.Floor(a.lo / c), math.Floor(a.hi / c)}, true
					case token.REM:
						if a.lo >= 0 {
							if a.hi < c {
								return a, true
							}
							return ival{0, c - 1}, true
						}
						return ival{-(c - 1), c - 1}, true
					}
				}
			}
			return ival{}, false
		}
		type use struct {
			what  string
			width int
			iv    ival
			pos   token.Pos
			known bool
		}
		var uses []use
		var walk func(list []ast.Stmt)
		walk = func(list []ast.Stmt) {
			for _, s := range list {
				switch v := s.(type) {
				case *ast.IfStmt:
					cs := strings.ReplaceAll(stripSpaces(types.ExprString(v.Cond)), rn+".", "")
					if cs == "time<BASE_TIME" && len(v.Body.List) > 0 {
						if _, isRet := v.Body.List[len(v.Body.List)-1].(*ast.ReturnStmt); isRet {
							guarded = true
						}
					}
				case *ast.AssignStmt:
					if len(v.Lhs) == 1 && len(v.Rhs) == 1 {
						if id, ok := v.Lhs[0].(*ast.Ident); ok {
							if iv, ok := eval(v.Rhs[0]); ok {
								env[id.Name] = iv
							} else {
								delete(env, id.Name)
							}
						}
					}
				}
				ast.Inspect(s, func(m ast.Node) bool {
					call, ok := m.(*ast.CallExpr)
					if !ok {
						return true
					}
					fn := types.ExprString(call.Fun)
					switch {
					case (fn == "mk2" || fn == "mk3") && len(call.Args) == 1:
						iv, known := eval(call.Args[0])
						w := 2
						if fn == "mk3" {
							w = 3
						}
						uses = append(uses, use{fn + "(" + types.ExprString(call.Args[0]) + ")", w, iv, call.Pos(), known})
					case fn == "fmt.Sprintf" && len(call.Args) >= 2:
						f, _ := info.Types[call.Args[0]]
						if f.Value == nil {
							return true
						}
						verbs := strings.Split(strings.Trim(f.Value.ExactString(), `"`), "%")[1:]
						for i, vb := range verbs {
							if i+1 >= len(call.Args) || !strings.HasPrefix(vb, "0") || len(vb) < 3 || vb[2] != 'd' {
								continue
							}
							w := int(vb[1] - '0')
							iv, known := eval(call.Args[i+1])
							uses = append(uses, use{"%0" + string(vb[1]) + "d of " + types.ExprString(call.Args[i+1]), w, iv, call.Pos(), known})
						}
					}
					return true
				})
			}
		}
		walk(fi.Decl.Body.List)
		if len(uses) == 0 {
			continue
		}
		var probs []string
		for _, u := range uses {
			if !u.known {
				continue
			}
			maxv := math.Pow(10, float64(u.width)) - 1
			if u.iv.hi > maxv || u.iv.lo < 0 {
				probs = append(probs, fmt.Sprintf("%s at %s: the value ranges over [%v,%v] but is padded to %d digits — values below %d print with fewer digits than larger ones (ambiguous) or the divisor chain is wrong", u.what, p.Pos(u.pos), u.iv.lo, u.iv.hi, u.width, int(math.Pow(10, float64(u.width-1)))))
			}
			// a field that can need more digits than the narrower helper pads to
			if u.width == 2 && u.iv.hi > 99 {
				continue
			}
		}
		fileProbs(r, "C19.fields", core.FuncName(fi.Obj), p.Pos(fi.Decl.Pos()), probs, fmt.Sprintf("%d padded fields fit their widths", len(uses)))
	}
}

// c19Pad: the zero-padding helpers mk2/mk3 produce exactly K characters for every value of the K-digit
// range. Partition evaluation over n: each path returns some zeros followed by the decimal text of n;
// for every value class, zeros + number of digits must be K.
func c19Pad(p *core.Program, r *core.Report) {
	for name, k := range map[string]int{"mk2": 2, "mk3": 3} {
		fi := p.Func("util/dateutil", name)
		c := "util/dateutil." + name
		if fi == nil || fi.Decl.Body == nil || fi.Decl.Type.Params.NumFields() != 1 {
			r.Undec("C19.fields", c, "-", "padding helper not found")
			continue
		}
		info := fi.Pkg.TypesInfo
		nobj := info.Defs[fi.Decl.Type.Params.List[0].Names[0]]
		max := int64(99)
		if k == 3 {
			max = 999
		}
		pths, err := evalClasses(p, fi, ivl{0, max}, symParam(nobj), nil, func(string) bool { return false })
		pos := p.Pos(fi.Decl.Pos())
		if err != "" {
			r.Undec("C19.fields", c, pos, "cannot enumerate the value classes: "+err)
			continue
		}
		digitClasses := []ivl{{0, 9}, {10, 99}, {100, 999}}
		bad := ""
		for i := range pths {
			pth := &pths[i]
			// zeros in the returned concatenation, and the number text
			zeros, num, other := 0, 0, false
			var walk func(s string)
			_ = walk
			rs := pth.RetS
			// RetS is a canonical text like ("00"+strconv.Itoa(S)) ; count the literal zeros and the number part
			for _, part := range strings.Split(strings.NewReplacer("(", "", ")", "").Replace(rs), "+") {
				part = strings.TrimSpace(part)
				switch {
				case strings.HasPrefix(part, `"`) && strings.HasSuffix(part, `"`):
					lit := strings.Trim(part, `"`)
					if strings.Trim(lit, "0") != "" {
						other = true
					}
					zeros += len(lit)
				case part == "strconv.ItoaS" || part == "strconv.FormatIntint64S,10" || part == "strconv.Itoaint(S":
					num++
				case part == "":
				default:
					other = true
				}
			}
			if other || num != 1 {
				bad = "returns `" + rs + "`, which is not zeros followed by the decimal text of the value"
				break
			}
			for _, dc := range digitClasses {
				piece := ivIntersect(pth.Set, ivSet{dc})
				if piece.empty() {
					continue
				}
				digits := 1
				if dc.lo >= 10 {
					digits = 2
				}
				if dc.lo >= 100 {
					digits = 3
				}
				if zeros+digits != k && bad == "" {
					bad = fmt.Sprintf("values %s are printed with %d zero(s) + %d digit(s) = %d characters, want %d: the fixed-width timestamp shifts", piece, zeros, digits, zeros+digits, k)
				}
			}
		}
		r.Check(bad == "", "C19.fields", c+" padding", pos, fmt.Sprintf("every value of 0..%d is printed with exactly %d characters", max, k), bad)
	}
}

func c19FormatParse(p *core.Program, r *core.Report) {
	ff := p.Method("util/dateutil", "DateFormat", "format")
	pf := p.Method("util/dateutil", "DateFormat", "Parse")
	if ff == nil {
		// the renderer under another name / as a function: whatever Format reaches that loops over the
		// pattern text
		ff = patternLoopFunc(p, p.Method("util/dateutil", "DateFormat", "Format"), 0)
	}
	if ff == nil || pf == nil {
		r.Undec("C19.format-parse", "util/dateutil.DateFormat", "-", "format/Parse not found")
		return
	}
	// Per-letter walk: for every pattern letter (and for a non-letter) the body of the loop over the
	// pattern is walked with the letter's value known; conditions and widths that depend only on the
	// letter (switch/if chains, a width helper, a width local) are evaluated, everything else is
	// explored on both outcomes. Recorded: the width handed to the number formatter/parser and whether a
	// literal is moved as a rune or a byte.
	letters := map[string]int64{}
	if pk := p.Pkg("util/dateutil"); pk != nil {
		for _, nm := range pk.Types.Scope().Names() {
			if cst, ok := pk.Types.Scope().Lookup(nm).(*types.Const); ok && strings.HasPrefix(nm, "DATEFORMAT_") {
				var v int64
				if _, err := fmt.Sscanf(cst.Val().ExactString(), "%d", &v); err == nil {
					letters[cst.Val().ExactString()] = v
				}
			}
		}
	}
	widths := func(fi *core.FuncInfo, fn string) (map[string]int64, string) {
		out := map[string]int64{}
		def := ""
		info := fi.Pkg.TypesInfo
		// the loop over the pattern: a range statement whose value variable is the letter
		var loop *ast.RangeStmt
		ast.Inspect(fi.Decl.Body, func(n ast.Node) bool {
			if rs, ok := n.(*ast.RangeStmt); ok && loop == nil && rs.Value != nil {
				// the pattern is text: a string, or a slice of runes/bytes (not a table of fields)
				switch xt := info.TypeOf(rs.X).Underlying().(type) {
				case *types.Basic:
					if xt.Info()&types.IsString != 0 {
						loop = rs
					}
				case *types.Slice:
					if b, ok := xt.Elem().Underlying().(*types.Basic); ok && b.Info()&types.IsInteger != 0 {
						loop = rs
					}
				}
			}
			return true
		})
		if loop == nil {
			// the pattern walked by index: for i := …; i < n; i++ { ch := pattern[i]; … }
			ast.Inspect(fi.Decl.Body, func(n ast.Node) bool {
				fs, ok := n.(*ast.ForStmt)
				if !ok || loop != nil || fs.Body == nil {
					return true
				}
				for _, st := range fs.Body.List {
					as, ok := st.(*ast.AssignStmt)
					if !ok || len(as.Lhs) != 1 || len(as.Rhs) != 1 {
						continue
					}
					id, ok := as.Lhs[0].(*ast.Ident)
					if !ok {
						continue
					}
					ix, ok := ast.Unparen(stripConvs(info, as.Rhs[0])).(*ast.IndexExpr)
					if !ok {
						continue
					}
					switch xt := info.TypeOf(ix.X).Underlying().(type) {
					case *types.Basic:
						if xt.Info()&types.IsString != 0 {
							loop = &ast.RangeStmt{For: fs.For, Value: id, Body: fs.Body}
						}
					case *types.Slice:
						if b, ok := xt.Elem().Underlying().(*types.Basic); ok && b.Info()&types.IsInteger != 0 {
							loop = &ast.RangeStmt{For: fs.For, Value: id, Body: fs.Body}
						}
					}
				}
				return true
			})
		}
		if loop == nil {
			return out, "?"
		}
		vid, _ := loop.Value.(*ast.Ident)
		if vid == nil {
			return out, "?"
		}
		chObj := info.Defs[vid]
		callee := func(call *ast.CallExpr) ([]types.Object, *ast.BlockStmt) {
			var id *ast.Ident
			switch f := ast.Unparen(call.Fun).(type) {
			case *ast.Ident:
				id = f
			case *ast.SelectorExpr:
				id = f.Sel // a method of a small helper type (w.field(ch)): judged by its parameters
			}
			if id == nil {
				return nil, nil
			}
			fnObj, _ := info.Uses[id].(*types.Func)
			if fnObj == nil {
				return nil, nil
			}
			cfi := p.FuncOf(fnObj)
			if cfi == nil || cfi.Decl.Body == nil || cfi.Pkg != fi.Pkg {
				return nil, nil
			}
			var ps []types.Object
			for _, f := range cfi.Decl.Type.Params.List {
				for _, n := range f.Names {
					ps = append(ps, info.Defs[n])
				}
			}
			return ps, cfi.Decl.Body
		}
		walkLetter := func(val int64) (w int64, unit string) {
			w = -1
			ints := map[types.Object]int64{chObj: val}
			sels := map[string]int64{}
			bools := map[string]bool{}
			tryInt := func(e ast.Expr) (int64, bool) {
				ev := &ordEval{info: info, side: func(ast.Expr) (string, string) { return "", "" }, ints: ints, bools: bools, sels: sels, callee: callee}
				n := ev.evalInt(e)
				return n, ev.err == ""
			}
			tryBool := func(e ast.Expr) (bool, bool) {
				ev := &ordEval{info: info, side: func(ast.Expr) (string, string) { return "", "" }, ints: ints, bools: bools, sels: sels, callee: callee}
				b := ev.evalBool(e)
				return b, ev.err == ""
			}
			// f, ok := table[ch] / f := table[ch] with table a package-level map or array literal keyed by
			// constants: membership and the constant fields of the entry are known once the letter is
			tableLookup := func(as *ast.AssignStmt) bool {
				if len(as.Rhs) != 1 || len(as.Lhs) < 1 || len(as.Lhs) > 2 {
					return false
				}
				ix, ok := ast.Unparen(as.Rhs[0]).(*ast.IndexExpr)
				if !ok {
					return false
				}
				tid, ok := ast.Unparen(ix.X).(*ast.Ident)
				if !ok {
					return false
				}
				tv, _ := info.ObjectOf(tid).(*types.Var)
				if tv == nil || tv.Parent() != tv.Pkg().Scope() {
					return false
				}
				key, ok := tryInt(ix.Index)
				if !ok {
					return false
				}
				se := &strEval{p: p, info: info}
				lit, linfo := se.pkgVarInit(tv)
				if lit == nil {
					return false
				}
				var entry ast.Expr
				for pos, el := range lit.Elts {
					k := int64(pos)
					val := el
					if kv, ok := el.(*ast.KeyValueExpr); ok {
						kk, ok := constIntOf(linfo, kv.Key)
						if !ok {
							return false
						}
						k, val = kk, kv.Value
					}
					if k == key {
						entry = val
					}
				}
				if len(as.Lhs) == 2 {
					if id, ok := as.Lhs[1].(*ast.Ident); ok && id.Name != "_" {
						bools[id.Name] = entry != nil
					}
				}
				id0, ok := as.Lhs[0].(*ast.Ident)
				if !ok || entry == nil {
					return true
				}
				if v, ok := constIntOf(linfo, entry); ok {
					if obj := info.ObjectOf(id0); obj != nil {
						ints[obj] = v
					}
					return true
				}
				if cl, ok := ast.Unparen(entry).(*ast.CompositeLit); ok {
					if st, ok := linfo.TypeOf(cl).Underlying().(*types.Struct); ok {
						for i, fe := range cl.Elts {
							name, val := "", fe
							if kv, ok := fe.(*ast.KeyValueExpr); ok {
								if kid, ok := kv.Key.(*ast.Ident); ok {
									name, val = kid.Name, kv.Value
								}
							} else if i < st.NumFields() {
								name = st.Field(i).Name()
							}
							if v, ok := constIntOf(linfo, val); ok && name != "" {
								sels[id0.Name+"."+name] = v
							}
						}
					}
				}
				return true
			}
			var scanCalls func(n ast.Node)
			scanCalls = func(n ast.Node) {
				ast.Inspect(n, func(m ast.Node) bool {
					call, ok := m.(*ast.CallExpr)
					if !ok {
						return true
					}
					s := stripSpaces(types.ExprString(call.Fun))
					if strings.HasSuffix(s, fn) && len(call.Args) == 2 {
						if v, ok := tryInt(call.Args[1]); ok {
							w = v
						} else {
							w = -2
						}
					} else if wi := fixedWidthParam(p, calleeFunc(info, call), 0); fn == ".ToInt" && wi >= 0 && wi < len(call.Args) {
						// a reader of exactly n bytes under another name (a cursor type's fixedInt(n)): the
						// parameter that sizes the byte buffer it reads into is the field width
						if v, ok := tryInt(call.Args[wi]); ok {
							w = v
						} else {
							w = -2
						}
						if cf := p.FuncOf(calleeFunc(info, call)); cf != nil {
							_ = cf
						}
					} else if ps, body := callee(call); body != nil && len(ps) == len(call.Args) {
						// w.number(v, width) wrapping the formatter: the width it passes on, with its
						// parameters standing for the arguments
						ast.Inspect(body, func(k ast.Node) bool {
							ic, ok := k.(*ast.CallExpr)
							if !ok {
								return true
							}
							is := stripSpaces(types.ExprString(ic.Fun))
							if strings.HasSuffix(is, ".WriteRune") || strings.HasSuffix(is, ".ReadRune") {
								unit = "rune"
							}
							if strings.HasSuffix(is, ".WriteByte") || strings.HasSuffix(is, ".ReadByte") {
								unit = "byte"
							}
							if len(ic.Args) != 2 || !strings.HasSuffix(is, fn) {
								return true
							}
							sub := map[types.Object]int64{}
							okAll := true
							for i, po := range ps {
								if v, ok := tryInt(call.Args[i]); ok {
									sub[po] = v
								} else if id, isId := ast.Unparen(ic.Args[1]).(*ast.Ident); isId && info.ObjectOf(id) == po {
									okAll = false
								}
							}
							ev := &ordEval{info: info, side: func(ast.Expr) (string, string) { return "", "" }, ints: sub, bools: map[string]bool{}}
							if n := ev.evalInt(ic.Args[1]); ev.err == "" && okAll {
								w = n
							} else {
								w = -2
							}
							return true
						})
					}
					if strings.HasSuffix(s, ".WriteRune") || strings.HasSuffix(s, ".ReadRune") {
						unit = "rune"
					}
					if strings.HasSuffix(s, ".WriteByte") || strings.HasSuffix(s, ".ReadByte") {
						unit = "byte"
					}
					return true
				})
			}
			var walk func(list []ast.Stmt) bool // returns true when the iteration ended (continue/return/break)
			walk = func(list []ast.Stmt) bool {
				for _, s := range list {
					switch v := s.(type) {
					case *ast.BlockStmt:
						if walk(v.List) {
							return true
						}
					case *ast.IfStmt:
						if v.Init != nil {
							if walk([]ast.Stmt{v.Init}) {
								return true
							}
						}
						scanCalls(v.Cond)
						if b, ok := tryBool(v.Cond); ok {
							if b {
								if walk(v.Body.List) {
									return true
								}
							} else if v.Else != nil {
								if walk([]ast.Stmt{v.Else}) {
									return true
								}
							}
						} else {
							// not decided by the letter: both arms may run
							e1 := walk(v.Body.List)
							e2 := false
							if v.Else != nil {
								e2 = walk([]ast.Stmt{v.Else})
							}
							if e1 && e2 {
								return true
							}
						}
					case *ast.SwitchStmt:
						var tag int64
						okTag := false
						if v.Tag != nil {
							tag, okTag = tryInt(v.Tag)
						}
						taken := false
						var defc *ast.CaseClause
						for _, cs := range v.Body.List {
							cl := cs.(*ast.CaseClause)
							if cl.List == nil {
								defc = cl
								continue
							}
							for _, ce := range cl.List {
								match := false
								if v.Tag != nil && okTag {
									if cv, ok := tryInt(ce); ok && cv == tag {
										match = true
									}
								} else if v.Tag == nil {
									if b, ok := tryBool(ce); ok && b {
										match = true
									}
								}
								if match && !taken {
									taken = true
									if walk(cl.Body) {
										return true
									}
								}
							}
						}
						if !taken && defc != nil {
							if walk(defc.Body) {
								return true
							}
						}
					case *ast.AssignStmt:
						scanCalls(v)
						if tableLookup(v) {
							continue
						}
						if len(v.Lhs) > 1 && len(v.Rhs) == 1 {
							// v, width, ok := w.field(ch): the helper interpreted with the letter known
							if call, isCall := ast.Unparen(v.Rhs[0]).(*ast.CallExpr); isCall {
								if _, body := callee(call); body != nil {
									ev := &ordEval{info: info, side: func(ast.Expr) (string, string) { return "", "" }, ints: ints, bools: bools, sels: sels, callee: callee}
									ev.run([]ast.Stmt{v})
								}
							}
							continue
						}
						if len(v.Lhs) == len(v.Rhs) {
							for i, l := range v.Lhs {
								if id, ok := l.(*ast.Ident); ok {
									if n, ok := tryInt(v.Rhs[i]); ok {
										if obj := info.ObjectOf(id); obj != nil {
											ints[obj] = n
										}
									}
								}
							}
						}
					case *ast.BranchStmt, *ast.ReturnStmt:
						scanCalls(v)
						return true
					default:
						scanCalls(v)
					}
				}
				return false
			}
			walk(loop.Body.List)
			return w, unit
		}
		for k, v := range letters {
			if w, _ := walkLetter(v); w >= 0 || w == -2 {
				out[k] = w
			}
		}
		_, def = walkLetter(int64('-'))
		return out, def
	}
	// format must be a function of the pattern and the instant only: it writes no field of the
	// formatter and does not hand back stored text (a cached result makes two instants print alike,
	// so Parse(Format(t)) is no longer t)
	{
		finfo := ff.Pkg.TypesInfo
		var frecv types.Object
		if ff.Decl.Recv != nil && len(ff.Decl.Recv.List) == 1 && len(ff.Decl.Recv.List[0].Names) == 1 {
			frecv = finfo.Defs[ff.Decl.Recv.List[0].Names[0]]
		}
		isRecvField := func(e ast.Expr) bool {
			sel, ok := ast.Unparen(e).(*ast.SelectorExpr)
			if !ok {
				return false
			}
			id, ok := ast.Unparen(sel.X).(*ast.Ident)
			return ok && frecv != nil && finfo.ObjectOf(id) == frecv
		}
		var impure []string
		ast.Inspect(ff.Decl.Body, func(n ast.Node) bool {
			switch v := n.(type) {
			case *ast.AssignStmt:
				for _, l := range v.Lhs {
					if isRecvField(l) {
						impure = append(impure, "assigns "+stripSpaces(types.ExprString(l)))
					}
					if ix, ok := ast.Unparen(l).(*ast.IndexExpr); ok && isRecvField(ix.X) {
						impure = append(impure, "writes "+stripSpaces(types.ExprString(ix.X)))
					}
				}
			case *ast.ReturnStmt:
				for _, res := range v.Results {
					if isRecvField(res) {
						impure = append(impure, "returns the stored "+stripSpaces(types.ExprString(res)))
					}
				}
			}
			return true
		})
		r.Check(len(impure) == 0, "C19.format-parse", "util/dateutil.DateFormat.format purity", p.Pos(ff.Decl.Pos()), "no state carried from one call to the next",
			"format "+strings.Join(uniq(impure), ", ")+": the text depends on earlier calls, not only on the instant, so format and Parse are no longer inverse")
	}
	fw, fdef := widths(ff, "LPadInt")
	pw, pdef := widths(pf, ".ToInt")
	pos := p.Pos(pf.Decl.Pos())
	for k, w := range fw {
		c := "util/dateutil.DateFormat letter " + k
		if w2, ok := pw[k]; !ok {
			r.Viol("C19.format-parse", c, pos, "formatted but not parsed")
		} else {
			r.Check(w == w2, "C19.format-parse", c, pos, fmt.Sprintf("width %d on both sides", w), fmt.Sprintf("formatted with %d digits, parsed with %d", w, w2))
		}
	}
	for k := range pw {
		if _, ok := fw[k]; !ok {
			r.Viol("C19.format-parse", "util/dateutil.DateFormat letter "+k, pos, "parsed but not formatted")
		}
	}
	r.Check(fdef == "rune" && pdef == "rune", "C19.format-parse", "util/dateutil.DateFormat literal separators", pos, "one rune written, one rune skipped",
		fmt.Sprintf("a literal separator is written as one %s but skipped as one %s: non-ASCII separators misalign the following fields", fdef, pdef))
}

// isParamIdent: e is (a conversion of) one of the function's parameters.
// fixedWidthParam: the index of the parameter of fn that is the number of bytes fn reads — it sizes
// a make([]byte, n) in fn, or is handed on to such a parameter of a function fn calls. -1 if none.
func fixedWidthParam(p *core.Program, fn *types.Func, depth int) int {
	if fn == nil || depth > 3 {
		return -1
	}
	cf := p.FuncOf(fn)
	if cf == nil || cf.Decl.Body == nil {
		return -1
	}
	info := cf.Pkg.TypesInfo
	var params []types.Object
	for _, f := range cf.Decl.Type.Params.List {
		for _, n := range f.Names {
			params = append(params, info.Defs[n])
		}
	}
	idx := -1
	ast.Inspect(cf.Decl.Body, func(n ast.Node) bool {
		call, ok := n.(*ast.CallExpr)
		if !ok || idx >= 0 {
			return true
		}
		paramOf := func(e ast.Expr) int {
			id, ok := ast.Unparen(e).(*ast.Ident)
			if !ok {
				return -1
			}
			for i, po := range params {
				if po != nil && info.ObjectOf(id) == po {
					return i
				}
			}
			return -1
		}
		if id, ok := call.Fun.(*ast.Ident); ok && id.Name == "make" && len(call.Args) >= 2 && isByteSlice(info.TypeOf(call.Args[0])) {
			idx = paramOf(call.Args[1])
			return true
		}
		if ci := fixedWidthParam(p, calleeFunc(info, call), depth+1); ci >= 0 && ci < len(call.Args) {
			idx = paramOf(call.Args[ci])
		}
		return true
	})
	return idx
}

func isParamIdent(info *types.Info, fi *core.FuncInfo, e ast.Expr) bool {
	id, ok := ast.Unparen(stripConvs(info, e)).(*ast.Ident)
	if !ok || fi.Decl.Type.Params == nil {
		return false
	}
	o := info.ObjectOf(id)
	for _, f := range fi.Decl.Type.Params.List {
		for _, n := range f.Names {
			if info.Defs[n] == o {
				return true
			}
		}
	}
	return false
}

// c19Layouts: wherever the calendar helpers hand formatting or parsing to package time, the layout
// must not be a 12-hour one without an AM/PM marker (03:04 denotes two instants a day).
func c19Layouts(p *core.Program, r *core.Report) {
	pk := p.Pkg("util/dateutil")
	if pk == nil {
		return
	}
	for _, fi := range p.Funcs {
		if fi.Pkg != pk || fi.Decl.Body == nil {
			continue
		}
		info := fi.Pkg.TypesInfo
		ast.Inspect(fi.Decl.Body, func(n ast.Node) bool {
			call, ok := n.(*ast.CallExpr)
			if !ok {
				return true
			}
			sel, ok := ast.Unparen(call.Fun).(*ast.SelectorExpr)
			if !ok {
				return true
			}
			fn, _ := info.Uses[sel.Sel].(*types.Func)
			if fn == nil || fn.Pkg() == nil || fn.Pkg().Path() != "time" {
				return true
			}
			li := -1
			switch fn.Name() {
			case "Format", "Parse", "ParseInLocation":
				li = 0
			case "AppendFormat":
				li = 1
			}
			if li < 0 || li >= len(call.Args) {
				return true
			}
			c := core.FuncName(fi.Obj) + " time." + fn.Name()
			pos := p.Pos(call.Pos())
			tv := info.Types[call.Args[li]]
			if tv.Value == nil || tv.Value.Kind() != constant.String {
				r.Info("C19.layouts", c, pos, "layout is not a constant")
				return true
			}
			layout := constant.StringVal(tv.Value)
			twelve := strings.Contains(layout, "03") || hasLoneHour3(layout)
			marker := strings.Contains(layout, "PM") || strings.Contains(layout, "pm")
			r.Check(!twelve || marker, "C19.layouts", c, pos, fmt.Sprintf("layout %q is unambiguous", layout),
				fmt.Sprintf("layout %q has a 12-hour hour field and no AM/PM marker: afternoon instants are rendered as morning ones (13:00 as 01:00)", layout))
			return true
		})
	}
}

// hasLoneHour3: the layout contains the one-digit 12-hour token "3" (not part of 03, .000-style or a year).
func hasLoneHour3(l string) bool {
	for i := 0; i < len(l); i++ {
		if l[i] != '3' {
			continue
		}
		prevDigit := i > 0 && l[i-1] >= '0' && l[i-1] <= '9'
		nextDigit := i+1 < len(l) && l[i+1] >= '0' && l[i+1] <= '9'
		if !prevDigit && !nextDigit {
			return true
		}
	}
	return false
}

// c19Wrappers: util/dateutil's exported functions are thin wrappers over the per-zone helper. What
// the helper computes is decided by the other rules for the instant it is GIVEN; this rule decides
// that the wrapper gives it the caller's instant: every int64 argument of a DateTimeHelper method
// called from a package function is that function's own parameter or a clock reading.
func c19Wrappers(p *core.Program, r *core.Report) {
	pk := p.Pkg("util/dateutil")
	if pk == nil {
		return
	}
	for _, fi := range p.Funcs {
		if fi.Pkg != pk || fi.Decl.Body == nil || fi.Decl.Recv != nil || !fi.Obj.Exported() {
			continue
		}
		info := fi.Pkg.TypesInfo
		n := 0
		var probs []string
		ast.Inspect(fi.Decl.Body, func(m ast.Node) bool {
			call, ok := m.(*ast.CallExpr)
			if !ok {
				return true
			}
			sel, ok := call.Fun.(*ast.SelectorExpr)
			if !ok {
				return true
			}
			fn, _ := info.Uses[sel.Sel].(*types.Func)
			if fn == nil {
				return true
			}
			rn := core.RecvNamed(fn)
			if rn == nil || rn.Obj().Name() != "DateTimeHelper" {
				return true
			}
			for _, a := range call.Args {
				b, ok := info.TypeOf(a).Underlying().(*types.Basic)
				if !ok || b.Kind() != types.Int64 {
					continue
				}
				n++
				e := ast.Unparen(stripConvs(info, expandLocals(info, fi.Decl.Body, a)))
				if isParamIdent(info, fi, e) {
					continue
				}
				if c, ok := e.(*ast.CallExpr); ok && isClockCall(info, c) && len(c.Args) == 0 {
					continue
				}
				if tv, ok := info.Types[e]; ok && tv.Value != nil {
					continue
				}
				probs = append(probs, fmt.Sprintf("%s: %s is given `%s`, not the caller's instant", p.Pos(call.Pos()), fn.Name(), types.ExprString(a)))
			}
			return true
		})
		if n > 0 {
			fileProbs(r, "C19.wrappers", core.FuncName(fi.Obj), p.Pos(fi.Decl.Pos()), probs, "the instant is passed through unchanged")
		}
	}
}

var c19VerbRe = regexp.MustCompile(`%([-+# 0]*)(\d+)?(?:\.\d+)?([a-zA-Z%])`)

// c19Verbs: fixed-width numeric fields printed through fmt are zero-padded. In util/dateutil every
// integer verb of a constant format that carries a width also carries the 0 flag (and no '-'):
// "%2d" renders 9 as " 9", which is neither the layout the helpers promise nor parseable back.
func c19Verbs(p *core.Program, r *core.Report) {
	pk := p.Pkg("util/dateutil")
	if pk == nil {
		return
	}
	for _, fi := range p.Funcs {
		if fi.Pkg != pk || fi.Decl.Body == nil {
			continue
		}
		info := fi.Pkg.TypesInfo
		verbs := 0
		var probs []string
		ast.Inspect(fi.Decl.Body, func(n ast.Node) bool {
			call, ok := n.(*ast.CallExpr)
			if !ok || len(call.Args) == 0 {
				return true
			}
			if !(isCallTo(info, call, "fmt", "Sprintf") || isCallTo(info, call, "fmt", "Fprintf") || isCallTo(info, call, "fmt", "Appendf")) {
				return true
			}
			fa := call.Args[0]
			if !isCallTo(info, call, "fmt", "Sprintf") {
				if len(call.Args) < 2 {
					return true
				}
				fa = call.Args[1]
			}
			tv, ok := info.Types[fa]
			if !ok || tv.Value == nil || tv.Value.Kind() != constant.String {
				return true
			}
			for _, m := range c19VerbRe.FindAllStringSubmatch(constant.StringVal(tv.Value), -1) {
				if m[3] != "d" || m[2] == "" {
					continue
				}
				verbs++
				if !strings.Contains(m[1], "0") || strings.Contains(m[1], "-") {
					probs = append(probs, fmt.Sprintf("%s: the verb %q pads with blanks, not zeros", p.Pos(call.Pos()), m[0]))
				}
			}
			return true
		})
		if verbs > 0 {
			fileProbs(r, "C19.fields", core.FuncName(fi.Obj)+" verbs", p.Pos(fi.Decl.Pos()), probs, "width verbs are zero-padded")
		}
	}
}

// c19Base10: the digits of a date field are decimal digits. Every strconv.ParseInt/ParseUint in
// util/dateutil names base 10 (strconv.Atoi does by definition): base 0 reads the zero-padded
// fields the formatter writes ("08", "09") as octal.
func c19Base10(p *core.Program, r *core.Report) {
	pk := p.Pkg("util/dateutil")
	if pk == nil {
		return
	}
	for _, fi := range p.Funcs {
		if fi.Pkg != pk || fi.Decl.Body == nil {
			continue
		}
		info := fi.Pkg.TypesInfo
		parses := 0
		var probs []string
		ast.Inspect(fi.Decl.Body, func(n ast.Node) bool {
			call, ok := n.(*ast.CallExpr)
			if !ok {
				return true
			}
			switch {
			case isCallTo(info, call, "strconv", "Atoi"):
				parses++
			case (isCallTo(info, call, "strconv", "ParseInt") || isCallTo(info, call, "strconv", "ParseUint")) && len(call.Args) == 3:
				parses++
				if b, ok := constIntOf(info, call.Args[1]); !ok || b != 10 {
					probs = append(probs, fmt.Sprintf("%s: a date field is parsed with base %s: zero-padded fields such as \"08\" are read as octal", p.Pos(call.Pos()), types.ExprString(call.Args[1])))
				}
			}
			return true
		})
		if parses > 0 {
			fileProbs(r, "C19.format-parse", core.FuncName(fi.Obj)+" base", p.Pos(fi.Decl.Pos()), probs, "fields are parsed as decimal numbers")
		}
	}
}

// patternLoopFunc: the function reachable from start (same package, depth <= 3) whose body ranges over
// text (a string or a slice of runes/bytes) — the renderer of a pattern.
func patternLoopFunc(p *core.Program, start *core.FuncInfo, depth int) *core.FuncInfo {
	if start == nil || start.Decl.Body == nil || depth > 3 {
		return nil
	}
	info := start.Pkg.TypesInfo
	found := false
	ast.Inspect(start.Decl.Body, func(n ast.Node) bool {
		if rs, ok := n.(*ast.RangeStmt); ok && rs.Value != nil {
			switch xt := info.TypeOf(rs.X).Underlying().(type) {
			case *types.Basic:
				if xt.Info()&types.IsString != 0 {
					found = true
				}
			case *types.Slice:
				if b, ok := xt.Elem().Underlying().(*types.Basic); ok && b.Info()&types.IsInteger != 0 {
					found = true
				}
			}
		}
		return true
	})
	if found {
		return start
	}
	var out *core.FuncInfo
	ast.Inspect(start.Decl.Body, func(n ast.Node) bool {
		if call, ok := n.(*ast.CallExpr); ok && out == nil {
			if fn := calleeFunc(info, call); fn != nil && fn.Pkg() == start.Obj.Pkg() {
				if cf := p.FuncOf(fn); cf != nil && cf != start {
					out = patternLoopFunc(p, cf, depth+1)
				}
			}
		}
		return true
	})
	return out
}
