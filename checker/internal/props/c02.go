package props

import (
	"go/ast"
	"go/types"
	"strings"

	"golibcheck/internal/core"
	"golibcheck/internal/wire"
)

// C02 — tagged value codec round-trips every value type, nested to any depth.
func init() { register(&Checker{ID: "C02", Canaries: c02Canaries, Run: runC02}) }

var c02Spec = `package value

import "github.com/whatap/golib/io"

// Reference decoders of the value format, written from the format description (one per type code),
// independent of the library's own Read methods. Each real Write is matched against its reference.

func zzSpecNullValue(this *NullValue, din *io.DataInputX)   {}
func zzSpecBoolValue(this *BoolValue, din *io.DataInputX)   { this.Val = din.ReadBool() }
func zzSpecDecimalValue(this *DecimalValue, din *io.DataInputX) { this.Val = din.ReadDecimal() }
func zzSpecIntValue(this *IntValue, din *io.DataInputX)     { this.Val = din.ReadInt() }
func zzSpecLongValue(this *LongValue, din *io.DataInputX)   { this.Val = din.ReadLong() }
func zzSpecFloatValue(this *FloatValue, din *io.DataInputX) { this.Val = din.ReadFloat() }
func zzSpecDoubleValue(this *DoubleValue, din *io.DataInputX) { this.Val = din.ReadDouble() }
func zzSpecTextValue(this *TextValue, din *io.DataInputX)   { this.Val = din.ReadText() }
func zzSpecTextHashValue(this *TextHashValue, din *io.DataInputX) { this.Val = din.ReadInt() }
func zzSpecBlobValue(this *BlobValue, din *io.DataInputX)   { this.Val = din.ReadBlob() }
func zzSpecIP4Value(this *IP4Value, din *io.DataInputX)     { this.Val = din.ReadBytes(4) }
func zzSpecLongSummary(this *LongSummary, din *io.DataInputX) {
	this.Sum = din.ReadLong()
	this.Count = din.ReadInt()
	this.Min = din.ReadLong()
	this.Max = din.ReadLong()
}
func zzSpecDoubleSummary(this *DoubleSummary, din *io.DataInputX) {
	this.Sum = din.ReadDouble()
	this.Count = din.ReadInt()
	this.Min = din.ReadDouble()
	this.Max = din.ReadDouble()
}
func zzSpecIntArray(this *IntArray, din *io.DataInputX)     { this.Val = din.ReadIntArray() }
func zzSpecLongArray(this *LongArray, din *io.DataInputX)   { this.Val = din.ReadLongArray() }
func zzSpecFloatArray(this *FloatArray, din *io.DataInputX) { this.Val = din.ReadFloatArray() }
func zzSpecTextArray(this *TextArray, din *io.DataInputX)   { this.Val = din.ReadTextArray() }
func zzSpecListValue(this *ListValue, din *io.DataInputX) {
	n := int(din.ReadDecimal())
	for i := 0; i < n; i++ {
		this.table = append(this.table, ReadValue(din))
	}
}
func zzSpecMapValue(this *MapValue, din *io.DataInputX) {
	n := int(din.ReadDecimal())
	for i := 0; i < n; i++ {
		key := din.ReadText()
		this.table.Put(key, ReadValue(din))
	}
}
func zzSpecIntMapValue(this *IntMapValue, din *io.DataInputX) {
	n := int(din.ReadDecimal())
	for i := 0; i < n; i++ {
		key := din.ReadInt()
		this.table.Put(key, ReadValue(din))
	}
}
`

var c02SpecTypes = []string{"NullValue", "BoolValue", "DecimalValue", "IntValue", "LongValue", "FloatValue", "DoubleValue", "TextValue", "TextHashValue", "BlobValue", "IP4Value",
	"LongSummary", "DoubleSummary", "IntArray", "LongArray", "FloatArray", "TextArray", "ListValue", "MapValue", "IntMapValue"}

func c02Canaries() []core.Canary {
	return []core.Canary{{RelDir: "lang/value", Name: "c02spec", Src: c02Spec, Spec: true}, {RelDir: "lang/value", Name: "c02", Src: `package value

import "github.com/whatap/golib/io"

type zzCanaryVal struct {
	A int32
	B float32
}

// float written, int read back: same width, different interpretation
func (this *zzCanaryVal) Write(o *io.DataOutputX) { o.WriteInt(this.A); o.WriteFloat(this.B) }
func (this *zzCanaryVal) Read(in *io.DataInputX)  { this.A = in.ReadInt(); this.A = in.ReadInt() }
`, Expect: []core.CanaryExpect{{Rule: "C02.pairs", Sub: "zzCanaryVal"}}}}
}

func runC02(p *core.Program, r *core.Report) {
	r.Explanation = "Static agreement of the tagged value codec (lang/value): CreateValue's tag switch against every type's GetValueType(); Write~Read wire-grammar agreement for every value type on every joint path (containers as count-prefixed repetitions of tagged values, closed co-inductively through the WriteValue~ReadValue pair); insertion/enumeration order of the map and list containers. Nothing is executed."
	r.NotDecided = []string{"equality of content after the round trip (depends on C09 for the backing maps and C20 for Equals)", "whether the hand-written value-format reference is what non-Go peers implement (frozen from the reviewed writers); byte equality for concrete values follows from layout + C01 and is not executed"}
	r.Assumptions = []string{"io primitives have the layouts proved in C01", "recursive occurrences of Value are under a tag read, so the co-inductive use of the WriteValue~ReadValue pair is sound"}
	x := wire.NewExtractor(p)
	r.Rule("C02.registry", "CreateValue case K creates a type whose GetValueType() returns K; no tag twice", 20)
	r.Rule("C02.pairs", "Write~Read of every value type (and WriteValue~ReadValue) agree on the layout on every joint path", 20)
	r.Rule("C02.fields", "each written field is stored by the reader into the same field", 18)
	r.Rule("C02.countlink", "container readers loop over the count the writer emitted", 18)
	r.Rule("C02.reference", "every value type's Write emits exactly the layout of an independent reference decoder of the value format (kinds, order, counts, fields)", 20)
	r.Rule("C02.fresh", "every value the factory hands out is freshly allocated (no shared instances that a later Read overwrites)", 20)
	r.Rule("C02.order", "containers are rebuilt in the order written: reader appends at the tail, writer enumerates from the head", 3)
	for _, sfx := range []struct{ s, doc string }{{"insert", "new key: one bucket insertion, one tail link, one size increment"}, {"update", "existing key: size/buckets unchanged"},
		{"bound", "eviction only with a maximum set"}, {"growth", "rehash iff count >= threshold; table/index recomputed"}, {"remove", "remove unlinks and counts once"},
		{"rehash", "rehash keeps every entry findable (same hash as lookups)"}, {"walks", "whole-table walks cover all buckets"}, {"enumer", "enumerators carry the matching discriminator"},
		{"sort", "Sort re-inserts every entry"}, {"index", "bucket indices non-negative"}, {"sentinel", "the header of the order ring is never taken for an entry (Put into an empty map creates an entry)"}} {
		r.Rule("C02.backing."+sfx.s, "the linked maps that back MapValue/IntMapValue keep every decoded entry retrievable: "+sfx.doc+" (C09's rule table on those two types)", 2)
	}
	r.Rule("C02.verbatim", "a value decoder stores what it read: no decoded text is passed through a text-transforming function on its way into the value", 15)
	verbatimRule(p, r, "C02.verbatim", []string{"lang/value"})
	r.Rule("C02.whole-field", "a value writes all of what it holds: no stream write of lang/value emits a prefix of a field cut to a constant or to what a fitting helper answers", 20)
	c02WholeField(p, r, "C02.whole-field", "lang/value")
	r.Rule("C02.width", "a payload written without a length and read back with a fixed one has that width wherever it is stored (Write emits exactly what Read consumes)", 1)
	rawWidthInvariant(p, r, "C02.width", "lang/value")
	r.Rule("C02.in-place", "decoders store what they read into the container itself (no decode into a range copy, no append after a full-length make)", 10)
	decodeInPlace(p, x, r, "C02.in-place", []string{"lang/value"})
	reg := checkRegistry(p, r, "C02.registry", "lang/value", "CreateValue", "Value", "GetValueType")
	if !reg.DefaultPanics {
		r.Viol("C02.registry", "lang/value.CreateValue default", "-", "an unknown type code does not end in panic: ReadValue would dereference a nil Value or fabricate one")
	} else {
		r.OK("C02.registry", "lang/value.CreateValue default", "-", "unknown code panics (recoverable)")
	}
	pairs, _ := discoverPairs(p, x, []string{"lang/value"})
	runPairs(p, x, r, pairs, pairRules{"C02.pairs", "C02.fields", "C02.countlink"}, tierDepth(r))
	// the real writers against the hand-written reference decoders (overlay)
	var refPairs []codecPair
	for _, name := range c02SpecTypes {
		w := p.Method("lang/value", name, "Write")
		s := p.Func("lang/value", "zzSpec"+name)
		cn := "lang/value.(*" + name + ").Write ~ reference"
		if w == nil || s == nil {
			r.Undec("C02.reference", cn, "-", "writer or reference decoder not found")
			continue
		}
		wo, _ := x.StreamParams(w)
		_, si := x.StreamParams(s)
		if len(wo) != 1 || len(si) != 1 {
			r.Undec("C02.reference", cn, "-", "stream parameters not found")
			continue
		}
		refPairs = append(refPairs, codecPair{W: w, R: s, WS: wo[0], RS: si[0], Name: cn})
	}
	runPairs(p, x, r, refPairs, pairRules{"C02.reference", "C02.reference", "C02.reference"}, tierDepth(r))
	c02Order(p, r)
	c02Backing(p, r)
	checkFactoryFresh(p, r, "C02.fresh", "lang/value", "CreateValue")
}

// c02Order: MapValue/IntMapValue.Read insert with the plain Put of the backing linked map (tail
// insertion) inside the decode loop and Write enumerates Keys()/Entries() (head to tail);
// ListValue reads by append / index-ascending and writes index-ascending.
// c02Backing runs the linked-map rule table (C09) on the util/hmap types that back the map values:
// a decoded map with more entries than the initial threshold is only equal to what was written if
// growth, re-bucketing and lookup agree.
func c02Backing(p *core.Program, r *core.Report) {
	defer setLinkCanon(nil)
	hmapProg = p
	modes := hmapModes(p)
	seen := map[*types.Named]bool{}
	for _, tn := range []string{"MapValue", "IntMapValue"} {
		pk := p.Pkg("lang/value")
		if pk == nil {
			continue
		}
		obj, _ := pk.Types.Scope().Lookup(tn).(*types.TypeName)
		if obj == nil {
			r.Undec("C02.backing.insert", "lang/value."+tn, "-", "type not found")
			continue
		}
		st, _ := obj.Type().Underlying().(*types.Struct)
		found := false
		for i := 0; st != nil && i < st.NumFields(); i++ {
			ft := st.Field(i).Type()
			if pt, ok := ft.(*types.Pointer); ok {
				ft = pt.Elem()
			}
			nt, ok := ft.(*types.Named)
			if !ok || nt.Obj().Pkg() == nil || !strings.HasSuffix(nt.Obj().Pkg().Path(), "/util/hmap") {
				continue
			}
			found = true
			if seen[nt] {
				continue
			}
			seen[nt] = true
			setLinkCanon(nt)
			h := &hmapType{p: p, r: r, pre: "C02.backing", t: nt, name: "util/hmap." + nt.Obj().Name(), linked: true, hasMax: structHasField(nt, "max"), modes: modes}
			h.checkInsertHelpers()
			h.checkRemove()
			h.checkMoves()
			h.checkRehash()
			h.checkWalks()
			h.checkEnumer()
			h.checkSort()
			h.checkIndexSign()
			h.checkSentinel()
		}
		if !found {
			r.Undec("C02.backing.insert", "lang/value."+tn, "-", "no util/hmap field backs this value type")
		}
	}
}

func c02Order(p *core.Program, r *core.Report) {
	for _, tn := range []string{"MapValue", "IntMapValue"} {
		rd := p.Method("lang/value", tn, "Read")
		wr := p.Method("lang/value", tn, "Write")
		c := "lang/value." + tn
		if rd == nil || wr == nil {
			r.Undec("C02.order", c, "-", "Read/Write not found")
			continue
		}
		var puts, other []string
		ast.Inspect(rd.Decl.Body, func(n ast.Node) bool {
			if loop, ok := n.(*ast.ForStmt); ok {
				ast.Inspect(loop.Body, func(m ast.Node) bool {
					if call, ok := m.(*ast.CallExpr); ok {
						if sel, ok := call.Fun.(*ast.SelectorExpr); ok {
							if inner, ok := sel.X.(*ast.SelectorExpr); ok && inner.Sel.Name == "table" {
								if sel.Sel.Name == "Put" {
									puts = append(puts, sel.Sel.Name)
								} else {
									other = append(other, sel.Sel.Name)
								}
							}
						}
					}
					return true
				})
			}
			return true
		})
		enumFwd := false
		ast.Inspect(wr.Decl.Body, func(n ast.Node) bool {
			if call, ok := n.(*ast.CallExpr); ok {
				if sel, ok := call.Fun.(*ast.SelectorExpr); ok && (sel.Sel.Name == "Keys" || sel.Sel.Name == "Entries") {
					enumFwd = true
				}
			}
			return true
		})
		if len(puts) == 1 && len(other) == 0 && enumFwd {
			r.OK("C02.order", c, p.Pos(rd.Decl.Pos()), "Read inserts with table.Put (tail); Write enumerates Keys()/Entries() (head first); end/enumeration semantics of the linked map are C09 obligations")
		} else {
			r.Viol("C02.order", c, p.Pos(rd.Decl.Pos()), "decode loop does not insert with exactly one table.Put (found "+joinS(puts)+" / "+joinS(other)+") or Write does not enumerate Keys()/Entries()")
		}
	}
	// ListValue: Write loops i ascending over table; Read appends in loop order
	rd := p.Method("lang/value", "ListValue", "Read")
	wr := p.Method("lang/value", "ListValue", "Write")
	if rd == nil || wr == nil {
		r.Undec("C02.order", "lang/value.ListValue", "-", "Read/Write not found")
		return
	}
	asc := func(fi *core.FuncInfo) bool {
		ok := false
		ast.Inspect(fi.Decl.Body, func(n ast.Node) bool {
			if loop, isLoop := n.(*ast.ForStmt); isLoop {
				if post, isInc := loop.Post.(*ast.IncDecStmt); isInc && post.Tok.String() == "++" {
					ok = true
				}
			}
			if _, isRange := n.(*ast.RangeStmt); isRange {
				ok = true
			}
			return true
		})
		return ok
	}
	r.Check(asc(rd) && asc(wr), "C02.order", "lang/value.ListValue", p.Pos(rd.Decl.Pos()), "index-ascending on both sides", "list items are not written and read index-ascending")
}

func joinS(s []string) string {
	out := "["
	for i, x := range s {
		if i > 0 {
			out += ","
		}
		out += x
	}
	return out + "]"
}

// c02WholeField: a value writes all of what it holds. A stream write in lang/value whose argument is
// a prefix of a field of the value (`this.Val[:n]`) with n a constant or the answer of a function of
// the module (a "how much fits" helper) leaves the elements beyond n unwritten: the value that is read
// back is shorter than the one that was written, silently.
func c02WholeField(p *core.Program, r *core.Report, rule string, rel string) {
	pk := p.Pkg(rel)
	if pk == nil {
		r.Undec(rule, rel, "-", "package not found")
		return
	}
	x := wire.NewExtractor(p)
	for _, fi := range p.Funcs {
		if fi.Pkg != pk || fi.Decl.Body == nil || fi.Decl.Recv == nil {
			continue
		}
		outs, _ := x.StreamParams(fi)
		if len(outs) == 0 {
			continue
		}
		info := fi.Pkg.TypesInfo
		rn := recvName(fi)
		bad := ""
		n := 0
		ast.Inspect(fi.Decl.Body, func(m ast.Node) bool {
			call, ok := m.(*ast.CallExpr)
			if !ok {
				return true
			}
			sel, ok := ast.Unparen(call.Fun).(*ast.SelectorExpr)
			if !ok || !strings.HasPrefix(sel.Sel.Name, "Write") {
				return true
			}
			if tv, ok := info.Types[sel.X]; !ok || !x.IsStream(tv.Type) {
				return true
			}
			for _, a := range call.Args {
				se, ok := ast.Unparen(a).(*ast.SliceExpr)
				if !ok || se.High == nil {
					continue
				}
				fsel, ok := ast.Unparen(se.X).(*ast.SelectorExpr)
				if !ok {
					continue
				}
				if id, ok := ast.Unparen(fsel.X).(*ast.Ident); !ok || id.Name != rn {
					continue
				}
				n++
				hi := se.High
				if id, ok := ast.Unparen(hi).(*ast.Ident); ok {
					if d := singleDefIn(info, fi.Decl.Body, info.ObjectOf(id)); d != nil {
						hi = d
					}
				}
				if tv, ok := info.Types[hi]; ok && tv.Value != nil {
					bad = "writes " + types.ExprString(a) + ": a prefix of constant length"
				}
				ast.Inspect(hi, func(k ast.Node) bool {
					if c, ok := k.(*ast.CallExpr); ok {
						if fn := calleeFunc(info, c); fn != nil && fn.Pkg() != nil && strings.HasPrefix(fn.Pkg().Path(), core.ModPath) {
							bad = "writes " + types.ExprString(a) + ": a prefix whose length " + fn.Name() + " decides"
						}
					}
					return true
				})
			}
			return true
		})
		if len(outs) > 0 && (n > 0 || bad != "") {
			r.Check(bad == "", rule, core.FuncName(fi.Obj)+" whole field", p.Pos(fi.Decl.Pos()), "prefixes written are bounded by the field's own length", bad+": the elements beyond it are never written and the value read back is shorter than the value written")
		} else {
			r.OK(rule, core.FuncName(fi.Obj)+" whole field", p.Pos(fi.Decl.Pos()), "fields are written whole")
		}
	}
}
