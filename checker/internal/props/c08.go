package props

import (
	"fmt"
	"go/ast"
	"go/types"
	"golibcheck/internal/paths"
	"strings"

	"golibcheck/internal/core"
	"golibcheck/internal/wire"
)

// C08 — profile steps and transaction records round-trip as self-delimiting streams.
func init() { register(&Checker{ID: "C08", Canaries: c08Canaries, Run: runC08}) }

func c08Canaries() []core.Canary {
	return []core.Canary{{RelDir: "lang/step", Name: "c08", Src: `package step

import "github.com/whatap/golib/io"

type zzCanaryStep struct {
	Ver  byte
	A, B int32
	Opt  *int32
}

// version 2 section written, reader only knows version 1; optional section without a flag
func (this *zzCanaryStep) Write(o *io.DataOutputX) {
	o.WriteByte(this.Ver)
	o.WriteDecimal(int64(this.A))
	if this.Ver >= 2 {
		o.WriteDecimal(int64(this.B))
	}
}
func (this *zzCanaryStep) Read(in *io.DataInputX) {
	ver := in.ReadByte()
	this.A = int32(in.ReadDecimal())
	if ver > 2 {
		this.B = int32(in.ReadDecimal())
	}
}

type zzCanaryOpt struct {
	A   int32
	Opt []int32
}

func (this *zzCanaryOpt) Write(o *io.DataOutputX) {
	o.WriteDecimal(int64(this.A))
	if this.Opt != nil {
		o.WriteIntArray(this.Opt)
	}
}
func (this *zzCanaryOpt) Read(in *io.DataInputX) {
	this.A = int32(in.ReadDecimal())
	this.Opt = in.ReadIntArray()
}
`, Expect: []core.CanaryExpect{{Rule: "C08.pairs", Sub: "zzCanaryStep"}, {Rule: "C08.pairs", Sub: "zzCanaryOpt"}}}}
}

func runC08(p *core.Program, r *core.Report) {
	r.Explanation = "Static agreement of step, service and transaction-record codecs (lang/step, lang/service, and the packs that carry them): registries CreateStep/GetStepType and CreateService/GetServiceType; Write~Read wire-grammar agreement on every joint path including every version switch and every optional section (a conditional write without a wire flag the reader branches on is a disagreement on the path where it is absent); self-delimitation (no read-until-EOF inside a step, nested blobs length-prefixed and ending together); the only post-read mutation in TxRecord.Read is the sanctioned error-level defaulting."
	r.NotDecided = []string{"values through narrowing conversions", "contents of the opaque profile blob carried by ProfilePack.Steps"}
	r.Assumptions = []string{"io primitive layouts (C01)", "value codec (C02) for custom fields and message attributes"}
	x := wire.NewExtractor(p)
	r.Rule("C08.registry", "CreateStep/CreateService case K creates a type whose GetStepType()/GetServiceType() returns K", 12)
	r.Rule("C08.pairs", "Write~Read of every step, service and record codec agree on the layout on every joint path (versions, optional sections)", 18)
	r.Rule("C08.fields", "each written field is restored into the same field; presence conditions imply the omitted field is default", 16)
	r.Rule("C08.countlink", "repetitions are driven by the count written", 16)
	r.Rule("C08.fresh", "every step/service object the factories hand out is freshly allocated", 10)
	r.Rule("C08.selfdelim", "no step/record reader consumes input up to end-of-stream (no Available()-driven reads): steps concatenate", 14)
	r.Rule("C08.all-steps", "a step list is written element by element: every iteration over the steps emits its step (none is skipped on any condition)", 1)
	r.Rule("C08.defaulting", "TxRecord.Read mutates decoded fields only by the sanctioned ErrorLevel defaulting", 1)
	r.Rule("C08.in-place", "decoders store what they read into the container itself (no decode into a range copy, no append after a full-length make)", 10)
	decodeInPlace(p, x, r, "C08.in-place", []string{"lang/step", "lang/service"})
	r.Rule("C08.verbatim-input", "a decoder entry point of lang/step and lang/service builds its input stream over the bytes it was handed (or an explicit re-slice), never over what a function made of them (shared with C03.verbatim-input)", 1)
	c03VerbatimInput(p, r, "C08.verbatim-input", []string{"lang/step", "lang/service"})
	r.Rule("C08.stateless", "what a step or record decodes to depends on its own bytes only: no function of lang/step and lang/service writes package-level state (a cache filled while decoding makes a later decode depend on an earlier one)", 2)
	statelessRule(p, r, "C08.stateless", []string{"lang/step", "lang/service"})
	r.Rule("C08.order", "a step list is encoded in the order given: no function taking or returning a list of steps hands it to a sorting, shuffling or reversing routine", 2)
	keepOrderRule(p, r, "C08.order", []string{"lang/step", "lang/pack"}, "Step")
	checkRegistry(p, r, "C08.registry", "lang/step", "CreateStep", "Step", "GetStepType")
	checkRegistry(p, r, "C08.registry", "lang/service", "CreateService", "Service", "GetServiceType")
	checkFactoryFresh(p, r, "C08.fresh", "lang/step", "CreateStep")
	checkFactoryFresh(p, r, "C08.fresh", "lang/service", "CreateService")
	pairs, _ := discoverPairs(p, x, []string{"lang/step", "lang/service"})
	packPairs, _ := discoverPairs(p, x, []string{"lang/pack"})
	for _, cp := range packPairs {
		n := core.RecvNamed(cp.W.Obj)
		if n == nil {
			continue
		}
		switch n.Obj().Name() {
		case "ProfilePack", "ProfileStepSplitPack", "ErrorSnapPack1":
			pairs = append(pairs, cp)
		}
	}
	runPairs(p, x, r, pairs, pairRules{"C08.pairs", "C08.fields", "C08.countlink"}, tierDepth(r))
	// self-delimitation: no reader in scope mentions Available()
	for _, cp := range pairs {
		uses := false
		var where ast.Node
		ast.Inspect(cp.R.Decl.Body, func(n ast.Node) bool {
			if call, ok := n.(*ast.CallExpr); ok {
				if sel, ok := call.Fun.(*ast.SelectorExpr); ok && sel.Sel.Name == "Available" {
					if tv, ok := cp.R.Pkg.TypesInfo.Types[sel.X]; ok && x.IsIn(tv.Type) {
						// bytes left in a length-prefixed sub-stream are exact; only the outer (shared) stream matters
						if id, ok := ast.Unparen(sel.X).(*ast.Ident); ok && cp.R.Pkg.TypesInfo.ObjectOf(id) == cp.RS && isParamObj(cp.R, cp.RS) {
							uses, where = true, n
						}
					}
				}
			}
			return true
		})
		c := core.FuncName(cp.R.Obj)
		if uses {
			r.Viol("C08.selfdelim", c, p.Pos(where.Pos()), "reader depends on the number of bytes left in the stream: a step followed by another step decodes differently from the same step alone")
		} else {
			r.OK("C08.selfdelim", c, p.Pos(cp.R.Decl.Pos()), "")
		}
	}
	c08Defaulting(p, r, x)
	c08AllSteps(p, r)
}

// c08Defaulting: in TxRecord.Read every assignment to a receiver field takes its value from the
// stream, except the listed ones.
// c08AllSteps: in every function that iterates over a slice of steps and writes them with WriteStep /
// Step.Write, every path through one iteration performs the write exactly once: a step that is skipped
// (filtered on a flag, say) makes the decoded profile shorter and shifts every later step.
func c08AllSteps(p *core.Program, r *core.Report) {
	n := 0
	for _, rel := range []string{"lang/step", "lang/pack"} {
		pk := p.Pkg(rel)
		if pk == nil {
			continue
		}
		for _, fi := range p.Funcs {
			if fi.Pkg != pk || fi.Decl.Body == nil {
				continue
			}
			info := fi.Pkg.TypesInfo
			ast.Inspect(fi.Decl.Body, func(m ast.Node) bool {
				var body *ast.BlockStmt
				var over ast.Expr
				switch lp := m.(type) {
				case *ast.ForStmt:
					body = lp.Body
				case *ast.RangeStmt:
					body, over = lp.Body, lp.X
				default:
					return true
				}
				isWrite := func(k ast.Node) bool {
					call, ok := k.(*ast.CallExpr)
					if !ok {
						return false
					}
					return isCallTo(info, call, core.ModPath+"/lang/step", "WriteStep")
				}
				has := false
				ast.Inspect(body, func(k ast.Node) bool {
					if isWrite(k) {
						has = true
					}
					return true
				})
				if !has {
					return true
				}
				_ = over
				n++
				ps, tooMany := paths.Enumerate(body, paths.Config{Info: info, Classify: func(k ast.Node) []paths.Event {
					var out []paths.Event
					ast.Inspect(k, func(q ast.Node) bool {
						if isWrite(q) {
							out = append(out, paths.Event{Kind: "WRITESTEP"})
						}
						return true
					})
					return out
				}})
				c := core.FuncName(fi.Obj) + " step loop"
				pos := p.Pos(m.Pos())
				if tooMany {
					r.Undec("C08.all-steps", c, pos, "too many paths")
					return false
				}
				bad := ""
				for _, pa := range ps {
					if pa.Has("PANIC") {
						continue
					}
					if pa.Count("WRITESTEP") != 1 && bad == "" {
						bad = fmt.Sprintf("an iteration over the steps writes its step %d times on the path %s: the encoded list no longer holds every step once", pa.Count("WRITESTEP"), pa.String())
					}
				}
				r.Check(bad == "", "C08.all-steps", c, pos, "every step written once per iteration", bad)
				return false
			})
		}
	}
	if n == 0 {
		r.Undec("C08.all-steps", "lang/step step-list writers", "-", "no loop writing steps found")
	}
}

func c08Defaulting(p *core.Program, r *core.Report, x *wire.Extractor) {
	fi := p.Method("lang/service", "TxRecord", "Read")
	if fi == nil {
		r.Undec("C08.defaulting", "lang/service.(*TxRecord).Read", "-", "not found")
		return
	}
	info := fi.Pkg.TypesInfo
	allowed := map[string]string{
		"ErrorLevel": "WARNING", // sanctioned: zero error level with an error id reads back as WARNING
		"Fields":     "value.NewMapValue()",
	}
	var bad []string
	// Read itself and the unexported same-receiver helpers it is split into
	bodies := []*core.FuncInfo{fi}
	ast.Inspect(fi.Decl.Body, func(n ast.Node) bool {
		if call, ok := n.(*ast.CallExpr); ok {
			if sel, ok := call.Fun.(*ast.SelectorExpr); ok {
				if fn, _ := info.Uses[sel.Sel].(*types.Func); fn != nil && !fn.Exported() && fn.Pkg() == fi.Obj.Pkg() {
					if id, ok := ast.Unparen(sel.X).(*ast.Ident); ok && fi.Decl.Recv != nil && info.ObjectOf(id) == info.Defs[fi.Decl.Recv.List[0].Names[0]] {
						if hfi := p.FuncOf(fn); hfi != nil && hfi.Decl.Body != nil && hfi != fi {
							bodies = append(bodies, hfi)
						}
					}
				}
			}
		}
		return true
	})
	for _, bfi := range bodies {
		fi := bfi
		ast.Inspect(fi.Decl.Body, func(n ast.Node) bool {
			as, ok := n.(*ast.AssignStmt)
			if !ok {
				return true
			}
			for i, l := range as.Lhs {
				sel, ok := l.(*ast.SelectorExpr)
				if !ok || i >= len(as.Rhs) {
					continue
				}
				if id, ok := sel.X.(*ast.Ident); !ok || fi.Decl.Recv == nil || info.ObjectOf(id) != info.Defs[fi.Decl.Recv.List[0].Names[0]] {
					continue
				}
				fromStream := false
				ast.Inspect(as.Rhs[i], func(m ast.Node) bool {
					if call, ok := m.(*ast.CallExpr); ok {
						if s, ok := call.Fun.(*ast.SelectorExpr); ok {
							if tv, ok := info.Types[s.X]; ok && x.IsIn(tv.Type) {
								fromStream = true
							}
						}
						for _, a := range call.Args {
							if tv, ok := info.Types[a]; ok && x.IsIn(tv.Type) {
								fromStream = true
							}
						}
					}
					return true
				})
				if fromStream {
					continue
				}
				rhs := types.ExprString(as.Rhs[i])
				if want, ok := allowed[sel.Sel.Name]; ok && want == rhs {
					if sel.Sel.Name == "ErrorLevel" {
						// sanctioned only for "no level recorded (0) but an error id is present"
						rn := recvName(fi)
						norm := func(e ast.Expr) string { return strings.ReplaceAll(stripSpaces(types.ExprString(e)), rn+".", "") }
						zeroLevel, hasErr := false, false
						for _, a := range dominatingAtoms(fi, as) {
							switch condKey(info, norm, a.E, a.V) {
							case cc("ErrorLevel", "==", "0", true):
								zeroLevel = true
							case cc("Error", "!=", "0", true):
								hasErr = true
							}
						}
						if !(zeroLevel && hasErr) {
							bad = append(bad, "ErrorLevel is raised to WARNING under a condition other than `ErrorLevel == 0 && Error != 0` at "+p.Pos(as.Pos())+": a decoded record with another level comes back changed")
						}
					}
					continue
				}
				bad = append(bad, sel.Sel.Name+" = "+rhs+" at "+p.Pos(as.Pos()))
			}
			return true
		})
	}
	if len(bad) > 0 {
		r.Viol("C08.defaulting", "lang/service.(*TxRecord).Read", p.Pos(fi.Decl.Pos()), "decoded record is altered after reading: "+strings.Join(bad, "; "))
	} else {
		r.OK("C08.defaulting", "lang/service.(*TxRecord).Read", p.Pos(fi.Decl.Pos()), "only ErrorLevel=WARNING defaulting and Fields allocation")
	}
}

func isParamObj(fi *core.FuncInfo, o types.Object) bool {
	if fi.Decl.Type.Params == nil {
		return false
	}
	for _, f := range fi.Decl.Type.Params.List {
		for _, n := range f.Names {
			if fi.Pkg.TypesInfo.Defs[n] == o {
				return true
			}
		}
	}
	return false
}
