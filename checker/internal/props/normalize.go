package props

import (
	"go/ast"
	"go/types"

	"golibcheck/internal/core"
	"golibcheck/internal/paths"
)

// Normalize rewrites, once per loaded program, the one higher-order idiom the first-order engines
// cannot follow: a statement `helper(args..., func(i T) { ... })` calling a function of the same
// package whose body only runs the function it is handed (a loop helper such as
// `func eachElement(n int, read func(i int)) { for i := 0; i < n; i++ { read(i) } }`). The statement is
// replaced by the helper's body with the parameters replaced by the arguments, and each call of the
// function parameter by the literal's body with its parameters replaced in turn. What the engines see
// is the loop written in place. Only helpers without results, returns, defers, goroutines or
// literals of their own are expanded; anything else is left as it is (and stays undecided where a
// rule needs to look inside).
func Normalize(p *core.Program) {
	curProg = p
	normalizeSingleExit(p)
	normalizeRunUnder(p)
	normalizeLayoutTables(p)
	normalizeMonitors(p)
	normalizeValueMethods(p)
	normalizeConstReceivers(p)
	normalizeLocalArrays(p)
	for _, fi := range p.Funcs {
		if fi.Decl.Body == nil {
			continue
		}
		n := &normalizer{p: p, fi: fi, info: fi.Pkg.TypesInfo}
		n.block(fi.Decl.Body, 0)
	}
}

type normalizer struct {
	p    *core.Program
	fi   *core.FuncInfo
	info *types.Info
}

func (n *normalizer) block(b *ast.BlockStmt, depth int) {
	if b == nil || depth > 6 {
		return
	}
	for i, st := range b.List {
		if nb := n.expand(st, depth); nb != nil {
			b.List[i] = nb
			st = nb
		}
		n.children(st, depth)
	}
}

func (n *normalizer) children(st ast.Stmt, depth int) {
	switch v := st.(type) {
	case *ast.BlockStmt:
		n.block(v, depth+1)
	case *ast.IfStmt:
		n.block(v.Body, depth+1)
		if v.Else != nil {
			n.children(v.Else, depth+1)
		}
	case *ast.ForStmt:
		n.block(v.Body, depth+1)
	case *ast.RangeStmt:
		n.block(v.Body, depth+1)
	case *ast.SwitchStmt:
		for _, c := range v.Body.List {
			if cc, ok := c.(*ast.CaseClause); ok {
				n.block(&ast.BlockStmt{List: cc.Body}, depth+1)
			}
		}
	case *ast.LabeledStmt:
		n.children(v.Stmt, depth+1)
	}
}

// simpleBody: no return/defer/go/select, no function literal.
func simpleBody(b *ast.BlockStmt) bool {
	ok := true
	ast.Inspect(b, func(m ast.Node) bool {
		switch m.(type) {
		case *ast.ReturnStmt, *ast.DeferStmt, *ast.GoStmt, *ast.SelectStmt, *ast.FuncLit:
			ok = false
		}
		return ok
	})
	return ok
}

func (n *normalizer) expand(st ast.Stmt, depth int) ast.Stmt {
	es, ok := st.(*ast.ExprStmt)
	if !ok {
		return nil
	}
	call, ok := ast.Unparen(es.X).(*ast.CallExpr)
	if !ok || call.Ellipsis.IsValid() {
		return nil
	}
	hasLit := false
	for _, a := range call.Args {
		if _, ok := ast.Unparen(a).(*ast.FuncLit); ok {
			hasLit = true
		}
	}
	if !hasLit {
		return nil
	}
	var id *ast.Ident
	var recv ast.Expr
	switch f := ast.Unparen(call.Fun).(type) {
	case *ast.Ident:
		id = f
	case *ast.SelectorExpr:
		id, recv = f.Sel, f.X
	}
	if id == nil {
		return nil
	}
	fn, _ := n.info.Uses[id].(*types.Func)
	if fn == nil || fn.Pkg() == nil || fn.Pkg() != n.fi.Obj.Pkg() || fn == n.fi.Obj {
		return nil
	}
	sig := fn.Type().(*types.Signature)
	if sig.Variadic() || sig.Results().Len() != 0 || sig.Params().Len() != len(call.Args) {
		return nil
	}
	hf := n.p.FuncOf(fn)
	if hf == nil || hf.Decl.Body == nil || !simpleBody(hf.Decl.Body) {
		return nil
	}
	repl := map[types.Object]ast.Expr{}
	lits := map[types.Object]*ast.FuncLit{}
	i := 0
	for _, f := range hf.Decl.Type.Params.List {
		if len(f.Names) == 0 {
			return nil
		}
		for _, nm := range f.Names {
			obj := n.info.Defs[nm]
			if obj == nil {
				return nil
			}
			if lit, ok := ast.Unparen(call.Args[i]).(*ast.FuncLit); ok {
				lits[obj] = lit
			} else {
				repl[obj] = call.Args[i]
			}
			i++
		}
	}
	if sig.Recv() != nil {
		if recv == nil || hf.Decl.Recv == nil || len(hf.Decl.Recv.List) != 1 || len(hf.Decl.Recv.List[0].Names) != 1 {
			return nil
		}
		if _, isPkg := n.info.Uses[identOf(recv)].(*types.PkgName); isPkg {
			return nil
		}
		repl[n.info.Defs[hf.Decl.Recv.List[0].Names[0]]] = recv
	}
	// the function parameters may only be called, as statements, with plain arguments
	for obj, lit := range lits {
		if lit.Type.Results != nil && len(lit.Type.Results.List) > 0 {
			return nil
		}
		litOK := true
		ast.Inspect(lit.Body, func(m ast.Node) bool {
			switch m.(type) {
			case *ast.ReturnStmt, *ast.DeferStmt, *ast.GoStmt:
				litOK = false
			}
			return litOK
		})
		if !litOK {
			return nil
		}
		uses, calls := 0, 0
		ast.Inspect(hf.Decl.Body, func(m ast.Node) bool {
			switch v := m.(type) {
			case *ast.Ident:
				if n.info.Uses[v] == obj {
					uses++
				}
			case *ast.ExprStmt:
				if c, ok := ast.Unparen(v.X).(*ast.CallExpr); ok {
					if cid, ok := ast.Unparen(c.Fun).(*ast.Ident); ok && n.info.Uses[cid] == obj {
						calls++
					}
				}
			}
			return true
		})
		if uses == 0 || uses != calls {
			return nil
		}
	}
	body, _ := paths.Subst(n.info, hf.Decl.Body, repl).(*ast.BlockStmt)
	if body == nil {
		return nil
	}
	if body == hf.Decl.Body {
		// nothing was replaced: copy the top level so that the helper's own body is not touched below
		body = &ast.BlockStmt{Lbrace: body.Lbrace, List: append([]ast.Stmt{}, body.List...), Rbrace: body.Rbrace}
	}
	out := n.reduce(body, lits).(*ast.BlockStmt)
	out.Lbrace, out.Rbrace = call.Pos(), call.End()
	return out
}

// reduce copies st with every statement `f(args)` (f one of the function parameters) replaced by the
// literal's body, the literal's parameters replaced by the arguments.
func (n *normalizer) reduce(st ast.Stmt, lits map[types.Object]*ast.FuncLit) ast.Stmt {
	switch v := st.(type) {
	case *ast.BlockStmt:
		nb := &ast.BlockStmt{Lbrace: v.Lbrace, Rbrace: v.Rbrace}
		for _, s := range v.List {
			nb.List = append(nb.List, n.reduce(s, lits))
		}
		return nb
	case *ast.ExprStmt:
		if c, ok := ast.Unparen(v.X).(*ast.CallExpr); ok {
			if cid, ok := ast.Unparen(c.Fun).(*ast.Ident); ok {
				if lit := lits[n.info.Uses[cid]]; lit != nil {
					repl := map[types.Object]ast.Expr{}
					i := 0
					for _, f := range lit.Type.Params.List {
						for _, nm := range f.Names {
							if i < len(c.Args) {
								if o := n.info.Defs[nm]; o != nil {
									repl[o] = c.Args[i]
								}
							}
							i++
						}
					}
					if b, ok := paths.Subst(n.info, lit.Body, repl).(*ast.BlockStmt); ok {
						return b
					}
				}
			}
		}
	case *ast.IfStmt:
		c := *v
		c.Body = n.reduce(v.Body, lits).(*ast.BlockStmt)
		if v.Else != nil {
			c.Else = n.reduce(v.Else, lits)
		}
		return &c
	case *ast.ForStmt:
		c := *v
		c.Body = n.reduce(v.Body, lits).(*ast.BlockStmt)
		return &c
	case *ast.RangeStmt:
		c := *v
		c.Body = n.reduce(v.Body, lits).(*ast.BlockStmt)
		return &c
	case *ast.LabeledStmt:
		c := *v
		c.Stmt = n.reduce(v.Stmt, lits)
		return &c
	}
	return st
}
