package props

import (
	"fmt"
	"go/ast"
	"go/constant"
	"go/token"
	"go/types"
	"strings"

	"golibcheck/internal/core"
	"golibcheck/internal/wire"
)

// minimal number of bytes each reading primitive consumes
var readMinBytes = map[string]int64{
	"ReadByte": 1, "ReadBool": 1, "ReadShort": 2, "ReadUShort": 2, "ReadInt3": 3, "ReadInt": 4, "ReadUInt": 4, "ReadLong5": 5, "ReadLong": 8,
	"ReadFloat": 4, "ReadDouble": 8, "ReadDecimal": 1, "ReadText": 1, "ReadBlob": 1, "ReadIntBytes": 4, "ReadShortBytes": 2, "ReadUTF": 2,
}

// tailGuardRule: a decoder may decide that an optional tail is absent by how much is left of a stream
// of its own (a length-delimited blob). "Nothing left" is exact. A test against a number of bytes
// ("fewer than K left: no tail") is right only if every encoding of the tail has at least K bytes:
// the shortest encoding is known from the reads that follow the test (one byte for a decimal or a
// text, the fixed width for the others). A threshold above it takes a present but short tail (small
// values) for a missing one: those fields are dropped although they are on the wire.
func tailGuardRule(p *core.Program, r *core.Report, rule, scope string) {
	x := wire.NewExtractor(p)
	for _, fi := range p.Funcs {
		if fi.Decl.Body == nil || !strings.HasPrefix(core.RelPkg(fi.Pkg.PkgPath), scope) {
			continue
		}
		info := fi.Pkg.TypesInfo
		var visit func(list []ast.Stmt)
		visit = func(list []ast.Stmt) {
			for i, s := range list {
				ifs, ok := s.(*ast.IfStmt)
				if !ok || ifs.Else != nil || len(ifs.Body.List) == 0 {
					continue
				}
				if _, isRet := ifs.Body.List[len(ifs.Body.List)-1].(*ast.ReturnStmt); !isRet {
					continue
				}
				be, ok := ast.Unparen(ifs.Cond).(*ast.BinaryExpr)
				if !ok {
					continue
				}
				avail := func(e ast.Expr) types.Object {
					e = ast.Unparen(e)
					for {
						c, ok := e.(*ast.CallExpr)
						if ok && len(c.Args) == 1 {
							if tv, ok := info.Types[c.Fun]; ok && tv.IsType() {
								e = ast.Unparen(c.Args[0])
								continue
							}
						}
						break
					}
					c, ok := e.(*ast.CallExpr)
					if !ok {
						return nil
					}
					sel, ok := ast.Unparen(c.Fun).(*ast.SelectorExpr)
					if !ok || sel.Sel.Name != "Available" {
						return nil
					}
					id, ok := ast.Unparen(sel.X).(*ast.Ident)
					if !ok || !x.IsIn(info.TypeOf(id)) {
						return nil
					}
					return info.ObjectOf(id)
				}
				op, a, b := be.Op, be.X, be.Y
				stream := avail(a)
				if stream == nil {
					stream = avail(b)
					a, b, op = b, a, flipOp(op)
				}
				if stream == nil {
					continue
				}
				tv, ok := info.Types[b]
				if !ok || tv.Value == nil {
					continue
				}
				k, exact := constant.Int64Val(constant.ToInt(tv.Value))
				if !exact {
					continue
				}
				// "left < K" / "left <= K-1": the tail is read only with at least K bytes left
				var atLeast int64
				switch op {
				case token.LSS:
					atLeast = k
				case token.LEQ:
					atLeast = k + 1
				default:
					continue
				}
				if atLeast <= 1 {
					continue
				}
				// shortest encoding of the unconditional reads that follow
				var min int64
				decided := true
			follow:
				for _, t := range list[i+1:] {
					var call *ast.CallExpr
					switch v := t.(type) {
					case *ast.AssignStmt:
						if len(v.Rhs) != 1 {
							decided = false
							break follow
						}
						e := ast.Unparen(v.Rhs[0])
						for {
							c, ok := e.(*ast.CallExpr)
							if ok && len(c.Args) == 1 {
								if tv, ok := info.Types[c.Fun]; ok && tv.IsType() {
									e = ast.Unparen(c.Args[0])
									continue
								}
							}
							break
						}
						call, _ = e.(*ast.CallExpr)
					case *ast.ExprStmt:
						call, _ = v.X.(*ast.CallExpr)
					case *ast.IfStmt:
						break follow // what follows is optional in its own right
					default:
						decided = false
						break follow
					}
					if call == nil {
						decided = false
						break follow
					}
					sel, ok := ast.Unparen(call.Fun).(*ast.SelectorExpr)
					if !ok {
						decided = false
						break follow
					}
					id, ok := ast.Unparen(sel.X).(*ast.Ident)
					if !ok || info.ObjectOf(id) != stream {
						decided = false
						break follow
					}
					w, known := readMinBytes[sel.Sel.Name]
					if !known {
						decided = false
						break follow
					}
					min += w
				}
				if !decided || min == 0 {
					continue
				}
				r.Check(atLeast <= min, rule, core.FuncName(fi.Obj)+" tail threshold", p.Pos(ifs.Pos()), fmt.Sprintf("the tail is read with at least %d bytes left; its shortest encoding is %d bytes", atLeast, min),
					fmt.Sprintf("the tail is read only when at least %d bytes are left, but its shortest encoding is %d bytes (a decimal or a text of a small value takes one byte): a tail that is present with small values is taken for a missing one and its fields are dropped", atLeast, min))
			}
			for _, s := range list {
				switch v := s.(type) {
				case *ast.BlockStmt:
					visit(v.List)
				case *ast.IfStmt:
					visit(v.Body.List)
					if eb, ok := v.Else.(*ast.BlockStmt); ok {
						visit(eb.List)
					}
				case *ast.ForStmt:
					visit(v.Body.List)
				case *ast.RangeStmt:
					visit(v.Body.List)
				}
			}
		}
		visit(fi.Decl.Body.List)
	}
}
