package props

import (
	"sort"
	"go/constant"
	"fmt"
	"go/ast"
	"go/token"
	"go/types"
	"regexp"
	"strings"

	"golibcheck/internal/core"
	"golibcheck/internal/paths"
)

// C11 — request queues are bounded FIFOs that lose, duplicate or strand nothing.
func init() { register(&Checker{ID: "C11", Canaries: c11Canaries, Run: runC11}) }

func c11Canaries() []core.Canary {
	return []core.Canary{{RelDir: "util/queue", Name: "c11", Src: `package queue

import (
	"sync"

	"github.com/whatap/golib/util/list"
)

type zzCanaryQueue struct {
	queue      list.LinkedList
	capacity   int
	lock       *sync.Cond
	Overflowed func(interface{})
}

// adds when full (> instead of >=), signals only sometimes, evicts once
func (this *zzCanaryQueue) Put(v interface{}) bool {
	this.lock.L.Lock()
	defer this.lock.L.Unlock()
	if this.capacity <= 0 || this.queue.Size() <= this.capacity {
		this.queue.Add(v)
		if this.queue.Size() == 1 {
			this.lock.Signal()
		}
		return true
	}
	return false
}
func (this *zzCanaryQueue) PutForce(v interface{}) bool {
	this.lock.L.Lock()
	defer this.lock.L.Unlock()
	if this.capacity <= 0 || this.queue.Size() < this.capacity {
		this.queue.Add(v)
		this.lock.Broadcast()
		return true
	}
	o := this.queue.RemoveFirst()
	if this.Overflowed != nil {
		this.Overflowed(o)
	}
	this.queue.Add(v)
	this.lock.Broadcast()
	return false
}
func (this *zzCanaryQueue) Get() interface{} {
	this.lock.L.Lock()
	defer this.lock.L.Unlock()
	if this.queue.Size() <= 0 {
		this.lock.Wait()
	}
	return this.queue.RemoveLast()
}
`, Expect: []core.CanaryExpect{{Rule: "C11.capacity", Sub: "zzCanaryQueue.Put"}, {Rule: "C11.signal", Sub: "zzCanaryQueue.Put"},
		{Rule: "C11.capacity", Sub: "zzCanaryQueue.PutForce"}, {Rule: "C11.wait", Sub: "zzCanaryQueue.Get"}, {Rule: "C11.fifo", Sub: "zzCanaryQueue.Get"}}}}
}

var reQueueSize = regexp.MustCompile(`queue(\d?)\.Size\(\)`)
var reLaneField = regexp.MustCompile(`(\w+)\[\w*?(\d)\]\.(queue|capacity|failed|overflowed)`)
var reParenQueue = regexp.MustCompile(`\((queue\d?)\)`)

// queueCtx builds the paths configuration for a method of a queue type.
type queueCtx struct {
	p    *core.Program
	fi   *core.FuncInfo
	recv string
	// preset: boolean parameters of fi fixed to constants (a helper judged for one call site)
	preset map[types.Object]bool
	depth  int
}

// noWaitGet: call is a same-receiver method call that, with the constant booleans it is given, is a
// get that never waits: no path of the callee reaches Wait(), some path removes the head, every other
// returns nil (take(false) standing for GetNoWait()).
func (q *queueCtx) noWaitGet(call *ast.CallExpr) bool {
	if q.depth > 1 {
		return false
	}
	info := q.fi.Pkg.TypesInfo
	sel, ok := call.Fun.(*ast.SelectorExpr)
	if !ok {
		return false
	}
	if id, ok := ast.Unparen(sel.X).(*ast.Ident); !ok || id.Name != q.recv {
		return false
	}
	fn, _ := info.Uses[sel.Sel].(*types.Func)
	if fn == nil {
		return false
	}
	cf := q.p.FuncOf(fn)
	if cf == nil || cf.Decl.Body == nil || cf == q.fi {
		return false
	}
	if rt := core.RecvNamed(cf.Obj); rt == nil || core.RecvNamed(q.fi.Obj) == nil || rt.Obj() != core.RecvNamed(q.fi.Obj).Obj() {
		return false
	}
	if res := cf.Obj.Type().(*types.Signature).Results(); res.Len() != 1 {
		return false
	}
	preset := map[types.Object]bool{}
	k := 0
	for _, f := range cf.Decl.Type.Params.List {
		for _, nm := range f.Names {
			if k < len(call.Args) {
				if tv, ok := info.Types[call.Args[k]]; ok && tv.Value != nil && tv.Value.Kind() == constant.Bool {
					preset[cf.Pkg.TypesInfo.Defs[nm]] = constant.BoolVal(tv.Value)
				} else {
					return false
				}
			}
			k++
		}
	}
	cq := &queueCtx{p: q.p, fi: cf, recv: recvName(cf), preset: preset, depth: q.depth + 1}
	ps, over := paths.Enumerate(cf.Decl.Body, cq.config())
	if over || len(ps) == 0 {
		return false
	}
	removes := 0
	for _, pa := range ps {
		if pa.Has("WAIT") {
			return false
		}
		if pa.Has("REMOVEFIRST") {
			removes++
		} else if !pa.HasArg("RETVAL", "nil") {
			return false
		}
	}
	return removes > 0
}

// sliceQueueField: sel is a field of the receiver that is a slice of interface values — a queue kept
// in a slice instead of a linked list. Returns the lane digit.
func (q *queueCtx) sliceQueueField(sel *ast.SelectorExpr) (string, bool) {
	if q.fi == nil {
		return "", false
	}
	id, ok := ast.Unparen(sel.X).(*ast.Ident)
	if !ok || id.Name != q.recv {
		return "", false
	}
	fv, ok := q.fi.Pkg.TypesInfo.ObjectOf(sel.Sel).(*types.Var)
	if !ok || !fv.IsField() {
		return "", false
	}
	sl, ok := fv.Type().Underlying().(*types.Slice)
	if !ok {
		return "", false
	}
	if _, isIface := sl.Elem().Underlying().(*types.Interface); !isIface {
		return "", false
	}
	digit := ""
	if nm := sel.Sel.Name; len(nm) > 0 && nm[len(nm)-1] >= '0' && nm[len(nm)-1] <= '9' {
		digit = nm[len(nm)-1:]
	}
	return digit, true
}

func (q *queueCtx) norm(e ast.Expr) string {
	s := types.ExprString(e)
	// a queue kept in a slice: len(this.items) is its size, this.items the queue
	if q.fi != nil {
		repl := map[string]string{}
		ast.Inspect(e, func(n ast.Node) bool {
			switch v := n.(type) {
			case *ast.CallExpr:
				if id, ok := v.Fun.(*ast.Ident); ok && id.Name == "len" && len(v.Args) == 1 {
					if sel, ok := ast.Unparen(v.Args[0]).(*ast.SelectorExpr); ok {
						if d, ok := q.sliceQueueField(sel); ok {
							repl[types.ExprString(v)] = q.recv + ".queue" + d + ".Size()"
						}
					}
				}
			case *ast.SelectorExpr:
				if d, ok := q.sliceQueueField(v); ok {
					repl[types.ExprString(v)] = q.recv + ".queue" + d
				}
			}
			return true
		})
		keys := make([]string, 0, len(repl))
		for k := range repl {
			keys = append(keys, k)
		}
		sort.Slice(keys, func(i, j int) bool { return len(keys[i]) > len(keys[j]) })
		for _, k := range keys {
			s = strings.ReplaceAll(s, k, repl[k])
		}
	}
	// fields by role, wherever they are nested under the receiver (this.fifo.items is the queue's
	// list, this.fifo.capacity its bound): the element list is the field of type list.LinkedList,
	// the bound an integer field whose name says capacity
	if q.fi != nil {
		info := q.fi.Pkg.TypesInfo
		repl := map[string]string{}
		ast.Inspect(e, func(n ast.Node) bool {
			sel, ok := n.(*ast.SelectorExpr)
			if !ok {
				return true
			}
			inner, ok := ast.Unparen(sel.X).(*ast.SelectorExpr)
			if !ok {
				return true
			}
			root := inner
			for {
				nx, ok := ast.Unparen(root.X).(*ast.SelectorExpr)
				if !ok {
					break
				}
				root = nx
			}
			if id, ok := ast.Unparen(root.X).(*ast.Ident); !ok || id.Name != q.recv {
				return true
			}
			fv, ok := info.ObjectOf(sel.Sel).(*types.Var)
			if !ok || !fv.IsField() {
				return true
			}
			digit := ""
			if nm := sel.Sel.Name; len(nm) > 0 && nm[len(nm)-1] >= '0' && nm[len(nm)-1] <= '9' {
				digit = nm[len(nm)-1:]
			}
			// the lane number may sit on the record that groups a lane's fields (this.lane1.queue)
			for up := inner; digit == "" && up != nil; {
				if nm := up.Sel.Name; len(nm) > 0 && nm[len(nm)-1] >= '0' && nm[len(nm)-1] <= '9' {
					digit = nm[len(nm)-1:]
				}
				nx, _ := ast.Unparen(up.X).(*ast.SelectorExpr)
				up = nx
			}
			t := fv.Type()
			if pt, ok := t.(*types.Pointer); ok {
				t = pt.Elem()
			}
			if nt, ok := t.(*types.Named); ok && nt.Obj().Name() == "LinkedList" {
				repl[types.ExprString(sel)] = q.recv + ".queue" + digit
			} else if b, ok := t.Underlying().(*types.Basic); ok && b.Info()&types.IsInteger != 0 && strings.Contains(strings.ToLower(sel.Sel.Name), "capacity") {
				repl[types.ExprString(sel)] = q.recv + ".capacity" + digit
			} else if _, isFn := t.Underlying().(*types.Signature); isFn {
				ln := strings.ToLower(sel.Sel.Name)
				for _, role := range []string{"failed", "overflowed"} {
					if strings.HasPrefix(ln, role) {
						repl[types.ExprString(sel)] = q.recv + "." + role + digit
					}
				}
			}
			return true
		})
		keys := make([]string, 0, len(repl))
		for k := range repl {
			keys = append(keys, k)
		}
		sort.Slice(keys, func(i, j int) bool { return len(keys[i]) > len(keys[j]) })
		for _, k := range keys {
			s = strings.ReplaceAll(s, k, repl[k])
		}
	}
	// a field handed to a helper by address and used there through the pointer is the field
	s = strings.ReplaceAll(s, "*&"+q.recv+".", q.recv+".")
	s = strings.ReplaceAll(s, "(&"+q.recv+".", "("+q.recv+".")
	s = strings.ReplaceAll(s, "&"+q.recv+".", q.recv+".")
	s = strings.ReplaceAll(s, q.recv+".", "")
	// lanes kept in an array of records (lanes[lane1].queue, lanes[lane1].capacity): the lane's number
	// is the one its index constant carries
	s = reLaneField.ReplaceAllString(s, "$3$2")
	s = reParenQueue.ReplaceAllString(s, "$1")
	s = reQueueSize.ReplaceAllString(s, "size$1")
	s = strings.ReplaceAll(s, " ", "")
	s = strings.ReplaceAll(s, "(", "")
	s = strings.ReplaceAll(s, ")", "")
	return s
}

func (q *queueCtx) config() paths.Config {
	info := q.fi.Pkg.TypesInfo
	in := newInliner(q.p, q.fi, func(fn *types.Func) bool { return q.sliceOp(fn) != "" })
	in.hoistEffects = true
	return paths.Config{
		Info:   info,
		Inline: in.Body,
		Expand: in.Expand,
		Unroll: in.FixedList,
		Fold: func(c ast.Expr) (bool, bool) {
			if len(q.preset) == 0 {
				return false, false
			}
			neg := false
			e := ast.Unparen(c)
			if u, ok := e.(*ast.UnaryExpr); ok && u.Op == token.NOT {
				neg, e = true, ast.Unparen(u.X)
			}
			if id, ok := e.(*ast.Ident); ok {
				if val, ok := q.preset[info.ObjectOf(id)]; ok {
					return true, val != neg
				}
			}
			return false, false
		},
		Cond: func(c ast.Expr, v bool) *paths.Event {
			return &paths.Event{Kind: "COND", Arg: condKey(info, q.norm, c, v), Pos: c.Pos()}
		},
		Classify: func(n ast.Node) []paths.Event {
			var out []paths.Event
			// capacity setter: this.capacityN = <parameter>
			if as, ok := n.(*ast.AssignStmt); ok && len(as.Lhs) == len(as.Rhs) {
				for i, l := range as.Lhs {
					if strings.HasPrefix(q.norm(l), "capacity") {
						if id, ok := ast.Unparen(as.Rhs[i]).(*ast.Ident); ok {
							if _, isVar := info.ObjectOf(id).(*types.Var); isVar {
								out = append(out, paths.Event{Kind: "SETCAP", Arg: q.norm(l), Pos: as.Pos()})
							}
						}
					}
				}
			}
			// ok := helper(args) with the helper followed: `return ok` hands back what the helper returned
			// on this path
			if as, ok := n.(*ast.AssignStmt); ok && len(as.Lhs) == 1 && len(as.Rhs) == 1 {
				if id, ok := as.Lhs[0].(*ast.Ident); ok {
					if call, ok := ast.Unparen(as.Rhs[0]).(*ast.CallExpr); ok && in.Inlinable(call) {
						out = append(out, paths.Event{Kind: "RESCALL", Arg: id.Name, Pos: as.Pos()})
					}
				}
			}
			// assignments to a named result: what `return result` hands back is the last of them on the
			// path (or the zero value when there is none)
			if as, ok := n.(*ast.AssignStmt); ok && len(as.Lhs) == len(as.Rhs) {
				for i, l := range as.Lhs {
					if id, ok := ast.Unparen(l).(*ast.Ident); ok && isNamedResult(q.p, info.ObjectOf(id)) {
						out = append(out, paths.Event{Kind: "RES", Arg: id.Name + "=" + q.norm(as.Rhs[i]), Pos: as.Pos(), Node: as.Rhs[i]})
					}
				}
			}
			// timing bookkeeping of the timed get: DEADLINE(D) = D := now() + timeout;
			// REMAIN(R<-D) = R = D - now(); GOT(v) = v = GetNoWait()
			// (the two quantities may be locals or fields of a small bookkeeping record; a record built by
			// a literal fixes its deadline field where the literal is evaluated: DEADLINE(*.field))
			locName := func(e ast.Expr) string {
				switch x := ast.Unparen(e).(type) {
				case *ast.Ident:
					return x.Name
				case *ast.SelectorExpr:
					if _, ok := info.Selections[x]; ok {
						return q.norm(x)
					}
				}
				return ""
			}
			if as, ok := n.(*ast.AssignStmt); ok && len(as.Lhs) == len(as.Rhs) {
				for i := range as.Lhs {
					ln := locName(as.Lhs[i])
					if ln == "" {
						continue
					}
					rhs := stripConvs(info, as.Rhs[i])
					if be, ok := rhs.(*ast.BinaryExpr); ok {
						switch {
						case be.Op == token.ADD && (isClockCall(info, be.X) || isClockCall(info, be.Y)):
							out = append(out, paths.Event{Kind: "DEADLINE", Arg: ln, Pos: as.Pos()})
						case be.Op == token.SUB && isClockCall(info, be.Y):
							if d := locName(stripConvs(info, be.X)); d != "" {
								out = append(out, paths.Event{Kind: "REMAIN", Arg: ln + "<-" + d, Pos: as.Pos()})
							}
						}
					}
				}
			}
			ast.Inspect(n, func(m ast.Node) bool {
				if _, isLit := m.(*ast.FuncLit); isLit {
					return false
				}
				cl, ok := m.(*ast.CompositeLit)
				if !ok {
					return true
				}
				for _, el := range cl.Elts {
					kv, ok := el.(*ast.KeyValueExpr)
					if !ok {
						continue
					}
					key, ok := kv.Key.(*ast.Ident)
					if !ok {
						continue
					}
					if be, ok := stripConvs(info, kv.Value).(*ast.BinaryExpr); ok && be.Op == token.ADD && (isClockCall(info, be.X) || isClockCall(info, be.Y)) {
						out = append(out, paths.Event{Kind: "DEADLINE", Arg: "*." + key.Name, Pos: kv.Pos()})
					}
				}
				return true
			})
			ast.Inspect(n, func(m ast.Node) bool {
				if hc, isCall := m.(*ast.CallExpr); isCall && in.hoisted[hc] && !isHoistDef(n, hc) {
					return false // evaluated (and recorded) in front of the helper it is an argument of
				}
				switch v := m.(type) {
				case *ast.FuncLit:
					return false
				case *ast.ReturnStmt:
					arg := ""
					if len(v.Results) == 1 {
						arg = q.norm(v.Results[0])
						if call, ok := ast.Unparen(v.Results[0]).(*ast.CallExpr); ok && in.Inlinable(call) {
							return true // the helper's own returns were recorded while it was followed
						}
					}
					var node ast.Node
					if len(v.Results) == 1 {
						if t := info.TypeOf(v.Results[0]); t != nil && isBoolType(t) && arg != "true" && arg != "false" {
							node = in.ExpandValue(v.Results[0]) // `return accepted`: decided by the tests the path already made
						}
					}
					defer func() { out = append(out, paths.Event{Kind: "RETVAL", Arg: arg, Pos: v.Pos(), Node: node}) }()
				case *ast.AssignStmt:
					// a queue kept in a slice, operated on in place
					if len(v.Lhs) == 1 && len(v.Rhs) == 1 {
						if ls, ok := ast.Unparen(v.Lhs[0]).(*ast.SelectorExpr); ok {
							if d, ok := q.sliceQueueField(ls); ok {
								switch kind := sliceQueueOp(info, ls, v.Rhs[0]); kind {
								case "ADD", "REMOVEFIRST", "CLEAR", "REMOVELAST", "ADDFIRST":
									out = append(out, paths.Event{Kind: kind, Arg: d, Pos: v.Pos()})
								}
							}
						}
					}
				case *ast.CallExpr:
					sel, ok := ast.Unparen(v.Fun).(*ast.SelectorExpr)
					if !ok {
						return true
					}
					// a method of the queue that is one slice operation (pushBack, popFront)
					if fn, _ := info.Uses[sel.Sel].(*types.Func); fn != nil {
						if id, ok := ast.Unparen(sel.X).(*ast.Ident); ok && id.Name == q.recv {
							if op := q.sliceOp(fn); op != "" {
								parts := strings.SplitN(op, ":", 2)
								out = append(out, paths.Event{Kind: parts[0], Arg: parts[1], Pos: v.Pos()})
								return true
							}
						}
					}
					x := q.norm(sel.X)
					name := sel.Sel.Name
					qid := ""
					if strings.HasPrefix(x, "queue") {
						qid = strings.TrimPrefix(x, "queue")
						switch name {
						case "Add", "AddLast":
							out = append(out, paths.Event{Kind: "ADD", Arg: qid, Pos: v.Pos()})
						case "AddFirst", "PutBefore":
							out = append(out, paths.Event{Kind: "ADDFIRST", Arg: qid, Pos: v.Pos()})
						case "RemoveFirst":
							out = append(out, paths.Event{Kind: "REMOVEFIRST", Arg: qid, Pos: v.Pos()})
						case "RemoveLast", "Remove":
							out = append(out, paths.Event{Kind: "REMOVELAST", Arg: qid, Pos: v.Pos()})
						case "Clear":
							out = append(out, paths.Event{Kind: "CLEAR", Arg: qid, Pos: v.Pos()})
						}
						return true
					}
					if tv, ok := info.Types[sel.X]; ok && tv.Type != nil && strings.HasSuffix(tv.Type.String(), "sync.Cond") {
						switch name {
						case "Broadcast", "Signal":
							out = append(out, paths.Event{Kind: "SIGNAL", Arg: name, Pos: v.Pos()})
						case "Wait":
							out = append(out, paths.Event{Kind: "WAIT", Pos: v.Pos()})
						}
						return true
					}
					lname := strings.ToLower(name)
					// a callback kept in a lane record (this.lane1.overflowed(o)) carries the lane's number
					if root := rootOf(sel.X); root != nil && root.Name == q.recv {
						if _, isId := ast.Unparen(sel.X).(*ast.Ident); !isId {
							if _, isFn := info.TypeOf(sel).Underlying().(*types.Signature); isFn {
								if nn := q.norm(sel); strings.HasPrefix(nn, "failed") || strings.HasPrefix(nn, "overflowed") {
									lname = strings.ToLower(nn)
									sel = &ast.SelectorExpr{X: root, Sel: sel.Sel}
								}
							}
						}
					}
					if id, ok := ast.Unparen(sel.X).(*ast.Ident); ok && id.Name == q.recv {
						switch {
						case strings.HasPrefix(lname, "failed"):
							out = append(out, paths.Event{Kind: "FAILED", Arg: strings.TrimPrefix(lname, "failed"), Pos: v.Pos()})
						case strings.HasPrefix(lname, "overflowed"):
							arg := ""
							if len(v.Args) == 1 {
								arg = q.norm(v.Args[0])
							}
							out = append(out, paths.Event{Kind: "OVERFLOWED", Arg: strings.TrimPrefix(lname, "overflowed") + ":" + arg, Pos: v.Pos()})
						case name == "GetNoWait" || q.noWaitGet(v):
							out = append(out, paths.Event{Kind: "GETNOWAIT", Pos: v.Pos()})
						}
					}
				}
				return true
			})
			return out
		},
	}
}

// stripConvs removes parentheses and type conversions.
func stripConvs(info *types.Info, e ast.Expr) ast.Expr {
	for {
		e = ast.Unparen(e)
		call, ok := e.(*ast.CallExpr)
		if !ok || len(call.Args) != 1 {
			return e
		}
		if tv, ok := info.Types[call.Fun]; !ok || !tv.IsType() {
			return e
		}
		e = call.Args[0]
	}
}

// isClockCall: a reading of the current time (dateutil.SystemNow/Now..., time.Now()...).
func isClockCall(info *types.Info, e ast.Expr) bool {
	found := false
	ast.Inspect(e, func(n ast.Node) bool {
		call, ok := n.(*ast.CallExpr)
		if !ok {
			return true
		}
		var id *ast.Ident
		switch f := call.Fun.(type) {
		case *ast.Ident:
			id = f
		case *ast.SelectorExpr:
			id = f.Sel
		}
		if id == nil {
			return true
		}
		if fn, _ := info.Uses[id].(*types.Func); fn != nil && fn.Pkg() != nil {
			pp := fn.Pkg().Path()
			if (strings.HasSuffix(pp, "/util/dateutil") && (strings.Contains(fn.Name(), "Now") || strings.Contains(fn.Name(), "Millis"))) || (pp == "time" && fn.Name() == "Now") {
				found = true
			}
		}
		return true
	})
	return found
}

func recvName(fi *core.FuncInfo) string {
	if fi.Decl.Recv != nil && len(fi.Decl.Recv.List) > 0 && len(fi.Decl.Recv.List[0].Names) > 0 {
		return fi.Decl.Recv.List[0].Names[0].Name
	}
	return "this"
}

func runC11(p *core.Program, r *core.Report) {
	r.Explanation = "Path rules over the request queues (util/queue). Every method body is enumerated as event paths (add/remove on the backing list, Broadcast/Signal, Wait, callbacks, conditions with their outcome, loops taken zero times or once); rules are predicates over all paths: a plain put adds only with room (capacity<=0 or size<capacity) and otherwise refuses (Failed callback nil-guarded, returns false, nothing added); a forced put evicts from the head in a loop `while size>=capacity`, hands every evicted element to the nil-guarded overflow callback, then adds; every add is followed by a wake-up on the same path; blocking get waits in a loop on emptiness and removes from the head afterwards; get-no-wait never waits; additions go to the tail and removals come from the head; the double queue serves queue 1 before queue 2; timed get breaks out only when the remaining time is <= 0."
	r.NotDecided = []string{"exactly-once delivery under concurrency and absence of lost wake-ups as a liveness fact (the signal rule is its necessary condition)", "timing accuracy"}
	r.Assumptions = []string{"the mutex discipline of C10", "LinkedList.AddLast/RemoveFirst shapes (C13.linked)"}
	r.Rule("C11.capacity", "put adds only with room, else refuses; forced put evicts oldest in a loop while size>=capacity, reporting each evicted element, then adds", 5)
	r.Rule("C11.signal", "every path that adds an element wakes waiters afterwards", 5)
	r.Rule("C11.wait", "blocking get waits in a loop on emptiness under the lock and then removes the head; get-no-wait never waits and returns nil only when empty", 3)
	r.Rule("C11.fifo", "elements are added at the tail and removed from the head only", 8)
	r.Rule("C11.double-order", "the double queue tests and serves queue 1 before queue 2 on every path", 2)
	r.Rule("C11.backing", "the linked list behind the queues keeps first/last/size consistent on every path of insert, unlink and clear (C13.linked on util/list.LinkedList): nothing is stranded behind a dead node", 4)
	r.Rule("C11.timeout", "timed get leaves its retry loop empty-handed only when the remaining time is <= 0", 2)
	r.Rule("C11.ctor", "a constructor stores each capacity it is given into that queue's capacity field as it is (0 and negative stay 'unbounded'; one lane's limit is not another's)", 2)

	pk := p.Pkg("util/queue")
	c11Ctors(p, r)
	if pk == nil {
		r.Undec("C11.capacity", "util/queue", "-", "package not found")
		return
	}
	if ll := namedIn(p, "util/list", "LinkedList"); ll != nil {
		c13Linked(p, r, ll, "C11.backing")
	} else {
		r.Undec("C11.backing", "util/list.LinkedList", "-", "type not found")
	}
	for _, fi := range p.Funcs {
		if fi.Pkg != pk || fi.Decl.Body == nil {
			continue
		}
		n := core.RecvNamed(fi.Obj)
		if n == nil {
			continue
		}
		st, ok := n.Underlying().(*types.Struct)
		if !ok {
			continue
		}
		hasCond := false
		for i := 0; i < st.NumFields(); i++ {
			if strings.HasSuffix(st.Field(i).Type().String(), "sync.Cond") {
				hasCond = true
			}
			// the condition variable kept in a monitor struct of the package
			if ft := namedOf(st.Field(i).Type()); ft != nil && ft.Obj().Pkg() == n.Obj().Pkg() {
				if ist, ok := ft.Underlying().(*types.Struct); ok {
					for k := 0; k < ist.NumFields(); k++ {
						if strings.HasSuffix(ist.Field(k).Type().String(), "sync.Cond") {
							hasCond = true
						}
					}
				}
			}
		}
		if MonitorTypes(p)[n.Obj()] {
			continue // the lock itself, not a queue
		}
		if !hasCond {
			continue
		}
		q := &queueCtx{p: p, fi: fi, recv: recvName(fi)}
		ps, over := paths.Enumerate(fi.Decl.Body, q.config())
	q.resolveRetvals(ps)
		q.resolveRetvals(ps)
		name := "util/queue." + n.Obj().Name() + "." + fi.Obj.Name()
		pos := p.Pos(fi.Decl.Pos())
		if over {
			r.Undec("C11.fifo", name, pos, "too many paths")
			continue
		}
		mname := fi.Obj.Name()
		// fifo: no head insertion / tail removal anywhere
		bad := ""
		uses := false
		for _, pa := range ps {
			for _, e := range pa {
				switch e.Kind {
				case "ADDFIRST":
					bad = "adds at the head of the backing list"
				case "REMOVELAST":
					bad = "removes from the tail (or an arbitrary node) of the backing list"
				case "ADD", "REMOVEFIRST":
					uses = true
				}
			}
		}
		if bad != "" {
			r.Viol("C11.fifo", name, pos, bad+": delivery order is not the acceptance order")
		} else if uses {
			r.OK("C11.fifo", name, pos, "tail insertion / head removal only")
		}
		switch {
		case strings.HasPrefix(mname, "PutForce"):
			c11PutForce(r, name, pos, ps, strings.TrimPrefix(mname, "PutForce"))
			c11Signal(r, name, pos, ps)
		case strings.HasPrefix(mname, "Put"):
			c11Put(r, name, pos, ps, strings.TrimPrefix(mname, "Put"))
			c11Signal(r, name, pos, ps)
		case mname == "Get":
			c11Get(r, name, pos, ps)
		case mname == "GetNoWait":
			c11GetNoWait(r, name, pos, ps)
		case mname == "GetTimeout":
			c11Timeout(p, r, name, fi)
		case strings.HasPrefix(mname, "SetCapacity"):
			// the new capacity takes effect whatever its value (<= 0 means unbounded): stored on every path
			bad := ""
			for _, pa := range ps {
				if !pa.Has("SETCAP") && !pa.Has("PANIC") {
					bad = "a path returns without storing the new capacity (a guard ignores some values): the queue keeps its old bound, e.g. it can no longer be made unbounded"
				}
				// changing the bound does not touch what is queued: elements already accepted stay until
				// a consumer takes them (a lowered bound only refuses new ones)
				if pa.Has("REMOVEFIRST") || pa.Has("CLEAR") || pa.Has("REMOVELAST") {
					bad = "setting the capacity removes queued elements: they were accepted and are neither delivered nor reported: " + pa.String()
				}
			}
			r.Check(bad == "", "C11.capacity", name, pos, "capacity stored on every path", bad)
		}
		if (mname == "Get" || mname == "GetNoWait") && strings.Contains(n.Obj().Name(), "Double") {
			ok := true
			why := ""
			for _, pa := range ps {
				i2 := pa.IndexArg("REMOVEFIRST", "2")
				if i2 >= 0 {
					j := pa.IndexArg("COND", cc("size1", ">", "0", false))
					if j < 0 || j > i2 {
						ok, why = false, "queue 2 is served on a path that did not find queue 1 empty: "+pa.String()
					}
				}
				i1 := pa.IndexArg("REMOVEFIRST", "1")
				if i1 >= 0 {
					j := pa.IndexArg("COND", cc("size1", ">", "0", true))
					if j < 0 || j > i1 {
						ok, why = false, "queue 1 is served without testing it is non-empty: "+pa.String()
					}
				}
			}
			r.Check(ok, "C11.double-order", name, pos, "queue 1 first on every path", why)
		}
	}
}

func roomBefore(pa paths.Path, idx int, q string) bool {
	// the last capacity-related condition before idx establishes room
	for i := idx - 1; i >= 0; i-- {
		if pa[i].Kind != "COND" {
			continue
		}
		switch pa[i].Arg {
		case cc("capacity"+q, "<=", "0", true), cc("size"+q, "<", "capacity"+q, true):
			return true
		case cc("capacity"+q, "<=", "0", false):
			continue
		}
		if strings.Contains(pa[i].Arg, "capacity") {
			return false
		}
	}
	return false
}

func c11Put(r *core.Report, name, pos string, ps []paths.Path, q string) {
	ok := true
	var why []string
	for _, pa := range ps {
		ia := pa.IndexArg("ADD", q)
		if ia >= 0 {
			if !roomBefore(pa, ia, q) {
				ok = false
				why = append(why, "adds without room established (capacity<=0 or size<capacity): "+pa.String())
			}
			if !pa.HasArg("RETVAL", "true") {
				ok = false
				why = append(why, "an accepting path does not return true")
			}
			continue
		}
		// refusal path
		if !pa.HasArg("RETVAL", "false") {
			ok = false
			why = append(why, "a refusing path does not return false: "+pa.String())
		}
		if i := pa.Index("FAILED"); i >= 0 {
			g := pa.IndexArg("COND", cc("failed"+q, "!=", "nil", true))
			if g < 0 {
				g = pa.IndexArg("COND", cc("Failed"+q, "!=", "nil", true))
			}
			if g < 0 || g > i {
				ok = false
				why = append(why, "failure callback invoked without a nil check")
			}
		}
		if pa.Has("REMOVEFIRST") || pa.Has("CLEAR") {
			ok = false
			why = append(why, "a refused put changes the queue content")
		}
		// every refused element is handed to the failure callback when one is installed: a path that
		// found the callback non-nil and returns without calling it loses the element silently
		hasCb := pa.HasArg("COND", cc("failed"+q, "!=", "nil", true)) || pa.HasArg("COND", cc("Failed"+q, "!=", "nil", true))
		if hasCb && !pa.Has("FAILED") {
			ok = false
			why = append(why, "an element is refused with a failure callback installed and the callback is not called: the element is dropped without being reported: "+pa.String())
		}
	}
	if ok {
		r.OK("C11.capacity", name, pos, fmt.Sprintf("%d paths: add iff room, refusal leaves content unchanged", len(ps)))
	} else {
		r.Viol("C11.capacity", name, pos, strings.Join(uniq(why), "; "))
	}
}

func c11PutForce(r *core.Report, name, pos string, ps []paths.Path, q string) {
	ok := true
	var why []string
	for _, pa := range ps {
		if pa.Has("CUT") {
			continue // left a `for {}` by the unrolling bound, not by the code
		}
		ia := pa.IndexArg("ADD", q)
		if ia < 0 {
			ok = false
			why = append(why, "a forced put path does not add the element: "+pa.String())
			continue
		}
		if !roomBefore(pa, ia, q) {
			ok = false
			why = append(why, "adds without room: eviction is not a loop running while size>=capacity: "+pa.String())
		}
		// evictions only inside that loop, each reported
		for i, e := range pa {
			if e.Kind == "REMOVEFIRST" && e.Arg == q {
				// preceded by loop condition true
				g := -1
				for j := i - 1; j >= 0; j-- {
					if pa[j].Kind == "COND" && pa[j].Arg == cc("size"+q, ">=", "capacity"+q, true) {
						g = j
						break
					}
					if pa[j].Kind == "ENDLOOP" {
						break // (the first round of a post-test loop is guarded by the test in front of the loop)
					}
				}
				if g < 0 {
					ok = false
					why = append(why, "an element is evicted outside the `size>=capacity` loop")
				}
				// the overflow callback, when set, receives it
				rep := false
				for j := i + 1; j < len(pa) && pa[j].Kind != "ENDLOOP"; j++ {
					if pa[j].Kind == "OVERFLOWED" {
						rep = true
					}
				}
				nilPath := false
				for j := i + 1; j < len(pa) && pa[j].Kind != "ENDLOOP"; j++ {
					if pa[j].Kind == "COND" && strings.HasSuffix(pa[j].Arg, "==nil=true") {
						nilPath = true
					}
				}
				if !rep && !nilPath {
					ok = false
					why = append(why, "an evicted element is not handed to the overflow callback: "+pa.String())
				}
			}
			if e.Kind == "OVERFLOWED" {
				g := false
				for j := i - 1; j >= 0; j-- {
					if pa[j].Kind == "COND" && strings.HasSuffix(pa[j].Arg, "==nil=false") {
						g = true
						break
					}
					if pa[j].Kind == "REMOVEFIRST" {
						break
					}
				}
				if !g {
					ok = false
					why = append(why, "overflow callback invoked without a nil check")
				}
			}
		}
	}
	if ok {
		r.OK("C11.capacity", name, pos, fmt.Sprintf("%d paths: evict oldest while full, report each, then add", len(ps)))
	} else {
		r.Viol("C11.capacity", name, pos, strings.Join(uniq(why), "; "))
	}
}

func c11Signal(r *core.Report, name, pos string, ps []paths.Path) {
	ok := true
	why := ""
	for _, pa := range ps {
		ia := pa.LastIndex("ADD")
		if ia < 0 {
			continue
		}
		sig := false
		for j := ia + 1; j < len(pa); j++ {
			if pa[j].Kind == "SIGNAL" {
				sig = true
			}
		}
		if !sig {
			ok = false
			why = "a path adds an element and returns without Broadcast/Signal: a consumer blocked in Get can stay blocked with an element queued: " + pa.String()
		}
	}
	r.Check(ok, "C11.signal", name, pos, "every add is followed by a wake-up", why)
}

func c11Get(r *core.Report, name, pos string, ps []paths.Path) {
	ok := true
	var why []string
	sawWait := false
	for _, pa := range ps {
		for i, e := range pa {
			if e.Kind == "WAIT" {
				sawWait = true
				inLoop := false
				for j := i - 1; j >= 0; j-- {
					if pa[j].Kind == "LOOP" {
						inLoop = true
						break
					}
					if pa[j].Kind == "ENDLOOP" {
						break
					}
				}
				if !inLoop {
					ok = false
					why = append(why, "Wait() is not inside a loop re-testing emptiness")
				}
			}
			if e.Kind == "REMOVEFIRST" {
				// since the last Wait() (or the start) the path must have found this queue non-empty:
				// `for empty { Wait }; remove` and `for { if non-empty { return remove }; Wait }` alike
				nonEmpty := false
				for j := i - 1; j >= 0; j-- {
					if pa[j].Kind == "CUT" {
						nonEmpty = true // the enumerator stopped unrolling an endless loop here: what follows is not a real continuation
						break
					}
					if pa[j].Kind == "WAIT" {
						break
					}
					if pa[j].Kind == "COND" && (pa[j].Arg == cc("size"+e.Arg, ">", "0", true) || pa[j].Arg == cc("size"+e.Arg, "==", "0", false) || pa[j].Arg == cc("size"+e.Arg, ">=", "1", true)) {
						nonEmpty = true
						break
					}
				}
				if !nonEmpty {
					ok = false
					why = append(why, "removes without having found the queue non-empty since the last Wait(): a woken consumer takes from an empty queue: "+pa.String())
				}
			}
		}
	}
	// a blocking get returns with an element and not otherwise: on every feasible path that leaves the
	// waiting loop without (another) Wait and returns, the head of a queue has been taken. (Paths that
	// did wait re-test the loop condition as a whole; the paths that did not wait carry its atoms, and
	// the loop is left the same way each time.)
	for _, pa := range ps {
		// (paths through a followed helper are left out: what a helper with several results hands back
		// is not correlated with the tests made on it afterwards)
		if len(pa) == 0 || pa[len(pa)-1].Kind != "RET" || pa.Has("WAIT") || pa.Has("CUT") || pa.Has("ENTER") || !pa.Consistent() {
			continue
		}
		if !pa.Has("REMOVEFIRST") {
			ok = false
			why = append(why, "a path leaves the waiting loop and returns without having taken an element: the blocking get answers with nothing although it promised to wait for an element: "+pa.String())
		}
	}
	if !sawWait {
		ok = false
		why = append(why, "blocking get never waits")
	}
	if ok {
		r.OK("C11.wait", name, pos, "for empty { Wait } then remove head")
	} else {
		r.Viol("C11.wait", name, pos, strings.Join(uniq(why), "; "))
	}
}

func c11GetNoWait(r *core.Report, name, pos string, ps []paths.Path) {
	ok := true
	var why []string
	for _, pa := range ps {
		if pa.Has("WAIT") {
			ok = false
			why = append(why, "get-no-wait can block in Wait()")
		}
		if i := pa.Index("REMOVEFIRST"); i >= 0 {
			q := pa[i].Arg
			g := pa.IndexArg("COND", cc("size"+q, ">", "0", true))
			if g < 0 || g > i {
				ok = false
				why = append(why, "removes without testing non-emptiness")
			}
		} else if !pa.HasArg("RETVAL", "nil") {
			ok = false
			why = append(why, "an empty path does not return nil: "+pa.String())
		} else {
			// empty-handed only because the list itself was found empty (not on the word of a counter
			// or flag kept beside it)
			sawEmpty := false
			for _, e := range pa {
				if e.Kind == "COND" && strings.HasPrefix(e.Arg, "size") && (strings.HasSuffix(e.Arg, ">0=false") || strings.HasSuffix(e.Arg, "<=0=true") || strings.HasSuffix(e.Arg, "==0=true")) {
					sawEmpty = true
				}
			}
			if !sawEmpty {
				ok = false
				why = append(why, "returns nil on a path that never found the queue itself empty: "+pa.String())
			}
		}
	}
	if ok {
		r.OK("C11.wait", name, pos, "never waits; head iff non-empty else nil")
	} else {
		r.Viol("C11.wait", name, pos, strings.Join(uniq(why), "; "))
	}
}

// c11Timeout: a timed get may come back empty-handed only once the time is up. On every path that
// returns without an element, the decision to give up must be the outcome "remaining time <= 0" of a
// comparison whose left side was recomputed as deadline - now() after the last attempt, the deadline
// having been fixed as now() + timeout before the retry loop. Variable names, loop form (three-clause,
// `for {}` with returns, break vs. return) and comparison spelling do not matter.
func c11Timeout(p *core.Program, r *core.Report, name string, fi *core.FuncInfo) {
	pos := p.Pos(fi.Decl.Pos())
	q := &queueCtx{p: p, fi: fi, recv: recvName(fi)}
	ps, over := paths.Enumerate(fi.Decl.Body, q.config())
	if over {
		r.Undec("C11.timeout", name, pos, "too many paths")
		return
	}
	var why []string
	nEmpty, nTries := 0, 0
	for _, pa := range ps {
		if pa.Has("CUT") {
			continue // left a `for {}` by the unrolling bound, not by the code
		}
		if pa.Has("GETNOWAIT") {
			nTries++
		}
		// empty-handed: returns nil, or returns a variable last known to be nil
		ret := ""
		for _, e := range pa {
			if e.Kind == "RETVAL" {
				ret = e.Arg
			}
		}
		empty := ret == "nil"
		if !empty && ret != "" {
			for _, e := range pa {
				if e.Kind == "COND" && (e.Arg == cc(ret, "==", "nil", true) || e.Arg == cc(ret, "==", "nil", false)) {
					empty = e.Arg == cc(ret, "==", "nil", true)
				}
			}
		}
		if !empty {
			continue
		}
		nEmpty++
		// the last REMAIN and the comparison of its variable with 0 after it
		ri := -1
		for i, e := range pa {
			if e.Kind == "REMAIN" {
				ri = i
			}
		}
		if ri < 0 {
			why = append(why, "gives up without having recomputed the remaining time from the deadline: "+pa.String())
			continue
		}
		parts := strings.SplitN(pa[ri].Arg, "<-", 2)
		rv, dv := parts[0], parts[1]
		di := pa.IndexArg("DEADLINE", dv)
		if di < 0 {
			// a deadline fixed as a field of a bookkeeping record built by a literal
			if k := strings.LastIndex(dv, "."); k >= 0 {
				di = pa.IndexArg("DEADLINE", "*"+dv[k:])
			}
		}
		li := pa.Index("LOOP")
		if di < 0 || (li >= 0 && di > li) {
			why = append(why, "the deadline "+dv+" is not fixed as now()+timeout before the retry loop")
		}
		up := false
		for _, e := range pa[ri+1:] {
			if e.Kind == "COND" && e.Arg == cc(rv, "<=", "0", true) {
				up = true
			}
			if e.Kind == "COND" && e.Arg == cc(rv, "<=", "0", false) {
				up = false
			}
		}
		if !up {
			why = append(why, "returns empty-handed on a path where the remaining time ("+rv+") was not found to be <= 0: "+pa.String())
		}
		// no attempt is skipped: an attempt precedes the give-up
		if !pa.Has("GETNOWAIT") {
			why = append(why, "gives up without trying to get an element")
		}
	}
	if nEmpty == 0 || nTries == 0 {
		r.Undec("C11.timeout", name, pos, "no polling retry structure found (no path that tries GetNoWait and gives up on a recomputed deadline)")
		return
	}
	if len(why) == 0 {
		r.OK("C11.timeout", name, pos, "gives up only when deadline - now <= 0")
	} else {
		r.Viol("C11.timeout", name, pos, strings.Join(uniq(why), "; "))
	}
}

// resolveRetvals: a returned boolean expression (a flag such as `accepted`, expanded to the test it
// stands for) is replaced by the value the path's own condition outcomes give it.
func (q *queueCtx) resolveRetvals(ps []paths.Path) {
	info := q.fi.Pkg.TypesInfo
	for _, pa := range ps {
		for i := range pa {
			e := &pa[i]
			if e.Kind != "RETVAL" || e.Node == nil {
				continue
			}
			ex, ok := e.Node.(ast.Expr)
			if !ok {
				continue
			}
			var eval func(x ast.Expr) (bool, bool)
			eval = func(x ast.Expr) (bool, bool) {
				x = ast.Unparen(x)
				if tv, ok := info.Types[x]; ok && tv.Value != nil && tv.Value.Kind() == constant.Bool {
					return constant.BoolVal(tv.Value), true
				}
				switch v := x.(type) {
				case *ast.UnaryExpr:
					if v.Op == token.NOT {
						b, ok := eval(v.X)
						return !b, ok
					}
				case *ast.BinaryExpr:
					switch v.Op {
					case token.LOR:
						a, ok1 := eval(v.X)
						if ok1 && a {
							return true, true
						}
						b, ok2 := eval(v.Y)
						if ok2 && b {
							return true, true
						}
						return false, ok1 && ok2
					case token.LAND:
						a, ok1 := eval(v.X)
						if ok1 && !a {
							return false, true
						}
						b, ok2 := eval(v.Y)
						if ok2 && !b {
							return false, true
						}
						return true, ok1 && ok2
					}
				}
				if pa[:i].HasArg("COND", condKey(info, q.norm, x, true)) {
					return true, true
				}
				if pa[:i].HasArg("COND", condKey(info, q.norm, x, false)) {
					return false, true
				}
				return false, false
			}
			if b, ok := eval(ex); ok {
				e.Arg = fmt.Sprint(b)
			}
		}
		// `return ok` with ok := helper(...): the value the followed helper returned on this path
		for i := range pa {
			e := &pa[i]
			if e.Kind != "RETVAL" || e.Arg == "" {
				continue
			}
			for j := i - 1; j >= 0; j-- {
				if pa[j].Kind == "RESCALL" && pa[j].Arg == e.Arg {
					// the helper's own last RETVAL before its LEAVE
					for k := j - 1; k >= 0; k-- {
						if pa[k].Kind == "RETVAL" {
							e.Arg = pa[k].Arg
							break
						}
						if pa[k].Kind == "ENTER" {
							break
						}
					}
					break
				}
			}
		}
		// `return result` of a named result: the value it was last given on this path, else its zero value
		for i := range pa {
			e := &pa[i]
			if e.Kind != "RETVAL" {
				continue
			}
			var rid *ast.Ident
			var robj types.Object
			if q.fi.Decl.Type.Results != nil {
				for _, f := range q.fi.Decl.Type.Results.List {
					for _, n := range f.Names {
						if n.Name == e.Arg || (e.Arg == "" && len(f.Names) == 1) {
							rid, robj = n, info.Defs[n]
						}
					}
				}
			}
			if rid == nil || robj == nil {
				continue
			}
			val := ""
			for j := i - 1; j >= 0; j-- {
				if pa[j].Kind == "RES" && strings.HasPrefix(pa[j].Arg, rid.Name+"=") {
					val = strings.TrimPrefix(pa[j].Arg, rid.Name+"=")
					break
				}
			}
			if val == "" {
				switch t := robj.Type().Underlying().(type) {
				case *types.Basic:
					switch {
					case t.Info()&types.IsBoolean != 0:
						val = "false"
					case t.Info()&types.IsNumeric != 0:
						val = "0"
					}
				default:
					val = "nil"
				}
			}
			if val != "" {
				e.Arg = val
			}
		}
		// `return v` with v known to be nil on this path (v, _ := take() took the empty way out)
		for i := range pa {
			e := &pa[i]
			if e.Kind == "RETVAL" && e.Arg != "" && pa[:i].HasArg("FLAG", e.Arg+"==nil=true") {
				e.Arg = "nil"
			}
		}
	}
}

// c11Ctors: every integer capacity field of a queue is assigned, in each constructor that sets it, from
// an integer parameter the constructor never assigns (or from a constant), and no two capacity fields
// of one constructor come from the same parameter.
func c11Ctors(p *core.Program, r *core.Report) {
	pk := p.Pkg("util/queue")
	if pk == nil {
		return
	}
	for _, fi := range p.Funcs {
		if fi.Pkg != pk || fi.Decl.Body == nil || core.RecvNamed(fi.Obj) != nil || core.IsCanaryFile(p.Fset.Position(fi.Decl.Pos()).Filename) {
			continue
		}
		info := fi.Pkg.TypesInfo
		params := map[types.Object]bool{}
		for _, f := range fi.Decl.Type.Params.List {
			for _, nm := range f.Names {
				params[info.Defs[nm]] = true
			}
		}
		// parameters the constructor changes
		changed := map[types.Object]bool{}
		ast.Inspect(fi.Decl.Body, func(n ast.Node) bool {
			switch v := n.(type) {
			case *ast.AssignStmt:
				for _, l := range v.Lhs {
					if id, ok := ast.Unparen(l).(*ast.Ident); ok && params[info.ObjectOf(id)] {
						changed[info.ObjectOf(id)] = true
					}
				}
			case *ast.IncDecStmt:
				if id, ok := ast.Unparen(v.X).(*ast.Ident); ok && params[info.ObjectOf(id)] {
					changed[info.ObjectOf(id)] = true
				}
			}
			return true
		})
		var probs []string
		from := map[types.Object]string{}
		sets := 0
		type capSet struct {
			name *ast.Ident
			rhs  ast.Expr
		}
		var capSets []capSet
		ast.Inspect(fi.Decl.Body, func(n ast.Node) bool {
			switch v := n.(type) {
			case *ast.AssignStmt:
				if len(v.Lhs) == len(v.Rhs) {
					for i, l := range v.Lhs {
						if sel, ok := ast.Unparen(l).(*ast.SelectorExpr); ok {
							capSets = append(capSets, capSet{sel.Sel, v.Rhs[i]})
						}
					}
				}
			case *ast.CompositeLit:
				for _, el := range v.Elts {
					if kv, ok := el.(*ast.KeyValueExpr); ok {
						if kid, ok := kv.Key.(*ast.Ident); ok {
							capSets = append(capSets, capSet{kid, kv.Value})
						}
					}
				}
			}
			return true
		})
		func() {
			for _, cs := range capSets {
				sel := struct{ Sel *ast.Ident }{cs.name}
				as := struct{ Rhs []ast.Expr }{[]ast.Expr{cs.rhs}}
				i := 0
				if !strings.Contains(strings.ToLower(sel.Sel.Name), "capacity") {
					continue
				}
				fv, ok := info.ObjectOf(sel.Sel).(*types.Var)
				if !ok || !fv.IsField() {
					continue
				}
				sets++
				rhs := ast.Unparen(stripConvs(info, as.Rhs[i]))
				if _, isC := constIntOf(info, rhs); isC {
					continue
				}
				id, ok := rhs.(*ast.Ident)
				if !ok || !params[info.ObjectOf(id)] {
					probs = append(probs, fmt.Sprintf("%s is set from `%s`, not from the capacity the caller gave", sel.Sel.Name, types.ExprString(as.Rhs[i])))
					continue
				}
				po := info.ObjectOf(id)
				if changed[po] {
					probs = append(probs, fmt.Sprintf("%s is set from the parameter %s after the constructor changed it: the capacity in force is not the one the caller asked for (0 or less means unbounded)", sel.Sel.Name, id.Name))
				}
				if prev, dup := from[po]; dup && prev != sel.Sel.Name {
					probs = append(probs, fmt.Sprintf("%s and %s are both set from the parameter %s", prev, sel.Sel.Name, id.Name))
				}
				from[po] = sel.Sel.Name
			}
		}()
		if sets > 0 {
			fileProbs(r, "C11.ctor", "util/queue."+fi.Obj.Name(), p.Pos(fi.Decl.Pos()), uniq(probs), fmt.Sprintf("%d capacity field(s) set from the caller's values unchanged", sets))
		}
	}
}


// isHoistDef: n is the temporary's definition `zzargN := call` itself.
func isHoistDef(n ast.Node, call *ast.CallExpr) bool {
	as, ok := n.(*ast.AssignStmt)
	return ok && len(as.Rhs) == 1 && as.Rhs[0] == ast.Expr(call)
}


// sliceQueueOp: what `field = rhs` does to a queue kept in the slice field.
func sliceQueueOp(info *types.Info, field *ast.SelectorExpr, rhs ast.Expr) string {
	ft := types.ExprString(field)
	switch v := ast.Unparen(rhs).(type) {
	case *ast.Ident:
		if v.Name == "nil" {
			return "CLEAR"
		}
	case *ast.CallExpr:
		if id, ok := v.Fun.(*ast.Ident); ok && id.Name == "append" && len(v.Args) == 2 && !v.Ellipsis.IsValid() && types.ExprString(v.Args[0]) == ft {
			return "ADD"
		}
	case *ast.SliceExpr:
		if types.ExprString(v.X) != ft {
			return ""
		}
		lo, hasLo := int64(0), v.Low != nil
		if hasLo {
			k, ok := constIntOf(info, v.Low)
			if !ok {
				return ""
			}
			lo = k
		}
		switch {
		case hasLo && lo == 1 && v.High == nil:
			return "REMOVEFIRST"
		case v.High != nil && (!hasLo || lo == 0):
			if k, ok := constIntOf(info, v.High); ok && k == 0 {
				return "CLEAR"
			}
			return "REMOVELAST"
		}
	}
	return ""
}

// sliceOp: fn is a method of the queue type whose body is one operation on a slice-kept queue
// (optionally guarded by an emptiness test that answers nil): "ADD:<lane>", "REMOVEFIRST:<lane>", …
func (q *queueCtx) sliceOp(fn *types.Func) string {
	cf := q.p.FuncOf(fn)
	if cf == nil || cf.Decl.Body == nil || cf.Decl.Recv == nil || fn.Exported() {
		return ""
	}
	cq := &queueCtx{p: q.p, fi: cf, recv: recvName(cf)}
	info := cf.Pkg.TypesInfo
	op := ""
	other := false
	ast.Inspect(cf.Decl.Body, func(n ast.Node) bool {
		switch v := n.(type) {
		case *ast.AssignStmt:
			if len(v.Lhs) == 1 && len(v.Rhs) == 1 {
				if ls, ok := ast.Unparen(v.Lhs[0]).(*ast.SelectorExpr); ok {
					if d, ok := cq.sliceQueueField(ls); ok {
						if k := sliceQueueOp(info, ls, v.Rhs[0]); k != "" {
							if k == "CLEAR" && op != "" {
								return true // dropping the emptied slice after the removal
							}
							if op != "" && op != k+":"+d {
								other = true
							}
							op = k + ":" + d
						}
						return true
					}
				}
			}
		case *ast.CallExpr:
			if id, ok := v.Fun.(*ast.Ident); ok && (id.Name == "len" || id.Name == "append" || id.Name == "cap") {
				return true
			}
			if tv, ok := info.Types[v.Fun]; ok && tv.IsType() {
				return true
			}
			other = true // calls anything else: not a plain slice operation
		}
		return true
	})
	if other {
		return ""
	}
	return op
}
