// Package props holds the per-property rule tables and drivers.
package props

import (
	"sort"

	"golibcheck/internal/core"
)

// Checker is one property's static check.
type Checker struct {
	ID       string
	Canaries func() []core.Canary
	Run      func(p *core.Program, r *core.Report)
}

var registry = map[string]*Checker{}

func register(c *Checker) { registry[c.ID] = c }

func Get(id string) *Checker { return registry[id] }

func IDs() []string {
	var out []string
	for k := range registry {
		out = append(out, k)
	}
	sort.Strings(out)
	return out
}
