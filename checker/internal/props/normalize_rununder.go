package props

import (
	"go/ast"
	"go/token"
	"go/types"

	"golibcheck/internal/core"
	"golibcheck/internal/paths"
)

// normalizeRunUnder: a function of the module that does nothing but run the function it is handed
// between a prologue and deferred epilogue —
//
//	func withSendLock(fn func() error) error { mu.Lock(); defer mu.Unlock(); return fn() }
//
// — is a bracket around its argument. Each call is rewritten into what it stands for, so that the lock,
// order and path rules see the bracket and the bracketed statements in the function that uses them:
//
//	return w(func() R { body })      →  { prologue; defer epilogue; body }            (returns stay returns)
//	return w(x.method)               →  { prologue; defer epilogue; return x.method() }
//	w(lit) | _ = w(lit) | v := w(lit) | if v := w(lit); c {…}
//	                                 →  { prologue; body with `return e` → `v = e`; epilogue } [; if c {…}]
//
// The second group needs every return of the literal in tail position (the epilogue is then the last
// thing on each path; what a panic would do differently is not modelled by the rules that read the
// result). Wrappers with other parameters, several calls of fn, or anything but plain calls and defers
// around it are left alone.
type runUnder struct {
	fi    *core.FuncInfo
	fnObj types.Object
	pre   []ast.Stmt // prologue statements (ExprStmt) in order
	post  []ast.Stmt // deferred calls as plain statements, in the order they run
	defs  []ast.Stmt // the prologue and defers as written (for the `return w(...)` form)
	recv  types.Object
}

func normalizeRunUnder(p *core.Program) {
	wr := map[*types.Func]*runUnder{}
	for _, fi := range p.Funcs {
		if ru := asRunUnder(fi); ru != nil {
			wr[fi.Obj] = ru
		}
	}
	if len(wr) == 0 {
		return
	}
	for _, fi := range p.Funcs {
		if fi.Decl.Body == nil || wr[fi.Obj] != nil {
			continue
		}
		n := &runUnderRewriter{info: fi.Pkg.TypesInfo, fi: fi, wr: wr}
		n.block(fi.Decl.Body, 0)
	}
}

func asRunUnder(fi *core.FuncInfo) *runUnder {
	if fi.Decl.Body == nil || fi.Obj.Exported() {
		return nil
	}
	sig := fi.Obj.Type().(*types.Signature)
	if sig.Params().Len() != 1 || sig.Variadic() || sig.Results().Len() > 1 {
		return nil
	}
	fsig, ok := sig.Params().At(0).Type().Underlying().(*types.Signature)
	if !ok || fsig.Params().Len() != 0 || fsig.Results().Len() != sig.Results().Len() {
		return nil
	}
	if sig.Results().Len() == 1 && !types.Identical(fsig.Results().At(0).Type(), sig.Results().At(0).Type()) {
		return nil
	}
	if len(fi.Decl.Type.Params.List) != 1 || len(fi.Decl.Type.Params.List[0].Names) != 1 {
		return nil
	}
	info := fi.Pkg.TypesInfo
	ru := &runUnder{fi: fi, fnObj: info.Defs[fi.Decl.Type.Params.List[0].Names[0]]}
	if ru.fnObj == nil {
		return nil
	}
	if fi.Decl.Recv != nil {
		if len(fi.Decl.Recv.List) != 1 || len(fi.Decl.Recv.List[0].Names) != 1 {
			return nil
		}
		ru.recv = info.Defs[fi.Decl.Recv.List[0].Names[0]]
	}
	list := fi.Decl.Body.List
	if len(list) < 2 {
		return nil
	}
	isFnCall := func(e ast.Expr) bool {
		c, ok := ast.Unparen(e).(*ast.CallExpr)
		if !ok || len(c.Args) != 0 {
			return false
		}
		id, ok := ast.Unparen(c.Fun).(*ast.Ident)
		return ok && info.Uses[id] == ru.fnObj
	}
	last := list[len(list)-1]
	switch l := last.(type) {
	case *ast.ReturnStmt:
		if sig.Results().Len() != 1 || len(l.Results) != 1 || !isFnCall(l.Results[0]) {
			return nil
		}
	case *ast.ExprStmt:
		if sig.Results().Len() != 0 || !isFnCall(l.X) {
			return nil
		}
	default:
		return nil
	}
	mentionsFn := func(n ast.Node) bool {
		found := false
		ast.Inspect(n, func(m ast.Node) bool {
			if id, ok := m.(*ast.Ident); ok && info.Uses[id] == ru.fnObj {
				found = true
			}
			return !found
		})
		return found
	}
	for _, st := range list[:len(list)-1] {
		if mentionsFn(st) {
			return nil
		}
		switch s := st.(type) {
		case *ast.ExprStmt:
			if _, ok := ast.Unparen(s.X).(*ast.CallExpr); !ok {
				return nil
			}
			ru.pre = append(ru.pre, s)
			ru.defs = append(ru.defs, s)
		case *ast.DeferStmt:
			if _, isLit := ast.Unparen(s.Call.Fun).(*ast.FuncLit); isLit {
				return nil
			}
			ru.post = append([]ast.Stmt{&ast.ExprStmt{X: s.Call}}, ru.post...)
			ru.defs = append(ru.defs, s)
		default:
			return nil
		}
	}
	if len(ru.defs) == 0 {
		return nil
	}
	return ru
}

type runUnderRewriter struct {
	info *types.Info
	fi   *core.FuncInfo
	wr   map[*types.Func]*runUnder
}

func (n *runUnderRewriter) block(b *ast.BlockStmt, depth int) {
	if b == nil || depth > 10 {
		return
	}
	for i := 0; i < len(b.List); i++ {
		if nb := n.rewrite(b.List[i]); nb != nil {
			b.List[i] = nb
		}
		n.children(b.List[i], depth)
	}
}

func (n *runUnderRewriter) children(st ast.Stmt, depth int) {
	switch v := st.(type) {
	case *ast.BlockStmt:
		n.block(v, depth+1)
	case *ast.IfStmt:
		n.block(v.Body, depth+1)
		if v.Else != nil {
			n.children(v.Else, depth+1)
		}
	case *ast.ForStmt:
		n.block(v.Body, depth+1)
	case *ast.RangeStmt:
		n.block(v.Body, depth+1)
	case *ast.SwitchStmt:
		for _, c := range v.Body.List {
			if cc, ok := c.(*ast.CaseClause); ok {
				blk := &ast.BlockStmt{List: cc.Body}
				n.block(blk, depth+1)
				cc.Body = blk.List
			}
		}
	case *ast.SelectStmt:
		for _, c := range v.Body.List {
			if cc, ok := c.(*ast.CommClause); ok {
				blk := &ast.BlockStmt{List: cc.Body}
				n.block(blk, depth+1)
				cc.Body = blk.List
			}
		}
	case *ast.LabeledStmt:
		n.children(v.Stmt, depth+1)
	}
}

// wrapperCall: e is w(arg) for a run-under wrapper of this package.
func (n *runUnderRewriter) wrapperCall(e ast.Expr) (*runUnder, *ast.CallExpr, ast.Expr) {
	call, ok := ast.Unparen(e).(*ast.CallExpr)
	if !ok || len(call.Args) != 1 || call.Ellipsis.IsValid() {
		return nil, nil, nil
	}
	var id *ast.Ident
	var recv ast.Expr
	switch f := ast.Unparen(call.Fun).(type) {
	case *ast.Ident:
		id = f
	case *ast.SelectorExpr:
		id, recv = f.Sel, f.X
	}
	if id == nil {
		return nil, nil, nil
	}
	fn, _ := n.info.Uses[id].(*types.Func)
	ru := n.wr[fn]
	if ru == nil || ru.fi.Pkg != n.fi.Pkg {
		return nil, nil, nil
	}
	if (ru.recv != nil) != (recv != nil) {
		return nil, nil, nil
	}
	if recv != nil {
		if _, isPkg := n.info.Uses[identOf(recv)].(*types.PkgName); isPkg {
			return nil, nil, nil
		}
	}
	return ru, call, recv
}

func (n *runUnderRewriter) inst(ru *runUnder, recv ast.Expr, sts []ast.Stmt) []ast.Stmt {
	if ru.recv == nil {
		return append([]ast.Stmt{}, sts...)
	}
	repl := map[types.Object]ast.Expr{ru.recv: recv}
	out := make([]ast.Stmt, len(sts))
	for i, s := range sts {
		out[i], _ = paths.Subst(n.info, s, repl).(ast.Stmt)
	}
	return out
}

// callOfArg: arg() as an expression with the result type recorded.
func (n *runUnderRewriter) callOfArg(arg ast.Expr, at *ast.CallExpr) *ast.CallExpr {
	c := &ast.CallExpr{Fun: arg, Lparen: at.Lparen, Rparen: at.Rparen}
	if tv, ok := n.info.Types[at]; ok {
		n.info.Types[c] = tv
	}
	return c
}

func (n *runUnderRewriter) rewrite(st ast.Stmt) ast.Stmt {
	switch s := st.(type) {
	case *ast.ReturnStmt:
		if len(s.Results) != 1 {
			return nil
		}
		ru, call, recv := n.wrapperCall(s.Results[0])
		if ru == nil {
			return nil
		}
		arg := ast.Unparen(call.Args[0])
		list := n.inst(ru, recv, ru.defs)
		if lit, ok := arg.(*ast.FuncLit); ok {
			list = append(list, lit.Body.List...)
		} else if n.plainFuncValue(arg) {
			list = append(list, &ast.ReturnStmt{Return: s.Return, Results: []ast.Expr{n.callOfArg(arg, call)}})
		} else {
			return nil
		}
		return &ast.BlockStmt{Lbrace: s.Pos(), List: list, Rbrace: s.End()}
	case *ast.ExprStmt:
		ru, call, recv := n.wrapperCall(s.X)
		if ru == nil {
			return nil
		}
		return n.inPlace(ru, call, recv, st, nil, token.ILLEGAL)
	case *ast.AssignStmt:
		if len(s.Lhs) != 1 || len(s.Rhs) != 1 || (s.Tok != token.ASSIGN && s.Tok != token.DEFINE) {
			return nil
		}
		ru, call, recv := n.wrapperCall(s.Rhs[0])
		if ru == nil {
			return nil
		}
		return n.inPlace(ru, call, recv, st, s.Lhs[0], s.Tok)
	case *ast.IfStmt:
		if s.Init == nil {
			return nil
		}
		nb := n.rewrite(s.Init)
		if nb == nil {
			return nil
		}
		rest := *s
		rest.Init = nil
		blk := nb.(*ast.BlockStmt)
		blk.List = append(blk.List, &rest)
		return blk
	}
	return nil
}

func (n *runUnderRewriter) plainFuncValue(e ast.Expr) bool {
	switch v := e.(type) {
	case *ast.Ident:
		_, ok := n.info.Uses[v].(*types.Func)
		return ok
	case *ast.SelectorExpr:
		_, ok := n.info.Uses[v.Sel].(*types.Func)
		return ok
	}
	return false
}

func (n *runUnderRewriter) inPlace(ru *runUnder, call *ast.CallExpr, recv ast.Expr, at ast.Stmt, lhs ast.Expr, tok token.Token) ast.Stmt {
	arg := ast.Unparen(call.Args[0])
	mk := func(res []ast.Expr) []ast.Stmt {
		if len(res) == 0 {
			return []ast.Stmt{}
		}
		e := res[0]
		if lhs != nil {
			if id, ok := lhs.(*ast.Ident); !ok || id.Name != "_" {
				return []ast.Stmt{&ast.AssignStmt{Lhs: []ast.Expr{lhs}, TokPos: at.Pos(), Tok: tok, Rhs: []ast.Expr{e}}}
			}
		}
		if _, isCall := ast.Unparen(e).(*ast.CallExpr); isCall {
			return []ast.Stmt{&ast.ExprStmt{X: e}}
		}
		return []ast.Stmt{}
	}
	list := n.inst(ru, recv, ru.pre)
	if lit, ok := arg.(*ast.FuncLit); ok {
		bad := false
		ast.Inspect(lit.Body, func(m ast.Node) bool {
			switch m.(type) {
			case *ast.DeferStmt:
				bad = true
			case *ast.FuncLit:
				return false
			}
			return !bad
		})
		if bad {
			return nil
		}
		if hasReturn(lit.Body) {
			body, ok := tailRewrite(lit.Body.List, mk)
			if !ok {
				return nil
			}
			list = append(list, body...)
		} else {
			list = append(list, lit.Body.List...)
		}
	} else if n.plainFuncValue(arg) {
		list = append(list, mk([]ast.Expr{n.callOfArg(arg, call)})...)
		if len(list) == len(ru.pre) {
			list = append(list, &ast.ExprStmt{X: n.callOfArg(arg, call)})
		}
	} else {
		return nil
	}
	list = append(list, n.inst(ru, recv, ru.post)...)
	return &ast.BlockStmt{Lbrace: at.Pos(), List: list, Rbrace: at.End()}
}
