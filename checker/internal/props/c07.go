package props

import (
	"go/constant"
	"math"
	"fmt"
	"go/ast"
	"go/token"
	"go/types"
	"golibcheck/internal/bits"
	"golibcheck/internal/paths"
	"os"
	"sort"
	"strings"

	"golibcheck/internal/core"
	"golibcheck/internal/wire"
)

// C07 — UDP tracer packs: writer and reader agree for every type and protocol version; pooled packs
// are cleared; connection-string passwords are masked.
func init() { register(&Checker{ID: "C07", Canaries: c07Canaries, Run: runC07}) }

func c07Canaries() []core.Canary {
	return []core.Canary{{RelDir: "lang/pack/udp", Name: "c07", Src: `package udp

import (
	"github.com/whatap/golib/io"
	"github.com/whatap/golib/util/paramtext"
)

type zzCanaryGate struct {
	AbstractPack
	A   string
	N   int32
	Dbc string
}

// off-by-one version gate: writer >= 10105, reader > 10105
func (this *zzCanaryGate) Write(o *io.DataOutputX) {
	if this.Ver >= 10105 {
		o.WriteTextShortLength(this.A)
	}
	o.WriteTextShortLength(string(this.N))
}
func (this *zzCanaryGate) Read(in *io.DataInputX) {
	if this.Ver > 10105 {
		this.A = in.ReadTextShortLength()
	}
	in.ReadTextShortLength()
}
func (this *zzCanaryGate) Clear() {
	this.AbstractPack.Clear()
	this.A = ""
}
func (this *zzCanaryGate) Process() {
	if this.Ver > 50000 {
		if this.Dbc != "" {
			p := paramtext.NewParamKVSeperate(this.Dbc, " ", "=")
			this.Dbc = p.ToStringStr("password", "#")
		}
	} else {
		if this.Dbc != "" {
			p := paramtext.NewParamKVSeperate(this.Dbc, " ", "=")
			this.Dbc = p.ToStringStr("password", "#")
			p = paramtext.NewParamKVSeperate(this.Dbc, ";", "=")
			this.Dbc = p.ToStringStr("password", "#")
		}
	}
}
`, Expect: []core.CanaryExpect{{Rule: "C07.gates", Sub: "zzCanaryGate"}, {Rule: "C07.textnum", Sub: "zzCanaryGate"},
		{Rule: "C07.clear", Sub: "zzCanaryGate"}, {Rule: "C07.mask", Sub: "zzCanaryGate"}}},
		{RelDir: "lang/pack/udp", Name: "c07tail", Src: `package udp

import "github.com/whatap/golib/io"

type zzCanaryUdpTail struct{ a, b int32 }

// optional tail decided by what is left in the datagram buffer
func (this *zzCanaryUdpTail) Write(o *io.DataOutputX) {
	o.WriteInt(this.a)
	if this.b != 0 {
		o.WriteInt(this.b)
	}
}
func (this *zzCanaryUdpTail) Read(in *io.DataInputX) {
	this.a = in.ReadInt()
	if in.Available() > 0 {
		this.b = in.ReadInt()
	}
}
`, Expect: []core.CanaryExpect{{Rule: "C07.selfdelim", Sub: "zzCanaryUdpTail"}}}}
}

func runC07(p *core.Program, r *core.Report) {
	r.Explanation = "Static agreement of the UDP tracer packs (lang/pack/udp). Version gates are comparisons of Ver with constants; the lock-step walk splits the interval of Ver at every gate constant met on either side, so writer and reader are compared for every version number (exhaustive over guard truth assignments), with field labels. Registry: CreatePack/ClosePack/GetPackType and the pool used per type code. Clear(): every field (own and promoted) is assigned. Process(): on the Go and PHP branches, when Dbc is non-empty it is re-assigned from ParamKV.ToStringStr(\"password\",…) for both the ' ' and the ';' pass. Integer fields carried as text use ParseStringZeroToEmpty / ParseIntNN, never string(int)."
	r.NotDecided = []string{"that ParamKV removes the secret for every connection string spelling (string-level behaviour)", "exact semantics of the length caps", "pool behaviour under concurrency (sync.Pool is trusted)"}
	r.Assumptions = []string{"the pack's Ver field is set before Read (CreatePack does) and is the same number the writer used"}
	x := wire.NewExtractor(p)
	r.Rule("C07.gates", "Write~Read of every UDP pack agree on the layout for every version (all gate outcomes) ", 19)
	r.Rule("C07.fields", "each written field is restored into the same field at every version", 18)
	r.Rule("C07.countlink", "repetitions / raw lengths are driven by what was written", 18)
	r.Rule("C07.registry", "CreatePack case K yields a type whose GetPackType() is K, from the pool ClosePack returns K to; Ver re-assigned; Clear before Put", 18)
	r.Rule("C07.clear", "Clear() assigns every field of the pooled pack type (own and promoted)", 18)
	r.Rule("C07.mask", "Process() masks the password key for both separators on the Go and PHP branches whenever Dbc is non-empty", 6)
	r.Rule("C07.selfdelim", "no UDP pack decoder decides an optional section by what is left on the stream it was handed (several packs travel in one datagram buffer: the bytes left are the next pack's); a section the writer gates on the version is gated on the version by the reader", 0)
	ownExtentRule(p, r, "C07.selfdelim", "lang/pack/udp", "what follows the pack in the buffer (the next pack, padding) is taken for the optional section: the reader consumes bytes the writer of this pack never wrote")
	r.Rule("C07.verbatim", "Process() takes the carried text apart as it stands: no key, value or line is passed through a text-transforming function (TrimSpace, case mapping, Replace), so what was Set comes back unchanged", 3)
	noTransformRule(p, r, "C07.verbatim", []string{"lang/pack/udp"}, "Process")
	r.Rule("C07.fresh-bytes", "the datagram ToBytesPack hands back is the caller's own: it is not the backing array of an output stream that is reused for the next pack (pooled, package-level)", 1)
	freshBytesResult(p, r, "C07.fresh-bytes", []string{"lang/pack/udp"})
	r.Rule("C07.caps", "the fields cut to a maximum length on the wire are the documented ones: no writer introduces a new length cap (a capped field no longer round-trips over the 16-bit length range)", 1)
	c07Caps(p, r)
	r.Rule("C07.derived-text", "a field sent as text that Write formats from another field is formatted on every path (a constant only where the source is absent)", 1)
	c07DerivedText(p, r, "C07.derived-text")
	r.Rule("C07.textnum", "integers carried as text are formatted/parsed with matching helpers (no string(int) conversion, no width change)", 1)

	pairs, _ := discoverPairs(p, x, []string{"lang/pack/udp"})
	x.StrictOmission = true
	runPairs(p, x, r, pairs, pairRules{"C07.gates", "C07.fields", "C07.countlink"}, tierDepth(r))
	reg := checkRegistry(p, r, "C07.registry", "lang/pack/udp", "CreatePack", "UdpPack", "GetPackType")
	c07Pools(p, r, reg)
	c07Clear(p, r, reg)
	c07Mask(p, r, reg)
	c07IntParsers(p, r)
	c07ZeroToEmpty(p, r)
	c07TextNum(p, r)
}

// c07Pools: per CreatePack case: pool variable, its New func's type, Ver assignment; per ClosePack case:
// same pool; Clear() precedes the switch.
func c07Pools(p *core.Program, r *core.Report, reg *registryResult) {
	create := p.Func("lang/pack/udp", "CreatePack")
	closeF := p.Func("lang/pack/udp", "ClosePack")
	if create == nil || closeF == nil {
		r.Undec("C07.registry", "lang/pack/udp.CreatePack/ClosePack", "-", "not found")
		return
	}
	info := create.Pkg.TypesInfo
	poolOf := func(cl *ast.CaseClause, method string) (types.Object, *ast.CallExpr) {
		var obj types.Object
		var call *ast.CallExpr
		ast.Inspect(cl, func(n ast.Node) bool {
			if c, ok := n.(*ast.CallExpr); ok {
				if sel, ok := c.Fun.(*ast.SelectorExpr); ok && sel.Sel.Name == method {
					if id, ok := sel.X.(*ast.Ident); ok {
						if o := info.ObjectOf(id); o != nil && strings.HasSuffix(o.Type().String(), "sync.Pool") {
							obj, call = o, c
						}
					}
				}
			}
			return true
		})
		return obj, call
	}
	caseMap := func(fi *core.FuncInfo) map[string]*ast.CaseClause {
		out := map[string]*ast.CaseClause{}
		ast.Inspect(fi.Decl.Body, func(n ast.Node) bool {
			if cl, ok := n.(*ast.CaseClause); ok {
				for _, e := range cl.List {
					if tv, ok := info.Types[e]; ok && tv.Value != nil {
						out[tv.Value.ExactString()] = cl
					}
				}
			}
			return true
		})
		return out
	}
	cc := caseMap(create)
	// where ClosePack returns each code to: a switch (`case K: pool.Put(p)`) or a table of pools
	// (`map[K]*sync.Pool{K: &pool}` looked up and Put)
	closePool := map[string]types.Object{}
	closeEntries, _ := factoryEntries(p, closeF)
	putSeen := false
	ast.Inspect(closeF.Decl.Body, func(n ast.Node) bool {
		if c, ok := n.(*ast.CallExpr); ok {
			if sel, ok := c.Fun.(*ast.SelectorExpr); ok && sel.Sel.Name == "Put" {
				putSeen = true
			}
		}
		return true
	})
	for _, ent := range closeEntries {
		var pool types.Object
		if cl, ok := ent.Body.(*ast.CaseClause); ok {
			pool, _ = poolOf(cl, "Put")
		} else if ex, ok := ent.Body.(ast.Expr); ok && putSeen {
			ex = ast.Unparen(ex)
			if u, ok := ex.(*ast.UnaryExpr); ok && u.Op == token.AND {
				ex = ast.Unparen(u.X)
			}
			if id, ok := ex.(*ast.Ident); ok {
				if o := info.ObjectOf(id); o != nil && strings.HasSuffix(strings.TrimPrefix(o.Type().String(), "*"), "sync.Pool") {
					pool = o
				}
			}
		}
		for _, ke := range ent.Keys {
			if tv, ok := info.Types[ke]; ok && tv.Value != nil && pool != nil {
				closePool[tv.Value.ExactString()] = pool
			}
		}
	}
	// pool New types
	poolNew := map[types.Object]*types.Named{}
	for _, f := range create.Pkg.Syntax {
		for _, d := range f.Decls {
			gd, ok := d.(*ast.GenDecl)
			if !ok || gd.Tok != token.VAR {
				continue
			}
			for _, sp := range gd.Specs {
				vs := sp.(*ast.ValueSpec)
				for i, nm := range vs.Names {
					if i >= len(vs.Values) {
						continue
					}
					ast.Inspect(vs.Values[i], func(n ast.Node) bool {
						if rs, ok := n.(*ast.ReturnStmt); ok && len(rs.Results) == 1 {
							if tv, ok := info.Types[rs.Results[0]]; ok {
								if nn := namedOf(tv.Type); nn != nil {
									poolNew[info.Defs[nm]] = nn
								}
							}
						}
						return true
					})
				}
			}
		}
	}
	// Clear before the switch in ClosePack
	clearFirst := false
	if len(closeF.Decl.Body.List) > 0 {
		if es, ok := closeF.Decl.Body.List[0].(*ast.ExprStmt); ok {
			if c, ok := es.X.(*ast.CallExpr); ok {
				if sel, ok := c.Fun.(*ast.SelectorExpr); ok && sel.Sel.Name == "Clear" {
					clearFirst = true
				}
			}
		}
	}
	r.Check(clearFirst, "C07.registry", "lang/pack/udp.ClosePack clears before pooling", p.Pos(closeF.Decl.Pos()), "p.Clear() is the first statement", "ClosePack does not call Clear() before returning the pack to its pool: the next user sees stale field values")
	keys := make([]string, 0, len(cc))
	for k := range cc {
		keys = append(keys, k)
	}
	sort.Strings(keys)
	for _, k := range keys {
		cl := cc[k]
		t := reg.Cases[k]
		if t == nil {
			continue
		}
		c := fmt.Sprintf("lang/pack/udp pool of code %s (%s)", k, t.Obj().Name())
		pos := p.Pos(cl.Pos())
		gp, _ := poolOf(cl, "Get")
		if gp == nil {
			r.Info("C07.registry", c, pos, "created without a pool")
			continue
		}
		var why []string
		if nt := poolNew[gp]; nt == nil || nt.Obj() != t.Obj() {
			why = append(why, fmt.Sprintf("pool %s creates %v, case asserts %s", gp.Name(), nt, t.Obj().Name()))
		}
		verSet := false
		setsVer := func(node ast.Node) {
			ast.Inspect(node, func(n ast.Node) bool {
				switch v := n.(type) {
				case *ast.AssignStmt:
					for i, l := range v.Lhs {
						if sel, ok := l.(*ast.SelectorExpr); ok && sel.Sel.Name == "Ver" && i < len(v.Rhs) {
							if id, ok := v.Rhs[i].(*ast.Ident); ok && isParam(info, create, id) {
								verSet = true
							}
						}
					}
				case *ast.CallExpr:
					// p.SetVersion(ver): a method that stores its parameter in Ver
					if sel, ok := v.Fun.(*ast.SelectorExpr); ok && len(v.Args) == 1 {
						if id, ok := ast.Unparen(v.Args[0]).(*ast.Ident); ok && isParam(info, create, id) {
							if fn, _ := info.Uses[sel.Sel].(*types.Func); fn != nil {
								cands := []*core.FuncInfo{p.FuncOf(fn)}
								if cands[0] == nil {
									// interface method: every implementation in the package must store it
									cands = nil
									for _, mfi := range p.Funcs {
										if mfi.Pkg == create.Pkg && mfi.Obj.Name() == fn.Name() && core.RecvNamed(mfi.Obj) != nil {
											cands = append(cands, mfi)
										}
									}
								}
								all := len(cands) > 0
								for _, mfi := range cands {
									stores := false
									if mfi != nil && mfi.Decl.Body != nil {
										ast.Inspect(mfi.Decl.Body, func(m ast.Node) bool {
											if as, ok := m.(*ast.AssignStmt); ok {
												for i, l := range as.Lhs {
													if s2, ok := l.(*ast.SelectorExpr); ok && s2.Sel.Name == "Ver" && i < len(as.Rhs) {
														if id2, ok := as.Rhs[i].(*ast.Ident); ok && isParam(mfi.Pkg.TypesInfo, mfi, id2) {
															stores = true
														}
													}
												}
											}
											return true
										})
									}
									if !stores {
										all = false
									}
								}
								if all {
									verSet = true
								}
							}
						}
					}
				}
				return true
			})
		}
		setsVer(cl)
		if !verSet {
			// single-exit factories set the version once after the switch
			after := false
			for _, st := range create.Decl.Body.List {
				if after {
					setsVer(st)
				}
				if st.Pos() <= cl.Pos() && cl.End() <= st.End() {
					after = true
				}
			}
		}
		if !verSet {
			why = append(why, "Ver is not re-assigned from the requested version after Get()")
		}
		if pp, has := closePool[k]; !has {
			why = append(why, "ClosePack has no entry for this code: packs are never returned to the pool")
		} else if pp != gp {
			why = append(why, fmt.Sprintf("CreatePack takes from %s but ClosePack puts into %s", gp.Name(), pp.Name()))
		}
		if len(why) > 0 {
			r.Viol("C07.registry", c, pos, strings.Join(why, "; "))
		} else {
			r.OK("C07.registry", c, pos, "pool "+gp.Name())
		}
	}
}

// fieldsOf lists all fields of a struct type, promoted ones flattened, as paths.
func flatFields(t *types.Named, prefix string, out map[string]*types.Var) {
	st, ok := t.Underlying().(*types.Struct)
	if !ok {
		return
	}
	for i := 0; i < st.NumFields(); i++ {
		f := st.Field(i)
		if f.Embedded() {
			if n := namedOf(f.Type()); n != nil {
				flatFields(n, prefix, out)
				continue
			}
		}
		out[prefix+f.Name()] = f
	}
}

// assignedInClear: fields assigned in T.Clear(), following calls to embedded Clear().
func assignedInClear(p *core.Program, t *types.Named, seen map[*types.Named]bool, out map[string]bool) {
	if seen[t] {
		return
	}
	seen[t] = true
	var fi *core.FuncInfo
	for _, m := range p.MethodsOf(t) {
		if m.Obj.Name() == "Clear" {
			fi = m
		}
	}
	if fi == nil || fi.Decl.Body == nil {
		return
	}
	info := fi.Pkg.TypesInfo
	// a way out of Clear that lies before one of its field assignments leaves those fields as they
	// were: the assignments after it do not count on that path
	{
		var rets []token.Pos
		var lastStore token.Pos
		rn := recvName(fi)
		ast.Inspect(fi.Decl.Body, func(n ast.Node) bool {
			switch v := n.(type) {
			case *ast.FuncLit:
				return false
			case *ast.ReturnStmt:
				rets = append(rets, v.Pos())
			case *ast.AssignStmt:
				for _, l := range v.Lhs {
					if sel, ok := ast.Unparen(l).(*ast.SelectorExpr); ok {
						if id, ok := ast.Unparen(sel.X).(*ast.Ident); ok && id.Name == rn && v.Pos() > lastStore {
							lastStore = v.Pos()
						}
					}
				}
			}
			return true
		})
		for _, rp := range rets {
			if rp < lastStore {
				out["!early:"+p.Pos(rp)] = true
			}
		}
	}
	ast.Inspect(fi.Decl.Body, func(n ast.Node) bool {
		switch v := n.(type) {
		case *ast.AssignStmt:
			for i, l := range v.Lhs {
				// shared storage: a field pointed at a package-level map/slice/pointer is the same
				// object in every pack that was ever cleared
				if len(v.Lhs) == len(v.Rhs) {
					if id, ok := ast.Unparen(v.Rhs[i]).(*ast.Ident); ok {
						if pv, ok := info.ObjectOf(id).(*types.Var); ok && pv.Pkg() != nil && pv.Parent() == pv.Pkg().Scope() {
							switch pv.Type().Underlying().(type) {
							case *types.Map, *types.Slice, *types.Pointer:
								out["!shared:"+types.ExprString(l)+" = "+id.Name+" at "+p.Pos(v.Pos())] = true
							}
						}
					}
				}
				switch lv := ast.Unparen(l).(type) {
				case *ast.SelectorExpr:
					out[lv.Sel.Name] = true
					// a whole embedded struct replaced: all of its fields are assigned
					if fv, ok := info.ObjectOf(lv.Sel).(*types.Var); ok && fv.IsField() {
						if n := namedOf(fv.Type()); n != nil {
							if _, isStruct := n.Underlying().(*types.Struct); isStruct && fv.Embedded() {
								sub := map[string]*types.Var{}
								flatFields(n, "", sub)
								for k := range sub {
									out[k] = true
								}
							}
						}
					}
				case *ast.StarExpr:
					// *this = T{...}: every field of the receiver's struct is assigned
					if n := namedOf(info.TypeOf(lv)); n != nil {
						sub := map[string]*types.Var{}
						flatFields(n, "", sub)
						for k := range sub {
							out[k] = true
						}
					}
				}
			}
		case *ast.RangeStmt:
			// for _, c := range <fixed list of &this.F> { *c = <zero> }: every listed field is assigned
			if vid, ok := v.Value.(*ast.Ident); ok && v.Body != nil {
				vobj := info.ObjectOf(vid)
				stores := false
				ast.Inspect(v.Body, func(m ast.Node) bool {
					if as, ok := m.(*ast.AssignStmt); ok {
						for _, l := range as.Lhs {
							if st, ok := ast.Unparen(l).(*ast.StarExpr); ok {
								if id, ok := ast.Unparen(st.X).(*ast.Ident); ok && info.ObjectOf(id) == vobj {
									stores = true
								}
							}
						}
					}
					return true
				})
				if stores {
					in := newInliner(p, fi, nil)
					for _, el := range in.FixedList(v) {
						if u, ok := ast.Unparen(el).(*ast.UnaryExpr); ok && u.Op == token.AND {
							if sel, ok := ast.Unparen(u.X).(*ast.SelectorExpr); ok {
								out[sel.Sel.Name] = true
							}
						}
					}
				}
			}
		case *ast.CallExpr:
			if sel, ok := v.Fun.(*ast.SelectorExpr); ok && sel.Sel.Name == "Clear" {
				if tv, ok := info.Types[sel.X]; ok {
					if n := namedOf(tv.Type); n != nil && n.Obj() != t.Obj() {
						assignedInClear(p, n, seen, out)
					}
				}
			}
		}
		return true
	})
}

func c07Clear(p *core.Program, r *core.Report, reg *registryResult) {
	pk := p.Pkg("lang/pack/udp")
	if pk == nil {
		return
	}
	var names []string
	for _, nm := range pk.Types.Scope().Names() {
		names = append(names, nm)
	}
	sort.Strings(names)
	for _, nm := range names {
		tn, ok := pk.Types.Scope().Lookup(nm).(*types.TypeName)
		if !ok {
			continue
		}
		t, ok := tn.Type().(*types.Named)
		if !ok {
			continue
		}
		hasClear := false
		for _, m := range p.MethodsOf(t) {
			if m.Obj.Name() == "Clear" {
				hasClear = true
			}
		}
		if _, isStruct := t.Underlying().(*types.Struct); !isStruct || !hasClear || nm == "AbstractPack" {
			continue
		}
		all := map[string]*types.Var{}
		flatFields(t, "", all)
		got := map[string]bool{}
		assignedInClear(p, t, map[*types.Named]bool{}, got)
		var missing []string
		for f := range all {
			if !got[f] {
				missing = append(missing, f)
			}
		}
		sort.Strings(missing)
		c := "lang/pack/udp.(*" + nm + ").Clear"
		for k := range got {
			if strings.HasPrefix(k, "!early:") {
				r.Viol("C07.clear", c+" leaves early", p.Pos(tn.Pos()), "a path leaves Clear (return at "+strings.TrimPrefix(k, "!early:")+") before the field assignments that follow it: a pack released on that path keeps those fields for its next holder")
			}
			if strings.HasPrefix(k, "!shared:") {
				r.Viol("C07.clear", c+" shares storage", p.Pos(tn.Pos()), "Clear points a field at package-level storage ("+strings.TrimPrefix(k, "!shared:")+"): every pack cleared this way holds the same object, so what one use stores there is seen by the next holder")
			}
		}
		if len(missing) > 0 {
			// one violation per field so that a known finding covers exactly one field
			for _, f := range missing {
				r.Viol("C07.clear", c+" leaves "+f, p.Pos(tn.Pos()), "a pack released to the pool and re-acquired still carries the previous value of "+f)
			}
		} else {
			r.OK("C07.clear", c, p.Pos(tn.Pos()), fmt.Sprintf("%d fields assigned", len(all)))
		}
	}
}

// mustMask computes the separators with which `Dbc` is definitely re-assigned from
// ToStringStr("password", …) along every path of the statement list (must-analysis over the AST;
// same-package helpers are followed).
type maskCtx struct {
	p     *core.Program
	info  *types.Info
	depth int
}

func (c *maskCtx) block(list []ast.Stmt, last map[types.Object]string) map[string]bool {
	got := map[string]bool{}
	for _, s := range list {
		for k := range c.stmt(s, last) {
			got[k] = true
		}
	}
	return got
}

func (c *maskCtx) constStr(e ast.Expr) (string, bool) {
	if tv, ok := c.info.Types[e]; ok && tv.Value != nil {
		return strings.Trim(tv.Value.ExactString(), `"`), true
	}
	return "", false
}

func (c *maskCtx) stmt(s ast.Stmt, last map[types.Object]string) map[string]bool {
	got := map[string]bool{}
	switch v := s.(type) {
	case *ast.BlockStmt:
		return c.block(v.List, last)
	case *ast.AssignStmt:
		for i, rhs := range v.Rhs {
			call, ok := ast.Unparen(rhs).(*ast.CallExpr)
			if !ok {
				continue
			}
			if isCallTo(c.info, call, core.ModPath+"/util/paramtext", "NewParamKVSeperate") && len(call.Args) == 3 && i < len(v.Lhs) {
				if id, ok := v.Lhs[i].(*ast.Ident); ok {
					if obj := c.info.ObjectOf(id); obj != nil {
						if sep, ok := c.constStr(call.Args[1]); ok {
							last[obj] = sep
						} else {
							delete(last, obj)
						}
					}
				}
				continue
			}
			if sel, ok := call.Fun.(*ast.SelectorExpr); ok && sel.Sel.Name == "ToStringStr" && len(call.Args) == 2 && i < len(v.Lhs) {
				key, _ := c.constStr(call.Args[0])
				lsel, isSel := v.Lhs[i].(*ast.SelectorExpr)
				if id, ok := sel.X.(*ast.Ident); ok && key == "password" && isSel && lsel.Sel.Name == "Dbc" {
					if sep, ok := last[c.info.ObjectOf(id)]; ok {
						got[sep] = true
					}
				}
				continue
			}
			// helper returning the masked string: this.Dbc = mask(this.Dbc)
			if i < len(v.Lhs) {
				if lsel, ok := v.Lhs[i].(*ast.SelectorExpr); ok && lsel.Sel.Name == "Dbc" {
					for k := range c.helper(call) {
						got[k] = true
					}
				}
			}
		}
	case *ast.ExprStmt:
		if call, ok := v.X.(*ast.CallExpr); ok {
			for k := range c.helper(call) {
				got[k] = true
			}
		}
	case *ast.IfStmt:
		// `if this.Dbc != ""` is assumed true (the rule speaks about non-empty Dbc)
		if be, ok := v.Cond.(*ast.BinaryExpr); ok && be.Op == token.NEQ {
			if sel, ok := be.X.(*ast.SelectorExpr); ok && sel.Sel.Name == "Dbc" {
				if s, ok := c.constStr(be.Y); ok && s == "" {
					return c.block(v.Body.List, last)
				}
			}
		}
		a := c.block(v.Body.List, copyLast(last))
		b := map[string]bool{}
		if v.Else != nil {
			b = c.stmt(v.Else, copyLast(last))
		}
		for k := range a {
			if b[k] {
				got[k] = true
			}
		}
	}
	return got
}

func copyLast(m map[types.Object]string) map[types.Object]string {
	n := map[types.Object]string{}
	for k, v := range m {
		n[k] = v
	}
	return n
}

// helper: must-mask set of a same-module helper whose body masks a Dbc-like value it returns/assigns.
func (c *maskCtx) helper(call *ast.CallExpr) map[string]bool {
	if c.depth > 3 {
		return nil
	}
	var id *ast.Ident
	switch f := ast.Unparen(call.Fun).(type) {
	case *ast.Ident:
		id = f
	case *ast.SelectorExpr:
		id = f.Sel
	}
	if id == nil {
		return nil
	}
	fn, _ := c.info.Uses[id].(*types.Func)
	fi := c.p.FuncOf(fn)
	if fi == nil || fi.Decl.Body == nil {
		return nil
	}
	sub := &maskCtx{p: c.p, info: fi.Pkg.TypesInfo, depth: c.depth + 1}
	// inside a helper the masked value may be a local/param; accept assignments to any target
	got := sub.helperBlock(fi.Decl.Body.List, map[types.Object]string{})
	// a same-receiver method extracted from Process(): its body is judged like a Process arm
	// (`if this.Dbc != ""` assumed true, Dbc re-assigned from ToStringStr)
	if fi.Decl.Recv != nil {
		for k := range sub.block(fi.Decl.Body.List, map[types.Object]string{}) {
			if got == nil {
				got = map[string]bool{}
			}
			got[k] = true
		}
	}
	return got
}

func (c *maskCtx) helperBlock(list []ast.Stmt, last map[types.Object]string) map[string]bool {
	got := map[string]bool{}
	for _, s := range list {
		switch v := s.(type) {
		case *ast.AssignStmt:
			for i, rhs := range v.Rhs {
				call, ok := ast.Unparen(rhs).(*ast.CallExpr)
				if !ok {
					continue
				}
				if isCallTo(c.info, call, core.ModPath+"/util/paramtext", "NewParamKVSeperate") && len(call.Args) == 3 && i < len(v.Lhs) {
					if id, ok := v.Lhs[i].(*ast.Ident); ok {
						if sep, ok := c.constStr(call.Args[1]); ok {
							last[c.info.ObjectOf(id)] = sep
						} else {
							delete(last, c.info.ObjectOf(id))
						}
					}
				} else if sel, ok := call.Fun.(*ast.SelectorExpr); ok && sel.Sel.Name == "ToStringStr" && len(call.Args) == 2 {
					if key, _ := c.constStr(call.Args[0]); key == "password" {
						if id, ok := sel.X.(*ast.Ident); ok {
							if sep, ok := last[c.info.ObjectOf(id)]; ok {
								got[sep] = true
							}
						}
					}
				}
			}
		case *ast.IfStmt:
			a := c.helperBlock(v.Body.List, copyLast(last))
			b := map[string]bool{}
			if blk, ok := v.Else.(*ast.BlockStmt); ok {
				b = c.helperBlock(blk.List, copyLast(last))
			}
			for k := range a {
				if b[k] {
					got[k] = true
				}
			}
		case *ast.ReturnStmt:
			for _, res := range v.Results {
				if call, ok := ast.Unparen(res).(*ast.CallExpr); ok {
					if sel, ok := call.Fun.(*ast.SelectorExpr); ok && sel.Sel.Name == "ToStringStr" && len(call.Args) == 2 {
						if key, _ := c.constStr(call.Args[0]); key == "password" {
							if id, ok := sel.X.(*ast.Ident); ok {
								if sep, ok := last[c.info.ObjectOf(id)]; ok {
									got[sep] = true
								}
							}
						}
					}
				}
			}
		}
	}
	return got
}

// c07IntParsers: the helpers that turn decimal text back into integers (stringutil.ParseInt32/64 and
// siblings, used by the UDP readers for numbers carried as text) must parse with an integer parser of
// at least the target width; a float parser loses precision above 2^53 and so changes ids.
func c07IntParsers(p *core.Program, r *core.Report) {
	pk := p.Pkg("util/stringutil")
	if pk == nil {
		r.Undec("C07.textnum", "util/stringutil", "-", "package not found")
		return
	}
	for _, fi := range p.Funcs {
		if fi.Pkg != pk || fi.Decl.Body == nil || !strings.HasPrefix(fi.Obj.Name(), "ParseInt") {
			continue
		}
		info := fi.Pkg.TypesInfo
		var probs []string
		parsers := 0
		ast.Inspect(fi.Decl.Body, func(n ast.Node) bool {
			call, ok := n.(*ast.CallExpr)
			if !ok {
				return true
			}
			sel, ok := call.Fun.(*ast.SelectorExpr)
			if !ok {
				return true
			}
			fn, _ := info.Uses[sel.Sel].(*types.Func)
			if fn == nil || fn.Pkg() == nil || fn.Pkg().Path() != "strconv" {
				return true
			}
			switch fn.Name() {
			case "ParseInt", "Atoi", "ParseUint":
				parsers++
				if fn.Name() == "ParseInt" && len(call.Args) == 3 {
					if bits, ok := constIntOf(info, call.Args[2]); ok {
						want := int64(64)
						if strings.HasSuffix(fi.Obj.Name(), "32") {
							want = 32
						}
						if bits != 0 && bits < want {
							probs = append(probs, fmt.Sprintf("parses with bit size %d, narrower than the %d-bit result", bits, want))
						}
					}
				}
			case "ParseFloat":
				probs = append(probs, "parses integer text with strconv.ParseFloat: values above 2^53 are rounded, so ids carried as text change")
			}
			return true
		})
		if parsers == 0 && len(probs) == 0 {
			probs = append(probs, "no integer parser (strconv.ParseInt/Atoi) is used")
		}
		fileProbs(r, "C07.textnum", "util/stringutil."+fi.Obj.Name(), p.Pos(fi.Decl.Pos()), probs, "integer parser of sufficient width")
	}
}

func c07Mask(p *core.Program, r *core.Report, reg *registryResult) {
	pk := p.Pkg("lang/pack/udp")
	if pk == nil {
		return
	}
	for _, fi := range p.Funcs {
		if fi.Pkg != pk || fi.Obj.Name() != "Process" || fi.Decl.Body == nil {
			continue
		}
		n := core.RecvNamed(fi.Obj)
		if n == nil {
			continue
		}
		// only types with a Dbc field
		fields := map[string]*types.Var{}
		flatFields(n, "", fields)
		if _, ok := fields["Dbc"]; !ok {
			continue
		}
		if _, registered := reg.Registered[n.Obj()]; !registered && !strings.Contains(n.Obj().Name(), "zzCanary") {
			continue // the property speaks about the SQL / DB-connection packs CreatePack can produce
		}
		info := fi.Pkg.TypesInfo
		base := core.FuncName(fi.Obj)
		// Process() is walked once per representative protocol version of the two families that send
		// raw connection strings. Conditions that only depend on the version are decided by evaluating
		// them for that version (comparisons, family helpers, tables); everything else (Dbc empty or
		// not, SQL length) is explored both ways. On every path with a non-empty Dbc the password key
		// must be masked for both separators.
		families := map[string][]int64{"Go": {50001, 50100, 59999}, "PHP": {10100, 10104, 10105, 15000, 20000}}
		for _, fam := range []string{"Go", "PHP"} {
			c := base + " [" + fam + "]"
			var probs []string
			npaths := 0
			undec := ""
			for _, ver := range families[fam] {
				ip := &bits.Interp{P: p, ConstTables: true}
				ip.Sel = func(sel *ast.SelectorExpr) *bits.Value {
					if fv, ok := info.ObjectOf(sel.Sel).(*types.Var); ok && fv.IsField() && fv.Name() == "Ver" {
						return &bits.Value{V: bits.Const(uint64(ver), 32), Sign: true}
					}
					return nil
				}
				mentionsVer := func(e ast.Expr) bool {
					found := false
					var walk func(n ast.Node, depth int)
					walk = func(n ast.Node, depth int) {
						ast.Inspect(n, func(m ast.Node) bool {
							switch v := m.(type) {
							case *ast.SelectorExpr:
								if v.Sel.Name == "Ver" {
									found = true
								}
							case *ast.CallExpr:
								// helpers of the package that look at the version (family(), carriesError())
								if fn := calleeFunc(info, v); fn != nil && fn.Pkg() == fi.Obj.Pkg() && depth < 3 {
									if cfi := p.FuncOf(fn); cfi != nil && cfi.Decl.Body != nil {
										walk(cfi.Decl.Body, depth+1)
									}
								}
							}
							return !found
						})
					}
					walk(e, 0)
					return found
				}
				in := newInliner(p, fi, nil)
				ps, over := paths.Enumerate(fi.Decl.Body, paths.Config{Info: info, Inline: in.Body, Expand: in.Expand, Unroll: in.FixedList, MaxInline: 3,
					Fold: func(cnd ast.Expr) (bool, bool) {
						if !mentionsVer(cnd) {
							return false, false
						}
						if v, ok := ip.EvalConst(fi, cnd); ok {
							return true, v != 0
						}
						undec = "a version-dependent condition could not be evaluated for version " + fmt.Sprint(ver) + ": " + types.ExprString(cnd)
						return false, false
					},
					SwitchCase: func(sw *ast.SwitchStmt) int {
						if sw.Tag == nil || !mentionsVer(sw.Tag) {
							return -2
						}
						tag, ok := ip.EvalConst(fi, sw.Tag)
						if !ok {
							undec = "a version-dependent switch could not be evaluated for version " + fmt.Sprint(ver)
							return -2
						}
						for i, cc := range sw.Body.List {
							for _, ce := range cc.(*ast.CaseClause).List {
								if cv, ok := ip.EvalConst(fi, ce); ok && cv == tag {
									return i
								}
							}
						}
						return -1
					},
					Cond: func(cnd ast.Expr, v bool) *paths.Event {
						norm := func(e ast.Expr) string {
							s := stripSpaces(types.ExprString(e))
							if i := strings.LastIndex(s, ".Dbc"); i >= 0 && strings.HasSuffix(s, ".Dbc") {
								return "Dbc"
							}
							return s
						}
						return &paths.Event{Kind: "COND", Arg: condKey(info, norm, cnd, v), Pos: cnd.Pos()}
					},
					Classify: func(n ast.Node) []paths.Event {
						var out []paths.Event
						as, ok := n.(*ast.AssignStmt)
						if !ok {
							return nil
						}
						mctx := &maskCtx{p: p, info: info}
						for i, rhs := range as.Rhs {
							call, ok := ast.Unparen(rhs).(*ast.CallExpr)
							if !ok || i >= len(as.Lhs) {
								continue
							}
							// this.Dbc = maskDbcPassword(this.Dbc): a string helper of the package that runs the
							// value through the key/value rewriter once per separator
							if lsel, isSel := ast.Unparen(as.Lhs[i]).(*ast.SelectorExpr); isSel && lsel.Sel.Name == "Dbc" && len(call.Args) == 1 {
								if asel, isA := ast.Unparen(call.Args[0]).(*ast.SelectorExpr); isA && asel.Sel.Name == "Dbc" {
									if seps := maskHelperSeps(p, info, call); len(seps) > 0 {
										for _, sp := range seps {
											out = append(out, paths.Event{Kind: "MASK", Arg: sp, Pos: as.Pos()})
										}
										continue
									}
								}
							}
							if isCallTo(info, call, core.ModPath+"/util/paramtext", "NewParamKVSeperate") && len(call.Args) == 3 {
								if id, ok := as.Lhs[i].(*ast.Ident); ok {
									sep, _ := mctx.constStr(call.Args[1])
									src := "other"
									if sx, ok := ast.Unparen(call.Args[0]).(*ast.SelectorExpr); ok && sx.Sel.Name == "Dbc" {
										src = "Dbc"
									}
									out = append(out, paths.Event{Kind: "NEWKV", Arg: id.Name + "=" + sep, Pos: as.Pos(), Node: ast.NewIdent(src)})
								}
								continue
							}
							if sel, ok := call.Fun.(*ast.SelectorExpr); ok && sel.Sel.Name == "ToStringStr" && len(call.Args) == 2 {
								key, _ := mctx.constStr(call.Args[0])
								lsel, isSel := ast.Unparen(as.Lhs[i]).(*ast.SelectorExpr)
								if key != "password" || !isSel || lsel.Sel.Name != "Dbc" {
									continue
								}
								switch x := ast.Unparen(sel.X).(type) {
								case *ast.Ident:
									out = append(out, paths.Event{Kind: "MASKUSE", Arg: x.Name, Pos: as.Pos()})
								case *ast.CallExpr:
									if isCallTo(info, x, core.ModPath+"/util/paramtext", "NewParamKVSeperate") && len(x.Args) == 3 {
										if sep, ok := mctx.constStr(x.Args[1]); ok {
											out = append(out, paths.Event{Kind: "MASK", Arg: sep, Pos: as.Pos()})
										}
									}
								}
							}
						}
						return out
					}})
				if over {
					undec = "too many paths"
				}
				for _, pa := range ps {
					if pa.Has("PANIC") {
						continue
					}
					if hasCmp(pa, "Dbc", "==", "\"\"", true) || hasCmp(pa, "len(Dbc)", "==", "0", true) || hasCmp(pa, "len(Dbc)", ">", "0", false) {
						continue // empty connection string: nothing to mask
					}
					npaths++
					if os.Getenv("C07_DEBUG") != "" {
						fmt.Fprintln(os.Stderr, "MASKPATH", c, ver, pa.String())
					}
					last := map[string]string{}
					builtAt := map[string]int{} // parser local -> number of Dbc rewrites seen when it was built from Dbc
					rewrites := 0
					got := map[string]bool{}
					for _, e := range pa {
						switch e.Kind {
						case "NEWKV":
							if k := strings.Index(e.Arg, "="); k > 0 {
								last[e.Arg[:k]] = e.Arg[k+1:]
								builtAt[e.Arg[:k]] = rewrites
							}
						case "MASKUSE":
							if sep, ok := last[e.Arg]; ok {
								if builtAt[e.Arg] != rewrites {
									// the parser was built from the Dbc of before an earlier masking pass: assigning
									// its text back discards that pass
									got = map[string]bool{}
								}
								got[sep] = true
							}
							rewrites++
						case "MASK":
							got[e.Arg] = true
							rewrites++
						}
					}
					var miss []string
					if !got[" "] {
						miss = append(miss, "' '")
					}
					if !got[";"] {
						miss = append(miss, "';'")
					}
					if len(miss) > 0 {
						probs = append(probs, fmt.Sprintf("at version %d a path with a non-empty Dbc does not mask the password key for separator %s: a raw secret can stay in the pack", ver, strings.Join(miss, " and ")))
					}
				}
			}
			switch {
			case undec != "":
				r.Undec("C07.mask", c, p.Pos(fi.Decl.Pos()), undec)
			case npaths == 0:
				r.Viol("C07.mask", c, p.Pos(fi.Decl.Pos()), "no path handles a non-empty Dbc for the "+fam+" family")
			default:
				fileProbs(r, "C07.mask", c, p.Pos(fi.Decl.Pos()), uniq(probs), "Dbc re-assigned from ToStringStr(\"password\") for both ' ' and ';' on every path with Dbc != \"\"")
			}
		}
	}
}

func constIntOf(info *types.Info, e ast.Expr) (int64, bool) {
	if tv, ok := info.Types[e]; ok && tv.Value != nil {
		var n int64
		if _, err := fmt.Sscanf(tv.Value.ExactString(), "%d", &n); err == nil {
			return n, true
		}
	}
	return 0, false
}

// c07TextNum: no string(<integer expr>) conversion and no width-changing conversion around ParseIntNN
// in the package's codec functions.
func c07TextNum(p *core.Program, r *core.Report) {
	pk := p.Pkg("lang/pack/udp")
	if pk == nil {
		return
	}
	n := 0
	for _, fi := range p.Funcs {
		if fi.Pkg != pk || fi.Decl.Body == nil {
			continue
		}
		name := fi.Obj.Name()
		if name != "Write" && name != "Read" {
			continue
		}
		info := fi.Pkg.TypesInfo
		var bad []string
		ast.Inspect(fi.Decl.Body, func(m ast.Node) bool {
			call, ok := m.(*ast.CallExpr)
			if !ok || len(call.Args) != 1 {
				return true
			}
			tv, ok := info.Types[call.Fun]
			if !ok || !tv.IsType() {
				return true
			}
			at := info.Types[call.Args[0]]
			if b, ok := tv.Type.Underlying().(*types.Basic); ok && b.Kind() == types.String {
				if ab, ok := at.Type.Underlying().(*types.Basic); ok && ab.Info()&types.IsInteger != 0 && at.Value == nil {
					bad = append(bad, "string("+types.ExprString(call.Args[0])+") at "+p.Pos(call.Pos())+" yields a one-rune string, not the decimal text the reader parses")
				}
			}
			if inner, ok := ast.Unparen(call.Args[0]).(*ast.CallExpr); ok {
				if sel, ok := inner.Fun.(*ast.SelectorExpr); ok && strings.HasPrefix(sel.Sel.Name, "ParseInt") {
					if types.ExprString(call.Fun) != strings.ToLower(strings.TrimPrefix(sel.Sel.Name, "Parse")) {
						bad = append(bad, types.ExprString(call.Fun)+"("+sel.Sel.Name+"(..)) at "+p.Pos(call.Pos())+" changes the integer width")
					}
				}
			}
			return true
		})
		c := core.FuncName(fi.Obj)
		n++
		if len(bad) > 0 {
			r.Viol("C07.textnum", c, p.Pos(fi.Decl.Pos()), strings.Join(bad, "; "))
		} else {
			r.OK("C07.textnum", c, p.Pos(fi.Decl.Pos()), "")
		}
	}
}

// c07ZeroToEmpty: a helper of util/stringutil that renders an integer as text and has a path
// returning the empty string takes that path for the value 0 only (the readers turn "" back into 0:
// any other number rendered as "" is lost). Decided on the paths of the helper: the conditions of
// every path that returns "" confine the argument to {0}.
func c07ZeroToEmpty(p *core.Program, r *core.Report) {
	pk := p.Pkg("util/stringutil")
	if pk == nil {
		return
	}
	dom := ivl{math.MinInt64, math.MaxInt64}
	for _, fi := range p.Funcs {
		if fi.Pkg != pk || fi.Decl.Body == nil || core.RecvNamed(fi.Obj) != nil || fi.Decl.Type.Params.NumFields() != 1 || len(fi.Decl.Type.Params.List[0].Names) != 1 {
			continue
		}
		info := fi.Pkg.TypesInfo
		sig := fi.Obj.Type().(*types.Signature)
		if sig.Results().Len() != 1 {
			continue
		}
		if b, ok := sig.Results().At(0).Type().Underlying().(*types.Basic); !ok || b.Info()&types.IsString == 0 {
			continue
		}
		pobj := info.Defs[fi.Decl.Type.Params.List[0].Names[0]]
		if b, ok := pobj.Type().Underlying().(*types.Basic); !ok || b.Info()&types.IsInteger == 0 {
			continue
		}
		type cnd struct {
			set ivSet
			ok  bool
		}
		conds := map[token.Pos]map[bool]cnd{}
		ps, over := paths.Enumerate(fi.Decl.Body, paths.Config{Info: info,
			Cond: func(c ast.Expr, v bool) *paths.Event {
				// <param> op <const> (either way round)
				res := cnd{}
				if be, ok := ast.Unparen(c).(*ast.BinaryExpr); ok {
					x, y, op := be.X, be.Y, be.Op
					if _, isC := constIntOf(info, x); isC {
						x, y, op = y, x, flipOp(op)
					}
					if id, ok := ast.Unparen(stripConvs(info, x)).(*ast.Ident); ok && info.ObjectOf(id) == pobj {
						if k, isC := constIntOf(info, y); isC {
							switch op {
							case token.EQL, token.NEQ, token.LSS, token.LEQ, token.GTR, token.GEQ:
								res = cnd{ivCmp(op, k, dom), true}
								if !v {
									res.set = ivComplement(res.set, dom)
								}
							}
						}
					}
				}
				if conds[c.Pos()] == nil {
					conds[c.Pos()] = map[bool]cnd{}
				}
				conds[c.Pos()][v] = res
				return &paths.Event{Kind: "COND", Arg: fmt.Sprint(v), Pos: c.Pos()}
			}})
		if over {
			continue
		}
		empties := 0
		var probs []string
		for _, pa := range ps {
			if len(pa) == 0 || pa[len(pa)-1].Kind != "RET" {
				continue
			}
			rs, _ := pa[len(pa)-1].Node.(*ast.ReturnStmt)
			if rs == nil || len(rs.Results) != 1 {
				continue
			}
			tv, ok := info.Types[rs.Results[0]]
			if !ok || tv.Value == nil || tv.Value.Kind() != constant.String || constant.StringVal(tv.Value) != "" {
				continue
			}
			empties++
			set := ivSet{dom}
			for _, e := range pa {
				if e.Kind == "COND" {
					if c := conds[e.Pos][e.Arg == "true"]; c.ok {
						set = ivIntersect(set, c.set)
					}
				}
			}
			if set.empty() {
				continue // infeasible
			}
			if !(len(set) == 1 && set[0].lo == 0 && set[0].hi == 0) {
				probs = append(probs, fmt.Sprintf("the empty text is returned for the values %s, not only for 0: those numbers are read back as 0", set))
			}
		}
		if empties > 0 {
			fileProbs(r, "C07.textnum", "util/stringutil."+fi.Obj.Name()+" empty-for-zero", p.Pos(fi.Decl.Pos()), uniq(probs), `"" stands for 0 and nothing else`)
		}
	}
}

// c07CappedFields: the length caps that are part of the protocol (confirmed by reading, one per field).
var c07CappedFields = map[string]bool{
	"UdpTxStartPack.Host": true, "UdpTxStartPack.Uri": true, "UdpTxStartPack.Ipaddr": true, "UdpTxStartPack.UAgent": true,
	"UdpTxStartPack.Ref": true, "UdpTxStartPack.WClientId": true, "UdpTxStartPack.HttpMethod": true,
	"UdpTxMessagePack.Hash": true, "UdpTxMessagePack.Desc": true,
}

// c07Caps: every truncating call (stringutil.Truncate, or a re-slice with a constant bound) applied to a
// field of a UDP pack inside its Write is one of the documented caps. One obligation per capped field
// found; a cap on any other field is reported.
func c07Caps(p *core.Program, r *core.Report) {
	pk := p.Pkg("lang/pack/udp")
	if pk == nil {
		return
	}
	for _, fi := range p.Funcs {
		if fi.Pkg != pk || fi.Decl.Body == nil || fi.Obj.Name() != "Write" || core.RecvNamed(fi.Obj) == nil {
			continue
		}
		tn := core.RecvNamed(fi.Obj).Obj().Name()
		info := fi.Pkg.TypesInfo
		rn := recvName(fi)
		seen := map[string]bool{}
		ast.Inspect(fi.Decl.Body, func(n ast.Node) bool {
			call, ok := n.(*ast.CallExpr)
			if !ok || len(call.Args) != 2 {
				return true
			}
			fn := calleeFunc(info, call)
			if fn == nil || fn.Pkg() == nil || fn.Name() != "Truncate" || core.RelPkg(fn.Pkg().Path()) != "util/stringutil" {
				return true
			}
			sel, ok := ast.Unparen(call.Args[0]).(*ast.SelectorExpr)
			if !ok {
				return true
			}
			if id, ok := ast.Unparen(sel.X).(*ast.Ident); !ok || id.Name != rn {
				return true
			}
			key := tn + "." + sel.Sel.Name
			if seen[key] {
				return true
			}
			seen[key] = true
			c := "lang/pack/udp.(*" + tn + ").Write cap on " + sel.Sel.Name
			r.Check(c07CappedFields[key], "C07.caps", c, p.Pos(call.Pos()), "documented cap",
				"the field "+sel.Sel.Name+" is cut to "+stripSpaces(types.ExprString(call.Args[1]))+" bytes before it is written; it is not one of the documented capped fields: longer values (up to the 65535 bytes the length prefix allows) no longer come back as they were sent")
			return true
		})
	}
}

// maskHelperSeps: call is f(x) with f a function of the module taking one string and returning one;
// f's body, read in order, keeps one "current" string (its parameter, reassigned or not) and for each
// separator builds the key/value view of the current string and takes ToStringStr("password", …) of
// it as the new current string; what it returns is the current string. Returns the separators, or nil
// when the body is anything else.
func maskHelperSeps(p *core.Program, info *types.Info, call *ast.CallExpr) []string {
	fn := calleeFunc(info, call)
	if fn == nil {
		return nil
	}
	hf := p.FuncOf(fn)
	if hf == nil || hf.Decl.Body == nil || hf.Decl.Recv != nil {
		return nil
	}
	sig := fn.Type().(*types.Signature)
	if sig.Params().Len() != 1 || sig.Results().Len() != 1 {
		return nil
	}
	hinfo := hf.Pkg.TypesInfo
	mctx := &maskCtx{p: p, info: hinfo}
	cur := map[types.Object]bool{hinfo.Defs[hf.Decl.Type.Params.List[0].Names[0]]: true}
	views := map[types.Object]string{} // key/value view of the current string -> separator
	var seps []string
	isCur := func(e ast.Expr) bool {
		id, ok := ast.Unparen(e).(*ast.Ident)
		return ok && cur[hinfo.ObjectOf(id)]
	}
	// masked(e): e is view.ToStringStr("password", _) of a view of the current string; returns its separator
	masked := func(e ast.Expr) (string, bool) {
		c, ok := ast.Unparen(e).(*ast.CallExpr)
		if !ok || len(c.Args) != 2 {
			return "", false
		}
		sel, ok := c.Fun.(*ast.SelectorExpr)
		if !ok || sel.Sel.Name != "ToStringStr" {
			return "", false
		}
		if key, _ := mctx.constStr(c.Args[0]); key != "password" {
			return "", false
		}
		switch x := ast.Unparen(sel.X).(type) {
		case *ast.Ident:
			sp, ok := views[hinfo.ObjectOf(x)]
			return sp, ok
		case *ast.CallExpr:
			if isCallTo(hinfo, x, core.ModPath+"/util/paramtext", "NewParamKVSeperate") && len(x.Args) == 3 && isCur(x.Args[0]) {
				return mctx.constStr(x.Args[1])
			}
		}
		return "", false
	}
	okShape := true
	var walk func(list []ast.Stmt)
	walk = func(list []ast.Stmt) {
		for _, st := range list {
			switch v := st.(type) {
			case *ast.AssignStmt:
				if len(v.Lhs) != 1 || len(v.Rhs) != 1 {
					okShape = false
					continue
				}
				lid, ok := v.Lhs[0].(*ast.Ident)
				if !ok {
					okShape = false
					continue
				}
				lo := hinfo.ObjectOf(lid)
				if c, ok := ast.Unparen(v.Rhs[0]).(*ast.CallExpr); ok && isCallTo(hinfo, c, core.ModPath+"/util/paramtext", "NewParamKVSeperate") && len(c.Args) == 3 && isCur(c.Args[0]) {
					if sp, ok := mctx.constStr(c.Args[1]); ok {
						views[lo] = sp
						continue
					}
				}
				if sp, ok := masked(v.Rhs[0]); ok {
					seps = append(seps, sp)
					cur[lo] = true
					continue
				}
				okShape = false
			case *ast.IfStmt:
				// an early way out for the empty string: if s == "" { return s }
				if v.Else == nil && len(v.Body.List) == 1 {
					if rs, ok := v.Body.List[0].(*ast.ReturnStmt); ok && len(rs.Results) == 1 && (isCur(rs.Results[0]) || isConstEmpty(hinfo, rs.Results[0])) {
						continue
					}
				}
				okShape = false
			case *ast.ReturnStmt:
				if len(v.Results) != 1 {
					okShape = false
					continue
				}
				if isCur(v.Results[0]) {
					continue
				}
				if sp, ok := masked(v.Results[0]); ok {
					seps = append(seps, sp)
					continue
				}
				okShape = false
			case *ast.DeclStmt:
			default:
				okShape = false
			}
		}
	}
	walk(hf.Decl.Body.List)
	if !okShape {
		return nil
	}
	return seps
}

func isConstEmpty(info *types.Info, e ast.Expr) bool {
	tv, ok := info.Types[e]
	return ok && tv.Value != nil && tv.Value.Kind() == constant.String && constant.StringVal(tv.Value) == ""
}

// c07DerivedText: a UDP pack that sends a field as text it formats in Write (this.Data =
// format(this.ActiveStats)) formats it on every path. A branch that gives the text a constant instead
// is an omission unless its condition says the source is absent (nil or empty): "all zero" is not
// "absent" — the reader rebuilds the field from the text and gets nothing where zeros were sent.
func c07DerivedText(p *core.Program, r *core.Report, rule string) {
	pk := p.Pkg("lang/pack/udp")
	if pk == nil {
		return
	}
	for _, fi := range p.Funcs {
		if fi.Pkg != pk || fi.Decl.Body == nil || fi.Decl.Recv == nil || fi.Obj.Name() != "Write" {
			continue
		}
		info := fi.Pkg.TypesInfo
		rn := recvName(fi)
		fieldOf := func(e ast.Expr) string {
			if sel, ok := ast.Unparen(e).(*ast.SelectorExpr); ok {
				if id, ok := ast.Unparen(sel.X).(*ast.Ident); ok && id.Name == rn {
					return sel.Sel.Name
				}
			}
			return ""
		}
		// derived[F] = G: some statement assigns recv.F = call(… recv.G …)
		derived := map[string]string{}
		ast.Inspect(fi.Decl.Body, func(n ast.Node) bool {
			as, ok := n.(*ast.AssignStmt)
			if !ok || len(as.Lhs) != 1 || len(as.Rhs) != 1 {
				return true
			}
			f := fieldOf(as.Lhs[0])
			call, isCall := ast.Unparen(as.Rhs[0]).(*ast.CallExpr)
			if f == "" || !isCall {
				return true
			}
			for _, a := range call.Args {
				if g := fieldOf(a); g != "" && g != f {
					if _, isSlice := info.TypeOf(a).Underlying().(*types.Slice); isSlice {
						derived[f] = g
					}
				}
			}
			return true
		})
		if len(derived) == 0 {
			continue
		}
		bad := ""
		var walk func(n ast.Node, conds []ast.Expr)
		walk = func(n ast.Node, conds []ast.Expr) {
			switch v := n.(type) {
			case *ast.BlockStmt:
				for _, s := range v.List {
					walk(s, conds)
				}
			case *ast.IfStmt:
				walk(v.Body, append(append([]ast.Expr{}, conds...), v.Cond))
				if v.Else != nil {
					walk(v.Else, append(append([]ast.Expr{}, conds...), v.Cond))
				}
			case *ast.AssignStmt:
				if len(v.Lhs) != 1 || len(v.Rhs) != 1 {
					return
				}
				f := fieldOf(v.Lhs[0])
				g, isDerived := derived[f]
				if !isDerived {
					return
				}
				if tv, ok := info.Types[v.Rhs[0]]; !ok || tv.Value == nil {
					return
				}
				// a constant for the derived text: every enclosing condition must be about the absence of the source
				okAbsent := len(conds) > 0
				for _, c := range conds {
					s := stripSpaces(types.ExprString(c))
					src := rn + "." + g
					if !(strings.Contains(s, src+"==nil") || strings.Contains(s, src+"!=nil") || strings.Contains(s, "len("+src+")")) {
						okAbsent = false
					}
				}
				if !okAbsent {
					bad = "the text field " + f + " is formatted from " + g + " on one path and given the constant " + types.ExprString(v.Rhs[0]) + " at " + p.Pos(v.Pos()) + " on another whose condition is not that " + g + " is absent: values that are present (zeros) are not sent and do not come back"
				}
			}
		}
		walk(fi.Decl.Body, nil)
		r.Check(bad == "", rule, core.FuncName(fi.Obj)+" derived text", p.Pos(fi.Decl.Pos()), "formatted on every path", bad)
	}
}
