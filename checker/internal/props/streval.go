package props

import (
	"fmt"
	"go/ast"
	"go/constant"
	"go/token"
	"go/types"
	"strings"

	"golibcheck/internal/core"
)

// strEval: partition evaluation of a small function over one string argument. The function is
// interpreted on representative inputs (each literal it distinguishes, and strings it does not), over
// the fragment: string normalisers of package strings, ==/!=/EqualFold comparisons, if/else and
// switch chains, look-ups in package-level map literals (with or without comma-ok), constants.
// Anything outside the fragment is reported as undecided, never guessed.
type strEval struct {
	p    *core.Program
	info *types.Info
	pk   *core.FuncInfo
	err  string
}

type sval struct {
	k constant.Value // string / int / bool constant; nil = unknown
}

type sret struct {
	v  constant.Value
	ok bool
}

func (s *strEval) fail(format string, a ...interface{}) {
	if s.err == "" {
		s.err = fmt.Sprintf(format, a...)
	}
}

// call evaluates fi on the given argument values; returns the (single) result.
func (s *strEval) call(fi *core.FuncInfo, args []constant.Value, depth int) constant.Value {
	if depth > 4 || fi.Decl.Body == nil {
		s.fail("call depth / no body: %s", fi.Obj.Name())
		return nil
	}
	env := map[types.Object]constant.Value{}
	i := 0
	info := fi.Pkg.TypesInfo
	for _, f := range fi.Decl.Type.Params.List {
		for _, n := range f.Names {
			if i < len(args) {
				env[info.Defs[n]] = args[i]
			}
			i++
		}
	}
	if fi.Decl.Type.Results != nil {
		for _, f := range fi.Decl.Type.Results.List {
			for _, n := range f.Names {
				env[info.Defs[n]] = zeroConst(info.Defs[n].Type())
			}
		}
	}
	old := s.info
	s.info = info
	defer func() { s.info = old }()
	ret, done := s.block(fi, fi.Decl.Body.List, env, depth)
	if !done {
		// fell off the end: named results
		if fi.Decl.Type.Results != nil && len(fi.Decl.Type.Results.List) == 1 && len(fi.Decl.Type.Results.List[0].Names) == 1 {
			return env[info.Defs[fi.Decl.Type.Results.List[0].Names[0]]]
		}
		s.fail("%s: no return reached", fi.Obj.Name())
		return nil
	}
	return ret
}

func zeroConst(t types.Type) constant.Value {
	if b, ok := t.Underlying().(*types.Basic); ok {
		switch {
		case b.Info()&types.IsString != 0:
			return constant.MakeString("")
		case b.Info()&types.IsBoolean != 0:
			return constant.MakeBool(false)
		case b.Info()&types.IsNumeric != 0:
			return constant.MakeInt64(0)
		}
	}
	return nil
}

func (s *strEval) block(fi *core.FuncInfo, list []ast.Stmt, env map[types.Object]constant.Value, depth int) (constant.Value, bool) {
	for _, st := range list {
		if s.err != "" {
			return nil, true
		}
		switch v := st.(type) {
		case *ast.ReturnStmt:
			if len(v.Results) == 0 {
				return nil, false
			}
			if len(v.Results) != 1 {
				s.fail("multi-value return")
				return nil, true
			}
			return s.expr(v.Results[0], env, depth), true
		case *ast.AssignStmt:
			s.assign(v, env, depth)
		case *ast.DeclStmt:
			gd, ok := v.Decl.(*ast.GenDecl)
			if !ok || gd.Tok != token.VAR {
				continue
			}
			for _, sp := range gd.Specs {
				vs := sp.(*ast.ValueSpec)
				for i, n := range vs.Names {
					if i < len(vs.Values) {
						env[s.info.Defs[n]] = s.expr(vs.Values[i], env, depth)
					} else {
						env[s.info.Defs[n]] = zeroConst(s.info.Defs[n].Type())
					}
				}
			}
		case *ast.IfStmt:
			if v.Init != nil {
				if as, ok := v.Init.(*ast.AssignStmt); ok {
					s.assign(as, env, depth)
				} else {
					s.fail("if-init form")
					return nil, true
				}
			}
			c := s.expr(v.Cond, env, depth)
			if c == nil || c.Kind() != constant.Bool {
				s.fail("condition not decidable: %s", types.ExprString(v.Cond))
				return nil, true
			}
			if constant.BoolVal(c) {
				if r, d := s.block(fi, v.Body.List, env, depth); d {
					return r, true
				}
			} else if v.Else != nil {
				var body []ast.Stmt
				switch e := v.Else.(type) {
				case *ast.BlockStmt:
					body = e.List
				default:
					body = []ast.Stmt{e}
				}
				if r, d := s.block(fi, body, env, depth); d {
					return r, true
				}
			}
		case *ast.SwitchStmt:
			if v.Init != nil {
				if as, ok := v.Init.(*ast.AssignStmt); ok {
					s.assign(as, env, depth)
				}
			}
			var tag constant.Value
			if v.Tag != nil {
				tag = s.expr(v.Tag, env, depth)
				if tag == nil {
					s.fail("switch tag not decidable")
					return nil, true
				}
			}
			var chosen, def *ast.CaseClause
			for _, c := range v.Body.List {
				cc := c.(*ast.CaseClause)
				if cc.List == nil {
					def = cc
					continue
				}
				for _, e := range cc.List {
					ev := s.expr(e, env, depth)
					if ev == nil {
						s.fail("case not decidable: %s", types.ExprString(e))
						return nil, true
					}
					if tag != nil && constant.Compare(tag, token.EQL, ev) || tag == nil && ev.Kind() == constant.Bool && constant.BoolVal(ev) {
						chosen = cc
						break
					}
				}
				if chosen != nil {
					break
				}
			}
			if chosen == nil {
				chosen = def
			}
			if chosen != nil {
				for _, b := range chosen.Body {
					if br, ok := b.(*ast.BranchStmt); ok && br.Tok == token.FALLTHROUGH {
						s.fail("fallthrough")
						return nil, true
					}
				}
				if r, d := s.block(fi, chosen.Body, env, depth); d {
					return r, true
				}
			}
		case *ast.BlockStmt:
			if r, d := s.block(fi, v.List, env, depth); d {
				return r, true
			}
		case *ast.ExprStmt, *ast.EmptyStmt:
			// effects are irrelevant to the value
		default:
			s.fail("statement outside the fragment: %T", st)
			return nil, true
		}
	}
	return nil, false
}

func (s *strEval) assign(v *ast.AssignStmt, env map[types.Object]constant.Value, depth int) {
	if len(v.Lhs) == 2 && len(v.Rhs) == 1 {
		// v, ok := m[k]
		if ix, ok := ast.Unparen(v.Rhs[0]).(*ast.IndexExpr); ok {
			val, found, okk := s.mapLookup(ix, env, depth)
			if !okk {
				return
			}
			s.set(v.Lhs[0], val, env)
			s.set(v.Lhs[1], constant.MakeBool(found), env)
			return
		}
		s.fail("two-value assignment outside the fragment")
		return
	}
	if len(v.Lhs) != len(v.Rhs) {
		s.fail("assignment arity")
		return
	}
	for i := range v.Lhs {
		if v.Tok != token.ASSIGN && v.Tok != token.DEFINE {
			s.fail("compound assignment")
			return
		}
		s.set(v.Lhs[i], s.expr(v.Rhs[i], env, depth), env)
	}
}

func (s *strEval) set(l ast.Expr, val constant.Value, env map[types.Object]constant.Value) {
	id, ok := l.(*ast.Ident)
	if !ok {
		return
	}
	if id.Name == "_" {
		return
	}
	if o := s.info.ObjectOf(id); o != nil {
		env[o] = val
	}
}

// mapLookup: m[k] where m is a package-level map variable initialised by a composite literal with
// constant keys and values, never assigned elsewhere.
func (s *strEval) mapLookup(ix *ast.IndexExpr, env map[types.Object]constant.Value, depth int) (val constant.Value, found, ok bool) {
	k := s.expr(ix.Index, env, depth)
	if k == nil {
		s.fail("map key not decidable")
		return nil, false, false
	}
	var mobj types.Object
	switch x := ast.Unparen(ix.X).(type) {
	case *ast.Ident:
		mobj = s.info.ObjectOf(x)
	case *ast.SelectorExpr:
		mobj = s.info.ObjectOf(x.Sel)
	}
	mv, _ := mobj.(*types.Var)
	if mv == nil || mv.Parent() != mv.Pkg().Scope() {
		s.fail("look-up in something other than a package-level table: %s", types.ExprString(ix.X))
		return nil, false, false
	}
	mt, isMap := mv.Type().Underlying().(*types.Map)
	if !isMap {
		s.fail("index of a non-map")
		return nil, false, false
	}
	lit, linfo := s.pkgVarInit(mv)
	if lit == nil {
		s.fail("table %s has no literal initialiser (or is written elsewhere)", mv.Name())
		return nil, false, false
	}
	for _, el := range lit.Elts {
		kv, ok := el.(*ast.KeyValueExpr)
		if !ok {
			continue
		}
		ktv := linfo.Types[kv.Key]
		if ktv.Value == nil {
			s.fail("non-constant table key")
			return nil, false, false
		}
		if constant.Compare(ktv.Value, token.EQL, k) {
			vtv := linfo.Types[kv.Value]
			if vtv.Value == nil {
				s.fail("non-constant table value")
				return nil, false, false
			}
			return vtv.Value, true, true
		}
	}
	return zeroConst(mt.Elem()), false, true
}

// pkgVarInit returns the composite literal a package-level variable is initialised with, provided the
// variable (or an element of it) is assigned nowhere else in its package.
func (s *strEval) pkgVarInit(v *types.Var) (*ast.CompositeLit, *types.Info) {
	for _, pk := range s.p.Pkgs {
		if pk.Types != v.Pkg() {
			continue
		}
		var lit *ast.CompositeLit
		written := false
		for _, f := range pk.Syntax {
			ast.Inspect(f, func(n ast.Node) bool {
				switch x := n.(type) {
				case *ast.ValueSpec:
					for i, nm := range x.Names {
						if pk.TypesInfo.Defs[nm] == v && i < len(x.Values) {
							lit, _ = ast.Unparen(x.Values[i]).(*ast.CompositeLit)
						}
					}
				case *ast.AssignStmt:
					for _, l := range x.Lhs {
						if root := rootOf(l); root != nil && pk.TypesInfo.ObjectOf(root) == v {
							written = true
						}
					}
				case *ast.CallExpr:
					if id, ok := x.Fun.(*ast.Ident); ok && (id.Name == "delete" || id.Name == "clear") && len(x.Args) > 0 {
						if root := rootOf(x.Args[0]); root != nil && pk.TypesInfo.ObjectOf(root) == v {
							written = true
						}
					}
				}
				return true
			})
		}
		if written {
			return nil, nil
		}
		return lit, pk.TypesInfo
	}
	return nil, nil
}

func (s *strEval) expr(e ast.Expr, env map[types.Object]constant.Value, depth int) constant.Value {
	if s.err != "" {
		return nil
	}
	if tv, ok := s.info.Types[e]; ok && tv.Value != nil {
		return tv.Value
	}
	switch v := ast.Unparen(e).(type) {
	case *ast.Ident:
		o := s.info.ObjectOf(v)
		if val, ok := env[o]; ok {
			return val
		}
		s.fail("free variable %s", v.Name)
		return nil
	case *ast.UnaryExpr:
		x := s.expr(v.X, env, depth)
		if x == nil {
			return nil
		}
		if v.Op == token.NOT && x.Kind() == constant.Bool {
			return constant.MakeBool(!constant.BoolVal(x))
		}
		if v.Op == token.SUB || v.Op == token.ADD {
			return constant.UnaryOp(v.Op, x, 0)
		}
	case *ast.BinaryExpr:
		x := s.expr(v.X, env, depth)
		if x == nil {
			return nil
		}
		if v.Op == token.LAND || v.Op == token.LOR {
			if x.Kind() != constant.Bool {
				s.fail("non-boolean operand")
				return nil
			}
			if constant.BoolVal(x) == (v.Op == token.LOR) {
				return x
			}
			return s.expr(v.Y, env, depth)
		}
		y := s.expr(v.Y, env, depth)
		if y == nil {
			return nil
		}
		switch v.Op {
		case token.EQL, token.NEQ, token.LSS, token.LEQ, token.GTR, token.GEQ:
			if x.Kind() != y.Kind() {
				s.fail("comparison of different kinds")
				return nil
			}
			if x.Kind() == constant.Bool {
				eq := constant.BoolVal(x) == constant.BoolVal(y)
				return constant.MakeBool(eq == (v.Op == token.EQL))
			}
			return constant.MakeBool(constant.Compare(x, v.Op, y))
		case token.ADD, token.SUB, token.MUL:
			if x.Kind() == y.Kind() {
				return constant.BinaryOp(x, v.Op, y)
			}
		}
	case *ast.IndexExpr:
		val, _, ok := s.mapLookup(v, env, depth)
		if ok {
			return val
		}
		return nil
	case *ast.CallExpr:
		// conversion
		if tv, ok := s.info.Types[v.Fun]; ok && tv.IsType() && len(v.Args) == 1 {
			x := s.expr(v.Args[0], env, depth)
			if x == nil {
				return nil
			}
			if b, ok := tv.Type.Underlying().(*types.Basic); ok {
				if b.Info()&types.IsString != 0 && x.Kind() == constant.String || b.Info()&types.IsInteger != 0 && x.Kind() == constant.Int {
					return x
				}
			}
			s.fail("conversion outside the fragment")
			return nil
		}
		var fn *types.Func
		switch f := ast.Unparen(v.Fun).(type) {
		case *ast.Ident:
			fn, _ = s.info.Uses[f].(*types.Func)
		case *ast.SelectorExpr:
			fn, _ = s.info.Uses[f.Sel].(*types.Func)
		}
		if fn == nil {
			if id, ok := v.Fun.(*ast.Ident); ok && id.Name == "len" && len(v.Args) == 1 {
				if x := s.expr(v.Args[0], env, depth); x != nil && x.Kind() == constant.String {
					return constant.MakeInt64(int64(len(constant.StringVal(x))))
				}
			}
			s.fail("call of a function value")
			return nil
		}
		var args []constant.Value
		for _, a := range v.Args {
			x := s.expr(a, env, depth)
			if x == nil {
				return nil
			}
			args = append(args, x)
		}
		if fn.Pkg() != nil && fn.Pkg().Path() == "strings" {
			str := func(i int) string { return constant.StringVal(args[i]) }
			allStr := true
			for _, a := range args {
				if a.Kind() != constant.String {
					allStr = false
				}
			}
			if allStr {
				switch {
				case fn.Name() == "ToLower" && len(args) == 1:
					return constant.MakeString(strings.ToLower(str(0)))
				case fn.Name() == "ToUpper" && len(args) == 1:
					return constant.MakeString(strings.ToUpper(str(0)))
				case fn.Name() == "TrimSpace" && len(args) == 1:
					return constant.MakeString(strings.TrimSpace(str(0)))
				case fn.Name() == "EqualFold" && len(args) == 2:
					return constant.MakeBool(strings.EqualFold(str(0), str(1)))
				case fn.Name() == "HasPrefix" && len(args) == 2:
					return constant.MakeBool(strings.HasPrefix(str(0), str(1)))
				case fn.Name() == "HasSuffix" && len(args) == 2:
					return constant.MakeBool(strings.HasSuffix(str(0), str(1)))
				case fn.Name() == "Contains" && len(args) == 2:
					return constant.MakeBool(strings.Contains(str(0), str(1)))
				}
			}
			s.fail("strings.%s outside the fragment", fn.Name())
			return nil
		}
		if callee := s.p.FuncOf(fn); callee != nil && callee.Decl.Body != nil && callee.Decl.Recv == nil {
			return s.call(callee, args, depth+1)
		}
		s.fail("call outside the fragment: %s", fn.Name())
		return nil
	}
	s.fail("expression outside the fragment: %s", types.ExprString(e))
	return nil
}
