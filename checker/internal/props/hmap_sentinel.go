package props

import (
	"golibcheck/internal/core"
	"go/ast"
	"go/token"
	"go/types"
	"regexp"
	"strings"

	"golibcheck/internal/paths"
)

var ringEndRe = regexp.MustCompile(`(^|\.)header\.(link_prev|link_next|link\.prev|link\.next)$`)

// checkSentinel: the order ring of a linked collection is closed through a header entry that holds
// no element (its key is the zero key). What header.link_prev / header.link_next designate is an
// element only while the collection is not empty; in an empty collection it is the header itself.
// A method that treats such an entry as an element — compares its key with a key it was given, or
// stores into its key or value — must first have ruled the header out: a test of the entry against
// the header, or of the collection's size, earlier in the method. (Reading the end's key to hand it
// to remove(), or returning it, is what the first/last accessors have always done and is not judged.)
func (h *hmapType) checkSentinel() {
	for _, fi := range h.p.MethodsOf(h.t) {
		if fi.Decl.Body == nil {
			continue
		}
		info := fi.Pkg.TypesInfo
		params := map[types.Object]bool{}
		if fi.Decl.Type.Params != nil {
			for _, f := range fi.Decl.Type.Params.List {
				for _, n := range f.Names {
					if o := info.Defs[n]; o != nil {
						params[o] = true
					}
				}
			}
		}
		isRingEnd := func(e ast.Expr) bool {
			return ringEndRe.MatchString(stripSpaces(types.ExprString(ast.Unparen(e))))
		}
		// locals holding a ring end
		ends := map[types.Object]bool{}
		ast.Inspect(fi.Decl.Body, func(n ast.Node) bool {
			if as, ok := n.(*ast.AssignStmt); ok && len(as.Lhs) == len(as.Rhs) {
				for i, l := range as.Lhs {
					if id, ok := l.(*ast.Ident); ok && isRingEnd(as.Rhs[i]) {
						if o := info.ObjectOf(id); o != nil {
							ends[o] = true
						}
					}
				}
			}
			return true
		})
		isEnd := func(e ast.Expr) bool {
			e = ast.Unparen(e)
			if isRingEnd(e) {
				return true
			}
			if id, ok := e.(*ast.Ident); ok {
				return ends[info.ObjectOf(id)]
			}
			return false
		}
		sawEnd := false
		ast.Inspect(fi.Decl.Body, func(n ast.Node) bool {
			if e, ok := n.(ast.Expr); ok && isRingEnd(e) {
				sawEnd = true
			}
			return true
		})
		if !sawEnd {
			continue
		}
		mentionsParam := func(e ast.Expr) bool {
			found := false
			ast.Inspect(e, func(n ast.Node) bool {
				if id, ok := n.(*ast.Ident); ok && params[info.ObjectOf(id)] {
					found = true
				}
				return true
			})
			return found
		}
		// guards: conditions that rule the header out
		var guards []token.Pos
		noteGuard := func(c ast.Expr) {
			if c == nil {
				return
			}
			ast.Inspect(c, func(n ast.Node) bool {
				switch v := n.(type) {
				case *ast.BinaryExpr:
					if v.Op == token.EQL || v.Op == token.NEQ {
						xs, ys := stripSpaces(types.ExprString(v.X)), stripSpaces(types.ExprString(v.Y))
						if (isEnd(v.X) && strings.HasSuffix(ys, "header")) || (isEnd(v.Y) && strings.HasSuffix(xs, "header")) {
							guards = append(guards, v.Pos())
						}
					}
					for _, side := range []ast.Expr{v.X, v.Y} {
						s := stripSpaces(types.ExprString(side))
						if strings.HasSuffix(s, ".count") || strings.HasSuffix(s, ".size") || strings.HasSuffix(s, "Size()") {
							guards = append(guards, v.Pos())
						}
					}
				case *ast.CallExpr:
					if sel, ok := v.Fun.(*ast.SelectorExpr); ok && (sel.Sel.Name == "IsEmpty" || sel.Sel.Name == "isEmpty") {
						guards = append(guards, v.Pos())
					}
				}
				return true
			})
		}
		ast.Inspect(fi.Decl.Body, func(n ast.Node) bool {
			switch v := n.(type) {
			case *ast.IfStmt:
				noteGuard(v.Cond)
			case *ast.ForStmt:
				noteGuard(v.Cond)
			case *ast.SwitchStmt:
				for _, cl := range v.Body.List {
					for _, e := range cl.(*ast.CaseClause).List {
						noteGuard(e)
					}
				}
			}
			return true
		})
		guardedAt := func(pos token.Pos) bool {
			for _, g := range guards {
				if g < pos {
					return true
				}
			}
			return false
		}
		bad := ""
		fieldOfEnd := func(e ast.Expr) (string, bool) {
			sel, ok := ast.Unparen(e).(*ast.SelectorExpr)
			if !ok || !isEnd(sel.X) {
				return "", false
			}
			if _, isField := info.Selections[sel]; !isField {
				return "", false
			}
			return sel.Sel.Name, true
		}
		ast.Inspect(fi.Decl.Body, func(n ast.Node) bool {
			switch v := n.(type) {
			case *ast.BinaryExpr:
				if v.Op != token.EQL && v.Op != token.NEQ {
					return true
				}
				for _, pr := range [][2]ast.Expr{{v.X, v.Y}, {v.Y, v.X}} {
					if f, ok := fieldOfEnd(pr[0]); ok && strings.EqualFold(f, "key") && mentionsParam(pr[1]) && !guardedAt(v.Pos()) {
						bad = "compares the key of " + types.ExprString(ast.Unparen(pr[0]).(*ast.SelectorExpr).X) + " with the key it was given at " + h.p.Pos(v.Pos()) + " without having ruled out the header: in an empty collection that entry is the header, whose key is the zero key"
					}
				}
			case *ast.AssignStmt:
				for _, l := range v.Lhs {
					if f, ok := fieldOfEnd(l); ok && (strings.EqualFold(f, "key") || strings.EqualFold(f, "value")) && !guardedAt(v.Pos()) {
						bad = "stores into " + types.ExprString(l) + " at " + h.p.Pos(v.Pos()) + " without having ruled out the header: in an empty collection the element is written into the header and never becomes a member"
					}
				}
			}
			return true
		})
		h.r.Check(bad == "", h.pre+".sentinel", h.name+"."+fi.Obj.Name(), h.p.Pos(fi.Decl.Pos()), "ends of the order ring are not treated as elements without ruling the header out", bad)
	}
}

// checkReadOnly: look-ups are queries. Contains*/Get/Size/IsEmpty of a collection (and the methods of
// the collection they call) store into no field of the collection or of its entries and into no
// bucket: an enumeration in progress is parked on an entry and follows its next pointer, so a look-up
// that re-links a chain makes it skip or repeat elements.
func (h *hmapType) checkReadOnly() {
	isLookup := func(n string) bool {
		return n == "Get" || n == "Size" || n == "IsEmpty" || strings.HasPrefix(n, "Contains")
	}
	entryOrSelf := func(t types.Type) bool {
		n := namedOf(t)
		if n == nil || n.Obj().Pkg() != h.t.Obj().Pkg() {
			return false
		}
		_, isStruct := n.Underlying().(*types.Struct)
		return isStruct
	}
	for _, fi := range h.p.MethodsOf(h.t) {
		if fi.Decl.Body == nil || !isLookup(fi.Obj.Name()) {
			continue
		}
		bad := ""
		seen := map[*types.Func]bool{}
		var scan func(decl *ast.FuncDecl, info *types.Info, depth int)
		scan = func(decl *ast.FuncDecl, info *types.Info, depth int) {
			ast.Inspect(decl.Body, func(n ast.Node) bool {
				var lhs []ast.Expr
				switch v := n.(type) {
				case *ast.AssignStmt:
					lhs = v.Lhs
				case *ast.IncDecStmt:
					lhs = []ast.Expr{v.X}
				case *ast.CallExpr:
					if depth < 3 {
						if fn := calleeFunc(info, v); fn != nil && !seen[fn] && namedOf(recvTypeOf(fn)) == h.t {
							seen[fn] = true
							if cf := h.p.FuncOf(fn); cf != nil && cf.Decl.Body != nil {
								scan(cf.Decl, cf.Pkg.TypesInfo, depth+1)
							}
						}
					}
				}
				for _, l := range lhs {
					switch x := ast.Unparen(l).(type) {
					case *ast.SelectorExpr:
						if sel, ok := info.Selections[x]; ok && sel.Kind() == types.FieldVal && entryOrSelf(sel.Recv()) {
							bad = "stores into " + types.ExprString(x) + " at " + h.p.Pos(x.Pos())
						}
					case *ast.IndexExpr:
						if t := info.TypeOf(x); t != nil && entryOrSelf(t) {
							if _, isPtr := t.(*types.Pointer); isPtr {
								bad = "stores into the bucket " + types.ExprString(x) + " at " + h.p.Pos(x.Pos())
							}
						}
					}
				}
				return true
			})
		}
		scan(fi.Decl, fi.Pkg.TypesInfo, 0)
		if bad != "" {
			bad += ": a look-up changes the collection (an enumeration in progress skips or repeats elements)"
		}
		h.r.Check(bad == "", h.pre+".read-only", h.name+"."+fi.Obj.Name(), h.p.Pos(fi.Decl.Pos()), "stores nothing", bad)
	}
}

func recvTypeOf(fn *types.Func) types.Type {
	sig, ok := fn.Type().(*types.Signature)
	if !ok || sig.Recv() == nil {
		return nil
	}
	return sig.Recv().Type()
}

// checkClear: emptying a collection leaves it with no elements counted. Every path through the
// clearing method (clear/Clear, helpers followed) that empties or replaces the bucket table also sets
// the element count to zero; a way out that has dropped the buckets and kept the count leaves Size()
// reporting elements that are gone.
func (h *hmapType) checkClear() {
	for _, fi := range h.p.MethodsOf(h.t) {
		if fi.Decl.Body == nil || (fi.Obj.Name() != "clear" && fi.Obj.Name() != "Clear") {
			continue
		}
		info := fi.Pkg.TypesInfo
		rn := recvName(fi)
		norm := func(e ast.Expr) string {
			return strings.ReplaceAll(stripSpaces(types.ExprString(e)), rn+".", "")
		}
		in := newInliner(h.p, fi, nil)
		ps, over := paths.Enumerate(fi.Decl.Body, paths.Config{Info: info, Inline: in.Body, Expand: in.Expand,
			Classify: func(n ast.Node) []paths.Event {
				var out []paths.Event
				if as, ok := n.(*ast.AssignStmt); ok && len(as.Lhs) == len(as.Rhs) {
					for i, l := range as.Lhs {
						ls, rs := norm(l), norm(as.Rhs[i])
						switch {
						case ls == "count" && rs == "0":
							out = append(out, paths.Event{Kind: "ZERO", Pos: as.Pos()})
						case ls == "table":
							out = append(out, paths.Event{Kind: "DROP", Pos: as.Pos()})
						default:
							if ix, ok := ast.Unparen(l).(*ast.IndexExpr); ok && rs == "nil" {
								if t := info.TypeOf(ix.X); t != nil {
									if _, isSl := t.Underlying().(*types.Slice); isSl {
										out = append(out, paths.Event{Kind: "DROP", Pos: as.Pos()})
									}
								}
							}
						}
					}
				}
				return out
			}})
		if over {
			continue
		}
		bad := ""
		n := 0
		for _, pa := range ps {
			if pa.Has("PANIC") || !pa.Has("DROP") {
				continue
			}
			n++
			if !pa.Has("ZERO") {
				bad = "a path empties or replaces the bucket table and returns without setting the count to zero (" + pa.String() + "): Size() keeps reporting the elements that are gone"
			}
		}
		if n > 0 {
			h.r.Check(bad == "", h.pre+".clear", h.name+"."+fi.Obj.Name(), h.p.Pos(fi.Decl.Pos()), "buckets dropped and count zeroed together", bad)
		}
	}
}

// checkNoBlindReject: a membership question is answered by looking. A Contains* method does not
// answer "no" on the strength of a comparison of what it was asked about with a field or constant of
// the collection (a "null" marker, a reserved key) before it has scanned anything — unless the
// insertion methods turn the same value away with the same comparison, it may well be stored.
func (h *hmapType) checkNoBlindReject() {
	putTexts := map[string]bool{}
	for _, fi := range h.p.MethodsOf(h.t) {
		if fi.Decl.Body == nil {
			continue
		}
		n := strings.ToLower(fi.Obj.Name())
		if !strings.HasPrefix(n, "put") && !strings.HasPrefix(n, "add") {
			continue
		}
		ast.Inspect(fi.Decl.Body, func(m ast.Node) bool {
			if ifs, ok := m.(*ast.IfStmt); ok {
				putTexts[stripSpaces(types.ExprString(ifs.Cond))] = true
			}
			return true
		})
	}
	for _, fi := range h.p.MethodsOf(h.t) {
		if fi.Decl.Body == nil || !strings.HasPrefix(fi.Obj.Name(), "Contains") || fi.Decl.Type.Params.NumFields() != 1 || len(fi.Decl.Type.Params.List[0].Names) != 1 {
			continue
		}
		info := fi.Pkg.TypesInfo
		param := info.Defs[fi.Decl.Type.Params.List[0].Names[0]]
		rn := recvName(fi)
		bad := ""
		for _, st := range fi.Decl.Body.List {
			if _, isLoop := st.(*ast.ForStmt); isLoop {
				break
			}
			if _, isLoop := st.(*ast.RangeStmt); isLoop {
				break
			}
			ifs, ok := st.(*ast.IfStmt)
			if !ok || len(ifs.Body.List) == 0 {
				continue
			}
			rs, ok := ifs.Body.List[len(ifs.Body.List)-1].(*ast.ReturnStmt)
			if !ok || len(rs.Results) != 1 {
				continue
			}
			if tv, ok := info.Types[rs.Results[0]]; !ok || tv.Value == nil || tv.Value.ExactString() != "false" {
				continue
			}
			// an atom of the condition that compares the parameter with a field of the collection or a constant
			ast.Inspect(ifs.Cond, func(m ast.Node) bool {
				be, ok := m.(*ast.BinaryExpr)
				if !ok || (be.Op != token.EQL && be.Op != token.NEQ) {
					return true
				}
				for _, pr := range [][2]ast.Expr{{be.X, be.Y}, {be.Y, be.X}} {
					id, ok := ast.Unparen(pr[0]).(*ast.Ident)
					if !ok || info.ObjectOf(id) != param {
						continue
					}
					o := ast.Unparen(pr[1])
					if oid, ok := o.(*ast.Ident); ok && oid.Name == "nil" {
						continue
					}
					isField := false
					if sel, ok := o.(*ast.SelectorExpr); ok {
						if rid, ok := ast.Unparen(sel.X).(*ast.Ident); ok && rid.Name == rn {
							isField = true
						}
					}
					_, isConst := constIntOf(info, o)
					if (isField || isConst) && !putTexts[stripSpaces(types.ExprString(be))] && !putTexts[stripSpaces(types.ExprString(ifs.Cond))] {
						bad = "answers false at " + h.p.Pos(rs.Pos()) + " because " + types.ExprString(be) + ", without looking: the insertion methods store such a value like any other, so a stored value is reported as absent"
					}
				}
				return true
			})
		}
		if bad == "" {
			bad = h.blindSummaryReject(fi, param)
		}
		h.r.Check(bad == "", h.pre+".key-domain", h.name+"."+fi.Obj.Name()+" looks before it answers", h.p.Pos(fi.Decl.Pos()), "no negative answer from a comparison with a marker of the collection", bad)
	}
}

// blindSummaryReject: a Contains* method that answers "no" from a comparison of a measure of the
// probe (len(key), key itself) with a field the collection updates as elements come in (a summary
// kept beside the table: longest key, largest element) is right only if no stored element can satisfy
// the comparison. The one shape accepted: the insertion side keeps a running maximum
// `if M(k) > x.f { x.f = M(k) }` and the lookup rejects on exactly `M(k) > x.f` (strictly: an element
// as large as the maximum is stored). Anything else is reported.
func (h *hmapType) blindSummaryReject(fi *core.FuncInfo, param types.Object) string {
	info := fi.Pkg.TypesInfo
	rn := recvName(fi)
	// fields assigned outside constructors
	mutable := map[string]bool{}
	maxOf := map[string]string{} // field -> normalised measure it is the running maximum of
	for _, m := range h.p.MethodsOf(h.t) {
		if m.Decl.Body == nil {
			continue
		}
		mi := m.Pkg.TypesInfo
		mrn := recvName(m)
		params := map[types.Object]bool{}
		for _, f := range m.Decl.Type.Params.List {
			for _, nm := range f.Names {
				params[mi.Defs[nm]] = true
			}
		}
		normM := func(e ast.Expr) (string, bool) {
			uses := false
			ast.Inspect(e, func(n ast.Node) bool {
				if id, ok := n.(*ast.Ident); ok && params[mi.ObjectOf(id)] {
					uses = true
				}
				return true
			})
			txt := stripSpaces(types.ExprString(e))
			for po := range params {
				if po != nil {
					txt = replaceIdent(txt, po.Name(), "$k")
				}
			}
			return txt, uses
		}
		fieldOf := func(e ast.Expr) string {
			if sel, ok := ast.Unparen(e).(*ast.SelectorExpr); ok {
				if rid, ok := ast.Unparen(sel.X).(*ast.Ident); ok && rid.Name == mrn {
					return sel.Sel.Name
				}
			}
			return ""
		}
		ast.Inspect(m.Decl.Body, func(n ast.Node) bool {
			switch x := n.(type) {
			case *ast.AssignStmt:
				for _, l := range x.Lhs {
					if f := fieldOf(l); f != "" {
						mutable[f] = true
					}
				}
			case *ast.IncDecStmt:
				if f := fieldOf(x.X); f != "" {
					mutable[f] = true
				}
			case *ast.IfStmt:
				be, ok := ast.Unparen(x.Cond).(*ast.BinaryExpr)
				if !ok || x.Else != nil || len(x.Body.List) != 1 {
					return true
				}
				as, ok := x.Body.List[0].(*ast.AssignStmt)
				if !ok || len(as.Lhs) != 1 || len(as.Rhs) != 1 || as.Tok != token.ASSIGN {
					return true
				}
				var meas ast.Expr
				f := ""
				switch be.Op {
				case token.GTR:
					meas, f = be.X, fieldOf(be.Y)
				case token.LSS:
					meas, f = be.Y, fieldOf(be.X)
				}
				if f == "" || fieldOf(as.Lhs[0]) != f {
					return true
				}
				a, uses := normM(meas)
				b, _ := normM(as.Rhs[0])
				if uses && a == b {
					maxOf[f] = a
				}
			}
			return true
		})
	}
	bad := ""
	for _, st := range fi.Decl.Body.List {
		if _, isLoop := st.(*ast.ForStmt); isLoop {
			break
		}
		if _, isLoop := st.(*ast.RangeStmt); isLoop {
			break
		}
		ifs, ok := st.(*ast.IfStmt)
		if !ok || len(ifs.Body.List) == 0 {
			continue
		}
		rs, ok := ifs.Body.List[len(ifs.Body.List)-1].(*ast.ReturnStmt)
		if !ok || len(rs.Results) != 1 {
			continue
		}
		if tv, ok := info.Types[rs.Results[0]]; !ok || tv.Value == nil || tv.Value.ExactString() != "false" {
			continue
		}
		ast.Inspect(ifs.Cond, func(m ast.Node) bool {
			be, ok := m.(*ast.BinaryExpr)
			if !ok {
				return true
			}
			switch be.Op {
			case token.GTR, token.GEQ, token.LSS, token.LEQ, token.EQL, token.NEQ:
			default:
				return true
			}
			for _, pr := range [][2]ast.Expr{{be.X, be.Y}, {be.Y, be.X}} {
				usesParam := false
				ast.Inspect(pr[0], func(k ast.Node) bool {
					if id, ok := k.(*ast.Ident); ok && info.ObjectOf(id) == param {
						usesParam = true
					}
					return true
				})
				sel, ok := ast.Unparen(pr[1]).(*ast.SelectorExpr)
				if !usesParam || !ok {
					continue
				}
				rid, ok := ast.Unparen(sel.X).(*ast.Ident)
				if !ok || rid.Name != rn || !mutable[sel.Sel.Name] {
					continue
				}
				meas := replaceIdent(stripSpaces(types.ExprString(pr[0])), param.Name(), "$k")
				strictAbove := (be.Op == token.GTR && pr[0] == be.X) || (be.Op == token.LSS && pr[0] == be.Y)
				if want, tracked := maxOf[sel.Sel.Name]; tracked && want == meas && strictAbove {
					continue
				}
				bad = "answers false at " + h.p.Pos(rs.Pos()) + " because " + types.ExprString(be) + ", a comparison with the summary field " + sel.Sel.Name + " kept beside the table, without looking: only `measure > running maximum` rules a stored element out (an element equal to the maximum is stored)"
			}
			return true
		})
	}
	return bad
}

// replaceIdent replaces whole-word occurrences of name in s.
func replaceIdent(s, name, by string) string {
	if name == "" {
		return s
	}
	isW := func(c byte) bool { return c == '_' || (c >= '0' && c <= '9') || (c >= 'a' && c <= 'z') || (c >= 'A' && c <= 'Z') }
	out := ""
	for i := 0; i < len(s); {
		if strings.HasPrefix(s[i:], name) && (i == 0 || !isW(s[i-1])) && (i+len(name) >= len(s) || !isW(s[i+len(name)])) {
			out += by
			i += len(name)
			continue
		}
		out += s[i : i+1]
		i++
	}
	return out
}
