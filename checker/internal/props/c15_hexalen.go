package props

import (
	"fmt"
	"go/ast"
	"go/constant"
	"go/token"
	"go/types"
	"strings"

	"golibcheck/internal/core"
)

// c15HexaLength: a decoder of the base-32 text that turns away long input must accept every text
// the encoder can produce. The longest such text is known from the encoder itself: the longest
// string literal it returns (the special form of the smallest integer) and one prefix character plus
// the digits of a 63-bit magnitude in the encoder's radix. A length test on the decoder's text
// parameter whose failing side returns is judged against that length (digits only — one less — in a
// helper that is handed the text without its prefix).
func c15HexaLength(p *core.Program, r *core.Report, rule string) {
	pk := p.Pkg("util/hexa32")
	if pk == nil {
		return
	}
	// the encoder's longest output
	maxEnc := 0
	for _, fi := range p.Funcs {
		if fi.Pkg != pk || fi.Decl.Body == nil {
			continue
		}
		sig := fi.Obj.Type().(*types.Signature)
		if sig.Results().Len() != 1 || !isStringType(sig.Results().At(0).Type()) {
			continue
		}
		ast.Inspect(fi.Decl.Body, func(n ast.Node) bool {
			if rs, ok := n.(*ast.ReturnStmt); ok && len(rs.Results) == 1 {
				if tv, ok := fi.Pkg.TypesInfo.Types[rs.Results[0]]; ok && tv.Value != nil && tv.Value.Kind() == constant.String {
					if l := len(constant.StringVal(tv.Value)); l > maxEnc {
						maxEnc = l
					}
				}
			}
			// radix := int64(32): digits of 2^63 in that radix, plus the prefix
			if as, ok := n.(*ast.AssignStmt); ok && len(as.Lhs) == 1 && len(as.Rhs) == 1 {
				if id, ok := as.Lhs[0].(*ast.Ident); ok && strings.EqualFold(id.Name, "radix") {
					if tv, ok := fi.Pkg.TypesInfo.Types[as.Rhs[0]]; ok && tv.Value != nil {
						if rad, exact := constant.Int64Val(constant.ToInt(tv.Value)); exact && rad >= 2 {
							d, v := 0, new(uint64)
							*v = 1 << 63
							for x := *v; x > 0; x /= uint64(rad) {
								d++
							}
							if d+1 > maxEnc {
								maxEnc = d + 1
							}
						}
					}
				}
			}
			return true
		})
	}
	if maxEnc == 0 {
		return
	}
	for _, fi := range p.Funcs {
		if fi.Pkg != pk || fi.Decl.Body == nil {
			continue
		}
		sig := fi.Obj.Type().(*types.Signature)
		if sig.Params().Len() != 1 || !isStringType(sig.Params().At(0).Type()) || sig.Results().Len() != 1 {
			continue
		}
		if b, ok := sig.Results().At(0).Type().Underlying().(*types.Basic); !ok || b.Info()&types.IsInteger == 0 {
			continue
		}
		info := fi.Pkg.TypesInfo
		param := sig.Params().At(0)
		need := maxEnc
		if !fi.Obj.Exported() {
			need = maxEnc - 1 // handed the digits without the prefix character
		}
		ast.Inspect(fi.Decl.Body, func(n ast.Node) bool {
			ifs, ok := n.(*ast.IfStmt)
			if !ok {
				return true
			}
			returns := false
			for _, s := range ifs.Body.List {
				if _, ok := s.(*ast.ReturnStmt); ok {
					returns = true
				}
			}
			if !returns {
				return true
			}
			ast.Inspect(ifs.Cond, func(m ast.Node) bool {
				be, ok := m.(*ast.BinaryExpr)
				if !ok {
					return true
				}
				isLen := func(e ast.Expr) bool {
					c, ok := ast.Unparen(e).(*ast.CallExpr)
					if !ok || len(c.Args) != 1 {
						return false
					}
					f, ok := c.Fun.(*ast.Ident)
					if !ok || f.Name != "len" {
						return false
					}
					a, ok := ast.Unparen(c.Args[0]).(*ast.Ident)
					return ok && info.ObjectOf(a) == types.Object(param)
				}
				op, lenSide, other := be.Op, be.X, be.Y
				if !isLen(lenSide) {
					if !isLen(be.Y) {
						return true
					}
					lenSide, other, op = be.Y, be.X, flipOp(op)
				}
				tv, ok := info.Types[other]
				if !ok || tv.Value == nil {
					return true
				}
				k, exact := constant.Int64Val(constant.ToInt(tv.Value))
				if !exact {
					return true
				}
				accepted := int64(-1)
				switch op {
				case token.GTR:
					accepted = k
				case token.GEQ:
					accepted = k - 1
				default:
					return true
				}
				r.Check(accepted >= int64(need), rule, core.FuncName(fi.Obj)+" length limit", p.Pos(be.Pos()), fmt.Sprintf("accepts up to %d characters; the encoder writes at most %d here", accepted, need),
					fmt.Sprintf("rejects text longer than %d characters, but the encoder writes up to %d here (prefix and digits of a 63-bit magnitude, or the special form of the smallest integer): those values decode to the rejection result instead of themselves", accepted, need))
				return true
			})
			return true
		})
	}
}

func isStringType(t types.Type) bool {
	b, ok := t.Underlying().(*types.Basic)
	return ok && b.Info()&types.IsString != 0
}
