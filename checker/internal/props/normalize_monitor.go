package props

import (
	"go/ast"
	"go/types"
	"strings"

	"golibcheck/internal/core"
	"golibcheck/internal/paths"
)

// Monitor wrappers. A struct of the module that holds nothing but synchronisation primitives
// (sync.Mutex/RWMutex/Cond, by value or pointer) and whose methods only forward to them is the lock
// itself under another name:
//
//	func (m monitor) enter() func() { m.cond.L.Lock(); return m.cond.L.Unlock }
//	func (m monitor) await()        { m.cond.Wait() }
//	func (m monitor) wakeAll()      { m.cond.Broadcast() }
//
// Every use of such a method elsewhere is rewritten, once per loaded program, into what it forwards to
// with the receiver in place: `q.mon.await()` reads `q.mon.cond.Wait()`, `defer q.mon.enter()()` reads
// `q.mon.cond.L.Lock(); defer q.mon.cond.L.Unlock()`. The lock, wait and signal rules then see the
// primitives where they are used (a wrapper "acquires the lock" when its one path returns with it held).
type monitorMethod struct {
	kind  string         // "fwd": one forwarded call; "enter": lock call, then the unlock method value returned
	call  *ast.CallExpr  // fwd: the forwarded call; enter: the lock call
	ret   ast.Expr       // enter: the returned method value
	recv  types.Object
	fi    *core.FuncInfo
}

func isSyncPrimitive(t types.Type) bool {
	if pt, ok := t.(*types.Pointer); ok {
		t = pt.Elem()
	}
	s := t.String()
	return s == "sync.Mutex" || s == "sync.RWMutex" || s == "sync.Cond" || s == "sync.Locker"
}

// MonitorTypes: the named struct types of the module that are pure lock holders.
func MonitorTypes(p *core.Program) map[*types.TypeName]bool {
	out := map[*types.TypeName]bool{}
	seen := map[*types.TypeName]bool{}
	for _, fi := range p.Funcs {
		n := core.RecvNamed(fi.Obj)
		if n == nil || seen[n.Obj()] {
			continue
		}
		seen[n.Obj()] = true
		st, ok := n.Underlying().(*types.Struct)
		if !ok || st.NumFields() == 0 {
			continue
		}
		pure := true
		for i := 0; i < st.NumFields(); i++ {
			if !isSyncPrimitive(st.Field(i).Type()) {
				pure = false
			}
		}
		if pure {
			out[n.Obj()] = true
		}
	}
	return out
}

func normalizeMonitors(p *core.Program) {
	mons := MonitorTypes(p)
	if len(mons) == 0 {
		return
	}
	methods := map[*types.Func]*monitorMethod{}
	for _, fi := range p.Funcs {
		n := core.RecvNamed(fi.Obj)
		if n == nil || !mons[n.Obj()] || fi.Decl.Body == nil || fi.Decl.Recv == nil || len(fi.Decl.Recv.List) != 1 || len(fi.Decl.Recv.List[0].Names) != 1 {
			continue
		}
		info := fi.Pkg.TypesInfo
		recv := info.Defs[fi.Decl.Recv.List[0].Names[0]]
		rooted := func(e ast.Expr) bool {
			root := rootOf(e)
			return root != nil && info.ObjectOf(root) == recv
		}
		list := fi.Decl.Body.List
		switch {
		case len(list) == 1:
			if es, ok := list[0].(*ast.ExprStmt); ok {
				if call, ok := ast.Unparen(es.X).(*ast.CallExpr); ok && rooted(call.Fun) {
					methods[fi.Obj] = &monitorMethod{kind: "fwd", call: call, recv: recv, fi: fi}
				}
			}
		case len(list) == 2:
			es, ok1 := list[0].(*ast.ExprStmt)
			rs, ok2 := list[1].(*ast.ReturnStmt)
			if ok1 && ok2 && len(rs.Results) == 1 {
				call, ok := ast.Unparen(es.X).(*ast.CallExpr)
				if ok && rooted(call.Fun) && rooted(rs.Results[0]) {
					if sel, ok := ast.Unparen(call.Fun).(*ast.SelectorExpr); ok && (sel.Sel.Name == "Lock" || sel.Sel.Name == "RLock") {
						if rsel, ok := ast.Unparen(rs.Results[0]).(*ast.SelectorExpr); ok && strings.HasSuffix(rsel.Sel.Name, "Unlock") {
							methods[fi.Obj] = &monitorMethod{kind: "enter", call: call, ret: rs.Results[0], recv: recv, fi: fi}
						}
					}
				}
			}
		}
	}
	if len(methods) == 0 {
		return
	}
	for _, fi := range p.Funcs {
		if fi.Decl.Body == nil {
			continue
		}
		if n := core.RecvNamed(fi.Obj); n != nil && mons[n.Obj()] {
			continue
		}
		mn := &monitorNormalizer{p: p, info: fi.Pkg.TypesInfo, methods: methods}
		mn.block(fi.Decl.Body)
	}
}

type monitorNormalizer struct {
	p       *core.Program
	info    *types.Info
	methods map[*types.Func]*monitorMethod
}

// methodCall: call is X.m(args) with m a monitor method; returns the method and X.
func (mn *monitorNormalizer) methodCall(call *ast.CallExpr) (*monitorMethod, ast.Expr) {
	sel, ok := ast.Unparen(call.Fun).(*ast.SelectorExpr)
	if !ok {
		return nil, nil
	}
	fn, _ := mn.info.Uses[sel.Sel].(*types.Func)
	if fn == nil {
		return nil, nil
	}
	m := mn.methods[fn]
	if m == nil {
		return nil, nil
	}
	return m, sel.X
}

func (mn *monitorNormalizer) subst(m *monitorMethod, x ast.Expr, e ast.Expr, call *ast.CallExpr) ast.Expr {
	repl := map[types.Object]ast.Expr{m.recv: x}
	k := 0
	for _, f := range m.fi.Decl.Type.Params.List {
		for _, nm := range f.Names {
			if call != nil && k < len(call.Args) {
				if o := m.fi.Pkg.TypesInfo.Defs[nm]; o != nil {
					repl[o] = call.Args[k]
				}
			}
			k++
		}
	}
	ne, _ := paths.Subst(mn.info, e, repl).(ast.Expr)
	return ne
}

func (mn *monitorNormalizer) stmts(list []ast.Stmt) []ast.Stmt {
	var out []ast.Stmt
	for _, st := range list {
		switch v := st.(type) {
		case *ast.ExprStmt:
			if call, ok := ast.Unparen(v.X).(*ast.CallExpr); ok {
				if m, x := mn.methodCall(call); m != nil && m.kind == "fwd" {
					if ne := mn.subst(m, x, m.call, call); ne != nil {
						out = append(out, &ast.ExprStmt{X: ne})
						continue
					}
				}
			}
		case *ast.DeferStmt:
			// defer X.enter()()
			if inner, ok := ast.Unparen(v.Call.Fun).(*ast.CallExpr); ok && len(v.Call.Args) == 0 {
				if m, x := mn.methodCall(inner); m != nil && m.kind == "enter" {
					lock := mn.subst(m, x, m.call, inner)
					unlock := mn.subst(m, x, m.ret, inner)
					if lock != nil && unlock != nil {
						out = append(out, &ast.ExprStmt{X: lock}, &ast.DeferStmt{Defer: v.Defer, Call: &ast.CallExpr{Fun: unlock, Lparen: v.Call.Lparen, Rparen: v.Call.Rparen}})
						continue
					}
				}
			}
			// defer X.leave()
			if m, x := mn.methodCall(v.Call); m != nil && m.kind == "fwd" {
				if ne, ok := mn.subst(m, x, m.call, v.Call).(*ast.CallExpr); ok {
					out = append(out, &ast.DeferStmt{Defer: v.Defer, Call: ne})
					continue
				}
			}
		}
		mn.children(st)
		out = append(out, st)
	}
	return out
}

func (mn *monitorNormalizer) block(b *ast.BlockStmt) {
	if b != nil {
		b.List = mn.stmts(b.List)
	}
}

func (mn *monitorNormalizer) children(st ast.Stmt) {
	switch v := st.(type) {
	case *ast.BlockStmt:
		mn.block(v)
	case *ast.IfStmt:
		mn.block(v.Body)
		if v.Else != nil {
			mn.children(v.Else)
		}
	case *ast.ForStmt:
		mn.block(v.Body)
	case *ast.RangeStmt:
		mn.block(v.Body)
	case *ast.SwitchStmt:
		for _, c := range v.Body.List {
			if cc, ok := c.(*ast.CaseClause); ok {
				cc.Body = mn.stmts(cc.Body)
			}
		}
	case *ast.TypeSwitchStmt:
		for _, c := range v.Body.List {
			if cc, ok := c.(*ast.CaseClause); ok {
				cc.Body = mn.stmts(cc.Body)
			}
		}
	case *ast.SelectStmt:
		for _, c := range v.Body.List {
			if cc, ok := c.(*ast.CommClause); ok {
				cc.Body = mn.stmts(cc.Body)
			}
		}
	case *ast.LabeledStmt:
		mn.children(v.Stmt)
	}
}
