package props

import (
	"fmt"
	"go/ast"
	"go/constant"
	"go/token"
	"go/types"
	"sort"
	"strconv"
	"strings"

	"golibcheck/internal/core"
	"golibcheck/internal/paths"
	"golibcheck/internal/wire"
)

// C14 — HyperLogLog state depends only on the set offered; merge equals union.
// Estimate accuracy and set-only dependence are numeric/behavioural; what is decided are the
// structural necessary conditions: merges never write through their inputs and build the result on
// fresh storage, registers only ever take the larger value, register addressing agrees between all
// accessors, the register index is the top log2m bits and the rank is capped by the guard bit, and
// the serial form agrees.
func init() { register(&Checker{ID: "C14", Canaries: c14Canaries, Run: runC14}) }

func c14Canaries() []core.Canary {
	return []core.Canary{{RelDir: "util/hll", Name: "c14", Src: `package hll

// merges into storage shared with the receiver
func (this *HyperLogLog) zzCanaryMerge(other *HyperLogLog) *HyperLogLog {
	merged := NewHyperLogLog(this.log2m, NewRegisterSetInit(this.registerSet.Count, this.registerSet.Bits()))
	merged.AddAll(other)
	other.dirty = true
	return merged
}
`, Expect: []core.CanaryExpect{{Rule: "C14.merge-pure", Sub: "zzCanaryMerge"}}}, {RelDir: "util/hll", Name: "c14lock", Src: `package hll

import "sync"

type zzCanaryLocked struct {
	mu sync.Mutex
	m  []uint32
}

// takes both operands' locks: merging a value into itself never returns
func (this *zzCanaryLocked) zzMerge(other *zzCanaryLocked) {
	this.mu.Lock()
	defer this.mu.Unlock()
	other.mu.Lock()
	defer other.mu.Unlock()
	copy(this.m, other.m)
}
`, Expect: []core.CanaryExpect{{Rule: "C14.self-merge", Sub: "zzCanaryLocked).zzMerge"}}}}
}

func runC14(p *core.Program, r *core.Report) {
	r.Explanation = "Structural necessary conditions of the HyperLogLog laws (util/hll). Merge purity: RegisterSet.Merge, HyperLogLog.AddAll and HyperLogLog.Merge never store through their arguments, and HyperLogLog.Merge accumulates into a register set that is freshly allocated (not storage of the receiver or of an argument), so merging leaves its inputs untouched. Maximum: UpdateIfGreater stores exactly on the path where the current masked value is smaller than the new one and reports true exactly there; RegisterSet.Merge ORs in the larger of the two masked values on both outcomes of their comparison. Geometry: REGISTER_SIZE*LOG2_BITS_PER_WORD <= 32, the register mask is 2^REGISTER_SIZE-1 everywhere, Set/Get/UpdateIfGreater address a register as word position/LOG2_BITS_PER_WORD, bit REGISTER_SIZE*(position mod LOG2_BITS_PER_WORD) and Merge walks j < LOG2_BITS_PER_WORD with shift REGISTER_SIZE*j. Index/rank: the register index is hash >> (W - log2m) and the rank is clz of (hash << log2m) with the guard bit 1 << (log2m-1) or-ed in, in both offer variants. Serial: GetBytes ~ BuildHyperLogLog agree (wire grammar)."
	r.NotDecided = []string{"estimate accuracy", "that the state depends only on the set offered (follows from max + index but is not derived here)", "correctness of clz32/clz64 and of the murmur hashes"}
	r.Rule("C14.merge-pure", "merge operations do not write through their inputs; the merged result lives on fresh storage", 3)
	r.Rule("C14.max", "registers only take the larger value: store iff cur < new; merge selects the larger on both outcomes", 2)
	r.Rule("C14.geometry", "register width/mask/addressing agree across Set, Get, UpdateIfGreater and Merge", 5)
	r.Rule("C14.index", "index = top log2m bits of the hash; rank = clz((hash << log2m) | guard bit) + 1", 2)
	r.Rule("C14.offer-update", "every offered hash reaches the register update: no path of offerHashed/offerHashedLong returns without UpdateIfGreater(j, r) unless it compared r with the register read at j (whether a register changes is decided per register, by value)", 2)
	r.Rule("C14.serial", "GetBytes ~ BuildHyperLogLog agree on the layout", 1)
	r.Rule("C14.offer-pure", "what Offer does with an item depends on the item and the registers only: no offering method decides on a field of the counter that an offering method assigns, unless the test is guarded by a validity flag (a remembered 'last item' whose zero value passes for item 0 makes the result depend on the history of offers)", 1)
	c14OfferPure(p, r)
	r.Rule("C14.estimate-pure", "Cardinality() is a function of the registers: it (and the helpers it calls on the counter) assigns no field of the counter, so no estimate survives a later change of the registers", 1)
	c14EstimatePure(p, r)
	c14RegisterOnly(p, r)
	r.Rule("C14.self-merge", "merging a counter with itself comes back (idempotence in its in-place form): no method holds the non-re-entrant lock of its receiver while taking the same lock of another operand of its type without an identity test first", 0)
	selfLockRule(p, r, "C14.self-merge", []string{"util/hll"})
	r.Rule("C14.args", "no call passes two same-typed variables in each other's parameter position (precision and register count are both uint32)", 0)
	swappedArgsLint(p, r, "C14.args", []string{"util/hll"})
	r.Rule("C14.hash-width", "a hash is offered to the index/rank routine of its own width: no widened hash (uint64 of a 32-bit value) reaches a routine that addresses by the top bits", 1)
	c14HashWidth(p, r)
	r.Rule("C14.shifts", "no constant shift is as wide as its operand (the hash's high half is taken from the 64-bit value, not from a narrowed copy)", 1)
	shiftWidthLint(p, r, "C14.shifts", []string{"util/hll"})
	r.Rule("C14.small-range", "linear counting m*ln(m/V) is applied only with V > 0 empty registers: no path hands a helper a divisor it has not found non-zero (else the estimate is +Inf -> 2^63)", 1)
	c14SmallRange(p, r, "C14.small-range")
	r.Rule("C14.widen", "estimator arithmetic widens before it multiplies: no float64/int64 conversion of a product or shift computed in a 32-bit integer type (m*m wraps at log2m = 16)", 1)
	c14Widen(p, r)
	// the register count of a set is the caller's count in both constructors (the word array may be
	// longer than count/6 rounded: deriving the count from it adds phantom registers)
	for _, ctor := range []string{"NewRegisterSet", "NewRegisterSetInit"} {
		fi := p.Func("util/hll", ctor)
		if fi == nil || fi.Decl.Body == nil || fi.Decl.Type.Params.NumFields() == 0 {
			continue
		}
		info := fi.Pkg.TypesInfo
		cobj := info.Defs[fi.Decl.Type.Params.List[0].Names[0]]
		bad := ""
		seen := false
		ast.Inspect(fi.Decl.Body, func(n ast.Node) bool {
			if as, ok := n.(*ast.AssignStmt); ok && len(as.Lhs) == len(as.Rhs) {
				for i, l := range as.Lhs {
					if sel, ok := l.(*ast.SelectorExpr); ok && sel.Sel.Name == "Count" {
						seen = true
						id, isId := stripConvs(info, as.Rhs[i]).(*ast.Ident)
						if !isId || info.ObjectOf(id) != cobj {
							bad = "Count is set to `" + stripSpaces(types.ExprString(as.Rhs[i])) + "`, not to the count the caller asked for"
						}
					}
				}
			}
			return true
		})
		if seen {
			r.Check(bad == "", "C14.geometry", "util/hll."+ctor+" count", p.Pos(fi.Decl.Pos()), "Count = the requested register count", bad)
		}
	}
	c14Pure(p, r)
	c14Max(p, r)
	c14Geometry(p, r)
	c14Index(p, r)
	c14OfferUpdate(p, r)
	x := wire.NewExtractor(p)
	var pairs []codecPair
	if w, rd := p.Method("util/hll", "HyperLogLog", "GetBytes"), p.Func("util/hll", "BuildHyperLogLog"); w != nil && rd != nil {
		wo, _ := x.LocalRoots(w)
		_, ri := x.LocalRoots(rd)
		if len(wo) == 1 && len(ri) == 1 {
			pairs = append(pairs, codecPair{W: w, R: rd, WS: wo[0], RS: ri[0], Name: core.FuncName(w.Obj) + " ~ " + core.FuncName(rd.Obj)})
		}
	}
	if len(pairs) == 0 {
		r.Undec("C14.serial", "util/hll GetBytes~BuildHyperLogLog", "-", "pair not found")
	}
	runPairs(p, x, r, pairs, pairRules{"C14.serial", "", ""}, 3)
}

// allocatesFresh: does the expression denote freshly allocated register storage?
func allocatesFresh(p *core.Program, info *types.Info, e ast.Expr, depth int) (bool, string) {
	e = ast.Unparen(e)
	call, ok := e.(*ast.CallExpr)
	if !ok || depth > 3 {
		return false, "not a constructor call: " + types.ExprString(e)
	}
	name := stripSpaces(types.ExprString(call.Fun))
	switch name {
	case "make":
		return true, ""
	case "NewRegisterSet":
		return true, "" // NewRegisterSetInit(count, nil) -> make
	case "NewRegisterSetInit":
		if len(call.Args) == 2 {
			a := ast.Unparen(call.Args[1])
			if id, ok := a.(*ast.Ident); ok && id.Name == "nil" {
				return true, ""
			}
			if ok, _ := allocatesFresh(p, info, a, depth+1); ok {
				return true, ""
			}
			return false, "register storage `" + types.ExprString(a) + "` is shared, not freshly allocated"
		}
	case "NewHyperLogLog":
		if len(call.Args) == 2 {
			return allocatesFresh(p, info, call.Args[1], depth+1)
		}
	case "NewHyperLogLogInt", "NewHyperLogLogDefault":
		return true, ""
	}
	return false, "unknown constructor " + name
}

func c14Pure(p *core.Program, r *core.Report) {
	pk := p.Pkg("util/hll")
	if pk == nil {
		r.Undec("C14.merge-pure", "util/hll", "-", "package not found")
		return
	}
	for _, fi := range p.Funcs {
		if fi.Pkg != pk || fi.Decl.Body == nil || core.RecvNamed(fi.Obj) == nil {
			continue
		}
		name := fi.Obj.Name()
		if !(name == "Merge" || name == "AddAll" || strings.HasPrefix(name, "zzCanaryMerge")) {
			continue
		}
		info := fi.Pkg.TypesInfo
		params := map[types.Object]bool{}
		for _, f := range fi.Decl.Type.Params.List {
			for _, n := range f.Names {
				params[info.Defs[n]] = true
			}
		}
		// aliases of parameters (range variables over a variadic parameter, plain copies)
		for changed := true; changed; {
			changed = false
			ast.Inspect(fi.Decl.Body, func(n ast.Node) bool {
				switch v := n.(type) {
				case *ast.RangeStmt:
					if root := rootOf(v.X); root != nil && params[info.ObjectOf(root)] {
						if id, ok := v.Value.(*ast.Ident); ok && !params[info.ObjectOf(id)] {
							params[info.ObjectOf(id)] = true
							changed = true
						}
					}
				case *ast.AssignStmt:
					if len(v.Lhs) == 1 && len(v.Rhs) == 1 {
						if rid, ok := ast.Unparen(v.Rhs[0]).(*ast.Ident); ok && params[info.ObjectOf(rid)] {
							if id, ok := v.Lhs[0].(*ast.Ident); ok && !params[info.ObjectOf(id)] {
								params[info.ObjectOf(id)] = true
								changed = true
							}
						}
					}
				}
				return true
			})
		}
		var probs []string
		ast.Inspect(fi.Decl.Body, func(n ast.Node) bool {
			check := func(l ast.Expr, pos token.Pos) {
				if _, isIdent := ast.Unparen(l).(*ast.Ident); isIdent {
					return
				}
				if root := rootOf(l); root != nil && params[info.ObjectOf(root)] {
					probs = append(probs, "stores through its argument (`"+types.ExprString(l)+"` at "+p.Pos(pos)+"): merging modifies an input")
				}
			}
			switch v := n.(type) {
			case *ast.AssignStmt:
				for _, l := range v.Lhs {
					check(l, v.Pos())
				}
			case *ast.IncDecStmt:
				check(v.X, v.Pos())
			case *ast.CallExpr:
				// mutating calls on an argument: x.AddAll / x.Merge(RegisterSet) / Set / UpdateIfGreater
				if sel, ok := v.Fun.(*ast.SelectorExpr); ok {
					switch sel.Sel.Name {
					case "AddAll", "Set", "UpdateIfGreater", "Offer", "OfferLong":
						if root := rootOf(sel.X); root != nil && params[info.ObjectOf(root)] {
							probs = append(probs, "calls the mutating "+sel.Sel.Name+" on its argument at "+p.Pos(v.Pos()))
						}
					case "Merge":
						if root := rootOf(sel.X); root != nil && params[info.ObjectOf(root)] {
							if tv, ok := info.Types[sel.X]; ok && strings.HasSuffix(tv.Type.String(), "RegisterSet") {
								probs = append(probs, "merges INTO its argument's register set at "+p.Pos(v.Pos()))
							}
						}
					}
				}
			}
			return true
		})
		// the accumulator of HyperLogLog.Merge-like functions (the value AddAll is called on and that is returned)
		if n := core.RecvNamed(fi.Obj); n != nil && n.Obj().Name() == "HyperLogLog" && name != "AddAll" {
			var accDef ast.Expr
			accName := ""
			ast.Inspect(fi.Decl.Body, func(m ast.Node) bool {
				if call, ok := m.(*ast.CallExpr); ok {
					if sel, ok := call.Fun.(*ast.SelectorExpr); ok && sel.Sel.Name == "AddAll" {
						if id, ok := ast.Unparen(sel.X).(*ast.Ident); ok {
							accName = id.Name
						}
					}
				}
				return true
			})
			ast.Inspect(fi.Decl.Body, func(m ast.Node) bool {
				if as, ok := m.(*ast.AssignStmt); ok && len(as.Lhs) == 1 && len(as.Rhs) == 1 && types.ExprString(as.Lhs[0]) == accName && as.Tok == token.DEFINE {
					accDef = as.Rhs[0]
				}
				return true
			})
			if accDef == nil {
				probs = append(probs, "the merge accumulator is not a local built by a constructor")
			} else if ok, why := allocatesFresh(p, info, accDef, 0); !ok {
				probs = append(probs, "the merged result is accumulated in storage that is not freshly allocated ("+why+"): merging also changes the receiver/argument")
			}
		}
		fileProbs(r, "C14.merge-pure", core.FuncName(fi.Obj), p.Pos(fi.Decl.Pos()), probs, "no store through arguments; result on fresh storage")
	}
}

func c14Max(p *core.Program, r *core.Report) {
	fi := p.Method("util/hll", "RegisterSet", "UpdateIfGreater")
	if fi == nil || fi.Decl.Body == nil {
		r.Undec("C14.max", "util/hll.(*RegisterSet).UpdateIfGreater", "-", "not found")
	} else {
		rn := recvName(fi)
		info := fi.Pkg.TypesInfo
		norm := func(e ast.Expr) string { return stripSpaces(types.ExprString(e)) }
		// the two compared quantities, found by what they are computed from (not by name): the current
		// register value is read from the word array, the new one is derived from the value parameter
		curName, newName := "", ""
		var valueParam types.Object
		if fi.Decl.Type.Params.NumFields() >= 2 {
			var all []*ast.Ident
			for _, f := range fi.Decl.Type.Params.List {
				all = append(all, f.Names...)
			}
			valueParam = info.Defs[all[len(all)-1]]
		}
		ast.Inspect(fi.Decl.Body, func(n ast.Node) bool {
			as, ok := n.(*ast.AssignStmt)
			if !ok || len(as.Lhs) != 1 || len(as.Rhs) != 1 || as.Tok != token.DEFINE {
				return true
			}
			lid, ok := as.Lhs[0].(*ast.Ident)
			if !ok {
				return true
			}
			readsM, usesValue := false, false
			ast.Inspect(as.Rhs[0], func(m ast.Node) bool {
				if ix, ok := m.(*ast.IndexExpr); ok && strings.HasPrefix(norm(ix.X), rn+".M") {
					readsM = true
				}
				if id, ok := m.(*ast.Ident); ok && valueParam != nil && info.ObjectOf(id) == valueParam {
					usesValue = true
				}
				return true
			})
			if readsM && curName == "" {
				curName = lid.Name
			}
			if usesValue && !readsM && newName == "" {
				newName = lid.Name
			}
			return true
		})
		if newName == "" && valueParam != nil {
			newName = valueParam.Name() // the register value compared with the parameter as it is
		}
		ps, _ := paths.Enumerate(fi.Decl.Body, paths.Config{Info: info,
			Cond: func(c ast.Expr, v bool) *paths.Event {
				return &paths.Event{Kind: "COND", Arg: condKey(info, norm, c, v)}
			},
			Classify: func(n ast.Node) []paths.Event {
				var out []paths.Event
				switch v := n.(type) {
				case *ast.AssignStmt:
					if len(v.Lhs) == len(v.Rhs) {
						for i, l := range v.Lhs {
							if id, ok := l.(*ast.Ident); ok {
								if tv, ok := info.Types[v.Rhs[i]]; ok && tv.Value != nil && tv.Value.Kind() == constant.Bool {
									out = append(out, paths.Event{Kind: "FLAG", Arg: fmt.Sprintf("%s=%v", id.Name, constant.BoolVal(tv.Value))})
								}
							}
						}
					}
					if ix, ok := v.Lhs[0].(*ast.IndexExpr); ok && strings.HasPrefix(stripSpaces(types.ExprString(ix.X)), rn+".M") {
						// the register is replaced: word = (word with the register's bits cleared) | new value
						clears := false
						if v.Tok == token.ASSIGN && len(v.Rhs) == 1 {
							ast.Inspect(storedWord(info, fi.Decl.Body, ix, v.Rhs[0]), func(k ast.Node) bool {
								switch b := k.(type) {
								case *ast.BinaryExpr:
									if b.Op == token.AND_NOT {
										clears = true
									}
									if b.Op == token.AND {
										for _, side := range []ast.Expr{b.X, b.Y} {
											if u, ok := ast.Unparen(side).(*ast.UnaryExpr); ok && u.Op == token.XOR {
												clears = true
											}
										}
									}
								}
								return true
							})
						}
						arg := "replace"
						if !clears {
							arg = "merge"
						}
						out = append(out, paths.Event{Kind: "STORE", Arg: arg})
					}
				case *ast.ReturnStmt:
					if len(v.Results) == 1 {
						out = append(out, paths.Event{Kind: "RETVAL", Arg: types.ExprString(v.Results[0])})
					}
				}
				return out
			}})
		var probs []string
		for _, pa := range ps {
			if !pa.Consistent() {
				continue
			}
			// a returned boolean local stands for the constant it was last given on this path
			for i, e := range pa {
				if e.Kind == "RETVAL" {
					for k := i - 1; k >= 0; k-- {
						if pa[k].Kind == "FLAG" && strings.HasPrefix(pa[k].Arg, e.Arg+"=") {
							pa[i].Arg = strings.TrimPrefix(pa[k].Arg, e.Arg+"=")
							break
						}
					}
				}
			}
			less := curName != "" && newName != "" && pa.HasArg("COND", cc(curName, "<", newName, true))
			if pa.HasArg("STORE", "merge") {
				probs = append(probs, "the new value is or-ed into the word without clearing the register's old bits: the register becomes old|new, not the larger value")
			}
			if pa.Has("STORE") != less {
				probs = append(probs, "the register is written on a path where the new value is not larger (or not written where it is): "+pa.String())
			}
			if less != pa.HasArg("RETVAL", "true") {
				probs = append(probs, "the reported change does not match the store")
			}
		}
		if len(ps) < 2 || curName == "" || newName == "" {
			probs = append(probs, "no comparison of the current register value with the new value")
		}
		fileProbs(r, "C14.max", "util/hll.(*RegisterSet).UpdateIfGreater", p.Pos(fi.Decl.Pos()), probs, "store and true iff cur < new")
	}
	mf := p.Method("util/hll", "RegisterSet", "Merge")
	if mf == nil || mf.Decl.Body == nil {
		r.Undec("C14.max", "util/hll.(*RegisterSet).Merge", "-", "not found")
		return
	}
	// path rule: in every iteration over a word, each register position is visited, the larger of the
	// two masked values is OR-ed into the accumulator on both outcomes of their comparison, and the
	// accumulator is stored; no word is skipped on a whole-word test (a word can be numerically smaller
	// and still hold a larger register). Names are found by what the locals are computed from.
	minfo := mf.Pkg.TypesInfo
	mrn := recvName(mf)
	var thatObj types.Object
	if mf.Decl.Type.Params.NumFields() == 1 {
		thatObj = minfo.Defs[mf.Decl.Type.Params.List[0].Names[0]]
	}
	// locals derived from the receiver's words and from the argument's words (through index
	// expressions, range variables over M, and other derived locals); the compared pair is the one
	// this-derived and one that-derived local that meet in a comparison
	thisD, thatD := map[types.Object]bool{}, map[types.Object]bool{}
	mentions := func(e ast.Expr) (bool, bool) {
		t1, t2 := false, false
		ast.Inspect(e, func(m ast.Node) bool {
			switch v := m.(type) {
			case *ast.SelectorExpr:
				if v.Sel.Name == "M" {
					if id, ok := ast.Unparen(v.X).(*ast.Ident); ok {
						if id.Name == mrn {
							t1 = true
						} else if thatObj != nil && minfo.ObjectOf(id) == thatObj {
							t2 = true
						}
					}
				}
			case *ast.Ident:
				if o := minfo.ObjectOf(v); o != nil {
					if thisD[o] {
						t1 = true
					}
					if thatD[o] {
						t2 = true
					}
				}
			}
			return true
		})
		return t1, t2
	}
	for round := 0; round < 4; round++ {
		ast.Inspect(mf.Decl.Body, func(n ast.Node) bool {
			switch v := n.(type) {
			case *ast.AssignStmt:
				if v.Tok == token.DEFINE && len(v.Lhs) == len(v.Rhs) {
					for i, l := range v.Lhs {
						if lid, ok := l.(*ast.Ident); ok {
							a, b := mentions(v.Rhs[i])
							if a && !b {
								thisD[minfo.ObjectOf(lid)] = true
							}
							if b && !a {
								thatD[minfo.ObjectOf(lid)] = true
							}
						}
					}
				}
			case *ast.RangeStmt:
				if v.Value != nil {
					if vid, ok := v.Value.(*ast.Ident); ok {
						a, b := mentions(v.X)
						if a && !b {
							thisD[minfo.ObjectOf(vid)] = true
						}
						if b && !a {
							thatD[minfo.ObjectOf(vid)] = true
						}
					}
				}
			}
			return true
		})
	}
	thisVal, thatVal := "", ""
	ast.Inspect(mf.Decl.Body, func(n ast.Node) bool {
		be, ok := n.(*ast.BinaryExpr)
		if !ok {
			return true
		}
		switch be.Op {
		case token.LSS, token.LEQ, token.GTR, token.GEQ:
			x, ok1 := ast.Unparen(be.X).(*ast.Ident)
			y, ok2 := ast.Unparen(be.Y).(*ast.Ident)
			if ok1 && ok2 {
				xo, yo := minfo.ObjectOf(x), minfo.ObjectOf(y)
				switch {
				case thisD[xo] && thatD[yo]:
					thisVal, thatVal = x.Name, y.Name
				case thatD[xo] && thisD[yo]:
					thisVal, thatVal = y.Name, x.Name
				}
			}
		}
		return true
	})
	norm := func(e ast.Expr) string { return stripSpaces(types.ExprString(e)) }
	mps, _ := paths.Enumerate(mf.Decl.Body, paths.Config{Info: minfo,
		Cond: func(c ast.Expr, v bool) *paths.Event {
			return &paths.Event{Kind: "COND", Arg: condKey(minfo, norm, c, v)}
		},
		Classify: func(n ast.Node) []paths.Event {
			var out []paths.Event
			if as, ok := n.(*ast.AssignStmt); ok && len(as.Lhs) == 1 && len(as.Rhs) == 1 {
				if ix, ok := as.Lhs[0].(*ast.IndexExpr); ok && strings.HasPrefix(norm(ix.X), mrn+".M") {
					out = append(out, paths.Event{Kind: "STORE", Arg: norm(as.Rhs[0])})
				} else if lid, ok := as.Lhs[0].(*ast.Ident); ok {
					switch {
					case as.Tok == token.OR_ASSIGN:
						out = append(out, paths.Event{Kind: "ACC", Arg: lid.Name + "|=" + norm(as.Rhs[0])})
					case as.Tok == token.ASSIGN:
						if be, ok := ast.Unparen(as.Rhs[0]).(*ast.BinaryExpr); ok && be.Op == token.OR && norm(be.X) == lid.Name {
							out = append(out, paths.Event{Kind: "ACC", Arg: lid.Name + "|=" + norm(be.Y)})
						}
					}
				}
			}
			return out
		}})
	var mprobs []string
	if thisVal == "" || thatVal == "" {
		mprobs = append(mprobs, "the two masked register values (from this.M and from the argument's M) are not visible as locals")
	}
	sawBoth := map[bool]bool{}
	for _, pa := range mps {
		nLoop := pa.Count("LOOP")
		if nLoop == 0 {
			continue
		}
		// outer loop entered (its condition true) but the word is not stored: a skipped word
		// the outer loop body was entered iff more than its condition lies between LOOP and the last ENDLOOP
		first, last := pa.Index("LOOP"), pa.LastIndex("ENDLOOP")
		entered := first >= 0 && last-first > 2
		if entered && !pa.Has("STORE") {
			mprobs = append(mprobs, "a word of the argument is skipped without merging its registers (whole-word tests cannot tell which side holds the larger register): "+pa.String())
		}
		for _, e := range pa {
			if e.Kind != "ACC" {
				continue
			}
			lt := pa.HasArg("COND", cc(thisVal, "<", thatVal, true))
			ge := pa.HasArg("COND", cc(thisVal, "<", thatVal, false))
			switch {
			case lt && !strings.HasSuffix(e.Arg, "|="+thatVal):
				mprobs = append(mprobs, "this < that but the merged register takes "+e.Arg)
			case ge && !strings.HasSuffix(e.Arg, "|="+thisVal):
				mprobs = append(mprobs, "this >= that but the merged register takes "+e.Arg)
			case !lt && !ge:
				mprobs = append(mprobs, "a register is accumulated without comparing the two values")
			}
			if lt {
				sawBoth[true] = true
			}
			if ge {
				sawBoth[false] = true
			}
		}
	}
	if !sawBoth[true] || !sawBoth[false] {
		mprobs = append(mprobs, "the merged register is not the larger of the two values on both outcomes of their comparison")
	}
	fileProbs(r, "C14.max", "util/hll.(*RegisterSet).Merge", p.Pos(mf.Decl.Pos()), uniq(mprobs), "ORs in the larger of the two masked register values; every word merged")
}

// c14Widen: in the functions that compute the estimate (float64 results in util/hll), a conversion to a
// wider type must not be applied to a product/shift of non-constant 32-bit (or narrower) integers: the
// operation wraps before it is widened. m = 2^log2m reaches 2^16, so m*m wraps to 0 at the top precision.
func c14Widen(p *core.Program, r *core.Report) {
	pk := p.Pkg("util/hll")
	if pk == nil {
		r.Undec("C14.widen", "util/hll", "-", "package not found")
		return
	}
	n := 0
	for _, fi := range p.Funcs {
		if fi.Pkg != pk || fi.Decl.Body == nil || strings.Contains(strings.ToLower(fi.Obj.Name()), "murmur") || strings.Contains(fi.Obj.Name(), "zzCanary") {
			continue
		}
		sig := fi.Obj.Type().(*types.Signature)
		isEst := false
		for i := 0; i < sig.Results().Len(); i++ {
			if b, ok := sig.Results().At(i).Type().Underlying().(*types.Basic); ok && (b.Kind() == types.Float64 || (fi.Obj.Name() == "Cardinality")) {
				isEst = true
			}
		}
		if !isEst {
			continue
		}
		info := fi.Pkg.TypesInfo
		var probs []string
		ast.Inspect(fi.Decl.Body, func(m ast.Node) bool {
			call, ok := m.(*ast.CallExpr)
			if !ok || len(call.Args) != 1 {
				return true
			}
			tv, ok := info.Types[call.Fun]
			if !ok || !tv.IsType() {
				return true
			}
			tb, ok := tv.Type.Underlying().(*types.Basic)
			if !ok || !(tb.Kind() == types.Float64 || tb.Kind() == types.Int64 || tb.Kind() == types.Uint64) {
				return true
			}
			n++
			be, ok := ast.Unparen(call.Args[0]).(*ast.BinaryExpr)
			if ok && be.Op == token.QUO && tb.Kind() == types.Float64 {
				// a reciprocal taken in integers (1 / (1 << v)) is 0 for every v > 0: the fraction is
				// gone before the conversion sees it
				if atv, ok := info.Types[be]; ok && atv.Value == nil {
					if ab, ok := atv.Type.Underlying().(*types.Basic); ok && ab.Info()&types.IsInteger != 0 {
						probs = append(probs, fmt.Sprintf("%s is an integer division converted to float afterwards: the fractional part is already lost", stripSpaces(types.ExprString(be))))
					}
				}
				return true
			}
			if !ok || (be.Op != token.MUL && be.Op != token.SHL) {
				return true
			}
			if atv, ok := info.Types[be]; ok && atv.Value == nil {
				if ab, ok := atv.Type.Underlying().(*types.Basic); ok && ab.Info()&types.IsInteger != 0 && typeBits(atv.Type) <= 32 {
					_, lc := constIntOf(info, be.X)
					_, rc := constIntOf(info, be.Y)
					if !lc && !(be.Op == token.SHL && rc) && !(be.Op == token.MUL && rc) {
						probs = append(probs, fmt.Sprintf("%s is computed in %s and widened afterwards: it wraps before the conversion", stripSpaces(types.ExprString(be)), atv.Type))
					}
				}
			}
			return true
		})
		if len(probs) > 0 {
			r.Viol("C14.widen", core.FuncName(fi.Obj), p.Pos(fi.Decl.Pos()), strings.Join(uniq(probs), "; "))
		} else {
			r.OK("C14.widen", core.FuncName(fi.Obj), p.Pos(fi.Decl.Pos()), "no widening of a narrow product")
		}
	}
	if n == 0 {
		r.Undec("C14.widen", "util/hll estimator functions", "-", "no widening conversions found in the estimator")
	}
}

func c14Geometry(p *core.Program, r *core.Report) {
	pk := p.Pkg("util/hll")
	if pk == nil {
		return
	}
	cv := func(n string) int64 {
		if c, ok := pk.Types.Scope().Lookup(n).(*types.Const); ok {
			var v int64
			fmt.Sscanf(c.Val().ExactString(), "%d", &v)
			return v
		}
		return -1
	}
	rs, lw := cv("REGISTER_SIZE"), cv("LOG2_BITS_PER_WORD")
	r.Check(rs > 0 && lw > 0 && rs*lw <= 32, "C14.geometry", "util/hll register packing", "-", fmt.Sprintf("%d registers of %d bits per 32-bit word", lw, rs), fmt.Sprintf("%d registers of %d bits do not fit a 32-bit word", lw, rs))
	wantMask := int64(1)<<uint(rs) - 1
	for _, name := range []string{"Set", "Get", "UpdateIfGreater", "Merge"} {
		fi := p.Method("util/hll", "RegisterSet", name)
		c := "util/hll.(*RegisterSet)." + name
		if fi == nil || fi.Decl.Body == nil {
			r.Undec("C14.geometry", c, "-", "not found")
			continue
		}
		info := fi.Pkg.TypesInfo
		rn := recvName(fi)
		var probs []string
		// the register position parameter (first parameter) written as P = L*Q + R, 0 <= R < L; every
		// integer expression over it is brought to a linear form over {Q, R, other variables}, so that
		// position-(position/L)*L, position%L and locals holding either are the same thing
		var posObj types.Object
		if name != "Merge" && fi.Decl.Type.Params.NumFields() >= 1 {
			posObj = info.Defs[fi.Decl.Type.Params.List[0].Names[0]]
		}
		lf := &linForm{info: info, body: fi.Decl.Body, pos: posObj, L: lw}
		masks, idx, shifts := 0, 0, 0
		// the method's own body and, for every helper of the package it calls, what that helper
		// returns with the arguments in place (slotMask(shift) reads as 0x1f << shift)
		roots := []ast.Node{fi.Decl.Body}
		ast.Inspect(fi.Decl.Body, func(n ast.Node) bool {
			if call, ok := n.(*ast.CallExpr); ok {
				for _, re := range helperResults(p, info, call) {
					roots = append(roots, re)
				}
			}
			return true
		})
		for _, root := range roots {
			ast.Inspect(root, func(n ast.Node) bool {
				switch v := n.(type) {
				case *ast.IndexExpr:
					if strings.HasPrefix(stripSpaces(types.ExprString(v.X)), rn+".M") && name != "Merge" {
						idx++
						if f, ok := lf.eval(v.Index, 0); !ok || !f.is(map[string]int64{"Q": 1}) {
							probs = append(probs, "word index "+stripSpaces(types.ExprString(v.Index))+" is not position/LOG2_BITS_PER_WORD")
						}
					}
				case *ast.BinaryExpr:
					if v.Op == token.SHL || v.Op == token.SHR {
						if _, isC := constIntOf(info, v.Y); !isC {
							shifts++
							f, ok := lf.eval(v.Y, 0)
							want := map[string]int64{"R": rs}
							if name == "Merge" {
								want = nil
							}
							switch {
							case !ok:
								probs = append(probs, "shift amount "+stripSpaces(types.ExprString(v.Y))+" is not a linear expression of the register position")
							case name != "Merge" && !f.is(want):
								probs = append(probs, "bit offset "+stripSpaces(types.ExprString(v.Y))+" is not REGISTER_SIZE*(position mod LOG2_BITS_PER_WORD)")
							case name == "Merge" && !f.singleVarTimes(rs) && !f.singleVarTimes(1):
								probs = append(probs, "merge does not shift by REGISTER_SIZE*j")
							}
						}
						if v.Op == token.SHL {
							x := stripConvs(info, v.X)
							if mv, ok := constIntOf(info, x); ok && mv > 1 {
								masks++
								if mv != wantMask {
									probs = append(probs, fmt.Sprintf("register mask %#x, want %#x", mv, wantMask))
								}
							}
						}
					}
					if v.Op == token.AND {
						for _, side := range []ast.Expr{v.X, v.Y} {
							if mv, ok := constIntOf(info, stripConvs(info, side)); ok && mv > 1 {
								masks++
								if mv != wantMask {
									probs = append(probs, fmt.Sprintf("register mask %#x, want %#x", mv, wantMask))
								}
							}
						}
					}
					if v.Op == token.AND || v.Op == token.AND_NOT {
						// the mask taken from a table of in-place register masks (slotMask[slot], or the
						// range variable of a loop over that table): entry k is wantMask << (REGISTER_SIZE*k)
						for _, side := range []ast.Expr{v.X, v.Y} {
							side = stripConvs(info, side)
							var tbl ast.Expr
							var index ast.Expr
							switch sv := side.(type) {
							case *ast.IndexExpr:
								tbl, index = sv.X, sv.Index
							case *ast.Ident:
								if rx := rangeSourceOf(info, fi.Decl.Body, sv); rx != nil {
									tbl = rx
								}
							}
							if tbl == nil {
								continue
							}
							vals, ok := stableTable(info, tbl)
							if !ok || int64(len(vals)) != lw {
								continue
							}
							good := true
							for k, x := range vals {
								if x != wantMask<<uint(rs*int64(k)) {
									good = false
								}
							}
							masks++
							shifts++
							if !good {
								probs = append(probs, fmt.Sprintf("the mask table `%s` is not %#x shifted to each of the %d register slots", stripSpaces(types.ExprString(tbl)), wantMask, lw))
							}
							if index != nil {
								if f, ok := lf.eval(index, 0); !ok || !f.is(map[string]int64{"R": 1}) {
									probs = append(probs, "mask table index "+stripSpaces(types.ExprString(index))+" is not position mod LOG2_BITS_PER_WORD")
								}
							}
						}
					}
				}
				return true
			})
		}
		if masks == 0 {
			probs = append(probs, "no register mask found")
		}
		if shifts == 0 {
			probs = append(probs, "no register bit offset found")
		}
		if name != "Merge" && idx == 0 {
			probs = append(probs, "the word array is not indexed")
		}
		if name == "Merge" {
			// the inner loop visits the shifts 0, R, 2R, ..., (L-1)R: either `j < L` with shift R*j, or a
			// loop over the shift itself from 0 below R*L in steps of R
			okLoop := false
			ast.Inspect(fi.Decl.Body, func(n ast.Node) bool {
				loop, ok := n.(*ast.ForStmt)
				if !ok || loop.Cond == nil || loop.Init == nil || loop.Post == nil {
					return true
				}
				be, ok := loop.Cond.(*ast.BinaryExpr)
				init, ok2 := loop.Init.(*ast.AssignStmt)
				if !ok || !ok2 || be.Op != token.LSS || len(init.Rhs) != 1 {
					return true
				}
				bv, okb := constIntOf(info, be.Y)
				iv0, ok0 := constIntOf(info, stripConvs(info, init.Rhs[0]))
				if !okb || !ok0 || iv0 != 0 {
					return true
				}
				step := int64(0)
				switch post := loop.Post.(type) {
				case *ast.IncDecStmt:
					if post.Tok == token.INC {
						step = 1
					}
				case *ast.AssignStmt:
					if post.Tok == token.ADD_ASSIGN && len(post.Rhs) == 1 {
						step, _ = constIntOf(info, post.Rhs[0])
					}
				}
				switch {
				case step == 1 && bv == lw:
					okLoop = true // j < L ; the shift amount is checked as R*j below
				case step == rs && bv == rs*lw:
					okLoop = true // the loop variable is the shift itself
				}
				return true
			})
			ast.Inspect(fi.Decl.Body, func(n ast.Node) bool {
				if rg, ok := n.(*ast.RangeStmt); ok {
					if vals, ok := stableTable(info, rg.X); ok && int64(len(vals)) == lw {
						okLoop = true // one iteration per entry of the register mask table (entries judged above)
					}
				}
				return true
			})
			if !okLoop {
				probs = append(probs, "merge does not visit exactly LOG2_BITS_PER_WORD registers per word")
			}
		}
		fileProbs(r, "C14.geometry", c, p.Pos(fi.Decl.Pos()), uniq(probs), "mask and addressing agree with the siblings")
	}
}

// linForm evaluates integer expressions to linear forms sum(coef*sym) + const over the symbols Q and R
// (the position parameter is L*Q + R with 0 <= R < L) and other variables by name. Locals with a
// single definition are substituted; conversions are transparent.
type linForm struct {
	info *types.Info
	body *ast.BlockStmt
	pos  types.Object
	L    int64
}

type lform map[string]int64 // "" = constant term

func (f lform) clean() lform {
	for k, v := range f {
		if v == 0 {
			delete(f, k)
		}
	}
	return f
}

func (f lform) is(want map[string]int64) bool {
	f.clean()
	if len(f) != len(want) {
		return false
	}
	for k, v := range want {
		if f[k] != v {
			return false
		}
	}
	return true
}

// singleVarTimes: the form is k * <one loop variable> (no constant, no position)
func (f lform) singleVarTimes(k int64) bool {
	f.clean()
	if len(f) != 1 {
		return false
	}
	for s, v := range f {
		if s == "" || s == "Q" || s == "R" || v != k {
			return false
		}
	}
	return true
}

func (l *linForm) singleDef(obj types.Object) ast.Expr {
	var def ast.Expr
	n := 0
	ast.Inspect(l.body, func(m ast.Node) bool {
		switch v := m.(type) {
		case *ast.AssignStmt:
			if len(v.Lhs) == len(v.Rhs) {
				for i, lh := range v.Lhs {
					if id, ok := lh.(*ast.Ident); ok && l.info.ObjectOf(id) == obj {
						def = v.Rhs[i]
						n++
					}
				}
			} else if len(v.Rhs) == 1 {
				// bucket, shift := slotOf(position): what the helper computes for that result
				for i, lh := range v.Lhs {
					if id, ok := lh.(*ast.Ident); ok && l.info.ObjectOf(id) == obj {
						n++
						if call, ok := ast.Unparen(v.Rhs[0]).(*ast.CallExpr); ok {
							if rs := helperResults(curProg, l.info, call); i < len(rs) {
								def = rs[i]
							}
						}
					}
				}
			}
		case *ast.IncDecStmt:
			if id, ok := v.X.(*ast.Ident); ok && l.info.ObjectOf(id) == obj {
				n += 2
			}
		}
		return true
	})
	if n == 1 {
		return def
	}
	return nil
}

func (l *linForm) eval(e ast.Expr, depth int) (lform, bool) {
	if depth > 8 {
		return nil, false
	}
	e = stripConvs(l.info, e)
	if v, ok := constIntOf(l.info, e); ok {
		return lform{"": v}, true
	}
	switch v := e.(type) {
	case *ast.IndexExpr:
		// a look-up in a constant table whose entries are a + b*k (slotShift[slot]) is a + b*index
		if vals, ok := stableTable(l.info, v.X); ok && len(vals) >= 2 {
			a, b := vals[0], vals[1]-vals[0]
			prog := true
			for k, x := range vals {
				if x != a+b*int64(k) {
					prog = false
				}
			}
			if f, ok := l.eval(v.Index, depth+1); ok && prog {
				// the index must stay inside the table: a register slot R (0 <= R < L <= len) or a constant
				inside := false
				if c, isC := f.constant(); isC {
					inside = c >= 0 && c < int64(len(vals))
				} else if f.is(map[string]int64{"R": 1}) {
					inside = l.L <= int64(len(vals))
				} else if f.singleVarTimes(1) {
					inside = true // a loop variable: its range is the loop rule's business
				}
				if inside {
					return f.scale(b).plus(lform{"": a}, 1), true
				}
			}
		}
	case *ast.CallExpr:
		if rs := helperResults(curProg, l.info, v); len(rs) == 1 {
			return l.eval(rs[0], depth+1)
		}
	case *ast.Ident:
		obj := l.info.ObjectOf(v)
		if obj != nil && obj == l.pos {
			return lform{"Q": l.L, "R": 1}, true
		}
		if obj != nil {
			if d := l.singleDef(obj); d != nil {
				return l.eval(d, depth+1)
			}
		}
		return lform{v.Name: 1}, true
	case *ast.BinaryExpr:
		a, ok1 := l.eval(v.X, depth+1)
		b, ok2 := l.eval(v.Y, depth+1)
		if !ok1 || !ok2 {
			return nil, false
		}
		konst := func(f lform) (int64, bool) {
			f.clean()
			if len(f) == 0 {
				return 0, true
			}
			if len(f) == 1 {
				if c, ok := f[""]; ok {
					return c, true
				}
			}
			return 0, false
		}
		switch v.Op {
		case token.ADD, token.SUB:
			out := lform{}
			for k, x := range a {
				out[k] += x
			}
			for k, x := range b {
				if v.Op == token.ADD {
					out[k] += x
				} else {
					out[k] -= x
				}
			}
			return out.clean(), true
		case token.MUL:
			if c, ok := konst(a); ok {
				a, b = b, a
				_ = c
			}
			c, ok := konst(b)
			if !ok {
				return nil, false
			}
			out := lform{}
			for k, x := range a {
				out[k] = x * c
			}
			return out.clean(), true
		case token.QUO, token.REM:
			c, ok := konst(b)
			if !ok || c <= 0 {
				return nil, false
			}
			// split a = c*X + rest, where rest is known to lie in [0, c): only R with 0 <= coef*R < c
			quot, rest := lform{}, lform{}
			for k, x := range a {
				if x%c == 0 {
					quot[k] = x / c
				} else {
					rest[k] = x
				}
			}
			rest.clean()
			inRange := len(rest) == 0 || (len(rest) == 1 && rest["R"] > 0 && rest["R"]*(l.L-1) < c)
			if !inRange {
				return nil, false
			}
			if v.Op == token.QUO {
				return quot.clean(), true
			}
			return rest, true
		}
	}
	return nil, false
}

func c14Index(p *core.Program, r *core.Report) {
	for name, w := range map[string]int64{"offerHashed": 32, "offerHashedLong": 64} {
		fi := p.Method("util/hll", "HyperLogLog", name)
		c := "util/hll.(*HyperLogLog)." + name
		if fi == nil || fi.Decl.Body == nil || fi.Decl.Type.Params.NumFields() != 1 {
			r.Undec("C14.index", c, "-", "not found")
			continue
		}
		info := fi.Pkg.TypesInfo
		hobj := info.Defs[fi.Decl.Type.Params.List[0].Names[0]]
		isHash := func(e ast.Expr) bool {
			id, ok := stripConvs(info, e).(*ast.Ident)
			return ok && info.ObjectOf(id) == hobj
		}
		isLog2m := func(e ast.Expr) bool {
			e = stripConvs(info, e)
			if sel, ok := e.(*ast.SelectorExpr); ok {
				return sel.Sel.Name == "log2m"
			}
			if id, ok := e.(*ast.Ident); ok {
				// a local holding the field
				var def ast.Expr
				ast.Inspect(fi.Decl.Body, func(n ast.Node) bool {
					if as, ok := n.(*ast.AssignStmt); ok && len(as.Lhs) == 1 && len(as.Rhs) == 1 {
						if lid, ok := as.Lhs[0].(*ast.Ident); ok && info.ObjectOf(lid) == info.ObjectOf(id) {
							def = as.Rhs[0]
						}
					}
					return true
				})
				if sel, ok := stripConvs(info, def).(*ast.SelectorExpr); ok && def != nil {
					return sel.Sel.Name == "log2m"
				}
			}
			return false
		}
		var probs []string
		// index: hash >> (W - log2m), W the width of the hash
		idxOK := false
		rankOK := false
		// the method's body and the bodies of the package helpers it calls with the arguments in place
		// (indexAndRank(uint64(h), 32, this.log2m) reads as written here for a 32-bit hash)
		bodies := []*ast.BlockStmt{fi.Decl.Body}
		ast.Inspect(fi.Decl.Body, func(n ast.Node) bool {
			call, ok := n.(*ast.CallExpr)
			if !ok {
				return true
			}
			fn := calleeFunc(info, call)
			if fn == nil || fn.Pkg() != fi.Obj.Pkg() {
				return true
			}
			hf := p.FuncOf(fn)
			if hf == nil || hf.Decl.Body == nil || hf.Decl.Recv != nil || hf == fi {
				return true
			}
			repl := map[types.Object]ast.Expr{}
			k := 0
			for _, f := range hf.Decl.Type.Params.List {
				for _, nm := range f.Names {
					if k < len(call.Args) {
						repl[hf.Pkg.TypesInfo.Defs[nm]] = call.Args[k]
					}
					k++
				}
			}
			if b, ok := paths.Subst(info, hf.Decl.Body, repl).(*ast.BlockStmt); ok {
				bodies = append(bodies, b)
			}
			return true
		})
		for _, body := range bodies {
		body := body
		ast.Inspect(body, func(n ast.Node) bool {
			switch v := n.(type) {
			case *ast.BinaryExpr:
				if v.Op == token.SHR && isHash(v.X) {
					if sub, ok := stripConvs(info, v.Y).(*ast.BinaryExpr); ok && sub.Op == token.SUB && isLog2m(sub.Y) {
						if k, ok := constIntOf(info, sub.X); ok && k == w {
							idxOK = true
						} else if ok {
							probs = append(probs, fmt.Sprintf("the register index shifts by %d - log2m, but the hash has %d bits", k, w))
						}
					}
				}
			case *ast.CallExpr:
				fn := strings.ToLower(stripSpaces(types.ExprString(v.Fun)))
				if !(strings.Contains(fn, "clz") || strings.Contains(fn, "leadingzeros")) || len(v.Args) != 1 {
					return true
				}
				// argument contains (hash << log2m) and the guard bit 1 << (log2m - 1), or-ed
				hasShift, hasGuard, hasOr := false, false, false
				ast.Inspect(expandLocals(info, body, v.Args[0]), func(m ast.Node) bool {
					be, ok := m.(*ast.BinaryExpr)
					if !ok {
						return true
					}
					switch be.Op {
					case token.OR:
						hasOr = true
					case token.SHL:
						if isHash(be.X) && isLog2m(be.Y) {
							hasShift = true
						}
						if k, ok := constIntOf(info, stripConvs(info, be.X)); ok && k == 1 {
							if sub, ok := stripConvs(info, be.Y).(*ast.BinaryExpr); ok && sub.Op == token.SUB && isLog2m(sub.X) {
								if one, ok := constIntOf(info, sub.Y); ok && one == 1 {
									hasGuard = true
								}
							}
						}
					}
					return true
				})
				if hasShift && hasGuard && hasOr {
					rankOK = true
				}
			}
			return true
		})
		}
		if !idxOK {
			probs = append(probs, fmt.Sprintf("the register index is not the top log2m bits of the hash (hash >> (%d - log2m))", w))
		}
		if !rankOK {
			probs = append(probs, "the rank is not clz((hash << log2m) | 1 << (log2m-1) ...): without the guard bit a hash whose remaining bits are all zero gets a rank that overflows the 5-bit register")
		}
		fileProbs(r, "C14.index", c, p.Pos(fi.Decl.Pos()), uniq(probs), "top-bits index; guarded rank")
	}
}

// c14EstimatePure: Cardinality is a function of the registers. It either writes no field of the
// counter at all, or what it stores is a cache guarded by boolean fields that EVERY method changing the
// registers sets again (merging is the path that is easily forgotten).
func c14EstimatePure(p *core.Program, r *core.Report) {
	fi := p.Method("util/hll", "HyperLogLog", "Cardinality")
	if fi == nil || fi.Decl.Body == nil {
		r.Undec("C14.estimate-pure", "util/hll.(*HyperLogLog).Cardinality", "-", "not found")
		return
	}
	t := core.RecvNamed(fi.Obj)
	var writes []string
	guards := map[string]bool{} // boolean fields of the counter tested while estimating
	seen := map[*core.FuncInfo]bool{}
	var visit func(f *core.FuncInfo, depth int)
	visit = func(f *core.FuncInfo, depth int) {
		if seen[f] || depth > 3 || f.Decl.Body == nil {
			return
		}
		seen[f] = true
		info := f.Pkg.TypesInfo
		rn := recvName(f)
		ast.Inspect(f.Decl.Body, func(n ast.Node) bool {
			switch v := n.(type) {
			case *ast.AssignStmt:
				for _, l := range v.Lhs {
					if root := rootOf(l); root != nil && root.Name == rn {
						if _, isId := ast.Unparen(l).(*ast.Ident); !isId {
							writes = append(writes, fmt.Sprintf("%s assigns %s at %s", f.Obj.Name(), types.ExprString(l), p.Pos(v.Pos())))
						}
					}
				}
			case *ast.IfStmt:
				ast.Inspect(v.Cond, func(k ast.Node) bool {
					if sel, ok := k.(*ast.SelectorExpr); ok {
						if id, ok := ast.Unparen(sel.X).(*ast.Ident); ok && id.Name == rn {
							if tt := info.TypeOf(sel); tt != nil && isBoolType(tt) {
								guards[sel.Sel.Name] = true
							}
						}
					}
					return true
				})
			case *ast.CallExpr:
				if sel, ok := v.Fun.(*ast.SelectorExpr); ok {
					if id, ok := ast.Unparen(sel.X).(*ast.Ident); ok && id.Name == rn {
						if fn, _ := info.Uses[sel.Sel].(*types.Func); fn != nil {
							if cf := p.FuncOf(fn); cf != nil {
								visit(cf, depth+1)
							}
						}
					}
				}
			}
			return true
		})
	}
	visit(fi, 0)
	c := "util/hll.(*HyperLogLog).Cardinality"
	pos := p.Pos(fi.Decl.Pos())
	if len(writes) == 0 {
		r.OK("C14.estimate-pure", c, pos, "no field of the counter is written while estimating")
		return
	}
	if len(guards) == 0 {
		r.Viol("C14.estimate-pure", c, pos, strings.Join(uniq(writes), "; ")+": the estimate is stored in the counter and nothing tells a later call that the registers changed")
		return
	}
	// every method that changes the registers must set a guard again
	var probs []string
	for _, m := range p.MethodsOf(t) {
		if m.Decl.Body == nil || seen[m] {
			continue
		}
		info := m.Pkg.TypesInfo
		rn := recvName(m)
		mutates, sets := false, false
		var walk func(f *core.FuncInfo, depth int)
		walked := map[*core.FuncInfo]bool{}
		walk = func(f *core.FuncInfo, depth int) {
			if walked[f] || depth > 2 || f.Decl.Body == nil {
				return
			}
			walked[f] = true
			finfo := f.Pkg.TypesInfo
			frn := recvName(f)
			ast.Inspect(f.Decl.Body, func(n ast.Node) bool {
				switch v := n.(type) {
				case *ast.AssignStmt:
					for i, l := range v.Lhs {
						ls := strings.TrimPrefix(stripSpaces(types.ExprString(l)), frn+".")
						if guards[ls] && i < len(v.Rhs) {
							if tv, ok := finfo.Types[v.Rhs[i]]; ok && tv.Value != nil && tv.Value.String() == "true" {
								sets = true
							}
						}
						if ls == "registerSet" || strings.HasPrefix(ls, "registerSet.") {
							mutates = true
						}
					}
				case *ast.CallExpr:
					sel, ok := v.Fun.(*ast.SelectorExpr)
					if !ok {
						return true
					}
					xs := stripSpaces(types.ExprString(sel.X))
					if xs == frn+".registerSet" {
						// a RegisterSet method that writes its words
						if fn, _ := finfo.Uses[sel.Sel].(*types.Func); fn != nil {
							if cf := p.FuncOf(fn); cf != nil && cf.Decl.Body != nil {
								crn := recvName(cf)
								ast.Inspect(cf.Decl.Body, func(k ast.Node) bool {
									if as, ok := k.(*ast.AssignStmt); ok {
										for _, l := range as.Lhs {
											if root := rootOf(l); root != nil && root.Name == crn {
												if _, isId := ast.Unparen(l).(*ast.Ident); !isId {
													mutates = true
												}
											}
										}
									}
									return true
								})
							}
						}
					}
					if id, ok := ast.Unparen(sel.X).(*ast.Ident); ok && id.Name == frn {
						if fn, _ := finfo.Uses[sel.Sel].(*types.Func); fn != nil {
							if cf := p.FuncOf(fn); cf != nil && !seen[cf] {
								walk(cf, depth+1)
							}
						}
					}
				}
				return true
			})
		}
		_ = info
		_ = rn
		walk(m, 0)
		if mutates && !sets {
			probs = append(probs, fmt.Sprintf("%s changes the registers without setting the guard of the cached estimate again: the next Cardinality() returns the estimate of the old registers", m.Obj.Name()))
		}
	}
	fileProbs(r, "C14.estimate-pure", c, pos, uniq(probs), "the stored estimate is invalidated by every method that changes the registers")
}

// c14HashWidth: the register index is the TOP log2m bits of the hash. A 32-bit hash converted to
// uint64 has its top 32 bits clear, so the 64-bit routine would put every item into register 0.
// Every call in util/hll of a function whose parameter is shifted right by (W - something) — a
// top-bits extraction — must pass a value that was not widened by a conversion.
func c14HashWidth(p *core.Program, r *core.Report) {
	pk := p.Pkg("util/hll")
	if pk == nil {
		return
	}
	// functions extracting top bits of a parameter: p >> (K - x)
	topBits := map[*types.Func]int{} // -> parameter index
	widthParam := map[*types.Func]int{} // -> index of the parameter that is the hash width K (when K is not a constant)
	for _, fi := range p.Funcs {
		if fi.Pkg != pk || fi.Decl.Body == nil || fi.Decl.Type.Params == nil {
			continue
		}
		info := fi.Pkg.TypesInfo
		ast.Inspect(fi.Decl.Body, func(n ast.Node) bool {
			be, ok := n.(*ast.BinaryExpr)
			if !ok || be.Op != token.SHR {
				return true
			}
			sub, ok := ast.Unparen(be.Y).(*ast.BinaryExpr)
			if !ok || sub.Op != token.SUB {
				return true
			}
			wp := -1
			if _, isConst := constIntOf(info, sub.X); !isConst {
				// the width handed in as a parameter (one routine for 32- and 64-bit hashes)
				wid, ok := ast.Unparen(stripConvs(info, sub.X)).(*ast.Ident)
				if !ok {
					return true
				}
				if wp = paramIndex(fi, info.ObjectOf(wid)); wp < 0 {
					return true
				}
			}
			id, ok := ast.Unparen(stripConvs(info, be.X)).(*ast.Ident)
			if !ok {
				return true
			}
			if pi := paramIndex(fi, info.ObjectOf(id)); pi >= 0 {
				topBits[fi.Obj] = pi
				if wp >= 0 {
					widthParam[fi.Obj] = wp
				}
			}
			return true
		})
	}
	n := 0
	for _, fi := range p.Funcs {
		if fi.Pkg != pk || fi.Decl.Body == nil {
			continue
		}
		info := fi.Pkg.TypesInfo
		var probs []string
		calls := 0
		ast.Inspect(fi.Decl.Body, func(m ast.Node) bool {
			call, ok := m.(*ast.CallExpr)
			if !ok {
				return true
			}
			fn := calleeFunc(info, call)
			pi, isTop := topBits[fn]
			if fn == nil || !isTop || pi >= len(call.Args) {
				return true
			}
			calls++
			arg := ast.Unparen(call.Args[pi])
			if wpi, hasW := widthParam[fn]; hasW {
				// the routine is told the width: it must be the width the hash had before any widening
				sizes := types.SizesFor("gc", "amd64")
				src := arg
				if conv, ok := arg.(*ast.CallExpr); ok && len(conv.Args) == 1 {
					if tv, ok := info.Types[conv.Fun]; ok && tv.IsType() {
						src = conv.Args[0]
					}
				}
				wv, isC := int64(0), false
				if wpi < len(call.Args) {
					wv, isC = constIntOf(info, call.Args[wpi])
				}
				st := info.TypeOf(src)
				switch {
				case !isC:
					probs = append(probs, fmt.Sprintf("%s: the hash width handed to %s is not a constant", p.Pos(call.Pos()), fn.Name()))
				case st == nil || 8*sizes.Sizeof(st) != wv:
					probs = append(probs, fmt.Sprintf("%s: %s is told the hash has %d bits but `%s` is a %d-bit value: it addresses registers by bits the hash does not have", p.Pos(call.Pos()), fn.Name(), wv, types.ExprString(src), 8*sizes.Sizeof(st)))
				}
				return true
			}
			if conv, ok := arg.(*ast.CallExpr); ok && len(conv.Args) == 1 {
				if tv, ok := info.Types[conv.Fun]; ok && tv.IsType() {
					from, to := info.TypeOf(conv.Args[0]), tv.Type
					fb, ok1 := from.Underlying().(*types.Basic)
					tb, ok2 := to.Underlying().(*types.Basic)
					if ok1 && ok2 && fb.Info()&types.IsInteger != 0 && tb.Info()&types.IsInteger != 0 {
						sizes := types.SizesFor("gc", "amd64")
						if sizes.Sizeof(from) < sizes.Sizeof(to) {
							if _, isConst := constIntOf(info, conv.Args[0]); !isConst {
								probs = append(probs, fmt.Sprintf("%s: %s addresses registers by the top bits of its %d-bit argument, and is given `%s`, a %d-bit value widened by conversion: its top bits are always zero, every item lands in register 0", p.Pos(call.Pos()), fn.Name(), 8*sizes.Sizeof(to), types.ExprString(arg), 8*sizes.Sizeof(from)))
							}
						}
					}
				}
			}
			return true
		})
		if calls > 0 {
			n++
			fileProbs(r, "C14.hash-width", core.FuncName(fi.Obj), p.Pos(fi.Decl.Pos()), probs, "hashes reach the top-bits routine at their own width")
		}
	}
	if n == 0 {
		r.Info("C14.hash-width", "util/hll", "-", "no call of a top-bits routine")
	}
}

// c14OfferPure: the offering methods of the counter (Offer*, and the unexported helpers they call on
// the receiver) branch on no scalar field of the counter that one of them assigns. Registers are
// updated through the register set, configuration fields are never assigned after construction, so
// today no field is both: a field that is remembers something about earlier offers.
func c14OfferPure(p *core.Program, r *core.Report) {
	t := namedIn(p, "util/hll", "HyperLogLog")
	if t == nil {
		r.Undec("C14.offer-pure", "util/hll.HyperLogLog", "-", "type not found")
		return
	}
	var offers []*core.FuncInfo
	seen := map[*core.FuncInfo]bool{}
	for _, fi := range p.MethodsOf(t) {
		if fi.Decl.Body != nil && strings.HasPrefix(fi.Obj.Name(), "Offer") {
			offers = append(offers, fi)
			seen[fi] = true
		}
	}
	for k := 0; k < len(offers); k++ {
		fi := offers[k]
		info := fi.Pkg.TypesInfo
		ast.Inspect(fi.Decl.Body, func(n ast.Node) bool {
			if call, ok := n.(*ast.CallExpr); ok {
				if sel, ok := call.Fun.(*ast.SelectorExpr); ok {
					if fn, _ := info.Uses[sel.Sel].(*types.Func); fn != nil && core.RecvNamed(fn) != nil && core.RecvNamed(fn).Obj() == t.Obj() {
						if cf := p.FuncOf(fn); cf != nil && cf.Decl.Body != nil && !seen[cf] {
							seen[cf] = true
							offers = append(offers, cf)
						}
					}
				}
			}
			return true
		})
	}
	if len(offers) == 0 {
		r.Undec("C14.offer-pure", "util/hll.HyperLogLog", "-", "no offering method")
		return
	}
	assigned := map[types.Object]string{}
	tested := map[types.Object]string{}
	fieldOf := func(fi *core.FuncInfo, e ast.Expr) types.Object {
		sel, ok := ast.Unparen(e).(*ast.SelectorExpr)
		if !ok {
			return nil
		}
		id, ok := ast.Unparen(sel.X).(*ast.Ident)
		if !ok || id.Name != recvName(fi) {
			return nil
		}
		v, _ := fi.Pkg.TypesInfo.ObjectOf(sel.Sel).(*types.Var)
		if v == nil || !v.IsField() {
			return nil
		}
		return v
	}
	for _, fi := range offers {
		ast.Inspect(fi.Decl.Body, func(n ast.Node) bool {
			switch v := n.(type) {
			case *ast.AssignStmt:
				for _, l := range v.Lhs {
					if f := fieldOf(fi, l); f != nil {
						assigned[f] = core.FuncName(fi.Obj)
					}
				}
			case *ast.IncDecStmt:
				if f := fieldOf(fi, v.X); f != nil {
					assigned[f] = core.FuncName(fi.Obj)
				}
			case *ast.IfStmt:
				// a remembered value guarded by its own validity flag (this.hasLast && o == this.last)
				// is a sound cache — a repeated item cannot change a register; without the flag the
				// zero value of the field passes for an item that was never offered
				var fs []types.Object
				flagged := false
				ast.Inspect(v.Cond, func(m ast.Node) bool {
					if e, ok := m.(ast.Expr); ok {
						if f := fieldOf(fi, e); f != nil {
							fs = append(fs, f)
							if b, ok := f.Type().Underlying().(*types.Basic); ok && b.Kind() == types.Bool {
								flagged = true
							}
						}
					}
					return true
				})
				if !flagged {
					for _, f := range fs {
						tested[f] = core.FuncName(fi.Obj)
					}
				}
			case *ast.SwitchStmt:
				if v.Tag != nil {
					if f := fieldOf(fi, v.Tag); f != nil {
						tested[f] = core.FuncName(fi.Obj)
					}
				}
			}
			return true
		})
	}
	var probs []string
	for f, by := range assigned {
		if in, ok := tested[f]; ok {
			probs = append(probs, fmt.Sprintf("field %s is assigned by %s and decides a branch of %s: whether an item reaches the registers depends on what was offered before", f.Name(), by, in))
		}
	}
	// a memo of offered items is sound only when it remembers the whole item: a helper that keeps
	// and tests fields of the counter (a "seen recently" table) must be keyed on the item as offered,
	// not on a narrowed copy — two different items that agree on the kept part are then one item
	memo := map[*types.Func]bool{}
	for _, fi := range offers {
		own := map[types.Object]bool{}
		condF := map[types.Object]bool{}
		ast.Inspect(fi.Decl.Body, func(n ast.Node) bool {
			switch v := n.(type) {
			case *ast.AssignStmt:
				for _, l := range v.Lhs {
					x := ast.Unparen(l)
					if ix, ok := x.(*ast.IndexExpr); ok {
						x = ix.X
					}
					if f := fieldOf(fi, x); f != nil {
						own[f] = true
					}
				}
			case *ast.IfStmt:
				ast.Inspect(v.Cond, func(m ast.Node) bool {
					if e, ok := m.(ast.Expr); ok {
						if f := fieldOf(fi, e); f != nil {
							condF[f] = true
						}
					}
					return true
				})
			}
			return true
		})
		for f := range own {
			if condF[f] {
				memo[fi.Obj] = true
			}
		}
	}
	for _, fi := range offers {
		if !strings.HasPrefix(fi.Obj.Name(), "Offer") {
			continue
		}
		info := fi.Pkg.TypesInfo
		items := map[types.Object]bool{}
		for _, f := range fi.Decl.Type.Params.List {
			for _, nm := range f.Names {
				if o := info.Defs[nm]; o != nil {
					if b, ok := o.Type().Underlying().(*types.Basic); ok && b.Info()&types.IsInteger != 0 {
						items[o] = true
					}
				}
			}
		}
		narrowed := func(e ast.Expr) (string, bool) {
			c, ok := ast.Unparen(e).(*ast.CallExpr)
			if !ok || len(c.Args) != 1 {
				return "", false
			}
			tv, ok := info.Types[c.Fun]
			if !ok || !tv.IsType() {
				return "", false
			}
			id, ok := ast.Unparen(c.Args[0]).(*ast.Ident)
			if !ok || !items[info.ObjectOf(id)] {
				return "", false
			}
			if typeBits(tv.Type) < typeBits(info.ObjectOf(id).Type()) {
				return types.ExprString(c), true
			}
			return "", false
		}
		ast.Inspect(fi.Decl.Body, func(n ast.Node) bool {
			switch v := n.(type) {
			case *ast.CallExpr:
				if fn := calleeFunc(info, v); fn != nil && memo[fn] {
					for _, a := range v.Args {
						if txt, bad := narrowed(a); bad {
							probs = append(probs, fmt.Sprintf("%s hands %s, a narrowed copy of the offered item, to %s, which remembers what was offered and turns repeats away: two different items that agree on the kept bits count as one", fi.Obj.Name(), txt, fn.Name()))
						}
					}
				}
			case *ast.BinaryExpr:
				if v.Op == token.EQL || v.Op == token.NEQ {
					for _, pr := range [][2]ast.Expr{{v.X, v.Y}, {v.Y, v.X}} {
						if txt, bad := narrowed(pr[0]); bad {
							x := ast.Unparen(pr[1])
							if ix, ok := x.(*ast.IndexExpr); ok {
								x = ix.X
							}
							if fieldOf(fi, x) != nil {
								probs = append(probs, fmt.Sprintf("%s compares %s, a narrowed copy of the offered item, with a remembered value: two different items that agree on the kept bits count as one", fi.Obj.Name(), txt))
							}
						}
					}
				}
			}
			return true
		})
	}
	sort.Strings(probs)
	fileProbs(r, "C14.offer-pure", "util/hll.(*HyperLogLog).Offer*", p.Pos(offers[0].Decl.Pos()), probs, fmt.Sprintf("%d offering methods branch on no field they assign", len(offers)))
}

// stableTable: the values of a package-level integer array/slice that nothing in the module assigns
// after its initialisation, evaluated from the initialiser.
func stableTable(info *types.Info, e ast.Expr) ([]int64, bool) {
	id, ok := ast.Unparen(e).(*ast.Ident)
	if !ok || curProg == nil {
		return nil, false
	}
	v, ok := info.ObjectOf(id).(*types.Var)
	if !ok || v.Pkg() == nil || v.Parent() != v.Pkg().Scope() {
		return nil, false
	}
	ce := &constEvaluator{p: curProg}
	fi := ce.anyFuncOf(v.Pkg())
	if fi == nil || !ce.pkgVarStable(v) {
		return nil, false
	}
	val, ok := ce.evalPkgVar(fi, v)
	if !ok || val == nil || val.k != 'a' {
		return nil, false
	}
	return val.arr, true
}

// rangeSourceOf: id is the value variable of a `for _, id := range X` in body; returns X.
func rangeSourceOf(info *types.Info, body *ast.BlockStmt, id *ast.Ident) ast.Expr {
	obj := info.ObjectOf(id)
	var out ast.Expr
	ast.Inspect(body, func(n ast.Node) bool {
		if rg, ok := n.(*ast.RangeStmt); ok && rg.Value != nil {
			if vid, ok := rg.Value.(*ast.Ident); ok && info.ObjectOf(vid) == obj {
				out = rg.X
			}
		}
		return true
	})
	return out
}

// c14OfferUpdate: path rule over the two offer routines (helpers followed).
func c14OfferUpdate(p *core.Program, r *core.Report) {
	for _, name := range []string{"offerHashed", "offerHashedLong"} {
		fi := p.Method("util/hll", "HyperLogLog", name)
		c := "util/hll.(*HyperLogLog)." + name
		if fi == nil || fi.Decl.Body == nil {
			r.Undec("C14.offer-update", c, "-", "not found")
			continue
		}
		info := fi.Pkg.TypesInfo
		in := newInliner(p, fi, nil)
		norm := func(e ast.Expr) string { return stripSpaces(types.ExprString(e)) }
		ps, over := paths.Enumerate(fi.Decl.Body, paths.Config{Info: info, Inline: in.Body, Expand: in.Expand,
			Cond: func(cnd ast.Expr, v bool) *paths.Event {
				arg := fmt.Sprintf("%s=%v", norm(cnd), v)
				// the outcome as a relation between the register read and the other operand
				if be, ok := ast.Unparen(cnd).(*ast.BinaryExpr); ok {
					isGet := func(e ast.Expr) bool { return strings.Contains(norm(e), ".Get(") }
					op := be.Op
					if isGet(be.Y) && !isGet(be.X) {
						op = flipOp(op)
					}
					if isGet(be.X) != isGet(be.Y) {
						rel := ""
						switch {
						case (op == token.LSS && v) || (op == token.GEQ && !v):
							rel = "reg<r"
						case (op == token.LEQ && v) || (op == token.GTR && !v):
							rel = "reg<=r"
						case (op == token.GTR && v) || (op == token.LEQ && !v):
							rel = "reg>r"
						case (op == token.GEQ && v) || (op == token.LSS && !v):
							rel = "reg>=r"
						case (op == token.EQL && v) || (op == token.NEQ && !v):
							rel = "reg==r"
						}
						if rel != "" {
							arg += " REL:" + rel
						}
					}
				}
				return &paths.Event{Kind: "COND", Arg: arg}
			},
			Classify: func(n ast.Node) []paths.Event {
				var out []paths.Event
				ast.Inspect(n, func(m ast.Node) bool {
					if call, ok := m.(*ast.CallExpr); ok {
						if sel, ok := call.Fun.(*ast.SelectorExpr); ok && sel.Sel.Name == "UpdateIfGreater" {
							out = append(out, paths.Event{Kind: "UPDATE", Pos: call.Pos()})
						}
					}
					if rs, ok := m.(*ast.ReturnStmt); ok && len(rs.Results) == 1 {
						if id, ok := ast.Unparen(rs.Results[0]).(*ast.Ident); ok && (id.Name == "true" || id.Name == "false") {
							out = append(out, paths.Event{Kind: "RETLIT", Arg: id.Name, Pos: rs.Pos()})
						}
					}
					return true
				})
				return out
			}})
		pos := p.Pos(fi.Decl.Pos())
		if over {
			r.Undec("C14.offer-update", c, pos, "too many paths")
			continue
		}
		var probs []string
		for _, pa := range ps {
			if pa.Has("UPDATE") || pa.Has("CUT") {
				continue
			}
			byValue := false
			for _, e := range pa {
				if e.Kind == "COND" && strings.Contains(e.Arg, ".Get(") {
					byValue = true
				}
			}
			if !byValue {
				probs = append(probs, "a path returns without UpdateIfGreater and without having compared the rank with the register's value: "+pa.String())
			}
			// what such a path reports is what the comparison found: true only where the register was
			// found smaller than the rank (it changes), false only where it was found at least as large
			strictlyLess, atLeast := false, false
			for _, e := range pa {
				if e.Kind == "COND" {
					switch {
					case strings.HasSuffix(e.Arg, "REL:reg<r"):
						strictlyLess = true
					case strings.HasSuffix(e.Arg, "REL:reg>=r"), strings.HasSuffix(e.Arg, "REL:reg>r"), strings.HasSuffix(e.Arg, "REL:reg==r"):
						atLeast = true
					}
				}
			}
			if byValue && pa.HasArg("RETLIT", "true") && !strictlyLess {
				probs = append(probs, "a path reports a change (true) without having found the register smaller than the rank: an offer whose rank equals the register's value leaves the state as it was and is reported as a change: "+pa.String())
			}
			if byValue && pa.HasArg("RETLIT", "false") && !atLeast {
				probs = append(probs, "a path reports no change (false) without having found the register at least as large as the rank: "+pa.String())
			}
		}
		fileProbs(r, "C14.offer-update", c, pos, uniq(probs), fmt.Sprintf("%d path(s), each through UpdateIfGreater", len(ps)))
	}
}

// c14RegisterOnly: whether a register changes is decided by the register and the offered rank alone
// (that is what makes the state a function of the set offered, whatever the order). The register set
// keeps no second piece of mutable state that its update consults: no method of RegisterSet that
// stores into the register words reads a field of the set that some method (outside the constructors)
// writes, other than the words themselves.
func c14RegisterOnly(p *core.Program, r *core.Report) {
	t := namedIn(p, "util/hll", "RegisterSet")
	if t == nil {
		return
	}
	st, ok := t.Underlying().(*types.Struct)
	if !ok {
		return
	}
	words := ""
	for i := 0; i < st.NumFields(); i++ {
		if sl, ok := st.Field(i).Type().Underlying().(*types.Slice); ok {
			if b, ok := sl.Elem().Underlying().(*types.Basic); ok && b.Info()&types.IsInteger != 0 {
				words = st.Field(i).Name()
			}
		}
	}
	if words == "" {
		return
	}
	written := map[string]string{}
	type use struct {
		fi     *core.FuncInfo
		reads  map[string]bool
		stores bool
	}
	var uses []use
	for _, fi := range p.MethodsOf(t) {
		if fi.Decl.Body == nil {
			continue
		}
		rn := recvName(fi)
		u := use{fi: fi, reads: map[string]bool{}}
		lhs := map[*ast.SelectorExpr]bool{}
		fieldOf := func(e ast.Expr) (*ast.SelectorExpr, bool) {
			for {
				switch v := ast.Unparen(e).(type) {
				case *ast.IndexExpr:
					e = v.X
					continue
				case *ast.SelectorExpr:
					if id, ok := ast.Unparen(v.X).(*ast.Ident); ok && id.Name == rn {
						return v, true
					}
				}
				return nil, false
			}
		}
		ast.Inspect(fi.Decl.Body, func(n ast.Node) bool {
			var targets []ast.Expr
			switch v := n.(type) {
			case *ast.AssignStmt:
				targets = v.Lhs
			case *ast.IncDecStmt:
				targets = []ast.Expr{v.X}
			}
			for _, l := range targets {
				if sel, ok := fieldOf(l); ok {
					lhs[sel] = true
					if sel.Sel.Name == words {
						u.stores = true
					} else {
						written[sel.Sel.Name] = core.FuncName(fi.Obj)
					}
				}
			}
			return true
		})
		ast.Inspect(fi.Decl.Body, func(n ast.Node) bool {
			if sel, ok := n.(*ast.SelectorExpr); ok && !lhs[sel] {
				if id, ok := ast.Unparen(sel.X).(*ast.Ident); ok && id.Name == rn {
					if _, isField := fi.Pkg.TypesInfo.Uses[sel.Sel].(*types.Var); isField {
						u.reads[sel.Sel.Name] = true
					}
				}
			}
			return true
		})
		uses = append(uses, u)
	}
	for _, u := range uses {
		if !u.stores {
			continue
		}
		bad := ""
		for f := range u.reads {
			if w, ok := written[f]; ok && f != words {
				bad = "consults the field `" + f + "`, which " + w + " changes as offers come in: whether a register is raised then depends on the history of offers, not only on the register and the rank (the state is no longer a function of the set offered; merging two halves differs from offering the union)"
			}
		}
		r.Check(bad == "", "C14.max", core.FuncName(u.fi.Obj)+" decides by the register alone", p.Pos(u.fi.Decl.Pos()), "reads no mutable state of the set beside the register words", bad)
	}
}

// storedWord: what `target = rhs` stores. When rhs (conversions stripped) is a local with several
// definitions of which all but one only hand back the word read from target itself (storing that is
// storing nothing new), the remaining definition is what the store can change the word to.
func storedWord(info *types.Info, body *ast.BlockStmt, target ast.Expr, rhs ast.Expr) ast.Expr {
	strip := func(e ast.Expr) ast.Expr {
		for {
			switch x := e.(type) {
			case *ast.ParenExpr:
				e = x.X
				continue
			case *ast.CallExpr:
				if tv, ok := info.Types[x.Fun]; ok && tv.IsType() && len(x.Args) == 1 {
					e = x.Args[0]
					continue
				}
			}
			return e
		}
	}
	id, ok := strip(rhs).(*ast.Ident)
	if !ok {
		return rhs
	}
	obj := info.ObjectOf(id)
	if _, isVar := obj.(*types.Var); !isVar {
		return rhs
	}
	want := stripSpaces(types.ExprString(target))
	var defs []ast.Expr
	bad := false
	ast.Inspect(body, func(n ast.Node) bool {
		switch x := n.(type) {
		case *ast.AssignStmt:
			for i, l := range x.Lhs {
				if lid, isId := l.(*ast.Ident); isId && info.ObjectOf(lid) == obj {
					if len(x.Lhs) != len(x.Rhs) || (x.Tok != token.ASSIGN && x.Tok != token.DEFINE) {
						bad = true
						continue
					}
					if stripSpaces(types.ExprString(strip(x.Rhs[i]))) == want {
						continue
					}
					defs = append(defs, x.Rhs[i])
				}
			}
		case *ast.IncDecStmt:
			if lid, isId := x.X.(*ast.Ident); isId && info.ObjectOf(lid) == obj {
				bad = true
			}
		}
		return true
	})
	if bad || len(defs) != 1 {
		return rhs
	}
	return defs[0]
}

// c14SmallRange: the small-range correction is the algorithm's: linear counting m*ln(m/V) is defined
// for V > 0 empty registers only; with no empty register the raw estimate stands. A function of
// util/hll that hands a quantity to a helper which divides by it does so only on paths that have found
// that quantity non-zero. (With V = 0 the helper yields +Inf and the estimate of a few dozen items at a
// low precision comes out as 2^63.)
func c14SmallRange(p *core.Program, r *core.Report, rule string) {
	pk := p.Pkg("util/hll")
	if pk == nil {
		r.Undec(rule, "util/hll", "-", "package not found")
		return
	}
	// helpers with a parameter they divide by
	divisor := map[*types.Func][]int{}
	for _, fi := range p.Funcs {
		if fi.Pkg != pk || fi.Decl.Body == nil {
			continue
		}
		info := fi.Pkg.TypesInfo
		var params []types.Object
		for _, f := range fi.Decl.Type.Params.List {
			for _, nm := range f.Names {
				params = append(params, info.Defs[nm])
			}
		}
		ast.Inspect(fi.Decl.Body, func(n ast.Node) bool {
			be, ok := n.(*ast.BinaryExpr)
			if !ok || be.Op != token.QUO {
				return true
			}
			y := ast.Unparen(stripConvs(info, be.Y))
			if id, ok := y.(*ast.Ident); ok {
				for i, po := range params {
					if po != nil && info.ObjectOf(id) == po {
						if b, ok := po.Type().Underlying().(*types.Basic); ok && b.Info()&types.IsFloat != 0 {
							divisor[fi.Obj] = append(divisor[fi.Obj], i)
						}
					}
				}
			}
			return true
		})
	}
	n := 0
	for _, fi := range p.Funcs {
		if fi.Pkg != pk || fi.Decl.Body == nil {
			continue
		}
		info := fi.Pkg.TypesInfo
		uses := false
		ast.Inspect(fi.Decl.Body, func(m ast.Node) bool {
			if call, ok := m.(*ast.CallExpr); ok {
				if fn := calleeFunc(info, call); fn != nil && divisor[fn] != nil {
					uses = true
				}
			}
			return true
		})
		if !uses {
			continue
		}
		norm := func(e ast.Expr) string { return stripSpaces(types.ExprString(e)) }
		ps, over := paths.Enumerate(fi.Decl.Body, paths.Config{Info: info,
			Cond: func(c ast.Expr, v bool) *paths.Event {
				return &paths.Event{Kind: "COND", Arg: condKey(info, norm, c, v)}
			},
			Classify: func(m ast.Node) []paths.Event {
				var out []paths.Event
				ast.Inspect(m, func(k ast.Node) bool {
					if _, isLit := k.(*ast.FuncLit); isLit {
						return false
					}
					if call, ok := k.(*ast.CallExpr); ok {
						if fn := calleeFunc(info, call); fn != nil {
							for _, i := range divisor[fn] {
								if i < len(call.Args) {
									// a parameter handed on is the caller's to choose (NewHyperLogLogFloat(rsd)); a
									// quantity the function computed itself is the function's to check
									if aid, ok := ast.Unparen(stripConvs(info, call.Args[i])).(*ast.Ident); ok {
										isParam := false
										for _, f := range fi.Decl.Type.Params.List {
											for _, nm := range f.Names {
												if info.Defs[nm] == info.ObjectOf(aid) {
													isParam = true
												}
											}
										}
										if isParam {
											continue
										}
									}
									out = append(out, paths.Event{Kind: "DIVBY", Arg: norm(stripConvs(info, call.Args[i])), Pos: call.Pos()})
								}
							}
						}
					}
					return true
				})
				return out
			}})
		c := core.FuncName(fi.Obj) + " divides by a quantity it has found non-zero"
		if over {
			r.Undec(rule, c, p.Pos(fi.Decl.Pos()), "too many paths")
			continue
		}
		n++
		bad := ""
		for _, pa := range ps {
			for i, e := range pa {
				if e.Kind != "DIVBY" {
					continue
				}
				if _, err := strconv.ParseFloat(e.Arg, 64); err == nil && e.Arg != "0" {
					continue
				}
				guarded := false
				for _, g := range pa[:i] {
					if g.Kind != "COND" {
						continue
					}
					for _, want := range append(append(ccBoth(e.Arg, ">", "0", true), ccBoth(e.Arg, "==", "0", false)...), ccBoth(e.Arg, ">=", "1", true)...) {
						if g.Arg == want {
							guarded = true
						}
					}
				}
				if !guarded {
					bad = "a path hands " + e.Arg + " to a helper that divides by it (at " + p.Pos(e.Pos) + ") without having found it non-zero: with no empty register the small-range correction is m*ln(m/0) = +Inf and the estimate comes out as 2^63: " + pa.String()
				}
			}
		}
		r.Check(bad == "", rule, c, p.Pos(fi.Decl.Pos()), "every division helper is reached behind a non-zero test of its divisor", bad)
	}
	if n == 0 {
		r.Undec(rule, "util/hll", "-", "no caller of a dividing helper found")
	}
}
