package props

import (
	"fmt"
	"go/ast"
	"go/token"
	"go/types"
	"strings"

	"golibcheck/internal/core"
	"golibcheck/internal/paths"
	"golibcheck/internal/wire"
)

// C14 — HyperLogLog state depends only on the set offered; merge equals union.
// Estimate accuracy and set-only dependence are numeric/behavioural; what is decided are the
// structural necessary conditions: merges never write through their inputs and build the result on
// fresh storage, registers only ever take the larger value, register addressing agrees between all
// accessors, the register index is the top log2m bits and the rank is capped by the guard bit, and
// the serial form agrees.
func init() { register(&Checker{ID: "C14", Canaries: c14Canaries, Run: runC14}) }

func c14Canaries() []core.Canary {
	return []core.Canary{{RelDir: "util/hll", Name: "c14", Src: `package hll

// merges into storage shared with the receiver
func (this *HyperLogLog) zzCanaryMerge(other *HyperLogLog) *HyperLogLog {
	merged := NewHyperLogLog(this.log2m, NewRegisterSetInit(this.registerSet.Count, this.registerSet.Bits()))
	merged.AddAll(other)
	other.dirty = true
	return merged
}
`, Expect: []core.CanaryExpect{{Rule: "C14.merge-pure", Sub: "zzCanaryMerge"}}}}
}

func runC14(p *core.Program, r *core.Report) {
	r.Explanation = "Structural necessary conditions of the HyperLogLog laws (util/hll). Merge purity: RegisterSet.Merge, HyperLogLog.AddAll and HyperLogLog.Merge never store through their arguments, and HyperLogLog.Merge accumulates into a register set that is freshly allocated (not storage of the receiver or of an argument), so merging leaves its inputs untouched. Maximum: UpdateIfGreater stores exactly on the path where the current masked value is smaller than the new one and reports true exactly there; RegisterSet.Merge ORs in the larger of the two masked values on both outcomes of their comparison. Geometry: REGISTER_SIZE*LOG2_BITS_PER_WORD <= 32, the register mask is 2^REGISTER_SIZE-1 everywhere, Set/Get/UpdateIfGreater address a register as word position/LOG2_BITS_PER_WORD, bit REGISTER_SIZE*(position mod LOG2_BITS_PER_WORD) and Merge walks j < LOG2_BITS_PER_WORD with shift REGISTER_SIZE*j. Index/rank: the register index is hash >> (W - log2m) and the rank is clz of (hash << log2m) with the guard bit 1 << (log2m-1) or-ed in, in both offer variants. Serial: GetBytes ~ BuildHyperLogLog agree (wire grammar)."
	r.NotDecided = []string{"estimate accuracy", "that the state depends only on the set offered (follows from max + index but is not derived here)", "correctness of clz32/clz64 and of the murmur hashes"}
	r.Rule("C14.merge-pure", "merge operations do not write through their inputs; the merged result lives on fresh storage", 3)
	r.Rule("C14.max", "registers only take the larger value: store iff cur < new; merge selects the larger on both outcomes", 2)
	r.Rule("C14.geometry", "register width/mask/addressing agree across Set, Get, UpdateIfGreater and Merge", 5)
	r.Rule("C14.index", "index = top log2m bits of the hash; rank = clz((hash << log2m) | guard bit) + 1", 2)
	r.Rule("C14.serial", "GetBytes ~ BuildHyperLogLog agree on the layout", 1)
	c14Pure(p, r)
	c14Max(p, r)
	c14Geometry(p, r)
	c14Index(p, r)
	x := wire.NewExtractor(p)
	var pairs []codecPair
	if w, rd := p.Method("util/hll", "HyperLogLog", "GetBytes"), p.Func("util/hll", "BuildHyperLogLog"); w != nil && rd != nil {
		wo, _ := x.LocalRoots(w)
		_, ri := x.LocalRoots(rd)
		if len(wo) == 1 && len(ri) == 1 {
			pairs = append(pairs, codecPair{W: w, R: rd, WS: wo[0], RS: ri[0], Name: core.FuncName(w.Obj) + " ~ " + core.FuncName(rd.Obj)})
		}
	}
	if len(pairs) == 0 {
		r.Undec("C14.serial", "util/hll GetBytes~BuildHyperLogLog", "-", "pair not found")
	}
	runPairs(p, x, r, pairs, pairRules{"C14.serial", "", ""}, 3)
}

// allocatesFresh: does the expression denote freshly allocated register storage?
func allocatesFresh(p *core.Program, info *types.Info, e ast.Expr, depth int) (bool, string) {
	e = ast.Unparen(e)
	call, ok := e.(*ast.CallExpr)
	if !ok || depth > 3 {
		return false, "not a constructor call: " + types.ExprString(e)
	}
	name := stripSpaces(types.ExprString(call.Fun))
	switch name {
	case "make":
		return true, ""
	case "NewRegisterSet":
		return true, "" // NewRegisterSetInit(count, nil) -> make
	case "NewRegisterSetInit":
		if len(call.Args) == 2 {
			a := ast.Unparen(call.Args[1])
			if id, ok := a.(*ast.Ident); ok && id.Name == "nil" {
				return true, ""
			}
			if ok, _ := allocatesFresh(p, info, a, depth+1); ok {
				return true, ""
			}
			return false, "register storage `" + types.ExprString(a) + "` is shared, not freshly allocated"
		}
	case "NewHyperLogLog":
		if len(call.Args) == 2 {
			return allocatesFresh(p, info, call.Args[1], depth+1)
		}
	case "NewHyperLogLogInt", "NewHyperLogLogDefault":
		return true, ""
	}
	return false, "unknown constructor " + name
}

func c14Pure(p *core.Program, r *core.Report) {
	pk := p.Pkg("util/hll")
	if pk == nil {
		r.Undec("C14.merge-pure", "util/hll", "-", "package not found")
		return
	}
	for _, fi := range p.Funcs {
		if fi.Pkg != pk || fi.Decl.Body == nil || core.RecvNamed(fi.Obj) == nil {
			continue
		}
		name := fi.Obj.Name()
		if !(name == "Merge" || name == "AddAll" || strings.HasPrefix(name, "zzCanaryMerge")) {
			continue
		}
		info := fi.Pkg.TypesInfo
		params := map[types.Object]bool{}
		for _, f := range fi.Decl.Type.Params.List {
			for _, n := range f.Names {
				params[info.Defs[n]] = true
			}
		}
		// aliases of parameters (range variables over a variadic parameter, plain copies)
		for changed := true; changed; {
			changed = false
			ast.Inspect(fi.Decl.Body, func(n ast.Node) bool {
				switch v := n.(type) {
				case *ast.RangeStmt:
					if root := rootOf(v.X); root != nil && params[info.ObjectOf(root)] {
						if id, ok := v.Value.(*ast.Ident); ok && !params[info.ObjectOf(id)] {
							params[info.ObjectOf(id)] = true
							changed = true
						}
					}
				case *ast.AssignStmt:
					if len(v.Lhs) == 1 && len(v.Rhs) == 1 {
						if rid, ok := ast.Unparen(v.Rhs[0]).(*ast.Ident); ok && params[info.ObjectOf(rid)] {
							if id, ok := v.Lhs[0].(*ast.Ident); ok && !params[info.ObjectOf(id)] {
								params[info.ObjectOf(id)] = true
								changed = true
							}
						}
					}
				}
				return true
			})
		}
		var probs []string
		ast.Inspect(fi.Decl.Body, func(n ast.Node) bool {
			check := func(l ast.Expr, pos token.Pos) {
				if _, isIdent := ast.Unparen(l).(*ast.Ident); isIdent {
					return
				}
				if root := rootOf(l); root != nil && params[info.ObjectOf(root)] {
					probs = append(probs, "stores through its argument (`"+types.ExprString(l)+"` at "+p.Pos(pos)+"): merging modifies an input")
				}
			}
			switch v := n.(type) {
			case *ast.AssignStmt:
				for _, l := range v.Lhs {
					check(l, v.Pos())
				}
			case *ast.IncDecStmt:
				check(v.X, v.Pos())
			case *ast.CallExpr:
				// mutating calls on an argument: x.AddAll / x.Merge(RegisterSet) / Set / UpdateIfGreater
				if sel, ok := v.Fun.(*ast.SelectorExpr); ok {
					switch sel.Sel.Name {
					case "AddAll", "Set", "UpdateIfGreater", "Offer", "OfferLong":
						if root := rootOf(sel.X); root != nil && params[info.ObjectOf(root)] {
							probs = append(probs, "calls the mutating "+sel.Sel.Name+" on its argument at "+p.Pos(v.Pos()))
						}
					case "Merge":
						if root := rootOf(sel.X); root != nil && params[info.ObjectOf(root)] {
							if tv, ok := info.Types[sel.X]; ok && strings.HasSuffix(tv.Type.String(), "RegisterSet") {
								probs = append(probs, "merges INTO its argument's register set at "+p.Pos(v.Pos()))
							}
						}
					}
				}
			}
			return true
		})
		// the accumulator of HyperLogLog.Merge-like functions (the value AddAll is called on and that is returned)
		if n := core.RecvNamed(fi.Obj); n != nil && n.Obj().Name() == "HyperLogLog" && name != "AddAll" {
			var accDef ast.Expr
			accName := ""
			ast.Inspect(fi.Decl.Body, func(m ast.Node) bool {
				if call, ok := m.(*ast.CallExpr); ok {
					if sel, ok := call.Fun.(*ast.SelectorExpr); ok && sel.Sel.Name == "AddAll" {
						if id, ok := ast.Unparen(sel.X).(*ast.Ident); ok {
							accName = id.Name
						}
					}
				}
				return true
			})
			ast.Inspect(fi.Decl.Body, func(m ast.Node) bool {
				if as, ok := m.(*ast.AssignStmt); ok && len(as.Lhs) == 1 && len(as.Rhs) == 1 && types.ExprString(as.Lhs[0]) == accName && as.Tok == token.DEFINE {
					accDef = as.Rhs[0]
				}
				return true
			})
			if accDef == nil {
				probs = append(probs, "the merge accumulator is not a local built by a constructor")
			} else if ok, why := allocatesFresh(p, info, accDef, 0); !ok {
				probs = append(probs, "the merged result is accumulated in storage that is not freshly allocated ("+why+"): merging also changes the receiver/argument")
			}
		}
		fileProbs(r, "C14.merge-pure", core.FuncName(fi.Obj), p.Pos(fi.Decl.Pos()), probs, "no store through arguments; result on fresh storage")
	}
}

func c14Max(p *core.Program, r *core.Report) {
	fi := p.Method("util/hll", "RegisterSet", "UpdateIfGreater")
	if fi == nil || fi.Decl.Body == nil {
		r.Undec("C14.max", "util/hll.(*RegisterSet).UpdateIfGreater", "-", "not found")
	} else {
		rn := recvName(fi)
		ps, _ := paths.Enumerate(fi.Decl.Body, paths.Config{Info: fi.Pkg.TypesInfo,
			Cond: func(c ast.Expr, v bool) *paths.Event {
				return &paths.Event{Kind: "COND", Arg: fmt.Sprintf("%s=%v", stripSpaces(types.ExprString(c)), v)}
			},
			Classify: func(n ast.Node) []paths.Event {
				var out []paths.Event
				switch v := n.(type) {
				case *ast.AssignStmt:
					if ix, ok := v.Lhs[0].(*ast.IndexExpr); ok && strings.HasPrefix(stripSpaces(types.ExprString(ix.X)), rn+".M") {
						out = append(out, paths.Event{Kind: "STORE"})
					}
				case *ast.ReturnStmt:
					if len(v.Results) == 1 {
						out = append(out, paths.Event{Kind: "RETVAL", Arg: types.ExprString(v.Results[0])})
					}
				}
				return out
			}})
		var probs []string
		for _, pa := range ps {
			less := pa.HasArg("COND", "curVal<newVal=true")
			if pa.Has("STORE") != less {
				probs = append(probs, "the register is written on a path where the new value is not larger (or not written where it is): "+pa.String())
			}
			if less != pa.HasArg("RETVAL", "true") {
				probs = append(probs, "the reported change does not match the store")
			}
		}
		if len(ps) < 2 {
			probs = append(probs, "no comparison of the current and the new value")
		}
		fileProbs(r, "C14.max", "util/hll.(*RegisterSet).UpdateIfGreater", p.Pos(fi.Decl.Pos()), probs, "store and true iff cur < new")
	}
	mf := p.Method("util/hll", "RegisterSet", "Merge")
	if mf == nil || mf.Decl.Body == nil {
		r.Undec("C14.max", "util/hll.(*RegisterSet).Merge", "-", "not found")
		return
	}
	ok := false
	ast.Inspect(mf.Decl.Body, func(n ast.Node) bool {
		ifs, isIf := n.(*ast.IfStmt)
		if !isIf || ifs.Else == nil {
			return true
		}
		if stripSpaces(types.ExprString(ifs.Cond)) == "thisVal<thatVal" {
			t := stripSpaces(nodeStringFull(ifs.Body))
			e := stripSpaces(nodeStringFull(ifs.Else))
			ok = t == "word=thatVal;" && e == "word=thisVal;"
			// nodeStringFull drops the assignment operator; verify it is |=
			for _, b := range []*ast.BlockStmt{ifs.Body, ifs.Else.(*ast.BlockStmt)} {
				if as, isA := b.List[0].(*ast.AssignStmt); !isA || as.Tok != token.OR_ASSIGN {
					ok = false
				}
			}
		}
		return true
	})
	r.Check(ok, "C14.max", "util/hll.(*RegisterSet).Merge", p.Pos(mf.Decl.Pos()), "ORs in the larger of the two masked register values", "the merged register is not the larger of the two values on both outcomes of their comparison")
}

func c14Geometry(p *core.Program, r *core.Report) {
	pk := p.Pkg("util/hll")
	if pk == nil {
		return
	}
	cv := func(n string) int64 {
		if c, ok := pk.Types.Scope().Lookup(n).(*types.Const); ok {
			var v int64
			fmt.Sscanf(c.Val().ExactString(), "%d", &v)
			return v
		}
		return -1
	}
	rs, lw := cv("REGISTER_SIZE"), cv("LOG2_BITS_PER_WORD")
	r.Check(rs > 0 && lw > 0 && rs*lw <= 32, "C14.geometry", "util/hll register packing", "-", fmt.Sprintf("%d registers of %d bits per 32-bit word", lw, rs), fmt.Sprintf("%d registers of %d bits do not fit a 32-bit word", lw, rs))
	wantMask := int64(1)<<uint(rs) - 1
	for _, name := range []string{"Set", "Get", "UpdateIfGreater", "Merge"} {
		fi := p.Method("util/hll", "RegisterSet", name)
		c := "util/hll.(*RegisterSet)." + name
		if fi == nil || fi.Decl.Body == nil {
			r.Undec("C14.geometry", c, "-", "not found")
			continue
		}
		info := fi.Pkg.TypesInfo
		var probs []string
		masks := 0
		ast.Inspect(fi.Decl.Body, func(n ast.Node) bool {
			if be, ok := n.(*ast.BinaryExpr); ok && be.Op == token.SHL {
				x := ast.Unparen(be.X)
				if call, ok := x.(*ast.CallExpr); ok && len(call.Args) == 1 {
					x = call.Args[0]
				}
				if v, ok := constIntOf(info, x); ok && v > 1 {
					masks++
					if v != wantMask {
						probs = append(probs, fmt.Sprintf("register mask %#x, want %#x", v, wantMask))
					}
				}
			}
			return true
		})
		if masks == 0 {
			probs = append(probs, "no register mask found")
		}
		src := stripSpaces(nodeStringFull(fi.Decl.Body))
		if name == "Merge" {
			if !strings.Contains(src, "REGISTER_SIZE*j") {
				probs = append(probs, "merge does not shift by REGISTER_SIZE*j")
			}
			okLoop := false
			ast.Inspect(fi.Decl.Body, func(n ast.Node) bool {
				if loop, ok := n.(*ast.ForStmt); ok && loop.Cond != nil && stripSpaces(types.ExprString(loop.Cond)) == "j<LOG2_BITS_PER_WORD" {
					okLoop = true
				}
				return true
			})
			if !okLoop {
				probs = append(probs, "merge does not visit exactly LOG2_BITS_PER_WORD registers per word")
			}
		} else {
			if !strings.Contains(src, "position/LOG2_BITS_PER_WORD") {
				probs = append(probs, "word index is not position/LOG2_BITS_PER_WORD")
			}
			if !(strings.Contains(src, "REGISTER_SIZE*(position-(bucketPos*LOG2_BITS_PER_WORD))") || strings.Contains(src, "REGISTER_SIZE*(position-(bucket*LOG2_BITS_PER_WORD))") || strings.Contains(src, "REGISTER_SIZE*(position%LOG2_BITS_PER_WORD)")) {
				probs = append(probs, "bit offset is not REGISTER_SIZE*(position mod LOG2_BITS_PER_WORD)")
			}
		}
		fileProbs(r, "C14.geometry", c, p.Pos(fi.Decl.Pos()), probs, "mask and addressing agree with the siblings")
	}
}

func c14Index(p *core.Program, r *core.Report) {
	for name, w := range map[string]string{"offerHashed": "32", "offerHashedLong": "64"} {
		fi := p.Method("util/hll", "HyperLogLog", name)
		c := "util/hll.(*HyperLogLog)." + name
		if fi == nil || fi.Decl.Body == nil {
			r.Undec("C14.index", c, "-", "not found")
			continue
		}
		rn := recvName(fi)
		src := strings.ReplaceAll(stripSpaces(nodeStringFull(fi.Decl.Body)), rn+".", "")
		var probs []string
		if !strings.Contains(src, "hashedValue>>("+w+"-log2m)") {
			probs = append(probs, "the register index is not the top log2m bits of the hash (hash >> ("+w+" - log2m))")
		}
		// the rank: a leading-zero count whose argument or-s the guard bit into hash << log2m
		rankOK := false
		ast.Inspect(fi.Decl.Body, func(n ast.Node) bool {
			call, ok := n.(*ast.CallExpr)
			if !ok || len(call.Args) != 1 {
				return true
			}
			fn := strings.ToLower(stripSpaces(types.ExprString(call.Fun)))
			if !(strings.Contains(fn, "clz") || strings.Contains(fn, "leadingzeros")) {
				return true
			}
			a := strings.ReplaceAll(stripSpaces(types.ExprString(call.Args[0])), rn+".", "")
			if strings.Contains(a, "hashedValue<<log2m") && strings.Contains(a, "|") && strings.Contains(a, "1<<(log2m-1)") {
				rankOK = true
			}
			return true
		})
		if !rankOK {
			probs = append(probs, "the rank is not clz((hash << log2m) | 1 << (log2m-1) ...): without the guard bit a hash whose remaining bits are all zero gets a rank that overflows the "+"5-bit register")
		}
		fileProbs(r, "C14.index", c, p.Pos(fi.Decl.Pos()), probs, "top-bits index; guarded rank")
	}
}
