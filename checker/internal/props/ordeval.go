package props

import (
	"fmt"
	"go/ast"
	"go/constant"
	"go/token"
	"go/types"
	"strings"
)

// ordEval (engine E8): a tiny interpreter for comparison code over finite abstract domains.
// Pairs of operands that the code only touches through <, ==, >, compare.CompareToX and
// strings.Compare are represented by an ordering in {-1 (less), 0 (equal), +1 (greater)}; slices by
// {nil, empty, one element}. The function's AST is interpreted for one assignment of orderings;
// anything outside the fragment sets err (UNDECIDED). No golib code is executed.

type absSlice struct {
	isNil bool
	n     int
}

type ordEval struct {
	info *types.Info
	// side resolves an expression to ("l"|"r", key) when it denotes one of the two compared operands
	// (or a field of them), else "".
	side   func(e ast.Expr) (string, string)
	ord    map[string]int      // key -> ordering of (l.key ? r.key)
	slices map[string]absSlice // "l:key"/"r:key" -> abstract slice
	bools  map[string]bool     // canonical condition text -> forced truth (type checks, nil checks)
	ints   map[types.Object]int64
	err    string
	steps  int
	// callee resolves a call to a pure helper (params, body); nil = calls are outside the fragment
	callee func(call *ast.CallExpr) ([]types.Object, *ast.BlockStmt)
	depth  int
	// inl follows `return helper(args)` into the helper's body with its parameters replaced by the
	// arguments (operands keep their spelling, so side() and the forced conditions still apply)
	inl *inliner
	// sels: values of selector expressions on locals bound to a table entry ("f.width")
	sels map[string]int64
	// alias: locals standing for an operand expression (lv of `for i, lv := range l[:n]`, rv := r[i])
	alias map[types.Object]ast.Expr
	// recordOf resolves an expression to a record of operand expressions (this.key() returning
	// keyT{this.Sum, this.Count}: field name -> expression, in declaration order); recs holds the
	// locals bound to such records
	recordOf func(x ast.Expr) *ordRecord
	recs     map[types.Object]*ordRecord
	// eqBool: while set, boolean operands whose two sides are equal all have this value (the two
	// concrete worlds behind "l == r" for a boolean key, see bothWorlds)
	eqBool *bool
}

type ordRecord struct {
	names []string
	exprs map[string]ast.Expr
}

// recOf: the record an expression stands for (a local bound to one, or a call that builds one).
func (e *ordEval) recOf(x ast.Expr) *ordRecord {
	x = ast.Unparen(x)
	if id, ok := x.(*ast.Ident); ok && e.recs != nil {
		if r, ok := e.recs[e.info.ObjectOf(id)]; ok {
			return r
		}
	}
	if e.recordOf != nil {
		return e.recordOf(x)
	}
	return nil
}

// sideOf is side after locals that stand for an operand expression are replaced by it; a re-slice of
// an operand (l[:n]) is that operand.
func (e *ordEval) sideOf(x ast.Expr) (string, string) {
	for depth := 0; depth < 4; depth++ {
		x = ast.Unparen(x)
		if sl, ok := x.(*ast.SliceExpr); ok {
			x = sl.X
			continue
		}
		if sel, ok := x.(*ast.SelectorExpr); ok {
			if r := e.recOf(sel.X); r != nil {
				if fx, ok := r.exprs[sel.Sel.Name]; ok {
					x = fx
					continue
				}
			}
		}
		id, ok := x.(*ast.Ident)
		if !ok || e.alias == nil {
			break
		}
		a, ok := e.alias[e.info.ObjectOf(id)]
		if !ok {
			break
		}
		x = a
	}
	return e.side(x)
}

func (e *ordEval) fail(format string, a ...interface{}) {
	if e.err == "" {
		e.err = fmt.Sprintf(format, a...)
	}
}

// cmpOperands: ordering of (a ? b) if a and b are the two sides of one key.
func (e *ordEval) cmpOperands(a, b ast.Expr) (int, bool) {
	sa, ka := e.sideOf(a)
	sb, kb := e.sideOf(b)
	if sa == "" || sb == "" || ka != kb || sa == sb {
		return 0, false
	}
	o, ok := e.ord[ka]
	if !ok {
		return 0, false
	}
	if sa == "l" {
		return o, true
	}
	return -o, true
}

func (e *ordEval) evalInt(x ast.Expr) int64 {
	x = ast.Unparen(x)
	if tv, ok := e.info.Types[x]; ok && tv.Value != nil {
		if n, ok := constant.Int64Val(constant.ToInt(tv.Value)); ok {
			return n
		}
	}
	switch v := x.(type) {
	case *ast.Ident:
		if n, ok := e.ints[e.info.ObjectOf(v)]; ok {
			return n
		}
	case *ast.SelectorExpr:
		if n, ok := e.sels[stripSpaces(types.ExprString(v))]; ok {
			return n
		}
	case *ast.UnaryExpr:
		if v.Op == token.SUB {
			return -e.evalInt(v.X)
		}
	case *ast.IndexExpr:
		// TABLE[i][j] with TABLE a package-level array written as a literal of constants that nothing
		// assigns: the entry the indices select; indices computed from equal boolean operands are
		// evaluated in both worlds and must select the same value
		if n, ok := e.tableEntry(v); ok {
			return n
		}
	case *ast.BinaryExpr:
		// rank[l] - rank[r] with rank a package-level table keyed by the two boolean operands of one
		// key: under an ordering of (l, r) both values are known (false < true), equal operands give 0
		if v.Op == token.SUB {
			if n, ok := e.rankDiff(v.X, v.Y); ok {
				return n
			}
		}
		a, b := e.evalInt(v.X), e.evalInt(v.Y)
		switch v.Op {
		case token.SUB:
			return a - b
		case token.ADD:
			return a + b
		case token.MUL:
			return a * b
		case token.REM:
			if b != 0 {
				return a % b
			}
		case token.QUO:
			if b != 0 {
				return a / b
			}
		}
	case *ast.CallExpr:
		if tv, ok := e.info.Types[v.Fun]; ok && tv.IsType() && len(v.Args) == 1 {
			return e.evalInt(v.Args[0])
		}
		if e.callee != nil && e.depth < 4 {
			if params, body := e.callee(v); body != nil && len(params) == len(v.Args) {
				sub := &ordEval{info: e.info, side: e.side, ord: e.ord, slices: e.slices, bools: e.bools, ints: map[types.Object]int64{}, callee: e.callee, depth: e.depth + 1, eqBool: e.eqBool}
				for k, val := range e.ints {
					sub.ints[k] = val
				}
				for i, po := range params {
					sub.ints[po] = e.evalInt(v.Args[i])
				}
				res, ret := sub.run(body.List)
				if sub.err != "" || !ret || res.isBool {
					e.fail("helper %s outside the fragment: %s", types.ExprString(v.Fun), sub.err)
					return 0
				}
				return res.n
			}
		}
		// a helper of the package called with the operands themselves (compareFloating(this.Val,
		// o.(*T).Val)): its body with the arguments in place, so that the operands keep their sides
		if e.inl != nil && e.depth < 4 {
			if body := e.inl.Body(v); body != nil {
				sub := &ordEval{info: e.info, side: e.side, ord: e.ord, slices: e.slices, bools: e.bools, ints: map[types.Object]int64{}, callee: e.callee, inl: e.inl, sels: e.sels, depth: e.depth + 1, eqBool: e.eqBool}
				for k, val := range e.ints {
					sub.ints[k] = val
				}
				res, ret := sub.run(body.List)
				if sub.err == "" && ret && !res.isBool {
					return res.n
				}
				if sub.err != "" {
					e.fail("helper %s outside the fragment: %s", types.ExprString(v.Fun), sub.err)
					return 0
				}
			}
		}
		fn := stripSpaces(types.ExprString(v.Fun))
		if strings.HasSuffix(fn, ".GetValueType") && len(v.Args) == 0 {
			return 1 // same-type evaluation: both operands carry the same type code
		}
		if fn == "len" && len(v.Args) == 1 {
			if s, k := e.sideOf(v.Args[0]); s != "" {
				if sl, ok := e.slices[s+":"+k]; ok {
					return int64(sl.n)
				}
			}
		}
		if (strings.HasPrefix(fn, "compare.CompareTo") || fn == "strings.Compare" || strings.HasPrefix(fn, "CompareTo")) && len(v.Args) == 2 {
			if o, ok := e.cmpOperands(v.Args[0], v.Args[1]); ok {
				return int64(o)
			}
		}
	}
	e.fail("cannot evaluate integer expression %s over the ordering domain", types.ExprString(x))
	return 0
}

func (e *ordEval) evalBool(x ast.Expr) bool {
	x = ast.Unparen(x)
	if e.inl != nil {
		// predicate helpers (sameType(this, o)) stand for the test they return
		if _, isCall := x.(*ast.CallExpr); isCall {
			x = ast.Unparen(e.inl.Expand(x))
		}
	}
	if b, ok := e.bools[stripSpaces(types.ExprString(x))]; ok {
		return b
	}
	if tv, ok := e.info.Types[x]; ok && tv.Value != nil && tv.Value.Kind() == constant.Bool {
		return constant.BoolVal(tv.Value)
	}
	// a bool-typed operand used as a condition: with false < true its value follows from the ordering
	if s, k := e.sideOf(x); s != "" {
		if tx := e.info.TypeOf(x); tx == nil {
		} else if b, ok := tx.Underlying().(*types.Basic); ok && b.Info()&types.IsBoolean != 0 {
			o := e.ord[k]
			if s == "r" {
				o = -o
			}
			switch {
			case o > 0:
				return true
			case o < 0:
				return false
			}
			if e.eqBool != nil {
				return *e.eqBool
			}
			e.fail("bool operand %s tested although both sides are equal (value not determined by the ordering)", types.ExprString(x))
			return false
		}
	}
	switch v := x.(type) {
	case *ast.UnaryExpr:
		if v.Op == token.NOT {
			return !e.evalBool(v.X)
		}
	case *ast.BinaryExpr:
		switch v.Op {
		case token.LAND:
			return e.evalBool(v.X) && e.evalBool(v.Y)
		case token.LOR:
			return e.evalBool(v.X) || e.evalBool(v.Y)
		}
		// nil tests on abstract slices
		if id, ok := ast.Unparen(v.Y).(*ast.Ident); ok && id.Name == "nil" && (v.Op == token.EQL || v.Op == token.NEQ) {
			if s, k := e.sideOf(v.X); s != "" {
				if sl, ok := e.slices[s+":"+k]; ok {
					return sl.isNil == (v.Op == token.EQL)
				}
			}
		}
		// two records of operand fields compared as wholes: equal iff every field is
		if v.Op == token.EQL || v.Op == token.NEQ {
			if ra, rb := e.recOf(v.X), e.recOf(v.Y); ra != nil && rb != nil && len(ra.names) == len(rb.names) {
				all := true
				for _, nm := range ra.names {
					o, ok := e.cmpOperands(ra.exprs[nm], rb.exprs[nm])
					if !ok {
						e.fail("records %s and %s do not pair field %s of the two operands", types.ExprString(v.X), types.ExprString(v.Y), nm)
						return false
					}
					if o != 0 {
						all = false
					}
				}
				return all == (v.Op == token.EQL)
			}
		}
		// direct comparison of the two operands
		if o, ok := e.cmpOperands(v.X, v.Y); ok {
			switch v.Op {
			case token.EQL:
				return o == 0
			case token.NEQ:
				return o != 0
			case token.LSS:
				return o < 0
			case token.LEQ:
				return o <= 0
			case token.GTR:
				return o > 0
			case token.GEQ:
				return o >= 0
			}
		}
		// bool == false / == true
		if tv, ok := e.info.Types[v.Y]; ok && tv.Value != nil && tv.Value.Kind() == constant.Bool && (v.Op == token.EQL || v.Op == token.NEQ) {
			b := e.evalBool(v.X)
			return (b == constant.BoolVal(tv.Value)) == (v.Op == token.EQL)
		}
		var a, b int64
		if v.Op == token.EQL || v.Op == token.NEQ {
			// f(l) == f(r) with l, r equal booleans: the same in both worlds or not decided
			d := e.bothWorlds(func() int64 {
				if e.evalInt(v.X) == e.evalInt(v.Y) {
					return 1
				}
				return 0
			})
			return (d == 1) == (v.Op == token.EQL)
		}
		a, b = e.evalInt(v.X), e.evalInt(v.Y)
		switch v.Op {
		case token.EQL:
			return a == b
		case token.NEQ:
			return a != b
		case token.LSS:
			return a < b
		case token.LEQ:
			return a <= b
		case token.GTR:
			return a > b
		case token.GEQ:
			return a >= b
		}
	case *ast.CallExpr:
		fn := stripSpaces(types.ExprString(v.Fun))
		if strings.HasPrefix(fn, "compare.Equal") && len(v.Args) == 2 {
			if o, ok := e.cmpOperands(v.Args[0], v.Args[1]); ok {
				return o == 0
			}
		}
	}
	e.fail("cannot evaluate condition %s over the ordering domain", types.ExprString(x))
	return false
}

type ordResult struct {
	isBool bool
	b      bool
	n      int64
	multi  []ordResult // results of a multi-value return
	// unknown: this component of a multi-value return is outside the fragment (w.t.Year() beside a
	// constant width): left unassigned by the caller, the others keep their values
	unknown bool
}

// run interprets a statement list; returns (result, returned).
func (e *ordEval) run(list []ast.Stmt) (ordResult, bool) {
	for _, s := range list {
		e.steps++
		if e.err != "" || e.steps > 2000 {
			if e.err == "" {
				e.fail("step budget")
			}
			return ordResult{}, true
		}
		switch v := s.(type) {
		case *ast.ReturnStmt:
			if len(v.Results) > 1 {
				var out ordResult
				for _, re := range v.Results {
					saved := e.err
					var comp ordResult
					if b, ok := e.info.TypeOf(re).Underlying().(*types.Basic); ok && b.Info()&types.IsBoolean != 0 {
						comp = ordResult{isBool: true, b: e.evalBool(re)}
					} else {
						comp = ordResult{n: e.evalInt(re)}
					}
					if saved == "" && e.err != "" {
						e.err = ""
						comp = ordResult{unknown: true}
					}
					out.multi = append(out.multi, comp)
				}
				return out, true
			}
			if len(v.Results) != 1 {
				e.fail("return with %d results", len(v.Results))
				return ordResult{}, true
			}
			if call, ok := ast.Unparen(v.Results[0]).(*ast.CallExpr); ok && e.depth < 6 {
				// a function literal called where it stands (a callback parameter replaced by the literal)
				if lit, isLit := ast.Unparen(call.Fun).(*ast.FuncLit); isLit && len(call.Args) == 0 {
					e.depth++
					res, ret := e.run(lit.Body.List)
					e.depth--
					if !ret {
						e.fail("function literal falls off its end")
					}
					return res, true
				}
			}
			if call, ok := ast.Unparen(v.Results[0]).(*ast.CallExpr); ok && e.inl != nil && e.depth < 4 {
				if body := e.inl.Body(call); body != nil {
					e.depth++
					res, ret := e.run(body.List)
					e.depth--
					if !ret {
						e.fail("helper %s falls off its end", types.ExprString(call.Fun))
					}
					return res, true
				}
			}
			if b, ok := e.info.TypeOf(v.Results[0]).Underlying().(*types.Basic); ok && b.Info()&types.IsBoolean != 0 {
				return ordResult{isBool: true, b: e.evalBool(v.Results[0])}, true
			}
			return ordResult{n: e.evalInt(v.Results[0])}, true
		case *ast.DeclStmt:
			if gd, ok := v.Decl.(*ast.GenDecl); ok {
				for _, sp := range gd.Specs {
					if vs, ok := sp.(*ast.ValueSpec); ok {
						for i, nm := range vs.Names {
							var n int64
							if i < len(vs.Values) {
								n = e.evalInt(vs.Values[i])
							}
							e.ints[e.info.Defs[nm]] = n
						}
					}
				}
			}
		case *ast.AssignStmt:
			// a, ok := helper(args): the helper is interpreted with its parameters bound
			if len(v.Lhs) > 1 && len(v.Rhs) == 1 && e.callee != nil && e.depth < 4 {
				if call, isCall := ast.Unparen(v.Rhs[0]).(*ast.CallExpr); isCall {
					if params, body := e.callee(call); body != nil && len(params) == len(call.Args) {
						sub := &ordEval{info: e.info, side: e.side, ord: e.ord, slices: e.slices, bools: map[string]bool{}, ints: map[types.Object]int64{}, callee: e.callee, depth: e.depth + 1, eqBool: e.eqBool}
						for k, val := range e.ints {
							sub.ints[k] = val
						}
						for k, val := range e.bools {
							sub.bools[k] = val
						}
						for i, po := range params {
							sub.ints[po] = e.evalInt(call.Args[i])
						}
						res, ret := sub.run(body.List)
						if sub.err != "" || !ret || len(res.multi) != len(v.Lhs) {
							e.fail("helper %s outside the fragment: %s", types.ExprString(call.Fun), sub.err)
							return ordResult{}, true
						}
						for i, l := range v.Lhs {
							id, isId := l.(*ast.Ident)
							if !isId || id.Name == "_" {
								continue
							}
							if res.multi[i].unknown {
								delete(e.ints, e.info.ObjectOf(id))
								delete(e.bools, id.Name)
							} else if res.multi[i].isBool {
								e.bools[id.Name] = res.multi[i].b
							} else {
								e.ints[e.info.ObjectOf(id)] = res.multi[i].n
							}
						}
						continue
					}
				}
			}
			// a, b := x, y: independent pairs
			if len(v.Lhs) > 1 && len(v.Lhs) == len(v.Rhs) {
				for i := range v.Lhs {
					if res, ret := e.run([]ast.Stmt{&ast.AssignStmt{Lhs: []ast.Expr{v.Lhs[i]}, Tok: v.Tok, TokPos: v.TokPos, Rhs: []ast.Expr{v.Rhs[i]}}}); ret {
						return res, true
					}
				}
				continue
			}
			if len(v.Lhs) == 1 && len(v.Rhs) == 1 {
				if id, ok := v.Lhs[0].(*ast.Ident); ok {
					if r := e.recOf(v.Rhs[0]); r != nil {
						if e.recs == nil {
							e.recs = map[types.Object]*ordRecord{}
						}
						e.recs[e.info.ObjectOf(id)] = r
						continue
					}
					// aliases of the operands (that := o.(*T)) are resolved by side(); integer locals evaluated
					if s, _ := e.sideOf(v.Rhs[0]); s != "" {
						if e.alias == nil {
							e.alias = map[types.Object]ast.Expr{}
						}
						e.alias[e.info.ObjectOf(id)] = v.Rhs[0]
						continue
					}
					if _, isPtr := e.info.TypeOf(v.Rhs[0]).Underlying().(*types.Pointer); isPtr {
						continue
					}
					e.ints[e.info.ObjectOf(id)] = e.evalInt(v.Rhs[0])
					continue
				}
			}
			e.fail("unsupported assignment %s", types.ExprString(v.Lhs[0]))
		case *ast.IncDecStmt:
			if id, ok := v.X.(*ast.Ident); ok {
				if v.Tok == token.INC {
					e.ints[e.info.ObjectOf(id)]++
				} else {
					e.ints[e.info.ObjectOf(id)]--
				}
			}
		case *ast.IfStmt:
			if v.Init != nil {
				if res, ret := e.run([]ast.Stmt{v.Init}); ret {
					return res, true
				}
			}
			if e.evalBool(v.Cond) {
				if res, ret := e.run(v.Body.List); ret {
					return res, true
				}
			} else if v.Else != nil {
				if res, ret := e.run([]ast.Stmt{v.Else}); ret {
					return res, true
				}
			}
		case *ast.BlockStmt:
			if res, ret := e.run(v.List); ret {
				return res, true
			}
		case *ast.RangeStmt:
			// for i, x := range <operand slice or a re-slice of it>: one iteration per element of the
			// abstract slice (bounded by the re-slice's upper bound), x standing for operand[i]
			sd, k := e.sideOf(v.X)
			sl, known := e.slices[sd+":"+k]
			if sd == "" || !known {
				e.fail("range over something that is not an operand slice: %s", types.ExprString(v.X))
				return ordResult{}, true
			}
			n := int64(sl.n)
			base := ast.Unparen(v.X)
			if se, ok := base.(*ast.SliceExpr); ok {
				base = se.X
				if se.High != nil {
					if h := e.evalInt(se.High); h < n {
						n = h
					}
				}
				if se.Low != nil {
					if lo := e.evalInt(se.Low); lo != 0 {
						e.fail("range over a re-slice that does not start at 0")
						return ordResult{}, true
					}
				}
			}
			if e.err != "" {
				return ordResult{}, true
			}
			for i := int64(0); i < n; i++ {
				idx := ast.Expr(&ast.BasicLit{Kind: token.INT, Value: fmt.Sprint(i)})
				if kid, ok := v.Key.(*ast.Ident); ok && kid.Name != "_" {
					e.ints[e.info.ObjectOf(kid)] = i
					idx = kid
				}
				if vid, ok := v.Value.(*ast.Ident); ok && vid.Name != "_" {
					if e.alias == nil {
						e.alias = map[types.Object]ast.Expr{}
					}
					e.alias[e.info.ObjectOf(vid)] = &ast.IndexExpr{X: base, Index: idx}
				}
				if res, ret := e.run(v.Body.List); ret {
					return res, true
				}
				if e.err != "" {
					return ordResult{}, true
				}
			}
		case *ast.SwitchStmt:
			if v.Init != nil {
				if res, ret := e.run([]ast.Stmt{v.Init}); ret {
					return res, true
				}
			}
			var tagVal int64
			if v.Tag != nil {
				tagVal = e.evalInt(v.Tag)
				if e.err != "" {
					return ordResult{}, true
				}
			}
			taken := false
			var def *ast.CaseClause
			for _, c := range v.Body.List {
				cl := c.(*ast.CaseClause)
				if cl.List == nil {
					def = cl
					continue
				}
				for _, ce := range cl.List {
					match := false
					if !taken {
						if v.Tag != nil {
							match = e.evalInt(ce) == tagVal
						} else {
							match = e.evalBool(ce)
						}
					}
					if match {
						taken = true
						if res, ret := e.run(cl.Body); ret {
							return res, true
						}
					}
				}
				if taken {
					break
				}
			}
			if !taken && def != nil {
				if res, ret := e.run(def.Body); ret {
					return res, true
				}
			}
		case *ast.ForStmt:
			if v.Init != nil {
				e.run([]ast.Stmt{v.Init})
			}
			for iter := 0; iter < 4; iter++ {
				if v.Cond != nil && !e.evalBool(v.Cond) {
					break
				}
				if res, ret := e.run(v.Body.List); ret {
					return res, true
				}
				if v.Post != nil {
					e.run([]ast.Stmt{v.Post})
				}
				if e.err != "" {
					return ordResult{}, true
				}
			}
		case *ast.ExprStmt:
			// calls for effect are outside the fragment unless they are pure (ignored): be strict
			e.fail("statement with side effects: %s", types.ExprString(v.X))
		default:
			e.fail("unsupported statement %T", s)
		}
	}
	return ordResult{}, false
}

func sign64(n int64) int {
	switch {
	case n < 0:
		return -1
	case n > 0:
		return 1
	}
	return 0
}


// rankDiff: a and b are tbl[l] and tbl[r] over the same package-level table with constant boolean
// keys, l and r the two sides of one key of boolean type.
func (e *ordEval) rankDiff(a, b ast.Expr) (int64, bool) {
	ia, ok1 := ast.Unparen(a).(*ast.IndexExpr)
	ib, ok2 := ast.Unparen(b).(*ast.IndexExpr)
	if !ok1 || !ok2 {
		return 0, false
	}
	ta, ok1 := ast.Unparen(ia.X).(*ast.Ident)
	tb, ok2 := ast.Unparen(ib.X).(*ast.Ident)
	if !ok1 || !ok2 || e.info.ObjectOf(ta) != e.info.ObjectOf(tb) {
		return 0, false
	}
	tv, _ := e.info.ObjectOf(ta).(*types.Var)
	if tv == nil || tv.Pkg() == nil || tv.Parent() != tv.Pkg().Scope() {
		return 0, false
	}
	o, ok := e.cmpOperands(ia.Index, ib.Index)
	if !ok {
		return 0, false
	}
	if t := e.info.TypeOf(ia.Index); t == nil {
		return 0, false
	} else if bt, isB := t.Underlying().(*types.Basic); !isB || bt.Info()&types.IsBoolean == 0 {
		return 0, false
	}
	if o == 0 {
		return 0, true
	}
	// the table's entries for false and true
	var lit *ast.CompositeLit
	if curProg != nil {
		for _, fi := range curProg.Funcs {
			if fi.Pkg.Types != tv.Pkg() {
				continue
			}
			for _, f := range fi.Pkg.Syntax {
				for _, d := range f.Decls {
					gd, ok := d.(*ast.GenDecl)
					if !ok || gd.Tok != token.VAR {
						continue
					}
					for _, sp := range gd.Specs {
						vs := sp.(*ast.ValueSpec)
						for i, nm := range vs.Names {
							if fi.Pkg.TypesInfo.Defs[nm] == types.Object(tv) && i < len(vs.Values) {
								lit, _ = ast.Unparen(vs.Values[i]).(*ast.CompositeLit)
							}
						}
					}
				}
			}
			break
		}
	}
	if lit == nil {
		return 0, false
	}
	vals := map[bool]int64{}
	for _, el := range lit.Elts {
		kv, ok := el.(*ast.KeyValueExpr)
		if !ok {
			return 0, false
		}
		ktv, ok1 := e.info.Types[kv.Key]
		vtv, ok2 := e.info.Types[kv.Value]
		if !ok1 || !ok2 || ktv.Value == nil || vtv.Value == nil || ktv.Value.Kind() != constant.Bool {
			return 0, false
		}
		n, _ := constant.Int64Val(constant.ToInt(vtv.Value))
		vals[constant.BoolVal(ktv.Value)] = n
	}
	if len(vals) != 2 {
		return 0, false
	}
	if o < 0 {
		return vals[false] - vals[true], true
	}
	return vals[true] - vals[false], true
}

// bothWorlds evaluates f; when that fails only because a boolean operand whose sides are equal was
// tested, f is evaluated with all such operands false and with all of them true, and both must agree.
func (e *ordEval) bothWorlds(f func() int64) int64 {
	if e.eqBool != nil {
		return f()
	}
	saved := e.err
	r := f()
	if e.err == saved {
		return r
	}
	if !strings.Contains(e.err, "value not determined by the ordering") {
		return r
	}
	e.err = saved
	t, fl := true, false
	e.eqBool = &fl
	r1 := f()
	e.eqBool = &t
	r2 := f()
	e.eqBool = nil
	if e.err != saved {
		return 0
	}
	if r1 != r2 {
		e.fail("the result depends on the value of boolean operands that are equal on both sides")
		return 0
	}
	return r1
}

// tableEntry: x is T[i]…[k] over a stable package-level array literal of integer constants.
func (e *ordEval) tableEntry(x *ast.IndexExpr) (int64, bool) {
	var idx []ast.Expr
	var base ast.Expr = x
	for {
		ix, ok := ast.Unparen(base).(*ast.IndexExpr)
		if !ok {
			break
		}
		idx = append([]ast.Expr{ix.Index}, idx...)
		base = ix.X
	}
	id, ok := ast.Unparen(base).(*ast.Ident)
	if !ok || curProg == nil {
		return 0, false
	}
	tv, _ := e.info.ObjectOf(id).(*types.Var)
	if tv == nil || tv.Pkg() == nil || tv.Parent() != tv.Pkg().Scope() {
		return 0, false
	}
	ce := &constEvaluator{p: curProg}
	if !ce.pkgVarStable(tv) {
		return 0, false
	}
	var lit *ast.CompositeLit
	var linfo *types.Info
	for _, pk := range curProg.Pkgs {
		if pk.Types != tv.Pkg() {
			continue
		}
		for _, f := range pk.Syntax {
			for _, d := range f.Decls {
				gd, ok := d.(*ast.GenDecl)
				if !ok || gd.Tok != token.VAR {
					continue
				}
				for _, sp := range gd.Specs {
					vs := sp.(*ast.ValueSpec)
					for i, nm := range vs.Names {
						if pk.TypesInfo.Defs[nm] == types.Object(tv) && i < len(vs.Values) && len(vs.Values) == len(vs.Names) {
							lit, _ = ast.Unparen(vs.Values[i]).(*ast.CompositeLit)
							linfo = pk.TypesInfo
						}
					}
				}
			}
		}
	}
	if lit == nil {
		return 0, false
	}
	okAll := true
	res := e.bothWorlds(func() int64 {
		cur := lit
		for depth, ie := range idx {
			n := e.evalInt(ie)
			if e.err != "" {
				return 0
			}
			if _, isArr := linfo.TypeOf(cur).Underlying().(*types.Array); !isArr {
				okAll = false
				return 0
			}
			if n < 0 || int(n) >= len(cur.Elts) {
				okAll = false
				return 0
			}
			el := cur.Elts[n]
			if _, isKV := el.(*ast.KeyValueExpr); isKV {
				okAll = false
				return 0
			}
			if depth == len(idx)-1 {
				etv, ok := linfo.Types[el]
				if !ok || etv.Value == nil {
					okAll = false
					return 0
				}
				v, ok := constant.Int64Val(constant.ToInt(etv.Value))
				if !ok {
					okAll = false
				}
				return v
			}
			nx, ok := ast.Unparen(el).(*ast.CompositeLit)
			if !ok {
				okAll = false
				return 0
			}
			cur = nx
		}
		okAll = false
		return 0
	})
	if !okAll || e.err != "" {
		return 0, false
	}
	return res, true
}
