package props

import (
	"fmt"
	"go/ast"
	"go/constant"
	"go/types"
	"strings"

	"golibcheck/internal/core"
	"golibcheck/internal/paths"
)

func isSyncLockCall(info *types.Info, call *ast.CallExpr) bool {
	sel, ok := ast.Unparen(call.Fun).(*ast.SelectorExpr)
	if !ok {
		return false
	}
	fn, _ := info.Uses[sel.Sel].(*types.Func)
	return fn != nil && fn.Pkg() != nil && fn.Pkg().Path() == "sync" && (fn.Name() == "Lock" || fn.Name() == "RLock")
}

// c18ApplyAtomic: a reload replaces the configuration in one step as far as readers can tell. Every
// loop of the file configuration that stores entries into a map field of the configuration runs
// inside one critical section: the configuration's lock is not taken (and given up) inside the loop
// body, entry by entry — between two entries a reader would see part of the new file and part of
// the old one.
func c18ApplyAtomic(p *core.Program, r *core.Report) {
	pk := p.Pkg("config/conffile")
	if pk == nil {
		return
	}
	for _, fi := range p.Funcs {
		if fi.Pkg != pk || fi.Decl.Body == nil || core.RecvNamed(fi.Obj) == nil {
			continue
		}
		info := fi.Pkg.TypesInfo
		rn := recvName(fi)
		ast.Inspect(fi.Decl.Body, func(n ast.Node) bool {
			var body *ast.BlockStmt
			switch v := n.(type) {
			case *ast.RangeStmt:
				body = v.Body
			case *ast.ForStmt:
				body = v.Body
			default:
				return true
			}
			stores, locksIn := false, ""
			ast.Inspect(body, func(m ast.Node) bool {
				switch w := m.(type) {
				case *ast.FuncLit:
					return false
				case *ast.AssignStmt:
					for _, l := range w.Lhs {
						ix, ok := ast.Unparen(l).(*ast.IndexExpr)
						if !ok {
							continue
						}
						sel, ok := ast.Unparen(ix.X).(*ast.SelectorExpr)
						if !ok {
							continue
						}
						if id, ok := ast.Unparen(sel.X).(*ast.Ident); ok && id.Name == rn {
							if _, isMap := info.TypeOf(sel).Underlying().(*types.Map); isMap {
								stores = true
							}
						}
					}
				case *ast.CallExpr:
					if isSyncLockCall(info, w) {
						locksIn = p.Pos(w.Pos())
					}
				}
				return true
			})
			if stores {
				r.Check(locksIn == "", "C18.apply-atomic", core.FuncName(fi.Obj)+" entry loop", p.Pos(n.Pos()), "the loop storing the entries takes no lock of its own (one critical section around it)",
					"the loop that stores the entries takes the lock per entry (at "+locksIn+"): between two entries readers see part of the new file and part of the old one")
			}
			return true
		})
	}
}

// c18Observers: whoever registers is notified. Add(cls, x) makes x the observer registered under
// cls on every path (a later registration under a name replaces the earlier one: clients register
// again each time they are re-created); Run calls ApplyConfig on every registered observer (the call
// is not under a condition inside its loop).
func c18Observers(p *core.Program, r *core.Report) {
	add := p.Method("config", "ConfigObserver", "Add")
	if add == nil || add.Decl.Body == nil || add.Decl.Type.Params.NumFields() < 2 {
		r.Undec("C18.observers", "config.ConfigObserver.Add", "-", "Add(cls, observer) not found")
	} else {
		info := add.Pkg.TypesInfo
		var params []types.Object
		for _, f := range add.Decl.Type.Params.List {
			for _, n := range f.Names {
				params = append(params, info.Defs[n])
			}
		}
		in := newInliner(p, add, nil)
		ps, over := paths.Enumerate(add.Decl.Body, paths.Config{Info: info, Inline: in.Body, Expand: in.Expand,
			Classify: func(n ast.Node) []paths.Event {
				as, ok := n.(*ast.AssignStmt)
				if !ok {
					return nil
				}
				var out []paths.Event
				// the observer handed in is stored into the state of the registry: a map slot, a field of
				// a remembered entry, an entry appended to a list
				mentions := false
				for _, rh := range as.Rhs {
					ast.Inspect(rh, func(m ast.Node) bool {
						if id, ok := m.(*ast.Ident); ok && len(params) >= 2 && info.ObjectOf(id) == params[1] {
							mentions = true
						}
						return true
					})
				}
				if !mentions {
					return nil
				}
				for _, l := range as.Lhs {
					if root := rootOf(l); root != nil && root.Name == recvName(add) {
						out = append(out, paths.Event{Kind: "REGISTER", Pos: as.Pos()})
					}
				}
				return out
			}})
		bad := ""
		if over {
			bad = "too many paths"
		}
		for _, pa := range ps {
			if pa.Has("PANIC") {
				continue
			}
			if !pa.Has("REGISTER") {
				bad = "a path through Add returns without storing the observer under its name (" + pa.String() + "): an object registered under a name already in use is never notified"
			}
		}
		r.Check(bad == "", "C18.observers", "config.ConfigObserver.Add", p.Pos(add.Decl.Pos()), "stores the observer under its name on every path", bad)
	}
	run := p.Method("config", "ConfigObserver", "Run")
	if run == nil || run.Decl.Body == nil {
		r.Undec("C18.observers", "config.ConfigObserver.Run", "-", "Run not found")
		return
	}
	// the ApplyConfig call sits directly in a loop body (not under an if / switch inside the loop)
	found, conditional := false, false
	var stack []ast.Node
	// Run and the functions of the package it is split into
	bodies := []*core.FuncInfo{run}
	seenFn := map[*core.FuncInfo]bool{run: true}
	for i := 0; i < len(bodies) && i < 8; i++ {
		bf := bodies[i]
		ast.Inspect(bf.Decl.Body, func(n ast.Node) bool {
			if call, ok := n.(*ast.CallExpr); ok {
				if fn := calleeFunc(bf.Pkg.TypesInfo, call); fn != nil {
					if cf := p.FuncOf(fn); cf != nil && cf.Decl.Body != nil && cf.Pkg == run.Pkg && !seenFn[cf] {
						seenFn[cf] = true
						bodies = append(bodies, cf)
					}
				}
			}
			return true
		})
	}
	for _, bf := range bodies {
		stack = nil
		ast.Inspect(bf.Decl.Body, func(n ast.Node) bool {
			if n == nil {
				stack = stack[:len(stack)-1]
				return true
			}
			stack = append(stack, n)
			if call, ok := n.(*ast.CallExpr); ok {
				if sel, ok := call.Fun.(*ast.SelectorExpr); ok && sel.Sel.Name == "ApplyConfig" {
					found = true
				outward:
					for i := len(stack) - 2; i >= 0; i-- {
						switch stack[i].(type) {
						case *ast.RangeStmt, *ast.ForStmt:
							break outward
						case *ast.IfStmt:
							// a nil test of the observer itself skips nobody who can be notified
							c := stripSpaces(types.ExprString(stack[i].(*ast.IfStmt).Cond))
							if !(strings.HasSuffix(c, "!=nil") && !strings.ContainsAny(c, "&|")) {
								conditional = true
							}
						case *ast.SwitchStmt, *ast.TypeSwitchStmt:
							conditional = true
						}
					}
				}
			}
			return true
		})
	}
	switch {
	case !found:
		r.Viol("C18.observers", "config.ConfigObserver.Run", p.Pos(run.Decl.Pos()), "Run does not call ApplyConfig on the registered observers")
	case conditional:
		r.Viol("C18.observers", "config.ConfigObserver.Run", p.Pos(run.Decl.Pos()), "the ApplyConfig call is under a condition inside the loop over the observers: some registered observers are not notified")
	default:
		r.OK("C18.observers", "config.ConfigObserver.Run", p.Pos(run.Decl.Pos()), "ApplyConfig on every element of the loop over the observers")
	}
}

// c18EscapeAll: written values read back unchanged only if the escaping applied on the way out is
// applied to every occurrence. Every strings.Replace of the file parser/writer replaces all
// occurrences (a negative count, or strings.ReplaceAll): a count of 1 escapes the first backslash of
// a value and leaves the others to be read back as escapes.
func c18EscapeAll(p *core.Program, r *core.Report) {
	pk := p.Pkg("config/conffile")
	if pk == nil {
		return
	}
	for _, fi := range p.Funcs {
		if fi.Pkg != pk || fi.Decl.Body == nil {
			continue
		}
		info := fi.Pkg.TypesInfo
		n := 0
		ast.Inspect(fi.Decl.Body, func(m ast.Node) bool {
			call, ok := m.(*ast.CallExpr)
			if !ok {
				return true
			}
			fn := calleeFunc(info, call)
			if fn == nil || fn.Pkg() == nil || fn.Pkg().Path() != "strings" {
				return true
			}
			if fn.Name() == "ReplaceAll" || (fn.Name() == "Replace" && len(call.Args) == 1) { // ReplaceAll, (*Replacer).Replace
				n++
				r.OK("C18.escape-all", fmt.Sprintf("%s strings.Replace #%d", core.FuncName(fi.Obj), n), p.Pos(call.Pos()), "replaces every occurrence")
				return true
			}
			if fn.Name() != "Replace" || len(call.Args) != 4 {
				return true
			}
			n++
			c := fmt.Sprintf("%s strings.Replace #%d", core.FuncName(fi.Obj), n)
			tv, ok := info.Types[call.Args[3]]
			if !ok || tv.Value == nil {
				r.OK("C18.escape-all", c, p.Pos(call.Pos()), "count is not a constant (not judged)")
				return true
			}
			k, _ := constant.Int64Val(constant.ToInt(tv.Value))
			r.Check(k < 0, "C18.escape-all", c, p.Pos(call.Pos()), "replaces every occurrence",
				fmt.Sprintf("replaces only the first %d occurrence(s) of %s: a value with more of them is written half-escaped and does not read back as it was written", k, types.ExprString(call.Args[1])))
			return true
		})
	}
}

// c18Decimal: the typed getters read decimal numbers. Every strconv.ParseInt/ParseUint of the file
// configuration names base 10: base 0 lets the text choose (a leading 0 reads as octal, 0x/0b/_ are
// accepted), so a value the file holds as a decimal number comes out as another number, and texts
// that are malformed as decimals no longer fall back to the default.
func c18Decimal(p *core.Program, r *core.Report) {
	pk := p.Pkg("config/conffile")
	if pk == nil {
		return
	}
	for _, fi := range p.Funcs {
		if fi.Pkg != pk || fi.Decl.Body == nil {
			continue
		}
		info := fi.Pkg.TypesInfo
		n := 0
		ast.Inspect(fi.Decl.Body, func(m ast.Node) bool {
			call, ok := m.(*ast.CallExpr)
			if !ok || len(call.Args) != 3 {
				return true
			}
			fn := calleeFunc(info, call)
			if fn == nil || fn.Pkg() == nil || fn.Pkg().Path() != "strconv" || (fn.Name() != "ParseInt" && fn.Name() != "ParseUint") {
				return true
			}
			n++
			c := fmt.Sprintf("%s strconv.%s #%d", core.FuncName(fi.Obj), fn.Name(), n)
			k, isC := constIntOf(info, call.Args[1])
			r.Check(isC && k == 10, "C18.getters", c, p.Pos(call.Pos()), "base 10",
				"the number is not parsed in base 10 ("+types.ExprString(call.Args[1])+"): with base 0 a leading zero means octal and 0x/0b/_ are accepted, so a decimal value in the file is read as another number and malformed decimals no longer fall back to the default")
			return true
		})
	}
}

// c18SyncWrite: when SetValues returns, the file holds the merged values. The write-back is not
// handed to a goroutine: no `go` statement in SetValues or the functions of the package it calls.
func c18SyncWrite(p *core.Program, r *core.Report) {
	sv := p.Method("config/conffile", "FileConfig", "SetValues")
	if sv == nil || sv.Decl.Body == nil {
		return
	}
	seen := map[*core.FuncInfo]bool{}
	bad := ""
	var scan func(fi *core.FuncInfo, depth int)
	scan = func(fi *core.FuncInfo, depth int) {
		if fi == nil || fi.Decl.Body == nil || seen[fi] || depth > 3 {
			return
		}
		seen[fi] = true
		ast.Inspect(fi.Decl.Body, func(n ast.Node) bool {
			switch v := n.(type) {
			case *ast.GoStmt:
				bad = "starts a goroutine at " + p.Pos(v.Pos())
			case *ast.CallExpr:
				if fn := calleeFunc(fi.Pkg.TypesInfo, v); fn != nil {
					if cf := p.FuncOf(fn); cf != nil && cf.Pkg == sv.Pkg {
						scan(cf, depth+1)
					}
				}
			}
			return true
		})
	}
	scan(sv, 0)
	r.Check(bad == "", "C18.merge", "config/conffile.(*FileConfig).SetValues synchronous", p.Pos(sv.Decl.Pos()), "the write-back has happened when SetValues returns",
		"SetValues "+bad+": when it returns the file may still hold the old values, and two write-backs started one after the other work from stale snapshots and overwrite each other")
}
