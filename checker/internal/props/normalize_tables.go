package props

import (
	"go/ast"
	"go/token"
	"go/types"

	"golibcheck/internal/core"
	"golibcheck/internal/paths"
)

// normalizeLayoutTables puts two table-driven idioms back into the switch they stand for, so that the
// engines that read statements see which statements run for which tag:
//
//  1. `for _, f := range TABLE[E] { body }` with TABLE a package-level map (or array/slice) of slices
//     written as one literal with constant keys and constant elements and never assigned afterwards:
//     `switch E { case k1: body[f:=e11]; body[f:=e12]; …  case k2: … }` — E is evaluated once, a key
//     without an entry runs nothing (ranging over the nil slice).
//  2. a statement `x.set(K, args…)` calling an unexported function or method of the same package whose
//     body is one switch over a parameter with constant cases and plain assignments/calls in the arms,
//     with a constant K: the arm K selects, parameters replaced by the arguments (an argument with
//     effects must be used exactly once in that arm).
func normalizeLayoutTables(p *core.Program) {
	ce := &constEvaluator{p: p}
	for _, fi := range p.Funcs {
		if fi.Decl.Body == nil {
			continue
		}
		t := &tableRewriter{p: p, ce: ce, fi: fi, info: fi.Pkg.TypesInfo}
		t.block(fi.Decl.Body, 0)
	}
}

type tableRewriter struct {
	p    *core.Program
	ce   *constEvaluator
	fi   *core.FuncInfo
	info *types.Info
}

func (t *tableRewriter) block(b *ast.BlockStmt, depth int) {
	if b == nil || depth > 10 {
		return
	}
	for i := 0; i < len(b.List); i++ {
		if nb := t.rangeOverTable(b.List[i]); nb != nil {
			b.List[i] = nb
		}
		if nb := t.constDispatch(b.List[i]); nb != nil {
			b.List[i] = nb
		}
		switch v := b.List[i].(type) {
		case *ast.BlockStmt:
			t.block(v, depth+1)
		case *ast.IfStmt:
			t.block(v.Body, depth+1)
			for e := v.Else; e != nil; {
				switch x := e.(type) {
				case *ast.BlockStmt:
					t.block(x, depth+1)
					e = nil
				case *ast.IfStmt:
					t.block(x.Body, depth+1)
					e = x.Else
				default:
					e = nil
				}
			}
		case *ast.ForStmt:
			t.block(v.Body, depth+1)
		case *ast.RangeStmt:
			t.block(v.Body, depth+1)
		case *ast.SwitchStmt:
			for _, c := range v.Body.List {
				if cc, ok := c.(*ast.CaseClause); ok {
					blk := &ast.BlockStmt{List: cc.Body}
					t.block(blk, depth+1)
					cc.Body = blk.List
				}
			}
		}
	}
}

// tableLiteral: the composite literal a stable package-level variable is initialised with.
func (t *tableRewriter) tableLiteral(e ast.Expr) (*ast.CompositeLit, *types.Info) {
	id, ok := ast.Unparen(e).(*ast.Ident)
	if !ok {
		return nil, nil
	}
	v, ok := t.info.ObjectOf(id).(*types.Var)
	if !ok || v.Pkg() == nil || v.Parent() != v.Pkg().Scope() || !t.ce.pkgVarStable(v) {
		return nil, nil
	}
	for _, pk := range t.p.Pkgs {
		if pk.Types != v.Pkg() {
			continue
		}
		for _, f := range pk.Syntax {
			for _, d := range f.Decls {
				gd, ok := d.(*ast.GenDecl)
				if !ok || gd.Tok != token.VAR {
					continue
				}
				for _, sp := range gd.Specs {
					vs := sp.(*ast.ValueSpec)
					for i, nm := range vs.Names {
						if pk.TypesInfo.Defs[nm] == v && len(vs.Values) == len(vs.Names) {
							cl, _ := ast.Unparen(vs.Values[i]).(*ast.CompositeLit)
							return cl, pk.TypesInfo
						}
					}
				}
			}
		}
	}
	return nil, nil
}

func isConstExpr(info *types.Info, e ast.Expr) bool {
	tv, ok := info.Types[e]
	return ok && tv.Value != nil
}

func (t *tableRewriter) rangeOverTable(st ast.Stmt) ast.Stmt {
	rs, ok := st.(*ast.RangeStmt)
	if !ok || rs.Tok != token.DEFINE || rs.Value == nil {
		return nil
	}
	if k, isId := rs.Key.(*ast.Ident); !isId || k.Name != "_" {
		return nil
	}
	val, ok := rs.Value.(*ast.Ident)
	if !ok {
		return nil
	}
	ix, ok := ast.Unparen(rs.X).(*ast.IndexExpr)
	if !ok {
		return nil
	}
	cl, tinfo := t.tableLiteral(ix.X)
	if cl == nil || tinfo != t.info || len(cl.Elts) == 0 || len(cl.Elts) > 64 {
		return nil
	}
	if _, isMap := t.info.TypeOf(ix.X).Underlying().(*types.Map); !isMap {
		return nil // positional tables: not needed so far
	}
	valObj := t.info.Defs[val]
	if valObj == nil {
		return nil
	}
	// the body must not assign the range variable, leave the loop early or skip
	bad := false
	ast.Inspect(rs.Body, func(n ast.Node) bool {
		switch x := n.(type) {
		case *ast.BranchStmt, *ast.ReturnStmt, *ast.DeferStmt, *ast.GoStmt, *ast.FuncLit, *ast.LabeledStmt:
			bad = true
		case *ast.AssignStmt:
			for _, l := range x.Lhs {
				if id, ok := ast.Unparen(l).(*ast.Ident); ok && t.info.ObjectOf(id) == valObj {
					bad = true
				}
			}
			if x.Tok == token.DEFINE {
				bad = true // locals of the body would be declared once per copy
			}
		case *ast.UnaryExpr:
			if x.Op == token.AND {
				if id, ok := ast.Unparen(x.X).(*ast.Ident); ok && t.info.ObjectOf(id) == valObj {
					bad = true
				}
			}
		}
		return !bad
	})
	if bad {
		return nil
	}
	sw := &ast.SwitchStmt{Switch: rs.For, Tag: ix.Index, Body: &ast.BlockStmt{Lbrace: rs.Body.Lbrace, Rbrace: rs.Body.Rbrace}}
	for _, el := range cl.Elts {
		kv, ok := el.(*ast.KeyValueExpr)
		if !ok || !isConstExpr(t.info, kv.Key) {
			return nil
		}
		row, ok := ast.Unparen(kv.Value).(*ast.CompositeLit)
		if !ok || len(row.Elts) > 32 {
			return nil
		}
		cc := &ast.CaseClause{Case: kv.Pos(), List: []ast.Expr{kv.Key}, Colon: kv.Colon}
		for _, e := range row.Elts {
			if _, isKV := e.(*ast.KeyValueExpr); isKV || !isConstExpr(t.info, e) {
				return nil
			}
			body, _ := paths.Subst(t.info, rs.Body, map[types.Object]ast.Expr{valObj: e}).(*ast.BlockStmt)
			if body == nil {
				return nil
			}
			if body == rs.Body {
				body = &ast.BlockStmt{Lbrace: body.Lbrace, List: append([]ast.Stmt{}, body.List...), Rbrace: body.Rbrace}
			}
			cc.Body = append(cc.Body, body.List...)
		}
		sw.Body.List = append(sw.Body.List, cc)
	}
	return sw
}

func (t *tableRewriter) constDispatch(st ast.Stmt) ast.Stmt {
	es, ok := st.(*ast.ExprStmt)
	if !ok {
		return nil
	}
	call, ok := ast.Unparen(es.X).(*ast.CallExpr)
	if !ok || call.Ellipsis.IsValid() {
		return nil
	}
	var id *ast.Ident
	var recv ast.Expr
	switch f := ast.Unparen(call.Fun).(type) {
	case *ast.Ident:
		id = f
	case *ast.SelectorExpr:
		id, recv = f.Sel, f.X
	}
	if id == nil {
		return nil
	}
	fn, _ := t.info.Uses[id].(*types.Func)
	if fn == nil || fn.Exported() || fn.Pkg() != t.fi.Obj.Pkg() || fn == t.fi.Obj {
		return nil
	}
	hf := t.p.FuncOf(fn)
	if hf == nil || hf.Decl.Body == nil || len(hf.Decl.Body.List) != 1 || hf.Pkg != t.fi.Pkg {
		return nil
	}
	sig := fn.Type().(*types.Signature)
	if sig.Variadic() || sig.Results().Len() != 0 {
		return nil
	}
	sw, ok := hf.Decl.Body.List[0].(*ast.SwitchStmt)
	if !ok || sw.Init != nil || sw.Tag == nil {
		return nil
	}
	tagID, ok := ast.Unparen(sw.Tag).(*ast.Ident)
	if !ok {
		return nil
	}
	tagObj := t.info.ObjectOf(tagID)
	// parameters in order
	var params []types.Object
	for _, f := range hf.Decl.Type.Params.List {
		if len(f.Names) == 0 {
			return nil
		}
		for _, nm := range f.Names {
			params = append(params, t.info.Defs[nm])
		}
	}
	if len(params) != len(call.Args) {
		return nil
	}
	tagArg := -1
	for i, o := range params {
		if o == tagObj {
			tagArg = i
		}
	}
	if tagArg < 0 {
		return nil
	}
	tv, ok := t.info.Types[call.Args[tagArg]]
	if !ok || tv.Value == nil {
		return nil
	}
	var chosen, def *ast.CaseClause
	for _, c := range sw.Body.List {
		cc, ok := c.(*ast.CaseClause)
		if !ok {
			return nil
		}
		if cc.List == nil {
			def = cc
			continue
		}
		for _, v := range cc.List {
			cv, ok := t.info.Types[v]
			if !ok || cv.Value == nil {
				return nil
			}
			if constEq(cv, tv) {
				chosen = cc
			}
		}
	}
	if chosen == nil {
		chosen = def
	}
	var body []ast.Stmt
	if chosen != nil {
		body = chosen.Body
	}
	blk := &ast.BlockStmt{Lbrace: st.Pos(), List: body, Rbrace: st.End()}
	bad := false
	ast.Inspect(blk, func(n ast.Node) bool {
		switch n.(type) {
		case *ast.BranchStmt, *ast.ReturnStmt, *ast.DeferStmt, *ast.GoStmt, *ast.FuncLit, *ast.LabeledStmt:
			bad = true
		}
		return !bad
	})
	if bad {
		return nil
	}
	repl := map[types.Object]ast.Expr{}
	pureArg := func(e ast.Expr) bool {
		ok := true
		ast.Inspect(e, func(n ast.Node) bool {
			if c, isCall := n.(*ast.CallExpr); isCall {
				if ftv, has := t.info.Types[c.Fun]; !has || !ftv.IsType() {
					ok = false
				}
			}
			return ok
		})
		return ok
	}
	for i, o := range params {
		if o == nil {
			return nil
		}
		if !pureArg(call.Args[i]) {
			uses := 0
			ast.Inspect(blk, func(n ast.Node) bool {
				if id, ok := n.(*ast.Ident); ok && t.info.Uses[id] == o {
					uses++
				}
				return true
			})
			if uses != 1 {
				return nil
			}
		}
		repl[o] = call.Args[i]
	}
	if sig.Recv() != nil {
		if recv == nil || hf.Decl.Recv == nil || len(hf.Decl.Recv.List) != 1 || len(hf.Decl.Recv.List[0].Names) != 1 {
			return nil
		}
		if !pureArg(recv) {
			return nil
		}
		repl[t.info.Defs[hf.Decl.Recv.List[0].Names[0]]] = recv
	}
	out, _ := paths.Subst(t.info, blk, repl).(*ast.BlockStmt)
	if out == nil {
		return nil
	}
	if out == blk {
		out = &ast.BlockStmt{Lbrace: blk.Lbrace, List: append([]ast.Stmt{}, blk.List...), Rbrace: blk.Rbrace}
	}
	return out
}

func constEq(a, b types.TypeAndValue) bool {
	if a.Value == nil || b.Value == nil {
		return false
	}
	return a.Value.Kind() == b.Value.Kind() && a.Value.ExactString() == b.Value.ExactString()
}
