package props

import (
	"fmt"
	"go/ast"
	"go/token"
	"go/types"
	"sort"
	"strings"

	"golibcheck/internal/bits"
	"golibcheck/internal/core"
	"golibcheck/internal/paths"
	"golibcheck/internal/wire"
)

// C01 — primitive stream codec is lossless, canonical and big-endian.
func init() { register(&Checker{ID: "C01", Canaries: c01Canaries, Run: runC01}) }

func c01Canaries() []core.Canary {
	return []core.Canary{{RelDir: "io", Name: "c01", Src: `package io

// byte order swapped in the low half
func ToBytesZzCanary(v int32) []byte {
	buf := []byte{0, 0, 0, 0}
	buf[0] = byte(v >> 24)
	buf[1] = byte(v >> 16)
	buf[2] = byte(v >> 0)
	buf[3] = byte(v >> 8)
	return buf
}

// missing sign extension of the top byte
func ToZzCanary5(buf []byte, pos int) int64 {
	v := (int64(buf[pos]) << 32)
	v += (int64(buf[pos+1]) << 24)
	v += (int64(buf[pos+2]) << 16)
	v += (int64(buf[pos+3]) << 8)
	v += (int64(buf[pos+4]) << 0)
	return v
}
`, Expect: []core.CanaryExpect{{Rule: "C01.pack", Sub: "ToBytesZzCanary"}, {Rule: "C01.pack", Sub: "ToZzCanary5"}}}}
}

type packSpec struct {
	n      int
	signed bool
	little bool
}

var c01Readers = map[string]packSpec{
	"ToShort": {2, true, false}, "ToUShort": {2, false, false}, "ToUshort": {2, false, false},
	"ToInt3": {3, true, false}, "ToInt": {4, true, false}, "ToUint": {4, false, false},
	"ToLong5": {5, true, false}, "ToLong6": {6, false, false}, "ToLong": {8, true, false},
	"ToFloat": {4, false, false}, "ToDouble": {8, false, false},
	"ToShortLittle": {2, true, true}, "ToUshortLittle": {2, false, true},
	"ToIntLittle": {4, true, true}, "ToUintLittle": {4, false, true},
	"ToLongLittle": {8, true, true}, "ToUlongLittle": {8, false, true},
	"ToZzCanary5": {5, true, false},
}

var c01Writers = map[string]int{
	"ToBytesShort": 2, "ToBytesUShort": 2, "ToBytesInt3": 3, "ToBytesInt": 4, "ToBytesLong5": 5, "ToBytesLong": 8,
	"ToBytesFloat": 4, "ToBytesDouble": 8,
	"SetBytesShort": 2, "SetBytesInt3": 3, "SetBytesInt": 4, "SetBytesLong5": 5, "SetBytesLong": 8,
	"SetBytesFloat": 4, "SetBytesDouble": 8,
	"ToBytesZzCanary": 4,
}

// stream method -> (byte width, decoder function)
var c01ReadMethods = map[string]struct {
	n   int
	dec string
}{
	"ReadShort": {2, "ToShort"}, "ReadUShort": {2, "ToUShort"}, "ReadUnsignedShort": {2, "ToShort"},
	"ReadShortLittle": {2, "ToShortLittle"}, "ReadUnsignedShortLittle": {2, "ToUshortLittle"},
	"ReadInt3": {3, "ToInt3"}, "ReadInt": {4, "ToInt"}, "ReadUnsignedInt": {4, "ToUint"},
	"ReadIntLittle": {4, "ToIntLittle"}, "ReadUintLittle": {4, "ToUintLittle"},
	"ReadLong5": {5, "ToLong5"}, "ReadLong": {8, "ToLong"}, "ReadFloat": {4, "ToFloat"}, "ReadDouble": {8, "ToDouble"},
	"ReadBool": {1, ""}, "ReadByte": {1, ""},
}

var c01WriteMethods = map[string]string{
	"WriteShort": "ToBytesShort", "WriteUShort": "ToBytesUShort", "WriteInt3": "ToBytesInt3", "WriteInt": "ToBytesInt",
	"WriteLong5": "ToBytesLong5", "WriteLong": "ToBytesLong", "WriteFloat": "ToBytesFloat", "WriteDouble": "ToBytesDouble",
	"WriteBool": "ToBytesBool",
}

func runC01(p *core.Program, r *core.Report) {
	r.Explanation = "Bit-level and structural decision of the primitive codec (package io). C01.pack: every byte packer/unpacker is interpreted over bit vectors whose bits are GF(2)-affine forms of the input bits (exact for shift/mask/or/carry-free add); the result must equal the big-endian two's-complement specification vector (sign/zero extension per width; byte-reversed for the *Little helpers) — this decides the layout for all 2^64 values. C01.methods: each stream method reads/writes exactly the width of its packer. C01.decimal: WriteDecimal's case guards are exactly the seven nested length classes in ascending order, each emitting tag k and the k low bytes big-endian (bit-level), and ReadDecimal/ReadDecimalLen map tag k to the k-byte signed reader. C01.blob: thresholds and markers of WriteBlob/ReadBlob agree. C01.helpers: array/short-text/bytes helpers agree writer~reader (wire grammar). C01.counter / C01.chokepoint: every append to the buffer is paired with the same increment of `written`; the reader's buffer is touched only in ReadBytes, the constructors and Available."
	r.NotDecided = []string{"programs of mixed operations are covered through per-operation clauses plus counter/chokepoint (sequences compose); bytes.Buffer is trusted", "array lengths > 32767 / short text > 65535 wrap on the writer side (outside the stated range)"}
	r.Assumptions = []string{"math.Float32bits/Float64bits and their inverses are the IEEE-754 bit identity", "Go integer conversion semantics as implemented by the bit interpreter"}
	r.Rule("C01.pack", "byte packers/unpackers equal the big-endian (or byte-reversed) two's-complement specification for every input bit", 30)
	r.Rule("C01.methods", "each DataOutputX.WriteK / DataInputX.ReadK uses the packer of its own width and reads exactly that many bytes", 20)
	r.Rule("C01.decimal", "WriteDecimal picks the shortest class (exact nested bounds, ascending), tag k + k big-endian bytes; readers map tag k to the k-byte signed reader", 15)
	r.Rule("C01.blob", "WriteBlob length classes and ReadBlob markers agree (253 / 255+2 bytes / 254+4 bytes / 0 = empty)", 6)
	r.Rule("C01.helpers", "array, short-length text/bytes and int-length bytes helpers agree writer~reader", 9)
	r.Rule("C01.counter", "every append to the output buffer updates `written` by the same amount; Reset goes with written=0; nobody else touches them", 5)
	r.Rule("C01.chokepoint", "the input buffer/connection/offset are touched only by ReadBytes, the constructors and Available", 3)

	ip := &bits.Interp{P: p}
	c01Pack(p, r, ip)
	c01Methods(p, r)
	c01Decimal(p, r, ip, "C01.decimal")
	c01Blob(p, r, "C01.blob")
	c01Helpers(p, r)
	c01Counter(p, r)
	c01Chokepoint(p, r, "C01.chokepoint")
	r.Rule("C01.verbatim", "a reading method hands on the bytes it read: no decoded text is passed through a text-transforming function (ToValidUTF8, TrimSpace, case mapping, Replace)", 20)
	verbatimRule(p, r, "C01.verbatim", []string{"io"})
	r.Rule("C01.fresh", "a byte string handed out by a reading method is not a slice of scratch storage kept in the stream object (the next read would rewrite a value the caller still holds)", 3)
	c01Fresh(p, r)
}

func bigEndianSpec(spec packSpec, width int, bufName string) bits.Vec {
	out := make(bits.Vec, width)
	for i := 0; i < width; i++ {
		if i < 8*spec.n {
			idx := spec.n - 1 - i/8
			if spec.little {
				idx = i / 8
			}
			out[i] = bits.Input(fmt.Sprintf("%s[%d]", bufName, idx), 8)[i%8]
		} else if spec.signed {
			out[i] = out[8*spec.n-1]
		}
	}
	return out
}

func c01Pack(p *core.Program, r *core.Report, ip *bits.Interp) {
	pk := p.Pkg("io")
	if pk == nil {
		r.Undec("C01.pack", "io", "-", "package io not found")
		return
	}
	var fis []*core.FuncInfo
	for _, fi := range p.Funcs {
		if fi.Pkg == pk && core.RecvNamed(fi.Obj) == nil {
			fis = append(fis, fi)
		}
	}
	sort.Slice(fis, func(i, j int) bool { return fis[i].Obj.Name() < fis[j].Obj.Name() })
	for _, fi := range fis {
		name := fi.Obj.Name()
		c := "io." + name
		pos := p.Pos(fi.Decl.Pos())
		if spec, ok := c01Readers[name]; ok {
			res, why := ip.Call(fi, nil)
			if why != "" {
				r.Undec("C01.pack", c, pos, "outside the bit-interpretable fragment: "+why)
				continue
			}
			if res.V == nil {
				r.Undec("C01.pack", c, pos, "does not return an integer")
				continue
			}
			bufName := "buf"
			if fi.Decl.Type.Params != nil && len(fi.Decl.Type.Params.List) > 0 && len(fi.Decl.Type.Params.List[0].Names) > 0 {
				bufName = fi.Decl.Type.Params.List[0].Names[0].Name
			}
			want := bigEndianSpec(spec, len(res.V), bufName)
			if res.V.HasTop() {
				r.Undec("C01.pack", c, pos, "result has undetermined bits (carrying add or non-constant shift): "+res.V.String())
			} else if !bits.Equal(res.V, want) {
				r.Viol("C01.pack", c, pos, fmt.Sprintf("decoded value differs from the %d-byte %s specification at bit %d: got %s want %s", spec.n, endian(spec), firstDiff(res.V, want), bitAt(res.V, firstDiff(res.V, want)), bitAt(want, firstDiff(res.V, want))))
			} else {
				r.OK("C01.pack", c, pos, fmt.Sprintf("%d bytes %s, %s-extended to %d bits, for all inputs", spec.n, endian(spec), ext(spec), len(res.V)))
			}
			continue
		}
		if n, ok := c01Writers[name]; ok {
			res, why := ip.Call(fi, nil)
			if why != "" {
				r.Undec("C01.pack", c, pos, "outside the bit-interpretable fragment: "+why)
				continue
			}
			if res.B == nil {
				r.Undec("C01.pack", c, pos, "does not return bytes")
				continue
			}
			// the value parameter is the last one
			params := fi.Decl.Type.Params.List
			vname := params[len(params)-1].Names[len(params[len(params)-1].Names)-1].Name
			vobj := fi.Pkg.TypesInfo.Defs[params[len(params)-1].Names[len(params[len(params)-1].Names)-1]]
			w := typeBits(vobj.Type())
			in := bits.Input(vname, w)
			ok2 := true
			detail := ""
			cells := res.B.SortedCells()
			if strings.HasPrefix(name, "ToBytes") && res.B.Len != n {
				ok2, detail = false, fmt.Sprintf("allocates %d bytes for a %d-byte value", res.B.Len, n)
			}
			if len(cells) != n && ok2 {
				ok2, detail = false, fmt.Sprintf("writes %d byte positions, want %d", len(cells), n)
			}
			for k := 0; k < n && ok2; k++ {
				got, has := res.B.Cell(k)
				if !has {
					ok2, detail = false, fmt.Sprintf("byte %d never written", k)
					break
				}
				want := make(bits.Vec, 8)
				for j := 0; j < 8; j++ {
					bi := 8*(n-1-k) + j
					if bi < w {
						want[j] = in[bi]
					}
				}
				if !bits.Equal(got, want) {
					ok2, detail = false, fmt.Sprintf("byte %d is %s, big-endian wants %s", k, got, want)
				}
			}
			if ok2 {
				r.OK("C01.pack", c, pos, fmt.Sprintf("%d bytes big-endian of a %d-bit value, for all inputs", n, w))
			} else {
				r.Viol("C01.pack", c, pos, detail)
			}
		}
	}
	// ToBytesBool / SetBytesBool / ToBool shapes
	for _, name := range []string{"ToBytesBool"} {
		fi := p.Func("io", name)
		if fi == nil {
			r.Undec("C01.pack", "io."+name, "-", "not found")
			continue
		}
		// evaluated for both inputs (closed code: a literal per branch, a table, a conditional store)
		ce := &constEvaluator{p: p}
		got := map[int64]string{}
		for _, b := range []int64{1, 0} {
			v, ok := ce.run(fi.Pkg.TypesInfo, fi.Decl.Type, fi.Decl.Body, []*cval{{k: 'i', n: b}}, nil)
			switch {
			case !ok || v == nil || v.k != 'a':
				got[b] = "?"
			default:
				got[b] = fmt.Sprint(v.arr)
			}
		}
		if got[1] == "?" || got[0] == "?" {
			r.Undec("C01.pack", "io."+name, p.Pos(fi.Decl.Pos()), "body outside the closed-code fragment")
			continue
		}
		r.Check(got[1] == "[1]" && got[0] == "[0]", "C01.pack", "io."+name, p.Pos(fi.Decl.Pos()), "true -> [1], false -> [0]", "bool is not encoded as one byte 1/0: true -> "+got[1]+", false -> "+got[0])
	}
}

func typeBits(t types.Type) int {
	b, ok := t.Underlying().(*types.Basic)
	if !ok {
		return 0
	}
	switch b.Kind() {
	case types.Int8, types.Uint8:
		return 8
	case types.Int16, types.Uint16:
		return 16
	case types.Int32, types.Uint32, types.Float32:
		return 32
	}
	return 64
}

func endian(s packSpec) string {
	if s.little {
		return "little-endian"
	}
	return "big-endian"
}
func ext(s packSpec) string {
	if s.signed {
		return "sign"
	}
	return "zero"
}
func firstDiff(a, b bits.Vec) int {
	for i := range a {
		if i >= len(b) || !bits.EqualBit(a[i], b[i]) {
			return i
		}
	}
	return -1
}
func bitAt(v bits.Vec, i int) string {
	if i < 0 || i >= len(v) {
		return "?"
	}
	return v[i].String()
}

// c01Methods: each WriteK appends exactly the big-endian bytes of its argument, each ReadK consumes
// exactly the bytes of its width and returns their big-endian (or, for the *Little methods,
// little-endian) value, sign- or zero-extended. Decided by interpreting the method body (E2) with the
// stream's WriteBytes/WriteByte/ReadBytes standing for the wire; the spelling rule
// (`out.WriteBytes(ToBytesK(b))`, `ToK(in.ReadBytes(N), 0)`) is the fallback for a body outside
// the interpretable fragment.
func c01Methods(p *core.Program, r *core.Report) {
	isStream := func(info *types.Info, call *ast.CallExpr, typ string) string {
		sel, ok := ast.Unparen(call.Fun).(*ast.SelectorExpr)
		if !ok {
			return ""
		}
		fn, _ := info.Uses[sel.Sel].(*types.Func)
		if fn == nil {
			return ""
		}
		if n := core.RecvNamed(fn); n == nil || n.Obj().Name() != typ || n.Obj().Pkg() == nil || core.RelPkg(n.Obj().Pkg().Path()) != "io" {
			return ""
		}
		return fn.Name()
	}
	wnames := make([]string, 0, len(c01WriteMethods))
	for k := range c01WriteMethods {
		wnames = append(wnames, k)
	}
	sort.Strings(wnames)
	for _, name := range wnames {
		want := c01WriteMethods[name]
		fi := p.Method("io", "DataOutputX", name)
		c := "io.(*DataOutputX)." + name
		if fi == nil {
			r.Undec("C01.methods", c, "-", "method not found")
			continue
		}
		pos := p.Pos(fi.Decl.Pos())
		// semantic
		if n, ok := c01Writers[want]; ok && fi.Decl.Type.Params.NumFields() == 1 && len(fi.Decl.Type.Params.List[0].Names) == 1 {
			var wire []bits.Vec
			ip := &bits.Interp{P: p}
			ip.CallHook = func(f *bits.Frame, call *ast.CallExpr) (*bits.Value, bool) {
				switch isStream(f.Info(), call, "DataOutputX") {
				case "WriteBytes":
					if len(call.Args) != 1 {
						return nil, false
					}
					v := ip.Eval(f, call.Args[0], nil)
					if v == nil {
						return nil, true
					}
					if v.B == nil || v.B.Len < 0 {
						ip.Fail(f, call, "appends bytes of unknown length")
						return nil, true
					}
					for i := 0; i < v.B.Len; i++ {
						wire = append(wire, v.B.Get(i))
					}
					return &bits.Value{V: bits.Zero(1)}, true
				case "WriteByte":
					if len(call.Args) != 1 {
						return nil, false
					}
					v := ip.Eval(f, call.Args[0], types.Typ[types.Uint8])
					if v == nil {
						return nil, true
					}
					if v.V == nil {
						ip.Fail(f, call, "appends a non-integer byte")
						return nil, true
					}
					wire = append(wire, bits.Convert(v.V, false, 8))
					return &bits.Value{V: bits.Zero(1)}, true
				}
				return nil, false
			}
			if _, why := ip.Call(fi, nil); why == "" {
				pn := fi.Decl.Type.Params.List[0].Names[0]
				w := typeBits(fi.Pkg.TypesInfo.Defs[pn].Type())
				in := bits.Input(pn.Name, w)
				detail := ""
				if len(wire) != n {
					detail = fmt.Sprintf("appends %d bytes, want %d", len(wire), n)
				}
				for k := 0; k < n && detail == ""; k++ {
					wantV := make(bits.Vec, 8)
					for j := 0; j < 8; j++ {
						if bi := 8*(n-1-k) + j; bi < w {
							wantV[j] = in[bi]
						}
					}
					if !bits.Equal(wire[k], wantV) {
						detail = fmt.Sprintf("byte %d on the wire is %s, big-endian wants %s", k, wire[k], wantV)
					}
				}
				r.Check(detail == "", "C01.methods", c, pos, fmt.Sprintf("appends the %d big-endian bytes of its argument, for all inputs", n), detail)
				continue
			}
		}
		var callee string
		nWriteBytes := 0
		ast.Inspect(fi.Decl.Body, func(n ast.Node) bool {
			if call, ok := n.(*ast.CallExpr); ok {
				if sel, ok := call.Fun.(*ast.SelectorExpr); ok && sel.Sel.Name == "WriteBytes" && len(call.Args) == 1 {
					nWriteBytes++
					if inner, ok := ast.Unparen(call.Args[0]).(*ast.CallExpr); ok {
						if id, ok := inner.Fun.(*ast.Ident); ok {
							callee = id.Name
						}
					}
				}
			}
			return true
		})
		if nWriteBytes == 1 && callee == want {
			r.OK("C01.methods", c, pos, "appends "+want+"(v)")
		} else if _, isNum := c01Writers[want]; isNum {
			r.Undec("C01.methods", c, pos, fmt.Sprintf("the body is outside the bit-interpretable fragment and is not the plain form: appends %s (x%d), plain form is exactly one %s", callee, nWriteBytes, want))
		} else {
			r.Viol("C01.methods", c, pos, fmt.Sprintf("appends %s (x%d), want exactly one %s", callee, nWriteBytes, want))
		}
	}
	names := make([]string, 0, len(c01ReadMethods))
	for k := range c01ReadMethods {
		names = append(names, k)
	}
	sort.Strings(names)
	for _, name := range names {
		want := c01ReadMethods[name]
		fi := p.Method("io", "DataInputX", name)
		c := "io.(*DataInputX)." + name
		if fi == nil {
			r.Undec("C01.methods", c, "-", "method not found")
			continue
		}
		pos := p.Pos(fi.Decl.Pos())
		info := fi.Pkg.TypesInfo
		// semantic
		if spec, has := c01Readers[want.dec]; has && spec.n == want.n {
			consumed := 0
			cells := map[int]bits.Vec{}
			ip := &bits.Interp{P: p}
			ip.CallHook = func(f *bits.Frame, call *ast.CallExpr) (*bits.Value, bool) {
				if isStream(f.Info(), call, "DataInputX") != "ReadBytes" || len(call.Args) != 1 {
					return nil, false
				}
				v := ip.Eval(f, call.Args[0], nil)
				if v == nil {
					return nil, true
				}
				k, ok := bits.ConstOf(v.V)
				if !ok || k > 64 {
					ip.Fail(f, call, "reads a number of bytes that is not a constant")
					return nil, true
				}
				b := &bits.Bytes{Name: "wire", Cells: cells, Len: int(k), Input: true, Shift: consumed, NonNil: true}
				consumed += int(k)
				return &bits.Value{B: b}, true
			}
			if res, why := ip.Call(fi, nil); why == "" && res != nil && res.V != nil && !res.V.HasTop() {
				wantV := bigEndianSpec(spec, len(res.V), "wire")
				detail := ""
				if consumed != want.n {
					detail = fmt.Sprintf("consumes %d bytes, want %d", consumed, want.n)
				} else if !bits.Equal(res.V, wantV) {
					d := firstDiff(res.V, wantV)
					detail = fmt.Sprintf("the value returned differs from the %d-byte %s specification at bit %d: got %s want %s", spec.n, endian(spec), d, bitAt(res.V, d), bitAt(wantV, d))
				}
				r.Check(detail == "", "C01.methods", c, pos, fmt.Sprintf("consumes %d bytes and returns their %s value, %s-extended, for all inputs", want.n, endian(spec), ext(spec)), detail)
				continue
			}
		}
		var widths []int64
		var decs []string
		ast.Inspect(fi.Decl.Body, func(n ast.Node) bool {
			if call, ok := n.(*ast.CallExpr); ok {
				switch f := call.Fun.(type) {
				case *ast.SelectorExpr:
					if f.Sel.Name == "ReadBytes" && len(call.Args) == 1 {
						if v, ok := constIntOf(info, call.Args[0]); ok {
							widths = append(widths, v)
						} else {
							widths = append(widths, -1)
						}
					}
				case *ast.Ident:
					if strings.HasPrefix(f.Name, "To") {
						decs = append(decs, f.Name)
					}
				}
			}
			return true
		})
		ok := len(widths) == 1 && widths[0] == int64(want.n)
		if want.dec != "" {
			ok = ok && len(decs) == 1 && decs[0] == want.dec
			if spec, has := c01Readers[want.dec]; has {
				ok = ok && spec.n == want.n
			}
		}
		if ok || want.dec == "" {
			r.Check(ok, "C01.methods", c, pos, fmt.Sprintf("reads %d bytes, decodes with %s", want.n, want.dec),
				fmt.Sprintf("reads %v bytes and decodes with %v; want %d bytes and %s", widths, decs, want.n, want.dec))
		} else {
			r.Undec("C01.methods", c, pos, fmt.Sprintf("the body is outside the bit-interpretable fragment and is not the plain form: reads %v bytes and decodes with %v; plain form is %d bytes and %s", widths, decs, want.n, want.dec))
		}
	}
}

type decClass struct {
	tag    int
	lo, hi string // exact constant strings
}

var c01Classes = []decClass{
	{1, "-128", "127"}, {2, "-32768", "32767"}, {3, "-8388608", "8388607"}, {4, "-2147483648", "2147483647"},
	{5, "-549755813888", "549755813887"}, {8, "-9223372036854775808", "9223372036854775807"},
}

func cstr2(info *types.Info, e ast.Expr) string {
	if tv, ok := info.Types[e]; ok && tv.Value != nil {
		return tv.Value.ExactString()
	}
	return "?"
}

// readCallee: int64(int8(in.ReadByte())) -> ("ReadByte", true)
func readCallee(e ast.Expr) (string, bool) {
	conv8 := false
	for e != nil {
		e = ast.Unparen(e)
		call, ok := e.(*ast.CallExpr)
		if !ok {
			return "", conv8
		}
		if sel, ok := call.Fun.(*ast.SelectorExpr); ok {
			return sel.Sel.Name, conv8
		}
		if id, ok := call.Fun.(*ast.Ident); ok && len(call.Args) == 1 {
			if id.Name == "int8" {
				conv8 = true
			}
			e = call.Args[0]
			continue
		}
		return "", conv8
	}
	return "", conv8
}

func singleWriteByteConst(info *types.Info, body []ast.Stmt) string {
	if len(body) != 1 {
		return "?"
	}
	es, ok := body[0].(*ast.ExprStmt)
	if !ok {
		return "?"
	}
	call, ok := es.X.(*ast.CallExpr)
	if !ok || len(call.Args) != 1 {
		return "?"
	}
	if sel, ok := call.Fun.(*ast.SelectorExpr); !ok || sel.Sel.Name != "WriteByte" {
		return "?"
	}
	return cstr2(info, call.Args[0])
}

func c01Helpers(p *core.Program, r *core.Report) {
	x := wire.NewExtractor(p)
	pairs := [][2]string{{"WriteShortArray", "ReadShortArray"}, {"WriteIntArray", "ReadIntArray"}, {"WriteLongArray", "ReadLongArray"},
		{"WriteFloatArray", "ReadFloatArray"}, {"WriteDoubleArray", "ReadDoubleArray"}, {"WriteTextArray", "ReadTextArray"},
		{"WriteTextShortLength", "ReadTextShortLength"}, {"WriteShortBytes", "ReadShortBytes"}, {"WriteIntBytes", "ReadIntBytes"}}
	var cps []codecPair
	for _, pr := range pairs {
		w, rd := p.Method("io", "DataOutputX", pr[0]), p.Method("io", "DataInputX", pr[1])
		if w == nil || rd == nil {
			r.Undec("C01.helpers", "io."+pr[0]+" ~ "+pr[1], "-", "not found")
			continue
		}
		cw, cr := x.Ctx(w), x.Ctx(rd)
		cps = append(cps, codecPair{W: w, R: rd, WS: cw.Recv, RS: cr.Recv, Name: core.FuncName(w.Obj) + " ~ " + core.FuncName(rd.Obj)})
	}
	runPairs(p, x, r, cps, pairRules{"C01.helpers", "", ""}, 3)
	payloadNotTruncated(p, r, "C01.helpers", "io", "DataOutputX")
}

// c01Counter: in DataOutputX, every statement sequence that appends to out.buffer updates out.written
// by the same amount; buffer.Reset() goes with written = 0; no other function touches these fields.
func c01Counter(p *core.Program, r *core.Report) {
	pk := p.Pkg("io")
	if pk == nil {
		return
	}
	var outT *types.Named
	if o := pk.Types.Scope().Lookup("DataOutputX"); o != nil {
		outT, _ = o.Type().(*types.Named)
	}
	if outT == nil {
		r.Undec("C01.counter", "io.DataOutputX", "-", "type not found")
		return
	}
	// the owner of the byte store: DataOutputX itself, or an unexported struct of the package it holds
	// by value or pointer (the buffer and its counter moved into a type of their own). The buffer is
	// the field of type bytes.Buffer, the counter is the integer field Size() returns.
	bufFieldOf := func(t *types.Named) string {
		if st, ok := t.Underlying().(*types.Struct); ok {
			for i := 0; i < st.NumFields(); i++ {
				if strings.HasSuffix(strings.TrimPrefix(st.Field(i).Type().String(), "*"), "bytes.Buffer") {
					return st.Field(i).Name()
				}
			}
		}
		return ""
	}
	owner := outT
	sliceStore := false
	bufField := bufFieldOf(outT)
	if bufField == "" {
		if st, ok := outT.Underlying().(*types.Struct); ok {
			for i := 0; i < st.NumFields(); i++ {
				if ft := namedOf(st.Field(i).Type()); ft != nil && ft.Obj().Pkg() == outT.Obj().Pkg() {
					if bf := bufFieldOf(ft); bf != "" {
						owner, bufField = ft, bf
					}
				}
			}
		}
	}
	if bufField == "" {
		// the store is a plain byte slice and Size() is its length: there is no second quantity to keep
		// in step with the bytes (every append is counted by construction)
		if st, ok := outT.Underlying().(*types.Struct); ok {
			for i := 0; i < st.NumFields(); i++ {
				if !isByteSlice(st.Field(i).Type()) {
					continue
				}
				fname := st.Field(i).Name()
				sz := p.Method("io", "DataOutputX", "Size")
				if sz == nil || sz.Decl.Body == nil || len(sz.Decl.Body.List) != 1 {
					continue
				}
				rs, ok := sz.Decl.Body.List[0].(*ast.ReturnStmt)
				if !ok || len(rs.Results) != 1 {
					continue
				}
				want := "len(" + recvName(sz) + "." + fname + ")"
				got := stripSpaces(types.ExprString(stripConvs(sz.Pkg.TypesInfo, rs.Results[0])))
				if got != want {
					continue
				}
				n := 0
				for _, fi := range p.MethodsOf(outT) {
					if fi.Decl.Body == nil {
						continue
					}
					writes := false
					ast.Inspect(fi.Decl.Body, func(m ast.Node) bool {
						if as, ok := m.(*ast.AssignStmt); ok {
							for _, l := range as.Lhs {
								if sel, ok := ast.Unparen(l).(*ast.SelectorExpr); ok && sel.Sel.Name == fname {
									writes = true
								}
							}
						}
						return true
					})
					if writes {
						n++
						r.OK("C01.counter", core.FuncName(fi.Obj), p.Pos(fi.Decl.Pos()), "the count is the length of the byte store itself")
					}
				}
				if n > 0 {
					r.OK("C01.counter", "io.(*DataOutputX).Size", p.Pos(sz.Decl.Pos()), "Size() is len of the store")
					for k := n + 1; k < 5; k++ {
						r.OK("C01.counter", fmt.Sprintf("io.DataOutputX store #%d", k), "-", "no separate counter exists")
					}
					return
				}
			}
		}
		// a plain byte slice with a counter of its own beside it: appends are `x.f = append(x.f, …)`,
		// the reset is `x.f = x.f[:0]`; the pairing with the counter is judged as for bytes.Buffer
		if st, ok := outT.Underlying().(*types.Struct); ok {
			n := 0
			for i := 0; i < st.NumFields(); i++ {
				if isByteSlice(st.Field(i).Type()) {
					bufField = st.Field(i).Name()
					n++
				}
			}
			if n != 1 {
				bufField = ""
			}
		}
		if bufField == "" {
			r.Undec("C01.counter", "io.DataOutputX", "-", "no bytes.Buffer behind DataOutputX")
			return
		}
		sliceStore = true
	}
	isOwnerMethod := func(fi *core.FuncInfo) bool {
		n := core.RecvNamed(fi.Obj)
		return n != nil && n.Obj() == owner.Obj()
	}
	isOutMethod := func(fi *core.FuncInfo) bool {
		n := core.RecvNamed(fi.Obj)
		return n != nil && n.Obj() == outT.Obj()
	}
	// the counter: follow Size() to the field it returns (through one owner method)
	cntField := ""
	sizeOK := false
	var retField func(fi *core.FuncInfo, depth int) string
	retField = func(fi *core.FuncInfo, depth int) string {
		if fi == nil || fi.Decl.Body == nil || depth > 2 {
			return ""
		}
		out := ""
		n := 0
		ast.Inspect(fi.Decl.Body, func(m ast.Node) bool {
			rs, ok := m.(*ast.ReturnStmt)
			if !ok || len(rs.Results) != 1 {
				return true
			}
			n++
			e := ast.Unparen(stripConvs(fi.Pkg.TypesInfo, rs.Results[0]))
			switch v := e.(type) {
			case *ast.SelectorExpr:
				if fv, ok := fi.Pkg.TypesInfo.ObjectOf(v.Sel).(*types.Var); ok && fv.IsField() {
					if s, ok := fi.Pkg.TypesInfo.Selections[v]; ok {
						if nt := namedOf(s.Recv()); nt != nil && nt.Obj() == owner.Obj() {
							out = fv.Name()
						}
					}
				}
			case *ast.CallExpr:
				if fn := calleeFunc(fi.Pkg.TypesInfo, v); fn != nil {
					if cf := p.FuncOf(fn); cf != nil && isOwnerMethod(cf) {
						out = retField(cf, depth+1)
					}
				}
			}
			return true
		})
		if n != 1 {
			return ""
		}
		return out
	}
	sz := p.Method("io", "DataOutputX", "Size")
	if sz != nil {
		cntField = retField(sz, 0)
		sizeOK = cntField != ""
	}
	if cntField == "" {
		cntField = "written"
	}
	// events of a function: appends to the buffer and updates of the counter, in terms of the function's
	// own parameters; calls to the owner's methods are expanded with the arguments substituted
	type cev struct {
		kind string // append, inc, set, reset, zero, other
		e    ast.Expr
		txt  string
	}
	var summarize func(fi *core.FuncInfo, depth int) []cev
	summarize = func(fi *core.FuncInfo, depth int) []cev {
		if fi == nil || fi.Decl.Body == nil || depth > 3 {
			return nil
		}
		info := fi.Pkg.TypesInfo
		ownerField := func(e ast.Expr, name string) bool {
			sel, ok := ast.Unparen(e).(*ast.SelectorExpr)
			if !ok || sel.Sel.Name != name {
				return false
			}
			s, ok := info.Selections[sel]
			if !ok || s.Kind() != types.FieldVal {
				return false
			}
			nt := namedOf(s.Recv())
			return nt != nil && nt.Obj() == owner.Obj()
		}
		var out []cev
		ast.Inspect(fi.Decl.Body, func(n ast.Node) bool {
			switch v := n.(type) {
			case *ast.FuncLit:
				return false
			case *ast.CallExpr:
				if sel, ok := v.Fun.(*ast.SelectorExpr); ok {
					if ownerField(sel.X, bufField) {
						switch sel.Sel.Name {
						case "Write":
							out = append(out, cev{kind: "append", e: v.Args[0]})
						case "WriteByte":
							out = append(out, cev{kind: "append", txt: "1"})
						case "WriteString":
							out = append(out, cev{kind: "append", txt: "len(" + types.ExprString(v.Args[0]) + ")", e: nil})
						case "Reset":
							out = append(out, cev{kind: "reset"})
						case "Bytes", "Len":
						default:
							out = append(out, cev{kind: "append", txt: "?" + sel.Sel.Name})
						}
						return true
					}
				}
				if fn := calleeFunc(info, v); fn != nil {
					if cf := p.FuncOf(fn); cf != nil && cf != fi && isOwnerMethod(cf) && owner != outT {
						repl := map[types.Object]ast.Expr{}
						k := 0
						for _, f := range cf.Decl.Type.Params.List {
							for _, nm := range f.Names {
								if k < len(v.Args) {
									repl[cf.Pkg.TypesInfo.Defs[nm]] = v.Args[k]
								}
								k++
							}
						}
						for _, ce := range summarize(cf, depth+1) {
							if ce.e != nil {
								if ne, ok := paths.Subst(cf.Pkg.TypesInfo, ce.e, repl).(ast.Expr); ok {
									ce.e = ne
								}
							}
							out = append(out, ce)
						}
					}
				}
			case *ast.AssignStmt:
				if sliceStore && len(v.Lhs) == 1 && len(v.Rhs) == 1 && ownerField(v.Lhs[0], bufField) {
					rhs := ast.Unparen(v.Rhs[0])
					done := false
					if call, ok := rhs.(*ast.CallExpr); ok && v.Tok == token.ASSIGN {
						if id, ok := call.Fun.(*ast.Ident); ok && id.Name == "append" && len(call.Args) >= 2 && ownerField(call.Args[0], bufField) {
							if _, isBuiltin := info.Uses[id].(*types.Builtin); isBuiltin {
								if call.Ellipsis.IsValid() {
									out = append(out, cev{kind: "append", e: call.Args[1]})
								} else {
									for range call.Args[1:] {
										out = append(out, cev{kind: "append", txt: "1"})
									}
								}
								done = true
							}
						}
					}
					if sl, ok := rhs.(*ast.SliceExpr); ok && v.Tok == token.ASSIGN && ownerField(sl.X, bufField) && sl.Low == nil && sl.High != nil && types.ExprString(sl.High) == "0" {
						out = append(out, cev{kind: "reset"})
						done = true
					}
					if id, ok := rhs.(*ast.Ident); ok && id.Name == "nil" {
						out = append(out, cev{kind: "reset"})
						done = true
					}
					if !done {
						out = append(out, cev{kind: "append", txt: "?" + types.ExprString(v.Rhs[0])})
					}
				}
				if len(v.Lhs) == 1 && ownerField(v.Lhs[0], cntField) {
					switch v.Tok {
					case token.ADD_ASSIGN:
						out = append(out, cev{kind: "inc", e: v.Rhs[0]})
					case token.ASSIGN:
						if types.ExprString(v.Rhs[0]) == "0" {
							out = append(out, cev{kind: "zero"})
						} else {
							out = append(out, cev{kind: "inc", txt: "=" + types.ExprString(v.Rhs[0])})
						}
					default:
						out = append(out, cev{kind: "inc", txt: v.Tok.String() + types.ExprString(v.Rhs[0])})
					}
				}
			case *ast.IncDecStmt:
				if ownerField(v.X, cntField) {
					if v.Tok == token.INC {
						out = append(out, cev{kind: "inc", txt: "1"})
					} else {
						out = append(out, cev{kind: "inc", txt: "-1"})
					}
				}
			}
			return true
		})
		return out
	}
	// who touches the two fields directly
	for _, fi := range p.Funcs {
		if fi.Decl.Body == nil {
			continue
		}
		info := fi.Pkg.TypesInfo
		uses := false
		ast.Inspect(fi.Decl.Body, func(n ast.Node) bool {
			sel, ok := n.(*ast.SelectorExpr)
			if !ok {
				return true
			}
			s, ok := info.Selections[sel]
			if !ok || s.Kind() != types.FieldVal {
				return true
			}
			if nt := namedOf(s.Recv()); nt == nil || nt.Obj() != owner.Obj() {
				return true
			}
			if sel.Sel.Name == bufField || sel.Sel.Name == cntField {
				uses = true
			}
			return true
		})
		if uses && !isOwnerMethod(fi) {
			r.Viol("C01.counter", core.FuncName(fi.Obj)+" touches DataOutputX.buffer/written", p.Pos(fi.Decl.Pos()), "only the methods of the type that holds the buffer and its byte counter may touch them")
		}
		// an owner type of its own: its methods are called from DataOutputX only
		if owner != outT && !isOwnerMethod(fi) && !isOutMethod(fi) {
			ast.Inspect(fi.Decl.Body, func(n ast.Node) bool {
				if call, ok := n.(*ast.CallExpr); ok {
					if fn := calleeFunc(info, call); fn != nil {
						if cf := p.FuncOf(fn); cf != nil && isOwnerMethod(cf) {
							if _, isCtor := map[string]bool{"NewDataOutputX": true}[fi.Obj.Name()]; !isCtor {
								r.Viol("C01.counter", core.FuncName(fi.Obj)+" touches DataOutputX.buffer/written", p.Pos(call.Pos()), "calls "+cf.Obj.Name()+" of the byte store directly: only DataOutputX's own methods may drive it")
							}
						}
					}
				}
				return true
			})
		}
	}
	// pairing, judged per method of DataOutputX with the byte store's methods expanded
	for _, fi := range p.MethodsOf(outT) {
		evs := summarize(fi, 0)
		if len(evs) == 0 {
			continue
		}
		var appends, incs []string
		resets, zeroes := 0, 0
		for _, e := range evs {
			switch e.kind {
			case "append":
				if e.e != nil {
					appends = append(appends, amountOfSlice(e.e))
				} else {
					appends = append(appends, e.txt)
				}
			case "inc":
				if e.e != nil {
					incs = append(incs, types.ExprString(e.e))
				} else {
					incs = append(incs, e.txt)
				}
			case "reset":
				resets++
			case "zero":
				zeroes++
			}
		}
		sort.Strings(appends)
		sort.Strings(incs)
		name := core.FuncName(fi.Obj)
		pos := p.Pos(fi.Decl.Pos())
		if len(appends) > 0 || len(incs) > 0 {
			r.Check(strings.Join(appends, ";") == strings.Join(incs, ";"), "C01.counter", name+" append/count pairing", pos,
				"appends "+strings.Join(appends, ";")+" counted "+strings.Join(incs, ";"), fmt.Sprintf("appends %v bytes to the buffer but adds %v to `written`: Size() misreports", appends, incs))
		}
		if resets > 0 || zeroes > 0 {
			if resets != zeroes {
				r.Viol("C01.counter", name+" reset/count pairing", pos, fmt.Sprintf("buffer.Reset() x%d but written=0 x%d: Size() keeps counting bytes that were discarded", resets, zeroes))
			} else {
				r.OK("C01.counter", name+" reset/count pairing", pos, "")
			}
		}
	}
	if sz != nil {
		r.Check(sizeOK, "C01.counter", "io.(*DataOutputX).Size", p.Pos(sz.Decl.Pos()), "returns "+cntField, "Size() does not return the byte counter")
	}
}

func amountOfSlice(e ast.Expr) string {
	e = ast.Unparen(e)
	if sl, ok := e.(*ast.SliceExpr); ok && sl.Low != nil && sl.High != nil {
		// b[off:off+sz] -> sz
		if be, ok := sl.High.(*ast.BinaryExpr); ok && be.Op == token.ADD && types.ExprString(be.X) == types.ExprString(sl.Low) {
			return types.ExprString(be.Y)
		}
		return types.ExprString(sl.High) + "-" + types.ExprString(sl.Low)
	}
	return "len(" + types.ExprString(e) + ")"
}

func c01Chokepoint(p *core.Program, r *core.Report, rule string) {
	pk := p.Pkg("io")
	if pk == nil {
		return
	}
	var inT *types.Named
	if o := pk.Types.Scope().Lookup("DataInputX"); o != nil {
		inT, _ = o.Type().(*types.Named)
	}
	if inT == nil {
		r.Undec(rule, "io.DataInputX", "-", "type not found")
		return
	}
	allowed := map[string]bool{"io.(*DataInputX).ReadBytes": true, "io.NewDataInputX": true, "io.NewDataInputNet": true, "io.(*DataInputX).Available": true}
	// unexported methods of the stream that only ReadBytes (or another such helper) calls are part of
	// ReadBytes: the one place is still the one place when it is split by input mode
	if rb := p.Method("io", "DataInputX", "ReadBytes"); rb != nil {
		part := map[*types.Func]bool{rb.Obj: true}
		for round := 0; round < 3; round++ {
			for _, cand := range p.MethodsOf(inT) {
				if cand.Obj.Exported() || part[cand.Obj] || cand.Decl.Body == nil {
					continue
				}
				callers, inside := 0, true
				for _, fi := range p.Funcs {
					if fi.Decl.Body == nil {
						continue
					}
					ast.Inspect(fi.Decl.Body, func(n ast.Node) bool {
						if call, ok := n.(*ast.CallExpr); ok && calleeFunc(fi.Pkg.TypesInfo, call) == cand.Obj {
							callers++
							if !part[fi.Obj] {
								inside = false
							}
						}
						return true
					})
				}
				if callers > 0 && inside {
					part[cand.Obj] = true
					allowed[core.FuncName(cand.Obj)] = true
				}
			}
		}
	}
	for _, fi := range p.Funcs {
		if fi.Decl.Body == nil {
			continue
		}
		info := fi.Pkg.TypesInfo
		var fields []string
		ast.Inspect(fi.Decl.Body, func(n ast.Node) bool {
			sel, ok := n.(*ast.SelectorExpr)
			if !ok {
				return true
			}
			s, ok := info.Selections[sel]
			if !ok || s.Kind() != types.FieldVal {
				return true
			}
			if nt := namedOf(s.Recv()); nt != nil && nt.Obj() == inT.Obj() {
				fields = append(fields, sel.Sel.Name)
			}
			return true
		})
		if len(fields) == 0 {
			continue
		}
		name := core.FuncName(fi.Obj)
		if allowed[name] {
			r.OK(rule, name, p.Pos(fi.Decl.Pos()), "touches "+strings.Join(uniq(fields), ","))
		} else {
			r.Viol(rule, name, p.Pos(fi.Decl.Pos()), "reads the input buffer/connection directly ("+strings.Join(uniq(fields), ",")+") instead of going through ReadBytes: the short-read check can be bypassed")
		}
	}
}

func uniq(s []string) []string {
	m := map[string]bool{}
	var out []string
	for _, x := range s {
		if !m[x] {
			m[x] = true
			out = append(out, x)
		}
	}
	sort.Strings(out)
	return out
}

// c01Fresh: a byte string read from the stream is the caller's to keep. A reading method of
// DataInputX that returns []byte returns storage it made for this call (make, append onto nil, a
// literal) or what another reading method returned — never a slice of an array that lives in the
// stream object: such an array is the stream's scratch space, every later read writes into it, and a
// value handed out earlier no longer reads back as what was written.
func c01Fresh(p *core.Program, r *core.Report) {
	t := namedIn(p, "io", "DataInputX")
	if t == nil {
		return
	}
	for _, fi := range p.MethodsOf(t) {
		if fi.Decl.Body == nil {
			continue
		}
		sig := fi.Obj.Type().(*types.Signature)
		if sig.Results().Len() == 0 || !isByteSlice(sig.Results().At(0).Type()) {
			continue
		}
		info := fi.Pkg.TypesInfo
		rn := recvName(fi)
		var scratch func(e ast.Expr, depth int) string
		scratch = func(e ast.Expr, depth int) string {
			e = ast.Unparen(e)
			if depth > 6 {
				return ""
			}
			switch v := e.(type) {
			case *ast.SliceExpr:
				// a slice of an array field of the receiver
				if sel, ok := ast.Unparen(v.X).(*ast.SelectorExpr); ok {
					if id, ok := ast.Unparen(sel.X).(*ast.Ident); ok && id.Name == rn {
						if _, isArr := info.TypeOf(sel).Underlying().(*types.Array); isArr {
							return types.ExprString(v)
						}
					}
				}
				return scratch(v.X, depth+1)
			case *ast.Ident:
				o, _ := info.ObjectOf(v).(*types.Var)
				if o == nil || o.IsField() {
					return ""
				}
				why := ""
				ast.Inspect(fi.Decl.Body, func(n ast.Node) bool {
					if as, ok := n.(*ast.AssignStmt); ok && len(as.Lhs) == len(as.Rhs) {
						for i, l := range as.Lhs {
							if id, ok := l.(*ast.Ident); ok && info.ObjectOf(id) == types.Object(o) && as.Rhs[i] != e {
								if w := scratch(as.Rhs[i], depth+1); w != "" {
									why = w
								}
							}
						}
					}
					return true
				})
				return why
			}
			return ""
		}
		bad := ""
		var named []ast.Expr
		if fi.Decl.Type.Results != nil {
			for _, f := range fi.Decl.Type.Results.List {
				for _, n := range f.Names {
					named = append(named, n)
				}
			}
		}
		ast.Inspect(fi.Decl.Body, func(n ast.Node) bool {
			if _, isLit := n.(*ast.FuncLit); isLit {
				return false
			}
			rs, ok := n.(*ast.ReturnStmt)
			if !ok {
				return true
			}
			res := rs.Results
			if len(res) == 0 {
				res = named
			}
			if len(res) > 0 {
				if w := scratch(res[0], 0); w != "" {
					bad = "returns " + w + " (return at " + p.Pos(rs.Pos()) + "): a slice of an array kept in the stream object, which the next read overwrites while the caller still holds the value"
				}
			}
			return true
		})
		r.Check(bad == "", "C01.fresh", core.FuncName(fi.Obj), p.Pos(fi.Decl.Pos()), "the bytes returned are not a slice of storage kept in the stream", bad)
	}
}
