package props

import (
	"go/ast"
	"go/constant"
	"go/token"
	"go/types"

	"golibcheck/internal/core"
)

// normalizeSingleExit: a function written in single-exit style — one result variable that is given
// its value somewhere and returned at the very end, with `c == 0 &&` (or `eq &&`) in front of every
// later loop condition so that nothing else happens once the answer is known — is rewritten into the
// early-return form it stands for, which is the form the path rules and the ordering evaluator read:
//
//	c := 0                                   if A { return X }
//	if A { c = X } else { for i…; c == 0     for i…; cond; … {
//	  && cond; … { …; c = f(i) } }      →        …; c = f(i); if c != 0 { return c } }
//	return c                                 return 0
//
// and for a boolean accumulator `eq = E; if eq { REST }` becomes `if !(E) { return false }; REST`.
// The rewrite is done only when it is an equivalence by construction: the variable is a plain local of
// basic type that is never captured or addressed, starts from the neutral value (0 / true), every
// assignment to it is either the last thing before the final return on its path or sits in a loop whose
// condition carries the guard, and nothing reads it except the guards and the final return. Anything
// else leaves the function as it is.
func normalizeSingleExit(p *core.Program) {
	for _, fi := range p.Funcs {
		if fi.Decl.Body == nil || len(fi.Decl.Body.List) < 3 {
			continue
		}
		se := &singleExit{fi: fi, info: fi.Pkg.TypesInfo}
		if nb := se.rewrite(); nb != nil {
			fi.Decl.Body.List = nb
		}
	}
}

type singleExit struct {
	fi     *core.FuncInfo
	info   *types.Info
	acc    types.Object
	accID  *ast.Ident
	isBool bool
	isRef  bool
	failed bool
}

func (s *singleExit) isAcc(e ast.Expr) bool {
	id, ok := ast.Unparen(e).(*ast.Ident)
	return ok && s.info.ObjectOf(id) == s.acc
}

func (s *singleExit) constExpr(v constant.Value, t types.Type, pos token.Pos) ast.Expr {
	var e ast.Expr
	if v.Kind() == constant.Bool {
		e = &ast.Ident{NamePos: pos, Name: v.String()}
	} else {
		e = &ast.BasicLit{ValuePos: pos, Kind: token.INT, Value: v.ExactString()}
	}
	s.info.Types[e] = types.TypeAndValue{Type: t, Value: v}
	if id, ok := e.(*ast.Ident); ok {
		s.info.Uses[id] = types.Universe.Lookup(id.Name)
	}
	return e
}

func (s *singleExit) neutral(pos token.Pos) ast.Expr {
	if s.isRef {
		id := &ast.Ident{NamePos: pos, Name: "nil"}
		s.info.Uses[id] = types.Universe.Lookup("nil")
		s.info.Types[id] = types.TypeAndValue{Type: types.Typ[types.UntypedNil]}
		return id
	}
	if s.isBool {
		return s.constExpr(constant.MakeBool(true), s.acc.Type(), pos)
	}
	return s.constExpr(constant.MakeInt64(0), s.acc.Type(), pos)
}

// guardOf: is e the guard "the accumulator still has its neutral value" (c == 0 / 0 == c / eq)?
func (s *singleExit) isGuard(e ast.Expr) bool {
	e = ast.Unparen(e)
	if s.isRef {
		return false
	}
	if s.isBool {
		return s.isAcc(e)
	}
	be, ok := e.(*ast.BinaryExpr)
	if !ok || be.Op != token.EQL {
		return false
	}
	zero := func(x ast.Expr) bool {
		tv, ok := s.info.Types[x]
		return ok && tv.Value != nil && tv.Value.Kind() == constant.Int && constant.Sign(tv.Value) == 0
	}
	return (s.isAcc(be.X) && zero(be.Y)) || (s.isAcc(be.Y) && zero(be.X))
}

func (s *singleExit) mentionsAcc(n ast.Node) bool {
	found := false
	ast.Inspect(n, func(m ast.Node) bool {
		if id, ok := m.(*ast.Ident); ok && s.info.ObjectOf(id) == s.acc {
			found = true
		}
		return !found
	})
	return found
}

func (s *singleExit) rewrite() []ast.Stmt {
	list := s.fi.Decl.Body.List
	sig := s.fi.Obj.Type().(*types.Signature)
	if sig.Results().Len() != 1 {
		return nil
	}
	if s.fi.Decl.Type.Results != nil && len(s.fi.Decl.Type.Results.List) == 1 && len(s.fi.Decl.Type.Results.List[0].Names) > 0 {
		return nil
	}
	last, ok := list[len(list)-1].(*ast.ReturnStmt)
	if !ok || len(last.Results) != 1 {
		return nil
	}
	rid, ok := ast.Unparen(last.Results[0]).(*ast.Ident)
	if !ok {
		return nil
	}
	v, ok := s.info.ObjectOf(rid).(*types.Var)
	if !ok || v.IsField() || v.Pkg() == nil || v.Parent() == v.Pkg().Scope() {
		return nil
	}
	switch ut := v.Type().Underlying().(type) {
	case *types.Basic:
		switch {
		case ut.Info()&types.IsBoolean != 0:
			s.isBool = true
		case ut.Info()&types.IsInteger != 0:
		default:
			return nil
		}
	case *types.Pointer, *types.Interface:
		// a reference result (`var created Step; switch t { case A: created = NewA() … }; return created`):
		// neutral value nil; only the tail forms (if/switch arms ending in the assignment) are rewritten
		s.isRef = true
	default:
		return nil
	}
	s.acc, s.accID = v, rid
	// parameters are not accumulators
	for _, f := range s.fi.Decl.Type.Params.List {
		for _, nm := range f.Names {
			if s.info.Defs[nm] == types.Object(v) {
				return nil
			}
		}
	}
	// declared by the first statement that mentions it, at the top level: c := K / var c T / eq := E
	declAt := -1
	var init ast.Expr
	for i, st := range list[:len(list)-1] {
		if !s.mentionsAcc(st) {
			continue
		}
		switch d := st.(type) {
		case *ast.AssignStmt:
			if d.Tok == token.DEFINE && len(d.Lhs) == 1 && len(d.Rhs) == 1 && s.isAcc(d.Lhs[0]) && !s.mentionsAcc(d.Rhs[0]) {
				declAt, init = i, d.Rhs[0]
			}
		case *ast.DeclStmt:
			if gd, ok := d.Decl.(*ast.GenDecl); ok && gd.Tok == token.VAR && len(gd.Specs) == 1 {
				vs := gd.Specs[0].(*ast.ValueSpec)
				if len(vs.Names) == 1 && s.info.Defs[vs.Names[0]] == types.Object(v) {
					declAt = i
					if len(vs.Values) == 1 {
						init = vs.Values[0]
					}
				}
			}
		}
		break
	}
	if declAt < 0 {
		return nil
	}
	// never captured, never addressed; other returns are not allowed to mention it
	bad := false
	nAssign := 0
	ast.Inspect(s.fi.Decl.Body, func(n ast.Node) bool {
		switch x := n.(type) {
		case *ast.FuncLit:
			if s.mentionsAcc(x) {
				bad = true
			}
			return false
		case *ast.UnaryExpr:
			if x.Op == token.AND && s.isAcc(x.X) {
				bad = true
			}
		case *ast.IncDecStmt:
			if s.isAcc(x.X) {
				bad = true
			}
		case *ast.AssignStmt:
			for _, l := range x.Lhs {
				if s.isAcc(l) {
					nAssign++
					if len(x.Lhs) != 1 || (x.Tok != token.ASSIGN && x.Tok != token.DEFINE) {
						bad = true
					}
				}
			}
		case *ast.ReturnStmt:
			if x != last && s.mentionsAcc(x) {
				bad = true
			}
		case *ast.RangeStmt:
			if (x.Key != nil && s.isAcc(x.Key)) || (x.Value != nil && s.isAcc(x.Value)) {
				bad = true
			}
		}
		return !bad
	})
	if bad || nAssign < 2 {
		return nil
	}
	// the start value: neutral constant, or (bool) an expression that is then treated as the first assignment
	var head []ast.Stmt
	head = append(head, list[:declAt]...)
	rest := list[declAt+1 : len(list)-1]
	startNeutral := false
	if init == nil {
		startNeutral = !s.isBool // var c int starts at 0 (a reference at nil); var eq bool starts false: not the neutral value
	} else if tv, ok := s.info.Types[init]; ok && tv.Value != nil {
		if s.isBool {
			startNeutral = tv.Value.Kind() == constant.Bool && constant.BoolVal(tv.Value)
		} else {
			startNeutral = tv.Value.Kind() == constant.Int && constant.Sign(tv.Value) == 0
		}
	}
	var body []ast.Stmt
	if startNeutral {
		// keep the declaration: the variable may still be assigned and tested (c = f(); if c != 0 { return c })
		head = append(head, list[declAt])
		body = s.seq(rest, last)
	} else if s.isBool && init != nil {
		// eq := E; REST  ≡  var eq = true; eq = E; REST
		as := &ast.AssignStmt{Lhs: []ast.Expr{s.accID}, TokPos: list[declAt].Pos(), Tok: token.ASSIGN, Rhs: []ast.Expr{init}}
		body = s.seq(append([]ast.Stmt{as}, rest...), last)
	} else {
		return nil
	}
	if s.failed || body == nil {
		return nil
	}
	return append(head, body...)
}

// seq rewrites a statement list that is followed by the final `return acc`, entered with the
// accumulator at its neutral value; the result ends in a return on every path.
func (s *singleExit) seq(list []ast.Stmt, final *ast.ReturnStmt) []ast.Stmt {
	var out []ast.Stmt
	for i := 0; i < len(list); i++ {
		st := list[i]
		isLast := i == len(list)-1
		if !s.mentionsAcc(st) {
			out = append(out, st)
			continue
		}
		switch v := st.(type) {
		case *ast.AssignStmt:
			if len(v.Lhs) != 1 || !s.isAcc(v.Lhs[0]) || s.mentionsAcc(v.Rhs[0]) {
				s.failed = true
				return nil
			}
			if isLast {
				return append(out, &ast.ReturnStmt{Return: v.Pos(), Results: []ast.Expr{v.Rhs[0]}})
			}
			// acc = E; if acc-is-neutral { REST }  (REST being all that is left)  →  leave-if-not-neutral; REST
			if i == len(list)-2 {
				if ifs, ok := list[i+1].(*ast.IfStmt); ok && ifs.Init == nil && ifs.Else == nil && s.isGuard(ifs.Cond) {
					out = append(out, s.leaveUnlessNeutral(v)...)
					return append(out, s.seq(ifs.Body.List, final)...)
				}
			}
			s.failed = true
			return nil
		case *ast.IfStmt:
			if isLast {
				ni := s.ifTail(v, final)
				if ni == nil {
					s.failed = true
					return nil
				}
				return append(out, ni...)
			}
			s.failed = true
			return nil
		case *ast.ForStmt:
			nf := s.guardedLoop(v)
			if nf == nil {
				s.failed = true
				return nil
			}
			out = append(out, nf)
		case *ast.BlockStmt:
			if isLast {
				return append(out, s.seq(v.List, final)...)
			}
			s.failed = true
			return nil
		case *ast.SwitchStmt:
			// switch … { case A: acc = X … } as the last statement: each arm is a sequence of its own,
			// an arm that does not exist (no default) falls through to `return neutral`
			if !isLast || (v.Init != nil && s.mentionsAcc(v.Init)) || (v.Tag != nil && s.mentionsAcc(v.Tag)) {
				s.failed = true
				return nil
			}
			ns := &ast.SwitchStmt{Switch: v.Switch, Init: v.Init, Tag: v.Tag, Body: &ast.BlockStmt{Lbrace: v.Body.Lbrace, Rbrace: v.Body.Rbrace}}
			hasDefault := false
			for _, c := range v.Body.List {
				cc, ok := c.(*ast.CaseClause)
				if !ok {
					s.failed = true
					return nil
				}
				for _, e := range cc.List {
					if s.mentionsAcc(e) {
						s.failed = true
						return nil
					}
				}
				bad := false
				ast.Inspect(&ast.BlockStmt{List: cc.Body}, func(n ast.Node) bool {
					if br, ok := n.(*ast.BranchStmt); ok && (br.Tok == token.FALLTHROUGH || br.Tok == token.BREAK || br.Tok == token.GOTO) {
						bad = true
					}
					return !bad
				})
				if bad {
					s.failed = true
					return nil
				}
				if cc.List == nil {
					hasDefault = true
				}
				arm := s.seq(cc.Body, final)
				if s.failed {
					return nil
				}
				ns.Body.List = append(ns.Body.List, &ast.CaseClause{Case: cc.Case, List: cc.List, Colon: cc.Colon, Body: arm})
			}
			out = append(out, ns)
			if !hasDefault {
				out = append(out, &ast.ReturnStmt{Return: final.Return, Results: []ast.Expr{s.neutral(final.Pos())}})
			}
			return out
		default:
			s.failed = true
			return nil
		}
	}
	// fell through with the accumulator still neutral
	return append(out, &ast.ReturnStmt{Return: final.Return, Results: []ast.Expr{s.neutral(final.Pos())}})
}

// ifTail: an if/else-if/else chain that is the last thing before the final return; each arm is a
// sequence of its own; a missing else falls through to `return neutral`.
func (s *singleExit) ifTail(v *ast.IfStmt, final *ast.ReturnStmt) []ast.Stmt {
	if v.Init != nil && s.mentionsAcc(v.Init) {
		return nil
	}
	if s.mentionsAcc(v.Cond) {
		// if acc-is-neutral { REST } as the last statement: the accumulator IS neutral here
		if v.Else == nil && v.Init == nil && s.isGuard(v.Cond) {
			return s.seq(v.Body.List, final)
		}
		return nil
	}
	then := s.seq(v.Body.List, final)
	if s.failed {
		return nil
	}
	ni := &ast.IfStmt{If: v.If, Init: v.Init, Cond: v.Cond, Body: &ast.BlockStmt{Lbrace: v.Body.Lbrace, List: then, Rbrace: v.Body.Rbrace}}
	switch e := v.Else.(type) {
	case nil:
		return []ast.Stmt{ni, &ast.ReturnStmt{Return: final.Return, Results: []ast.Expr{s.neutral(final.Pos())}}}
	case *ast.BlockStmt:
		els := s.seq(e.List, final)
		if s.failed {
			return nil
		}
		ni.Else = &ast.BlockStmt{Lbrace: e.Lbrace, List: els, Rbrace: e.Rbrace}
	case *ast.IfStmt:
		els := s.ifTail(e, final)
		if els == nil {
			return nil
		}
		if len(els) == 1 {
			if ei, ok := els[0].(*ast.IfStmt); ok {
				ni.Else = ei
				return []ast.Stmt{ni}
			}
		}
		ni.Else = &ast.BlockStmt{Lbrace: e.Pos(), List: els, Rbrace: e.End()}
	default:
		return nil
	}
	return []ast.Stmt{ni}
}

// leaveUnlessNeutral: acc = E followed by "return acc unless it is neutral".
func (s *singleExit) leaveUnlessNeutral(as *ast.AssignStmt) []ast.Stmt {
	if s.isRef {
		s.failed = true
		return nil
	}
	e := as.Rhs[0]
	pos := as.Pos()
	if tv, ok := s.info.Types[e]; ok && tv.Value != nil {
		neutral := false
		if s.isBool {
			neutral = tv.Value.Kind() == constant.Bool && constant.BoolVal(tv.Value)
		} else {
			neutral = tv.Value.Kind() == constant.Int && constant.Sign(tv.Value) == 0
		}
		if neutral {
			return nil
		}
		return []ast.Stmt{&ast.ReturnStmt{Return: pos, Results: []ast.Expr{e}}}
	}
	if s.isBool {
		not := &ast.UnaryExpr{OpPos: pos, Op: token.NOT, X: &ast.ParenExpr{Lparen: pos, X: e, Rparen: e.End()}}
		s.info.Types[not] = types.TypeAndValue{Type: types.Typ[types.Bool]}
		s.info.Types[not.X] = types.TypeAndValue{Type: types.Typ[types.Bool]}
		f := s.constExpr(constant.MakeBool(false), s.acc.Type(), pos)
		return []ast.Stmt{&ast.IfStmt{If: pos, Cond: not, Body: &ast.BlockStmt{Lbrace: pos, List: []ast.Stmt{&ast.ReturnStmt{Return: pos, Results: []ast.Expr{f}}}, Rbrace: pos}}}
	}
	keep := &ast.AssignStmt{Lhs: as.Lhs, TokPos: as.TokPos, Tok: token.ASSIGN, Rhs: as.Rhs}
	zero := s.constExpr(constant.MakeInt64(0), s.acc.Type(), pos)
	ne := &ast.BinaryExpr{X: s.accID, OpPos: pos, Op: token.NEQ, Y: zero}
	s.info.Types[ne] = types.TypeAndValue{Type: types.Typ[types.Bool]}
	ret := &ast.ReturnStmt{Return: pos, Results: []ast.Expr{s.accID}}
	return []ast.Stmt{keep, &ast.IfStmt{If: pos, Cond: ne, Body: &ast.BlockStmt{Lbrace: pos, List: []ast.Stmt{ret}, Rbrace: pos}}}
}

// guardedLoop: for init; guard && cond; post { body } with every assignment to the accumulator in the
// body followed (on its path through the body) by nothing that mentions the accumulator.
func (s *singleExit) guardedLoop(f *ast.ForStmt) ast.Stmt {
	if s.isRef {
		return nil
	}
	if f.Cond == nil || (f.Init != nil && s.mentionsAcc(f.Init)) || (f.Post != nil && s.mentionsAcc(f.Post)) {
		return nil
	}
	// the post statement still runs once after the deciding assignment in the original: it may only
	// step a variable the loop itself declares
	if f.Post != nil {
		var tgt ast.Expr
		switch ps := f.Post.(type) {
		case *ast.IncDecStmt:
			tgt = ps.X
		case *ast.AssignStmt:
			if len(ps.Lhs) == 1 {
				tgt = ps.Lhs[0]
			}
		}
		tid, ok := tgt.(*ast.Ident)
		if !ok {
			return nil
		}
		own := false
		if as, ok := f.Init.(*ast.AssignStmt); ok && as.Tok == token.DEFINE {
			for _, l := range as.Lhs {
				if lid, ok := l.(*ast.Ident); ok && s.info.ObjectOf(lid) == s.info.ObjectOf(tid) {
					own = true
				}
			}
		}
		if !own {
			return nil
		}
	}
	cj := flattenLand(f.Cond)
	var keep []ast.Expr
	guards := 0
	for _, c := range cj {
		if s.isGuard(c) {
			guards++
			continue
		}
		if s.mentionsAcc(c) {
			return nil
		}
		keep = append(keep, c)
	}
	if guards != 1 {
		return nil
	}
	var cond ast.Expr
	for _, c := range keep {
		if cond == nil {
			cond = c
			continue
		}
		nb := &ast.BinaryExpr{X: cond, OpPos: c.Pos(), Op: token.LAND, Y: c}
		s.info.Types[nb] = types.TypeAndValue{Type: types.Typ[types.Bool]}
		cond = nb
	}
	body := s.loopBody(f.Body.List)
	if s.failed {
		return nil
	}
	return &ast.ForStmt{For: f.For, Init: f.Init, Cond: cond, Post: f.Post, Body: &ast.BlockStmt{Lbrace: f.Body.Lbrace, List: body, Rbrace: f.Body.Rbrace}}
}

// loopBody: statements of a guarded loop's body. An assignment to the accumulator must be the last
// statement of its block path; it becomes "leave unless neutral".
func (s *singleExit) loopBody(list []ast.Stmt) []ast.Stmt {
	var out []ast.Stmt
	for i, st := range list {
		if !s.mentionsAcc(st) {
			out = append(out, st)
			continue
		}
		if i != len(list)-1 {
			s.failed = true
			return nil
		}
		switch v := st.(type) {
		case *ast.AssignStmt:
			if len(v.Lhs) != 1 || !s.isAcc(v.Lhs[0]) || s.mentionsAcc(v.Rhs[0]) {
				s.failed = true
				return nil
			}
			out = append(out, s.leaveUnlessNeutral(v)...)
		case *ast.IfStmt:
			ni := s.loopIf(v)
			if ni == nil {
				s.failed = true
				return nil
			}
			out = append(out, ni)
		case *ast.BlockStmt:
			out = append(out, s.loopBody(v.List)...)
		default:
			s.failed = true
			return nil
		}
	}
	return out
}

func (s *singleExit) loopIf(v *ast.IfStmt) *ast.IfStmt {
	if (v.Init != nil && s.mentionsAcc(v.Init)) || s.mentionsAcc(v.Cond) {
		return nil
	}
	ni := &ast.IfStmt{If: v.If, Init: v.Init, Cond: v.Cond, Body: &ast.BlockStmt{Lbrace: v.Body.Lbrace, List: s.loopBody(v.Body.List), Rbrace: v.Body.Rbrace}}
	if s.failed {
		return nil
	}
	switch e := v.Else.(type) {
	case nil:
	case *ast.BlockStmt:
		ni.Else = &ast.BlockStmt{Lbrace: e.Lbrace, List: s.loopBody(e.List), Rbrace: e.Rbrace}
	case *ast.IfStmt:
		ei := s.loopIf(e)
		if ei == nil {
			return nil
		}
		ni.Else = ei
	default:
		return nil
	}
	if s.failed {
		return nil
	}
	return ni
}
