package props

import (
	"fmt"
	"go/ast"
	"go/token"
	"go/types"
	"strings"

	"golibcheck/internal/core"
)

// C20.canon — comparison of keyed containers does not depend on which operand is the receiver.
//
// A keyed container (a value type holding a util/hmap map) that decides CompareTo by walking ONE operand's
// own enumeration and looking every key up in the other cannot reverse its sign when the operands are
// swapped: the swapped call walks the other operand's order ({a:1,b:2} against {b:1,a:2} stops at a
// different key in each direction), and a key that is missing on the other side is seen from both sides
// ({a:1} against {b:1} is "+1, key missing" both ways). Two structural necessary conditions are decided:
//
//	walk  every loop of the comparison that can return walks a sequence that was sorted (it flows from a
//	      producer that calls sort/slices sorting, or was sorted in place before the loop), never an
//	      enumeration or key array of one operand as it stands;
//	keys  the sorted key sequences of the two operands are ordered against each other somewhere (an
//	      ordering comparison, or a compare call, with one operand from each side).
//
// It decides that part, not transitivity or the value comparison inside the walk.
type c20Seq struct {
	sorted bool
	side   int // 1 receiver, 2 other operand, 0 unknown
}

func c20IsKeyed(t *types.Named) bool {
	st, ok := t.Underlying().(*types.Struct)
	if !ok {
		return false
	}
	for i := 0; i < st.NumFields(); i++ {
		ft := st.Field(i).Type()
		if pt, ok := ft.(*types.Pointer); ok {
			ft = pt.Elem()
		}
		if n, ok := ft.(*types.Named); ok && n.Obj().Pkg() != nil && strings.HasSuffix(n.Obj().Pkg().Path(), "util/hmap") && strings.Contains(n.Obj().Name(), "Map") {
			return true
		}
	}
	return false
}

func isSortCall(info *types.Info, call *ast.CallExpr) bool {
	fn := calleeFunc(info, call)
	if fn == nil || fn.Pkg() == nil {
		return false
	}
	switch fn.Pkg().Path() {
	case "sort":
		switch fn.Name() {
		case "Strings", "Ints", "Float64s", "Slice", "SliceStable", "Sort", "Stable":
			return true
		}
	case "slices":
		return strings.HasPrefix(fn.Name(), "Sort")
	}
	return false
}

// sortedProducer: fi returns a slice and sorts (its body calls a sorting function).
func sortedProducer(fi *core.FuncInfo) bool {
	if fi == nil || fi.Decl.Body == nil {
		return false
	}
	res := fi.Obj.Type().(*types.Signature).Results()
	if res.Len() != 1 {
		return false
	}
	if _, ok := res.At(0).Type().Underlying().(*types.Slice); !ok {
		return false
	}
	found := false
	ast.Inspect(fi.Decl.Body, func(n ast.Node) bool {
		if call, ok := n.(*ast.CallExpr); ok && isSortCall(fi.Pkg.TypesInfo, call) {
			found = true
		}
		return true
	})
	return found
}

func c20Canon(p *core.Program, r *core.Report, t *types.Named) {
	if !c20IsKeyed(t) {
		return
	}
	var fi *core.FuncInfo
	for _, m := range p.MethodsOf(t) {
		if m.Obj.Name() == "CompareTo" && m.Decl.Body != nil {
			fi = m
		}
	}
	if fi == nil || fi.Decl.Type.Params == nil || len(fi.Decl.Type.Params.List) == 0 || len(fi.Decl.Type.Params.List[0].Names) == 0 || fi.Decl.Recv == nil || len(fi.Decl.Recv.List[0].Names) == 0 {
		return
	}
	info := fi.Pkg.TypesInfo
	cname := "lang/value." + t.Obj().Name() + ".CompareTo"
	sides := map[types.Object]int{info.Defs[fi.Decl.Recv.List[0].Names[0]]: 1, info.Defs[fi.Decl.Type.Params.List[0].Names[0]]: 2}
	walks, keyCmp := 0, false
	var keyCmpPos token.Pos
	seen := map[*core.FuncInfo]bool{}
	var analyse func(f *core.FuncInfo, sides map[types.Object]int, preset map[types.Object]*c20Seq, depth int)
	analyse = func(f *core.FuncInfo, sides map[types.Object]int, preset map[types.Object]*c20Seq, depth int) {
		if seen[f] || depth > 2 {
			return
		}
		seen[f] = true
		finfo := f.Pkg.TypesInfo
		sideOf := func(e ast.Expr) int {
			if root := rootOf(e); root != nil {
				return sides[finfo.ObjectOf(root)]
			}
			return 0
		}
		seqs := map[types.Object]*c20Seq{}
		for o, sq := range preset {
			seqs[o] = sq
		}
		elem := map[types.Object]*c20Seq{} // range value variables
		define := func(lhs ast.Expr, rhs ast.Expr) {
			id, ok := lhs.(*ast.Ident)
			if !ok || id.Name == "_" {
				return
			}
			o := finfo.ObjectOf(id)
			if o == nil {
				return
			}
			rhs = ast.Unparen(rhs)
			// aliases of an operand: that := o.(*MapValue), t := that.table
			if _, isCall := rhs.(*ast.CallExpr); !isCall {
				if s := sideOf(rhs); s != 0 && sides[o] == 0 {
					if _, isSlice := finfo.TypeOf(lhs).Underlying().(*types.Slice); !isSlice {
						sides[o] = s
						return
					}
				}
			}
			if _, isSlice := typeUnder(finfo.TypeOf(lhs)).(*types.Slice); !isSlice {
				if tn := namedOf(finfo.TypeOf(lhs)); tn == nil || !strings.Contains(tn.Obj().Name(), "Enumer") {
					if it, ok := typeUnder(finfo.TypeOf(lhs)).(*types.Interface); !ok || it.NumMethods() == 0 {
						return
					}
				}
			}
			sq := &c20Seq{}
			if call, ok := rhs.(*ast.CallExpr); ok {
				sq.side = sideOf(call.Fun)
				if sq.side == 0 {
					for _, a := range call.Args {
						if s := sideOf(a); s != 0 {
							sq.side = s
						}
					}
				}
				if fn := calleeFunc(finfo, call); fn != nil {
					if cf := p.FuncOf(fn); cf != nil && sortedProducer(cf) {
						sq.sorted = true
					}
				}
			} else {
				sq.side = sideOf(rhs)
			}
			seqs[o] = sq
		}
		ast.Inspect(f.Decl.Body, func(n ast.Node) bool {
			switch v := n.(type) {
			case *ast.AssignStmt:
				if len(v.Lhs) == len(v.Rhs) {
					for i := range v.Lhs {
						define(v.Lhs[i], v.Rhs[i])
					}
				}
			case *ast.ValueSpec:
				if len(v.Names) == len(v.Values) {
					for i := range v.Names {
						define(v.Names[i], v.Values[i])
					}
				}
			}
			return true
		})
		// sorted in place: sort.Strings(k) / sort.Slice(k, …) anywhere in the function
		ast.Inspect(f.Decl.Body, func(n ast.Node) bool {
			if call, ok := n.(*ast.CallExpr); ok && isSortCall(finfo, call) && len(call.Args) >= 1 {
				if root := rootOf(call.Args[0]); root != nil {
					if sq := seqs[finfo.ObjectOf(root)]; sq != nil {
						sq.sorted = true
					}
				}
			}
			return true
		})
		seqOf := func(e ast.Expr) *c20Seq {
			e = ast.Unparen(e)
			if ix, ok := e.(*ast.IndexExpr); ok {
				e = ast.Unparen(ix.X)
			}
			if id, ok := e.(*ast.Ident); ok {
				o := finfo.ObjectOf(id)
				if sq := seqs[o]; sq != nil {
					return sq
				}
				return elem[o]
			}
			return nil
		}
		hasReturn := func(body *ast.BlockStmt) bool {
			found := false
			ast.Inspect(body, func(n ast.Node) bool {
				switch n.(type) {
				case *ast.FuncLit:
					return false
				case *ast.ReturnStmt:
					found = true
				}
				return true
			})
			return found
		}
		ast.Inspect(f.Decl.Body, func(n ast.Node) bool {
			switch v := n.(type) {
			case *ast.FuncLit:
				return false
			case *ast.RangeStmt:
				sq := seqOf(v.X)
				if sq != nil && v.Value != nil {
					if id, ok := v.Value.(*ast.Ident); ok {
						elem[finfo.ObjectOf(id)] = sq
					}
				}
				if !hasReturn(v.Body) {
					return true
				}
				walks++
				c := fmt.Sprintf("%s walk in %s over %s", cname, f.Obj.Name(), types.ExprString(v.X))
				pos := p.Pos(v.Pos())
				switch {
				case sq != nil && sq.sorted:
					r.OK("C20.canon", c, pos, "the loop ranges over a sorted sequence")
				case sq != nil || sideOf(v.X) != 0:
					r.Viol("C20.canon", c, pos, "the comparison walks one operand's elements in that operand's own (insertion) order: with the operands swapped the walk stops at a different element, so the sign does not reverse")
				default:
					r.Undec("C20.canon", c, pos, "order of the ranged sequence not established")
				}
			case *ast.ForStmt:
				if !hasReturn(v.Body) {
					return true
				}
				walks++
				c := fmt.Sprintf("%s walk in %s (for %s)", cname, f.Obj.Name(), exprOrEmpty(v.Cond))
				pos := p.Pos(v.Pos())
				enumDriven, unsorted, sortedIdx := false, "", 0
				scan := func(n ast.Node) {
					if n == nil {
						return
					}
					ast.Inspect(n, func(m ast.Node) bool {
						switch w := m.(type) {
						case *ast.FuncLit:
							return false
						case *ast.CallExpr:
							if sel, ok := w.Fun.(*ast.SelectorExpr); ok && (sel.Sel.Name == "HasMoreElements" || strings.HasPrefix(sel.Sel.Name, "Next")) {
								enumDriven = true
							}
						case *ast.IndexExpr:
							if _, isSlice := typeUnder(finfo.TypeOf(w.X)).(*types.Slice); isSlice {
								if sq := seqOf(w); sq != nil && sq.sorted {
									sortedIdx++
								} else if sq != nil || sideOf(w.X) != 0 {
									unsorted = types.ExprString(w.X)
								}
							}
						}
						return true
					})
				}
				if v.Cond != nil {
					scan(v.Cond)
				}
				scan(v.Body)
				switch {
				case enumDriven:
					r.Viol("C20.canon", c, pos, "the comparison walks an enumeration of one operand in that operand's own (insertion) order: with the operands swapped the walk stops at a different element, so the sign does not reverse")
				case unsorted != "":
					r.Viol("C20.canon", c, pos, "the comparison indexes `"+unsorted+"`, a sequence of one operand that was never sorted: the walk order depends on the operand")
				case sortedIdx > 0:
					r.OK("C20.canon", c, pos, "the loop indexes sorted sequences only")
				default:
					r.Undec("C20.canon", c, pos, "what the loop walks was not established")
				}
			case *ast.BinaryExpr:
				switch v.Op {
				case token.LSS, token.GTR, token.LEQ, token.GEQ:
					a, b := seqOf(v.X), seqOf(v.Y)
					if a != nil && b != nil && a.sorted && b.sorted && a.side != 0 && b.side != 0 && a.side != b.side {
						keyCmp, keyCmpPos = true, v.Pos()
					}
				}
			case *ast.CallExpr:
				if len(v.Args) == 2 {
					a, b := seqOf(v.Args[0]), seqOf(v.Args[1])
					if a != nil && b != nil && a.sorted && b.sorted && a.side != 0 && b.side != 0 && a.side != b.side {
						if rt := finfo.TypeOf(v); rt != nil && isBasicType(rt) {
							keyCmp, keyCmpPos = true, v.Pos()
						}
					}
				}
				// a same-package helper that receives the operands (or their sequences)
				if fn := calleeFunc(finfo, v); fn != nil && fn.Pkg() == f.Obj.Pkg() && fn.Name() != "CompareTo" && fn.Name() != "Equals" {
					if cf := p.FuncOf(fn); cf != nil && cf.Decl.Body != nil && !sortedProducer(cf) && hasLoopDeep(p, cf, 0) {
						ns := map[types.Object]int{}
						nq := map[types.Object]*c20Seq{}
						k := 0
						any := false
						if cf.Decl.Recv != nil && len(cf.Decl.Recv.List) > 0 && len(cf.Decl.Recv.List[0].Names) > 0 {
							if s := sideOf(v.Fun); s != 0 {
								ns[cf.Pkg.TypesInfo.Defs[cf.Decl.Recv.List[0].Names[0]]] = s
								any = true
							}
						}
						for _, fl := range cf.Decl.Type.Params.List {
							for _, nm := range fl.Names {
								if k < len(v.Args) {
									if s := sideOf(v.Args[k]); s != 0 {
										ns[cf.Pkg.TypesInfo.Defs[nm]] = s
										any = true
									} else if sq := seqOf(v.Args[k]); sq != nil {
										if _, isIdx := ast.Unparen(v.Args[k]).(*ast.IndexExpr); !isIdx {
											nq[cf.Pkg.TypesInfo.Defs[nm]] = sq
											any = true
										}
									}
								}
								k++
							}
						}
						if any && cf != fi {
							// sequences handed over keep their order knowledge only through the side map; a helper
							// that gets raw operands is analysed like the method itself
							analyse(cf, ns, nq, depth+1)
						}
					}
				}
			}
			return true
		})
	}
	analyse(fi, sides, nil, 0)
	pos := p.Pos(fi.Decl.Pos())
	if walks == 0 {
		r.Undec("C20.canon", cname+" walk", pos, "no element walk found in the comparison of a keyed container")
		return
	}
	if keyCmp {
		r.OK("C20.canon", cname+" keys", p.Pos(keyCmpPos), "the sorted keys of the two operands are ordered against each other")
	} else {
		r.Viol("C20.canon", cname+" keys", pos, "the keys of the two operands are never ordered against each other: two containers of equal size with different keys compare the same way in both directions")
	}
}

func typeUnder(t types.Type) types.Type {
	if t == nil {
		return nil
	}
	return t.Underlying()
}

func exprOrEmpty(e ast.Expr) string {
	if e == nil {
		return ""
	}
	return types.ExprString(e)
}

// c20Cache — a keyed container that remembers something derived from its table (the sorted key list
// its comparison walks) forgets it whenever the table changes. Cache fields are the fields of the
// container, other than the table itself, that the comparison path (CompareTo/Equals and the
// same-receiver helpers they call) reads and that some method assigns. Every method that changes the
// table — calls a mutating method on it (Put*/Add*/Remove*/Clear*/Set*/Sort*), assigns it, or hands it
// to a decoder — must assign each cache field too (directly or through a same-receiver helper), on
// pain of comparing by the keys of an earlier state: the sign then no longer reverses on swap.
func c20Cache(p *core.Program, r *core.Report, t *types.Named) {
	if !c20IsKeyed(t) {
		return
	}
	st := t.Underlying().(*types.Struct)
	tableField := ""
	for i := 0; i < st.NumFields(); i++ {
		ft := st.Field(i).Type()
		if pt, ok := ft.(*types.Pointer); ok {
			ft = pt.Elem()
		}
		if n, ok := ft.(*types.Named); ok && n.Obj().Pkg() != nil && strings.HasSuffix(n.Obj().Pkg().Path(), "util/hmap") {
			tableField = st.Field(i).Name()
		}
	}
	if tableField == "" {
		return
	}
	methods := p.MethodsOf(t)
	byName := map[string]*core.FuncInfo{}
	for _, m := range methods {
		byName[m.Obj.Name()] = m
	}
	// closure of same-receiver calls
	calls := func(fi *core.FuncInfo) []*core.FuncInfo {
		var out []*core.FuncInfo
		if fi.Decl.Body == nil {
			return nil
		}
		rn := recvName(fi)
		ast.Inspect(fi.Decl.Body, func(n ast.Node) bool {
			if call, ok := n.(*ast.CallExpr); ok {
				if sel, ok := call.Fun.(*ast.SelectorExpr); ok {
					if id, ok := ast.Unparen(sel.X).(*ast.Ident); ok && id.Name == rn {
						if m := byName[sel.Sel.Name]; m != nil {
							out = append(out, m)
						}
					}
				}
			}
			return true
		})
		return out
	}
	closure := func(root *core.FuncInfo) map[*core.FuncInfo]bool {
		seen := map[*core.FuncInfo]bool{}
		var walk func(f *core.FuncInfo)
		walk = func(f *core.FuncInfo) {
			if f == nil || seen[f] {
				return
			}
			seen[f] = true
			for _, c := range calls(f) {
				walk(c)
			}
		}
		walk(root)
		return seen
	}
	fieldUses := func(fi *core.FuncInfo) (reads, writes map[string]bool) {
		reads, writes = map[string]bool{}, map[string]bool{}
		if fi.Decl.Body == nil {
			return
		}
		rn := recvName(fi)
		lhs := map[*ast.SelectorExpr]bool{}
		ast.Inspect(fi.Decl.Body, func(n ast.Node) bool {
			if as, ok := n.(*ast.AssignStmt); ok {
				for _, l := range as.Lhs {
					if sel, ok := ast.Unparen(l).(*ast.SelectorExpr); ok {
						if id, ok := ast.Unparen(sel.X).(*ast.Ident); ok && id.Name == rn {
							lhs[sel] = true
							writes[sel.Sel.Name] = true
						}
					}
				}
			}
			return true
		})
		ast.Inspect(fi.Decl.Body, func(n ast.Node) bool {
			if sel, ok := n.(*ast.SelectorExpr); ok && !lhs[sel] {
				if id, ok := ast.Unparen(sel.X).(*ast.Ident); ok && id.Name == rn {
					if fv, ok := fi.Pkg.TypesInfo.ObjectOf(sel.Sel).(*types.Var); ok && fv.IsField() {
						reads[sel.Sel.Name] = true
					}
				}
			}
			return true
		})
		return
	}
	cmpReads := map[string]bool{}
	for _, root := range []string{"CompareTo", "Equals"} {
		for f := range closure(byName[root]) {
			rd, _ := fieldUses(f)
			for k := range rd {
				cmpReads[k] = true
			}
		}
	}
	written := map[string]bool{}
	for _, m := range methods {
		_, wr := fieldUses(m)
		for k := range wr {
			written[k] = true
		}
	}
	var caches []string
	for i := 0; i < st.NumFields(); i++ {
		f := st.Field(i).Name()
		if f != tableField && cmpReads[f] && written[f] {
			caches = append(caches, f)
		}
	}
	tn := "lang/value." + t.Obj().Name()
	if len(caches) == 0 {
		r.OK("C20.cache", tn, "-", "the comparison reads nothing remembered beside the table")
		return
	}
	mutName := func(n string) bool {
		l := strings.ToLower(n)
		for _, pre := range []string{"put", "add", "remove", "clear", "set", "sort", "read", "toobject"} {
			if strings.HasPrefix(l, pre) {
				return true
			}
		}
		return false
	}
	for _, m := range methods {
		if m.Decl.Body == nil {
			continue
		}
		rn := recvName(m)
		mutates := false
		ast.Inspect(m.Decl.Body, func(n ast.Node) bool {
			switch v := n.(type) {
			case *ast.CallExpr:
				if sel, ok := v.Fun.(*ast.SelectorExpr); ok && mutName(sel.Sel.Name) {
					if inner, ok := ast.Unparen(sel.X).(*ast.SelectorExpr); ok && inner.Sel.Name == tableField {
						if id, ok := ast.Unparen(inner.X).(*ast.Ident); ok && id.Name == rn {
							mutates = true
						}
					}
				}
			case *ast.AssignStmt:
				for _, l := range v.Lhs {
					if sel, ok := ast.Unparen(l).(*ast.SelectorExpr); ok && sel.Sel.Name == tableField {
						if id, ok := ast.Unparen(sel.X).(*ast.Ident); ok && id.Name == rn {
							mutates = true
						}
					}
				}
			}
			return true
		})
		if !mutates {
			continue
		}
		resets := map[string]bool{}
		for f := range closure(m) {
			_, wr := fieldUses(f)
			for k := range wr {
				resets[k] = true
			}
		}
		var missing []string
		for _, cf := range caches {
			if !resets[cf] {
				missing = append(missing, cf)
			}
		}
		c := tn + "." + m.Obj.Name()
		if len(missing) > 0 {
			r.Viol("C20.cache", c, p.Pos(m.Decl.Pos()), "changes "+tableField+" without resetting "+strings.Join(missing, ", ")+", which the comparison reads: after this call CompareTo/Equals judge by the remembered keys of the earlier state")
		} else {
			r.OK("C20.cache", c, p.Pos(m.Decl.Pos()), "resets "+strings.Join(caches, ", "))
		}
	}
}
