package props

import (
	"fmt"
	"os"

	"golibcheck/internal/core"
	"golibcheck/internal/wire"
)

func init() {
	register(&Checker{ID: "X00", Run: func(p *core.Program, r *core.Report) {
		x := wire.NewExtractor(p)
		r.Rule("X.pairs", "debug: all pairs", 0)
		r.Rule("X.fields", "debug: labels", 0)
		r.Rule("X.count", "debug: countlink", 0)
		pkgs := []string{"io", "lang/value", "lang/pack", "lang/pack/udp", "lang/step", "lang/service", "lang/topology", "util/hmap", "util/list", "util/hll", "logsink/zip", "net/oneway"}
		if s := os.Getenv("X00_PKGS"); s != "" {
			pkgs = []string{s}
		}
		pairs, unp := discoverPairs(p, x, pkgs)
		fmt.Printf("pairs=%d unpaired=%d\n", len(pairs), len(unp))
		for _, u := range unp {
			fmt.Printf("  unpaired %s\n", core.FuncName(u.Obj))
		}
		if f := os.Getenv("X00_DUMP"); f != "" {
			for _, cp := range pairs {
				if cp.W.Obj.Name() == f || core.FuncName(cp.W.Obj) == f {
					fmt.Printf("== W %s\n%s== R %s\n%s", cp.Name, x.Dump(x.Grammar(cp.W, cp.WS), "  "), core.FuncName(cp.R.Obj), x.Dump(x.Grammar(cp.R, cp.RS), "  "))
				}
			}
		}
		runPairs(p, x, r, pairs, pairRules{"X.pairs", "X.fields", "X.count"}, 4)
	}})
}
