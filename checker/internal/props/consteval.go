package props

import (
	"go/ast"
	"go/constant"
	"go/token"
	"go/types"
	"strconv"

	"golibcheck/internal/core"
)

// A small evaluator for closed initialiser code: functions and expressions whose every input is a
// constant (package-level constants, literals, tables built in a loop at init time). It exists so that
// a look-up table computed by `var tbl = buildTable()` can be judged like a table written out as a
// literal. Values are 64-bit integers, strings and integer arrays/slices; statements are assignments,
// declarations, inc/dec, if, for, range (over a string or an array) and return. Anything else makes
// the evaluation fail (ok=false), never guess.

type cval struct {
	n   int64
	s   string
	arr  []int64
	strs []string
	k    byte // 'i' integer, 's' string, 'a' integer array, 'S' array of strings
}

type constEvaluator struct {
	p     *core.Program
	steps int
	depth int
}

type cframe struct {
	info *types.Info
	env  map[types.Object]*cval
	ret  *cval
	rets []*cval // a return of several values
	done bool
	res  []types.Object
}

func (ce *constEvaluator) fail() bool { return false }

// evalPkgVar: the value a package-level variable is initialised with (a literal, or the result of a
// function of the module called with constants).
func (ce *constEvaluator) evalPkgVar(fi *core.FuncInfo, v *types.Var) (*cval, bool) {
	for _, f := range fi.Pkg.Syntax {
		for _, d := range f.Decls {
			gd, ok := d.(*ast.GenDecl)
			if !ok || gd.Tok != token.VAR {
				continue
			}
			for _, sp := range gd.Specs {
				vs := sp.(*ast.ValueSpec)
				for i, nm := range vs.Names {
					if fi.Pkg.TypesInfo.Defs[nm] == v && i < len(vs.Values) && len(vs.Values) == len(vs.Names) {
						fr := &cframe{info: fi.Pkg.TypesInfo, env: map[types.Object]*cval{}}
						return ce.expr(fr, vs.Values[i])
					}
					// var a, b = f(): the i-th result of a function of the module called with constants
					if fi.Pkg.TypesInfo.Defs[nm] == v && len(vs.Values) == 1 && len(vs.Names) > 1 {
						call, ok := ast.Unparen(vs.Values[0]).(*ast.CallExpr)
						if !ok {
							return nil, false
						}
						info := fi.Pkg.TypesInfo
						fr := &cframe{info: info, env: map[types.Object]*cval{}}
						var args []*cval
						for _, a := range call.Args {
							x, ok := ce.expr(fr, a)
							if !ok {
								return nil, false
							}
							args = append(args, x)
						}
						fn := calleeFunc(info, call)
						if fn == nil {
							return nil, false
						}
						hf := ce.p.FuncOf(fn)
						if hf == nil || hf.Decl.Body == nil || hf.Decl.Recv != nil {
							return nil, false
						}
						all, ok := ce.runAll(hf.Pkg.TypesInfo, hf.Decl.Type, hf.Decl.Body, args, nil)
						if !ok || i >= len(all) || all[i] == nil {
							return nil, false
						}
						return all[i], true
					}
				}
			}
		}
	}
	return nil, false
}

func zeroOf(t types.Type) *cval {
	switch u := t.Underlying().(type) {
	case *types.Basic:
		if u.Info()&types.IsString != 0 {
			return &cval{k: 's'}
		}
		if u.Info()&(types.IsInteger|types.IsBoolean) != 0 {
			return &cval{k: 'i'}
		}
	case *types.Array:
		if b, ok := u.Elem().Underlying().(*types.Basic); ok && b.Info()&types.IsInteger != 0 && u.Len() <= 1<<16 {
			return &cval{k: 'a', arr: make([]int64, u.Len())}
		}
		if b, ok := u.Elem().Underlying().(*types.Basic); ok && b.Info()&types.IsString != 0 && u.Len() <= 1<<16 {
			return &cval{k: 'S', strs: make([]string, u.Len())}
		}
	}
	return nil
}

func (ce *constEvaluator) call(info *types.Info, c *ast.CallExpr, args []*cval) (*cval, bool) {
	var id *ast.Ident
	switch f := ast.Unparen(c.Fun).(type) {
	case *ast.Ident:
		id = f
	case *ast.SelectorExpr:
		id = f.Sel
	}
	if id == nil || ce.depth > 6 {
		return nil, false
	}
	fn, _ := info.Uses[id].(*types.Func)
	if fn == nil {
		return nil, false
	}
	hf := ce.p.FuncOf(fn)
	if hf == nil || hf.Decl.Body == nil || hf.Decl.Recv != nil {
		return nil, false
	}
	return ce.run(hf.Pkg.TypesInfo, hf.Decl.Type, hf.Decl.Body, args, nil)
}

// run evaluates a function body (a declared function, or a function literal called on the spot, which
// sees the variables of the frame it is written in).
func (ce *constEvaluator) run(info *types.Info, ft *ast.FuncType, body *ast.BlockStmt, args []*cval, outer map[types.Object]*cval) (*cval, bool) {
	all, ok := ce.runAll(info, ft, body, args, outer)
	if !ok || len(all) != 1 {
		return nil, false
	}
	return all[0], true
}

// runAll is run for a function of any number of results.
func (ce *constEvaluator) runAll(info *types.Info, ft *ast.FuncType, body *ast.BlockStmt, args []*cval, outer map[types.Object]*cval) ([]*cval, bool) {
	fr := &cframe{info: info, env: map[types.Object]*cval{}}
	for o, v := range outer {
		fr.env[o] = v
	}
	i := 0
	if ft.Params != nil {
		for _, f := range ft.Params.List {
			for _, n := range f.Names {
				if i >= len(args) {
					return nil, false
				}
				fr.env[fr.info.Defs[n]] = args[i]
				i++
			}
		}
	}
	if i != len(args) {
		return nil, false
	}
	if ft.Results != nil {
		for _, f := range ft.Results.List {
			for _, n := range f.Names {
				o := fr.info.Defs[n]
				z := zeroOf(o.Type())
				if z == nil {
					return nil, false
				}
				fr.env[o] = z
				fr.res = append(fr.res, o)
			}
		}
	}
	ce.depth++
	ok := ce.block(fr, body.List)
	ce.depth--
	if !ok {
		return nil, false
	}
	if fr.ret != nil {
		return []*cval{fr.ret}, true
	}
	if len(fr.rets) > 0 {
		return fr.rets, true
	}
	if len(fr.res) >= 1 {
		var out []*cval
		for _, o := range fr.res {
			out = append(out, fr.env[o])
		}
		return out, true
	}
	return nil, false
}

func (ce *constEvaluator) block(fr *cframe, list []ast.Stmt) bool {
	for _, s := range list {
		if fr.done {
			return true
		}
		if !ce.stmt(fr, s) {
			return false
		}
	}
	return true
}

func (ce *constEvaluator) assign(fr *cframe, lhs ast.Expr, v *cval) bool {
	switch l := ast.Unparen(lhs).(type) {
	case *ast.Ident:
		if l.Name == "_" {
			return true
		}
		o := fr.info.ObjectOf(l)
		if o == nil {
			return false
		}
		if v.k == 'a' {
			if _, isArr := o.Type().Underlying().(*types.Array); isArr {
				v = &cval{k: 'a', arr: append([]int64(nil), v.arr...)}
			}
		}
		if v.k == 'S' {
			if _, isArr := o.Type().Underlying().(*types.Array); isArr {
				v = &cval{k: 'S', strs: append([]string(nil), v.strs...)}
			}
		}
		fr.env[o] = v
		return true
	case *ast.IndexExpr:
		base, ok := ce.expr(fr, l.X)
		if !ok {
			return false
		}
		ix, ok := ce.expr(fr, l.Index)
		if !ok || ix.k != 'i' || ix.n < 0 {
			return false
		}
		switch {
		case base.k == 'a' && v.k == 'i' && ix.n < int64(len(base.arr)):
			base.arr[ix.n] = v.n
			return true
		case base.k == 'S' && v.k == 's' && ix.n < int64(len(base.strs)):
			base.strs[ix.n] = v.s
			return true
		}
		return false
	}
	return false
}

func (ce *constEvaluator) stmt(fr *cframe, s ast.Stmt) bool {
	ce.steps++
	if ce.steps > 200000 {
		return false
	}
	switch v := s.(type) {
	case *ast.AssignStmt:
		if len(v.Lhs) != len(v.Rhs) {
			return false
		}
		vals := make([]*cval, len(v.Rhs))
		for i := range v.Rhs {
			x, ok := ce.expr(fr, v.Rhs[i])
			if !ok {
				return false
			}
			if v.Tok != token.ASSIGN && v.Tok != token.DEFINE {
				cur, ok := ce.expr(fr, v.Lhs[i])
				if !ok || cur.k != 'i' || x.k != 'i' {
					return false
				}
				op := map[token.Token]token.Token{token.ADD_ASSIGN: token.ADD, token.SUB_ASSIGN: token.SUB, token.MUL_ASSIGN: token.MUL, token.OR_ASSIGN: token.OR,
					token.AND_ASSIGN: token.AND, token.SHL_ASSIGN: token.SHL, token.SHR_ASSIGN: token.SHR, token.XOR_ASSIGN: token.XOR}[v.Tok]
				r, ok := intOp(op, cur.n, x.n)
				if !ok {
					return false
				}
				x = &cval{k: 'i', n: r}
			}
			vals[i] = x
		}
		for i := range v.Lhs {
			if !ce.assign(fr, v.Lhs[i], vals[i]) {
				return false
			}
		}
		return true
	case *ast.DeclStmt:
		gd, ok := v.Decl.(*ast.GenDecl)
		if !ok {
			return false
		}
		for _, sp := range gd.Specs {
			vs, ok := sp.(*ast.ValueSpec)
			if !ok {
				continue
			}
			for i, nm := range vs.Names {
				o := fr.info.Defs[nm]
				if i < len(vs.Values) {
					x, ok := ce.expr(fr, vs.Values[i])
					if !ok {
						return false
					}
					fr.env[o] = x
				} else {
					z := zeroOf(o.Type())
					if z == nil {
						return false
					}
					fr.env[o] = z
				}
			}
		}
		return true
	case *ast.IncDecStmt:
		cur, ok := ce.expr(fr, v.X)
		if !ok || cur.k != 'i' {
			return false
		}
		d := int64(1)
		if v.Tok == token.DEC {
			d = -1
		}
		return ce.assign(fr, v.X, &cval{k: 'i', n: cur.n + d})
	case *ast.BlockStmt:
		return ce.block(fr, v.List)
	case *ast.IfStmt:
		if v.Init != nil && !ce.stmt(fr, v.Init) {
			return false
		}
		c, ok := ce.expr(fr, v.Cond)
		if !ok || c.k != 'i' {
			return false
		}
		if c.n != 0 {
			return ce.block(fr, v.Body.List)
		}
		if v.Else != nil {
			return ce.stmt(fr, v.Else)
		}
		return true
	case *ast.ForStmt:
		if v.Init != nil && !ce.stmt(fr, v.Init) {
			return false
		}
		for {
			if v.Cond != nil {
				c, ok := ce.expr(fr, v.Cond)
				if !ok || c.k != 'i' {
					return false
				}
				if c.n == 0 {
					return true
				}
			}
			if !ce.block(fr, v.Body.List) {
				return false
			}
			if fr.done {
				return true
			}
			if v.Post != nil && !ce.stmt(fr, v.Post) {
				return false
			}
		}
	case *ast.RangeStmt:
		x, ok := ce.expr(fr, v.X)
		if !ok {
			return false
		}
		n := 0
		switch x.k {
		case 's':
			for _, ch := range []byte(x.s) {
				if ch >= 0x80 {
					return false // runes, not bytes
				}
			}
			n = len(x.s)
		case 'a':
			n = len(x.arr)
		case 'S':
			n = len(x.strs)
		case 'i':
			n = int(x.n)
		}
		for i := 0; i < n; i++ {
			if v.Key != nil && !ce.assign(fr, v.Key, &cval{k: 'i', n: int64(i)}) {
				return false
			}
			if v.Value != nil {
				var el int64
				if x.k == 'S' {
					if !ce.assign(fr, v.Value, &cval{k: 's', s: x.strs[i]}) {
						return false
					}
				} else {
					if x.k == 's' {
						el = int64(x.s[i])
					} else if x.k == 'a' {
						el = x.arr[i]
					} else {
						return false
					}
					if !ce.assign(fr, v.Value, &cval{k: 'i', n: el}) {
						return false
					}
				}
			}
			if !ce.block(fr, v.Body.List) {
				return false
			}
			if fr.done {
				return true
			}
		}
		return true
	case *ast.ReturnStmt:
		fr.done = true
		if len(v.Results) == 1 {
			x, ok := ce.expr(fr, v.Results[0])
			if !ok {
				return false
			}
			fr.ret = x
		} else if len(v.Results) > 1 {
			for _, re := range v.Results {
				x, ok := ce.expr(fr, re)
				if !ok {
					return false
				}
				fr.rets = append(fr.rets, x)
			}
		}
		return true
	case *ast.EmptyStmt:
		return true
	}
	return false
}

func intOp(op token.Token, a, b int64) (int64, bool) {
	switch op {
	case token.ADD:
		return a + b, true
	case token.SUB:
		return a - b, true
	case token.MUL:
		return a * b, true
	case token.QUO:
		if b == 0 {
			return 0, false
		}
		return a / b, true
	case token.REM:
		if b == 0 {
			return 0, false
		}
		return a % b, true
	case token.AND:
		return a & b, true
	case token.OR:
		return a | b, true
	case token.XOR:
		return a ^ b, true
	case token.AND_NOT:
		return a &^ b, true
	case token.SHL:
		if b < 0 || b > 63 {
			return 0, false
		}
		return a << uint(b), true
	case token.SHR:
		if b < 0 || b > 63 {
			return 0, false
		}
		return a >> uint(b), true
	}
	return 0, false
}

func b2i(b bool) int64 {
	if b {
		return 1
	}
	return 0
}

func (ce *constEvaluator) expr(fr *cframe, e ast.Expr) (*cval, bool) {
	ce.steps++
	if ce.steps > 200000 {
		return nil, false
	}
	e = ast.Unparen(e)
	if tv, ok := fr.info.Types[e]; ok && tv.Value != nil {
		switch tv.Value.Kind() {
		case constant.Int:
			if n, ok := constant.Int64Val(tv.Value); ok {
				return &cval{k: 'i', n: n}, true
			}
		case constant.Bool:
			return &cval{k: 'i', n: b2i(constant.BoolVal(tv.Value))}, true
		case constant.String:
			return &cval{k: 's', s: constant.StringVal(tv.Value)}, true
		}
		return nil, false
	}
	switch v := e.(type) {
	case *ast.Ident:
		if x, ok := fr.env[fr.info.ObjectOf(v)]; ok {
			return x, true
		}
		// a package-level table that nothing in the module assigns after its initialisation
		if pv, ok := fr.info.ObjectOf(v).(*types.Var); ok && pv.Pkg() != nil && pv.Parent() == pv.Pkg().Scope() && ce.depth < 6 {
			if fi := ce.anyFuncOf(pv.Pkg()); fi != nil && ce.pkgVarStable(pv) {
				ce.depth++
				x, ok := ce.evalPkgVar(fi, pv)
				ce.depth--
				return x, ok
			}
		}
		return nil, false
	case *ast.BinaryExpr:
		a, ok1 := ce.expr(fr, v.X)
		if ok1 && a.k == 's' {
			b, ok2 := ce.expr(fr, v.Y)
			if !ok2 || b.k != 's' {
				return nil, false
			}
			switch v.Op {
			case token.ADD:
				return &cval{k: 's', s: a.s + b.s}, true
			case token.EQL:
				return &cval{k: 'i', n: b2i(a.s == b.s)}, true
			case token.NEQ:
				return &cval{k: 'i', n: b2i(a.s != b.s)}, true
			}
			return nil, false
		}
		if !ok1 || a.k != 'i' {
			return nil, false
		}
		if v.Op == token.LAND && a.n == 0 {
			return &cval{k: 'i'}, true
		}
		if v.Op == token.LOR && a.n != 0 {
			return &cval{k: 'i', n: 1}, true
		}
		b, ok2 := ce.expr(fr, v.Y)
		if !ok2 || b.k != 'i' {
			return nil, false
		}
		switch v.Op {
		case token.LAND, token.LOR:
			return &cval{k: 'i', n: b2i(b.n != 0)}, true
		case token.EQL:
			return &cval{k: 'i', n: b2i(a.n == b.n)}, true
		case token.NEQ:
			return &cval{k: 'i', n: b2i(a.n != b.n)}, true
		case token.LSS:
			return &cval{k: 'i', n: b2i(a.n < b.n)}, true
		case token.LEQ:
			return &cval{k: 'i', n: b2i(a.n <= b.n)}, true
		case token.GTR:
			return &cval{k: 'i', n: b2i(a.n > b.n)}, true
		case token.GEQ:
			return &cval{k: 'i', n: b2i(a.n >= b.n)}, true
		}
		r, ok := intOp(v.Op, a.n, b.n)
		if !ok {
			return nil, false
		}
		// wrap to the width of the expression's type
		if bt, ok := fr.info.TypeOf(e).Underlying().(*types.Basic); ok {
			switch bt.Kind() {
			case types.Uint8:
				r &= 0xff
			case types.Int8:
				r = int64(int8(r))
			case types.Uint16:
				r &= 0xffff
			case types.Int16:
				r = int64(int16(r))
			case types.Uint32:
				r &= 0xffffffff
			case types.Int32:
				r = int64(int32(r))
			}
		}
		return &cval{k: 'i', n: r}, true
	case *ast.UnaryExpr:
		x, ok := ce.expr(fr, v.X)
		if !ok || x.k != 'i' {
			return nil, false
		}
		switch v.Op {
		case token.SUB:
			return &cval{k: 'i', n: -x.n}, true
		case token.NOT:
			return &cval{k: 'i', n: b2i(x.n == 0)}, true
		case token.ADD:
			return x, true
		}
		return nil, false
	case *ast.IndexExpr:
		if mv, ok := ce.mapLookup(fr, v); ok {
			return mv, true
		}
		base, ok := ce.expr(fr, v.X)
		if !ok {
			return nil, false
		}
		ix, ok := ce.expr(fr, v.Index)
		if !ok || ix.k != 'i' || ix.n < 0 {
			return nil, false
		}
		switch base.k {
		case 's':
			if ix.n >= int64(len(base.s)) {
				return nil, false
			}
			return &cval{k: 'i', n: int64(base.s[ix.n])}, true
		case 'a':
			if ix.n >= int64(len(base.arr)) {
				return nil, false
			}
			return &cval{k: 'i', n: base.arr[ix.n]}, true
		case 'S':
			if ix.n >= int64(len(base.strs)) {
				return nil, false
			}
			return &cval{k: 's', s: base.strs[ix.n]}, true
		}
		return nil, false
	case *ast.CompositeLit:
		if isStringSeq(fr.info.TypeOf(v)) {
			z := &cval{k: 'S'}
			if at, ok := fr.info.TypeOf(v).Underlying().(*types.Array); ok {
				z.strs = make([]string, at.Len())
			} else {
				z.strs = make([]string, len(v.Elts))
			}
			for i, el := range v.Elts {
				if _, isKV := el.(*ast.KeyValueExpr); isKV {
					return nil, false
				}
				x, ok := ce.expr(fr, el)
				if !ok || x.k != 's' || i >= len(z.strs) {
					return nil, false
				}
				z.strs[i] = x.s
			}
			return z, true
		}
		z := zeroOf(fr.info.TypeOf(v))
		if z == nil || z.k != 'a' {
			if sl, ok := fr.info.TypeOf(v).Underlying().(*types.Slice); ok {
				if b, ok := sl.Elem().Underlying().(*types.Basic); ok && b.Info()&types.IsInteger != 0 {
					z = &cval{k: 'a', arr: make([]int64, len(v.Elts))}
				}
			}
		}
		if z == nil || z.k != 'a' {
			return nil, false
		}
		for i, el := range v.Elts {
			if _, isKV := el.(*ast.KeyValueExpr); isKV {
				return nil, false
			}
			x, ok := ce.expr(fr, el)
			if !ok || x.k != 'i' || i >= len(z.arr) {
				return nil, false
			}
			z.arr[i] = x.n
		}
		return z, true
	case *ast.CallExpr:
		if tv, ok := fr.info.Types[v.Fun]; ok && tv.IsType() && len(v.Args) == 1 {
			x, ok := ce.expr(fr, v.Args[0])
			if !ok {
				return nil, false
			}
			if x.k != 'i' {
				return x, true
			}
			n := x.n
			if bt, ok := tv.Type.Underlying().(*types.Basic); ok {
				switch bt.Kind() {
				case types.Uint8:
					n &= 0xff
				case types.Int8:
					n = int64(int8(n))
				case types.Uint16:
					n &= 0xffff
				case types.Int16:
					n = int64(int16(n))
				case types.Uint32:
					n &= 0xffffffff
				case types.Int32:
					n = int64(int32(n))
				}
			}
			return &cval{k: 'i', n: n}, true
		}
		if id, ok := v.Fun.(*ast.Ident); ok && id.Name == "len" && len(v.Args) == 1 {
			if _, isB := fr.info.Uses[id].(*types.Builtin); isB {
				x, ok := ce.expr(fr, v.Args[0])
				if !ok {
					return nil, false
				}
				switch x.k {
				case 's':
					return &cval{k: 'i', n: int64(len(x.s))}, true
				case 'a':
					return &cval{k: 'i', n: int64(len(x.arr))}, true
				case 'S':
					return &cval{k: 'i', n: int64(len(x.strs))}, true
				}
				return nil, false
			}
		}
		if id, ok := v.Fun.(*ast.Ident); ok && id.Name == "make" && len(v.Args) == 2 {
			if _, isB := fr.info.Uses[id].(*types.Builtin); isB {
				n, ok := ce.expr(fr, v.Args[1])
				if !ok || n.k != 'i' || n.n < 0 || n.n > 1<<16 {
					return nil, false
				}
				t := fr.info.TypeOf(v)
				if isStringSeq(t) {
					return &cval{k: 'S', strs: make([]string, n.n)}, true
				}
				if sl, ok := t.Underlying().(*types.Slice); ok {
					if b, ok := sl.Elem().Underlying().(*types.Basic); ok && b.Info()&types.IsInteger != 0 {
						return &cval{k: 'a', arr: make([]int64, n.n)}, true
					}
				}
				return nil, false
			}
		}
		var args []*cval
		for _, a := range v.Args {
			x, ok := ce.expr(fr, a)
			if !ok {
				return nil, false
			}
			args = append(args, x)
		}
		if fl, ok := ast.Unparen(v.Fun).(*ast.FuncLit); ok {
			if ce.depth > 6 {
				return nil, false
			}
			return ce.run(fr.info, fl.Type, fl.Body, args, fr.env)
		}
		// the standard library's integer formatters, given constants
		if isCallTo(fr.info, v, "strconv", "Itoa") && len(args) == 1 && args[0].k == 'i' {
			return &cval{k: 's', s: strconv.FormatInt(args[0].n, 10)}, true
		}
		if isCallTo(fr.info, v, "strconv", "FormatInt") && len(args) == 2 && args[0].k == 'i' && args[1].k == 'i' && args[1].n >= 2 && args[1].n <= 36 {
			return &cval{k: 's', s: strconv.FormatInt(args[0].n, int(args[1].n))}, true
		}
		return ce.call(fr.info, v, args)
	}
	return nil, false
}

func isStringSeq(t types.Type) bool {
	if t == nil {
		return false
	}
	var el types.Type
	switch u := t.Underlying().(type) {
	case *types.Array:
		el = u.Elem()
	case *types.Slice:
		el = u.Elem()
	default:
		return false
	}
	b, ok := el.Underlying().(*types.Basic)
	return ok && b.Info()&types.IsString != 0
}

// anyFuncOf: some function of the package (evalPkgVar finds the syntax through it).
func (ce *constEvaluator) anyFuncOf(pk *types.Package) *core.FuncInfo {
	for _, fi := range ce.p.Funcs {
		if fi.Obj.Pkg() == pk {
			return fi
		}
	}
	return nil
}

// pkgVarStable: no function of the module assigns the variable, an element of it, or takes its address.
func (ce *constEvaluator) pkgVarStable(v *types.Var) bool {
	stable := true
	for _, fi := range ce.p.Funcs {
		if fi.Decl.Body == nil || fi.Obj.Pkg() != v.Pkg() {
			continue
		}
		info := fi.Pkg.TypesInfo
		ast.Inspect(fi.Decl.Body, func(n ast.Node) bool {
			switch w := n.(type) {
			case *ast.AssignStmt:
				for _, l := range w.Lhs {
					if root := rootOf(l); root != nil && info.ObjectOf(root) == v {
						stable = false
					}
				}
			case *ast.IncDecStmt:
				if root := rootOf(w.X); root != nil && info.ObjectOf(root) == v {
					stable = false
				}
			case *ast.UnaryExpr:
				if w.Op == token.AND {
					if root := rootOf(w.X); root != nil && info.ObjectOf(root) == v {
						stable = false
					}
				}
			}
			return true
		})
	}
	return stable
}

// mapLookup: m[k] with m a stable package-level map written as a literal with constant keys and k a
// value known here; a missing key yields the zero value.
func (ce *constEvaluator) mapLookup(fr *cframe, ix *ast.IndexExpr) (*cval, bool) {
	id, ok := ast.Unparen(ix.X).(*ast.Ident)
	if !ok {
		return nil, false
	}
	pv, ok := fr.info.ObjectOf(id).(*types.Var)
	if !ok || pv.Pkg() == nil || pv.Parent() != pv.Pkg().Scope() {
		return nil, false
	}
	mt, ok := pv.Type().Underlying().(*types.Map)
	if !ok || !ce.pkgVarStable(pv) {
		return nil, false
	}
	k, ok := ce.expr(fr, ix.Index)
	if !ok {
		return nil, false
	}
	fi := ce.anyFuncOf(pv.Pkg())
	if fi == nil {
		return nil, false
	}
	for _, f := range fi.Pkg.Syntax {
		for _, d := range f.Decls {
			gd, ok := d.(*ast.GenDecl)
			if !ok || gd.Tok != token.VAR {
				continue
			}
			for _, sp := range gd.Specs {
				vs := sp.(*ast.ValueSpec)
				for i, nm := range vs.Names {
					if fi.Pkg.TypesInfo.Defs[nm] != pv || i >= len(vs.Values) {
						continue
					}
					cl, ok := ast.Unparen(vs.Values[i]).(*ast.CompositeLit)
					if !ok {
						return nil, false
					}
					lfr := &cframe{info: fi.Pkg.TypesInfo, env: map[types.Object]*cval{}}
					for _, el := range cl.Elts {
						kv, ok := el.(*ast.KeyValueExpr)
						if !ok {
							return nil, false
						}
						kk, ok := ce.expr(lfr, kv.Key)
						if !ok || kk.k != k.k {
							return nil, false
						}
						if (kk.k == 'i' && kk.n == k.n) || (kk.k == 's' && kk.s == k.s) {
							return ce.expr(lfr, kv.Value)
						}
					}
					z := zeroOf(mt.Elem())
					return z, z != nil
				}
			}
		}
	}
	return nil, false
}
