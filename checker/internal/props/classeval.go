package props

import (
	"fmt"
	"go/ast"
	"go/constant"
	"go/token"
	"go/types"
	"math"
	"sort"
	"strings"

	"golibcheck/internal/core"
	"golibcheck/internal/paths"
)

// classEval (engine E10): partition evaluation of a function whose control flow depends on one integer
// symbol S (a length, a tag byte, a decimal value) only through comparisons with constants. The body is
// enumerated path by path; each path carries the exact set of S values that take it (a union of
// intervals), the stream operations performed in order, the simple statements executed (for the
// bit-level interpreter) and the returned expression. if/else chains, tagless and tagged switches,
// early returns, guard clauses, locals and delegation to same-receiver helpers are all normalised
// away, so a rule written on top of it states *which values get which encoding*, not how the
// branches are spelled. Nothing is executed; anything outside the fragment is UNDECIDED.

type ivl struct{ lo, hi int64 } // inclusive

type ivSet []ivl // sorted, disjoint

func (s ivSet) String() string {
	var parts []string
	for _, i := range s {
		if i.lo == i.hi {
			parts = append(parts, fmt.Sprint(i.lo))
		} else {
			parts = append(parts, fmt.Sprintf("%d..%d", i.lo, i.hi))
		}
	}
	if len(parts) == 0 {
		return "{}"
	}
	return strings.Join(parts, ",")
}

func (s ivSet) empty() bool { return len(s) == 0 }

func (s ivSet) contains(v int64) bool {
	for _, i := range s {
		if i.lo <= v && v <= i.hi {
			return true
		}
	}
	return false
}

func ivIntersect(a, b ivSet) ivSet {
	var out ivSet
	for _, x := range a {
		for _, y := range b {
			lo, hi := x.lo, x.hi
			if y.lo > lo {
				lo = y.lo
			}
			if y.hi < hi {
				hi = y.hi
			}
			if lo <= hi {
				out = append(out, ivl{lo, hi})
			}
		}
	}
	sort.Slice(out, func(i, j int) bool { return out[i].lo < out[j].lo })
	return out
}

func ivUnion(a, b ivSet) ivSet {
	all := append(append(ivSet{}, a...), b...)
	sort.Slice(all, func(i, j int) bool { return all[i].lo < all[j].lo })
	var out ivSet
	for _, x := range all {
		if n := len(out); n > 0 && (out[n-1].hi == math.MaxInt64 || x.lo <= out[n-1].hi+1) {
			if x.hi > out[n-1].hi {
				out[n-1].hi = x.hi
			}
			continue
		}
		out = append(out, x)
	}
	return out
}

func ivComplement(s ivSet, dom ivl) ivSet {
	var out ivSet
	cur := dom.lo
	done := false
	for _, x := range ivIntersect(s, ivSet{dom}) {
		if x.lo > cur {
			out = append(out, ivl{cur, x.lo - 1})
		}
		if x.hi == math.MaxInt64 {
			done = true
			break
		}
		cur = x.hi + 1
	}
	if !done && cur <= dom.hi {
		out = append(out, ivl{cur, dom.hi})
	}
	return out
}

// ivCmp: {x in dom : x op c}
func ivCmp(op token.Token, c int64, dom ivl) ivSet {
	var s ivSet
	switch op {
	case token.EQL:
		s = ivSet{{c, c}}
	case token.NEQ:
		return ivComplement(ivSet{{c, c}}, dom)
	case token.LSS:
		if c == math.MinInt64 {
			return nil
		}
		s = ivSet{{math.MinInt64, c - 1}}
	case token.LEQ:
		s = ivSet{{math.MinInt64, c}}
	case token.GTR:
		if c == math.MaxInt64 {
			return nil
		}
		s = ivSet{{c + 1, math.MaxInt64}}
	case token.GEQ:
		s = ivSet{{c, math.MaxInt64}}
	}
	return ivIntersect(s, ivSet{dom})
}

func flipOp(op token.Token) token.Token {
	switch op {
	case token.LSS:
		return token.GTR
	case token.LEQ:
		return token.GEQ
	case token.GTR:
		return token.LSS
	case token.GEQ:
		return token.LEQ
	}
	return op
}

type ceEmit struct {
	Method string
	Call   *ast.CallExpr
	Args   []string // canonical argument texts (locals substituted, S for the symbol)
	Env    map[types.Object]ast.Expr // local bindings in force at this operation (for resolving arguments)
}

type cePath struct {
	Set   ivSet
	Emits []ceEmit
	Stmts []ast.Stmt // simple statements of the top function executed on this path, in order
	Ret   ast.Expr   // returned expression (nil: fell off the end / bare return)
	RetS  string     // canonical text of Ret
	Inl   bool       // the path went through an inlined helper (Stmts is not a single frame)
	Pos   token.Pos
}

type ceState struct {
	set   ivSet
	emits []ceEmit
	stmts []ast.Stmt
	env   map[types.Object]ast.Expr
	inl   bool
}

func (s ceState) fork() ceState {
	n := ceState{set: s.set, inl: s.inl}
	n.emits = append([]ceEmit(nil), s.emits...)
	n.stmts = append([]ast.Stmt(nil), s.stmts...)
	n.env = make(map[types.Object]ast.Expr, len(s.env))
	for k, v := range s.env {
		n.env[k] = v
	}
	return n
}

type classEval struct {
	p    *core.Program
	fi   *core.FuncInfo
	info *types.Info
	dom  ivl
	// symBase: does this (conversion-stripped, substituted) expression denote S?
	symBase func(c *classEval, st *ceState, e ast.Expr) bool
	// nilMeansZero: expression whose nil-ness implies S == 0 (the slice whose length is S)
	nilMeansZero func(c *classEval, st *ceState, e ast.Expr) bool
	// prim: a stream method recorded as an operation (anything else on the same receiver is inlined)
	prim  func(name string) bool
	recvs map[types.Object]bool // stream objects: the receiver (top function and inlined frames) or designated locals
	// emptyMeansZero: string expression whose emptiness is S == 0 (optional)
	emptyMeansZero func(c *classEval, st *ceState, e ast.Expr) bool
	// isStream: additional stream objects (locals of the stream type); optional
	isStream func(obj types.Object) bool
	noRecv   bool // the method receiver is not a stream
	// forkUnknown: an if-condition that does not test the symbol is followed both ways (paths then
	// overlap: the classes are a cover, not a partition)
	forkUnknown bool
	// innermost unrolled loop: where `break` and `continue` go
	brk, cnt func(ceState)
	hoisted  map[*ast.CallExpr]bool
	tmpSeq   int
	err   string
	out   []cePath
	depth int
}

func (c *classEval) fail(n ast.Node, format string, a ...interface{}) {
	if c.err == "" {
		c.err = c.p.Pos(n.Pos()) + ": " + fmt.Sprintf(format, a...)
	}
}

// strip removes parentheses and integer conversions and follows locals.
func (c *classEval) strip(st *ceState, e ast.Expr) ast.Expr {
	for i := 0; i < 20; i++ {
		e = ast.Unparen(e)
		switch v := e.(type) {
		case *ast.Ident:
			if obj := c.info.ObjectOf(v); obj != nil {
				if sub, ok := st.env[obj]; ok {
					e = sub
					continue
				}
			}
			return e
		case *ast.CallExpr:
			if tv, ok := c.info.Types[v.Fun]; ok && tv.IsType() && len(v.Args) == 1 {
				if b, isB := tv.Type.Underlying().(*types.Basic); isB && b.Info()&types.IsInteger != 0 {
					e = v.Args[0]
					continue
				}
			}
			return e
		default:
			return e
		}
	}
	return e
}

func (c *classEval) isSym(st *ceState, e ast.Expr) bool {
	return c.symBase(c, st, c.strip(st, e))
}

func (c *classEval) constOf(e ast.Expr) (int64, bool) {
	if tv, ok := c.info.Types[e]; ok && tv.Value != nil {
		if v := constant.ToInt(tv.Value); v.Kind() == constant.Int {
			if n, ok := constant.Int64Val(v); ok {
				return n, true
			}
		}
	}
	return 0, false
}

func (c *classEval) isRecv(st *ceState, e ast.Expr) bool {
	e = ast.Unparen(e)
	if id, ok := e.(*ast.Ident); ok {
		obj := c.info.ObjectOf(id)
		if c.recvs[obj] || (c.isStream != nil && obj != nil && c.isStream(obj)) {
			return true
		}
		if sub, ok := st.env[obj]; ok {
			return c.isRecv(st, sub)
		}
	}
	// chained call on the stream: out.WriteByte(1).WriteBytes(...)
	if call, ok := e.(*ast.CallExpr); ok {
		if sel, ok := call.Fun.(*ast.SelectorExpr); ok {
			return c.isRecv(st, sel.X)
		}
	}
	return false
}

func (c *classEval) isStreamObj(obj types.Object) bool {
	return obj != nil && (c.recvs[obj] || (c.isStream != nil && c.isStream(obj)))
}

// canon prints e with locals substituted, constants folded and S for the symbol.
func (c *classEval) canon(st *ceState, e ast.Expr) string {
	e = ast.Unparen(e)
	if c.symBase(c, st, e) {
		return "S"
	}
	if v, ok := c.constOf(e); ok {
		return fmt.Sprint(v)
	}
	switch v := e.(type) {
	case *ast.Ident:
		if obj := c.info.ObjectOf(v); obj != nil {
			if sub, ok := st.env[obj]; ok && substitutable(obj.Type()) {
				return c.canon(st, sub)
			}
			if c.recvs[obj] {
				return "recv"
			}
		}
		return v.Name
	case *ast.BasicLit:
		return v.Value
	case *ast.CallExpr:
		var args []string
		for _, a := range v.Args {
			args = append(args, c.canon(st, a))
		}
		if tv, ok := c.info.Types[v.Fun]; ok && tv.IsType() {
			return types.TypeString(tv.Type, func(*types.Package) string { return "" }) + "(" + strings.Join(args, ",") + ")"
		}
		if sel, ok := v.Fun.(*ast.SelectorExpr); ok {
			if c.isRecv(st, sel.X) {
				return sel.Sel.Name + "(" + strings.Join(args, ",") + ")"
			}
			return c.canon(st, sel.X) + "." + sel.Sel.Name + "(" + strings.Join(args, ",") + ")"
		}
		return c.canon(st, v.Fun) + "(" + strings.Join(args, ",") + ")"
	case *ast.SelectorExpr:
		return c.canon(st, v.X) + "." + v.Sel.Name
	case *ast.BinaryExpr:
		return "(" + c.canon(st, v.X) + v.Op.String() + c.canon(st, v.Y) + ")"
	case *ast.UnaryExpr:
		return v.Op.String() + c.canon(st, v.X)
	case *ast.CompositeLit:
		var el []string
		for _, x := range v.Elts {
			el = append(el, c.canon(st, x))
		}
		return types.ExprString(v.Type) + "{" + strings.Join(el, ",") + "}"
	case *ast.IndexExpr:
		return c.canon(st, v.X) + "[" + c.canon(st, v.Index) + "]"
	case *ast.SliceExpr:
		return c.canon(st, v.X) + "[:]"
	case *ast.StarExpr:
		return "*" + c.canon(st, v.X)
	}
	return types.ExprString(e)
}

// substitutable: locals of value-like types are replaced by their defining expression when printing;
// pointers, structs, maps and interfaces keep their name (their identity, not their initialiser, matters).
func substitutable(t types.Type) bool {
	switch u := t.Underlying().(type) {
	case *types.Basic:
		return true
	case *types.Slice:
		_, ok := u.Elem().Underlying().(*types.Basic)
		return ok
	}
	return false
}

// cond evaluates a condition to the set of S values for which it is `want`; ok=false if it is not a
// predicate over S alone.
func (c *classEval) cond(st *ceState, e ast.Expr, want bool) (ivSet, bool) {
	e = ast.Unparen(e)
	full := ivSet{c.dom}
	if tv, ok := c.info.Types[e]; ok && tv.Value != nil && tv.Value.Kind() == constant.Bool {
		if constant.BoolVal(tv.Value) == want {
			return full, true
		}
		return nil, true
	}
	switch v := e.(type) {
	case *ast.Ident:
		// a boolean local holding a test of the symbol (minus := num < 0)
		if def, ok := st.env[c.info.ObjectOf(v)]; ok && def != nil {
			if _, again := ast.Unparen(def).(*ast.Ident); !again {
				return c.cond(st, def, want)
			}
		}
	case *ast.UnaryExpr:
		if v.Op == token.NOT {
			return c.cond(st, v.X, !want)
		}
	case *ast.BinaryExpr:
		switch v.Op {
		case token.LAND, token.LOR:
			at, ok1 := c.cond(st, v.X, true)
			af, ok2 := c.cond(st, v.X, false)
			bt, ok3 := c.cond(st, v.Y, true)
			bf, ok4 := c.cond(st, v.Y, false)
			if !(ok1 && ok2 && ok3 && ok4) {
				return nil, false
			}
			if v.Op == token.LAND {
				if want {
					return ivIntersect(at, bt), true
				}
				return ivUnion(af, bf), true
			}
			if want {
				return ivUnion(at, bt), true
			}
			return ivIntersect(af, bf), true
		case token.EQL, token.NEQ, token.LSS, token.LEQ, token.GTR, token.GEQ:
			// nil test of the slice whose length is S
			if c.nilMeansZero != nil && (v.Op == token.EQL || v.Op == token.NEQ) {
				if id, ok := ast.Unparen(v.Y).(*ast.Ident); ok && id.Name == "nil" && c.nilMeansZero(c, st, v.X) {
					isNil := (v.Op == token.EQL) == want
					if isNil {
						return ivIntersect(ivSet{{0, 0}}, full), true
					}
					return full, true // non-nil says nothing about the length
				}
			}
			if c.emptyMeansZero != nil && (v.Op == token.EQL || v.Op == token.NEQ) {
				for _, pr := range [][2]ast.Expr{{v.X, v.Y}, {v.Y, v.X}} {
					if tv, ok := c.info.Types[pr[1]]; ok && tv.Value != nil && tv.Value.Kind() == constant.String && constant.StringVal(tv.Value) == "" && c.emptyMeansZero(c, st, c.strip(st, pr[0])) {
						isEmpty := (v.Op == token.EQL) == want
						if isEmpty {
							return ivIntersect(ivSet{{0, 0}}, full), true
						}
						return ivComplement(ivSet{{0, 0}}, c.dom), true
					}
				}
			}
			// S == T(U(S)) with U a narrower integer type: S lies in U's range
			if v.Op == token.EQL || v.Op == token.NEQ {
				for _, pr := range [][2]ast.Expr{{v.X, v.Y}, {v.Y, v.X}} {
					if !c.isSym(st, pr[0]) || !c.isSym(st, pr[1]) {
						continue
					}
					if lo, hi, ok := c.narrowRange(st, pr[1]); ok {
						if _, _, also := c.narrowRange(st, pr[0]); also {
							continue
						}
						t := ivIntersect(ivSet{{lo, hi}}, full)
						if (v.Op == token.EQL) == want {
							return t, true
						}
						return ivComplement(t, c.dom), true
					}
				}
			}
			op := v.Op
			var k int64
			var okc bool
			switch {
			case c.isSym(st, v.X):
				k, okc = c.constOfSub(st, v.Y)
			case c.isSym(st, v.Y):
				k, okc = c.constOfSub(st, v.X)
				op = flipOp(op)
			default:
				return nil, false
			}
			if !okc {
				return nil, false
			}
			t := ivCmp(op, k, c.dom)
			if want {
				return t, true
			}
			return ivComplement(t, c.dom), true
		}
	}
	return nil, false
}

// narrowRange: e is the class symbol wrapped in integer conversions of which at least one narrows a
// signed 64-bit value to a signed N-bit type (N < 64): the range of that type. (The outer conversion
// back to 64 bits sign-extends, so S == int64(intN(S)) holds exactly on that range.)
func (c *classEval) narrowRange(st *ceState, e ast.Expr) (int64, int64, bool) {
	bitsMin := 64
	for i := 0; i < 10; i++ {
		e = ast.Unparen(e)
		if id, ok := e.(*ast.Ident); ok {
			if sub, ok := st.env[c.info.ObjectOf(id)]; ok {
				e = sub
				continue
			}
			break
		}
		call, ok := e.(*ast.CallExpr)
		if !ok || len(call.Args) != 1 {
			break
		}
		tv, ok := c.info.Types[call.Fun]
		if !ok || !tv.IsType() {
			break
		}
		b, ok := tv.Type.Underlying().(*types.Basic)
		if !ok || b.Info()&types.IsInteger == 0 {
			break
		}
		if b.Info()&types.IsUnsigned != 0 {
			return 0, 0, false
		}
		if w := typeBits(tv.Type); w < bitsMin {
			bitsMin = w
		}
		e = call.Args[0]
	}
	if bitsMin >= 64 {
		return 0, 0, false
	}
	return -(int64(1) << (bitsMin - 1)), (int64(1) << (bitsMin - 1)) - 1, true
}

func (c *classEval) constOfSub(st *ceState, e ast.Expr) (int64, bool) {
	if v, ok := c.constOf(e); ok {
		return v, true
	}
	s := c.strip(st, e)
	if s != e {
		return c.constOf(s)
	}
	return 0, false
}

// reads records, in evaluation order, the primitive stream operations inside an expression.
func (c *classEval) reads(st *ceState, e ast.Expr) {
	if e == nil {
		return
	}
	switch v := ast.Unparen(e).(type) {
	case *ast.CallExpr:
		if sel, ok := v.Fun.(*ast.SelectorExpr); ok {
			c.reads(st, sel.X)
		}
		for _, a := range v.Args {
			c.reads(st, a)
		}
		// the stream handed to another codec: recorded as one opaque operation
		if sel, ok := v.Fun.(*ast.SelectorExpr); !ok || !c.isRecv(st, sel.X) {
			for _, a := range v.Args {
				if id, isId := ast.Unparen(a).(*ast.Ident); isId && c.isStreamObj(c.info.ObjectOf(id)) {
					em := ceEmit{Method: "pass:" + c.canon(st, v.Fun), Call: v, Env: st.env}
					st.emits = append(st.emits, em)
					break
				}
			}
		}
		if sel, ok := v.Fun.(*ast.SelectorExpr); ok && c.isRecv(st, sel.X) {
			if c.prim(sel.Sel.Name) {
				em := ceEmit{Method: sel.Sel.Name, Call: v, Env: st.env}
				for _, a := range v.Args {
					em.Args = append(em.Args, c.canon(st, a))
				}
				st.emits = append(st.emits, em)
			} else if !c.pureAccessor(sel.Sel.Name) {
				c.fail(v, "call of %s on the stream in expression position (not inlined)", sel.Sel.Name)
			}
		}
	case *ast.BinaryExpr:
		c.reads(st, v.X)
		c.reads(st, v.Y)
	case *ast.UnaryExpr:
		c.reads(st, v.X)
	case *ast.CompositeLit:
		for _, x := range v.Elts {
			c.reads(st, x)
		}
	case *ast.IndexExpr:
		c.reads(st, v.X)
		c.reads(st, v.Index)
	case *ast.SliceExpr:
		c.reads(st, v.X)
	case *ast.SelectorExpr:
		c.reads(st, v.X)
	case *ast.StarExpr:
		c.reads(st, v.X)
	}
}

func (c *classEval) pureAccessor(name string) bool { return name == "Available" || name == "Size" }

// inlinable returns the same-receiver method a call statement/tail call delegates to.
func (c *classEval) inlinable(st *ceState, call *ast.CallExpr) *core.FuncInfo {
	sel, ok := call.Fun.(*ast.SelectorExpr)
	if !ok || !c.isRecv(st, sel.X) || c.prim(sel.Sel.Name) {
		return nil
	}
	fn, _ := c.info.Uses[sel.Sel].(*types.Func)
	if fn == nil {
		return nil
	}
	fi := c.p.FuncOf(fn)
	if fi == nil || fi.Decl.Body == nil || fi.Pkg != c.fi.Pkg {
		return nil
	}
	return fi
}

// valueHelper: a package-level function of the same package, called with the class symbol and/or
// constants only, whose body touches no stream and returns one integer: a classifier such as
// decimalWidth(v).
func (c *classEval) valueHelper(st *ceState, call *ast.CallExpr) *core.FuncInfo {
	id, ok := ast.Unparen(call.Fun).(*ast.Ident)
	if !ok {
		return nil
	}
	fn, _ := c.info.Uses[id].(*types.Func)
	if fn == nil || fn.Pkg() == nil {
		return nil
	}
	sig := fn.Type().(*types.Signature)
	if sig.Recv() != nil || sig.Results().Len() != 1 || sig.Variadic() {
		return nil
	}
	if b, ok := sig.Results().At(0).Type().Underlying().(*types.Basic); !ok || b.Info()&types.IsInteger == 0 {
		// or the bytes a class-dependent prefix is made of (blobLenPrefix(len(v)) []byte)
		if sl, isSl := sig.Results().At(0).Type().Underlying().(*types.Slice); !isSl || !isBasicType(sl.Elem()) {
			return nil
		}
	}
	hf := c.p.FuncOf(fn)
	if hf == nil || hf.Decl.Body == nil || hf.Pkg != c.fi.Pkg {
		return nil
	}
	usesSym := false
	for _, a := range call.Args {
		if c.isSym(st, a) {
			usesSym = true
		} else if _, isC := c.constOfSub(st, a); !isC {
			return nil
		}
	}
	if !usesSym {
		return nil
	}
	pure := true
	ast.Inspect(hf.Decl.Body, func(n ast.Node) bool {
		switch x := n.(type) {
		case *ast.CallExpr:
			if tv, ok := c.info.Types[x.Fun]; !ok || !tv.IsType() {
				// byte packers of the package (no receiver, no stream among the parameters) are values too
				okCall := false
				if cid, isId := ast.Unparen(x.Fun).(*ast.Ident); isId {
					if cf, isF := c.info.Uses[cid].(*types.Func); isF && cf.Pkg() == fn.Pkg() {
						csig := cf.Type().(*types.Signature)
						okCall = csig.Recv() == nil
						for i := 0; i < csig.Params().Len(); i++ {
							if nt := namedOf(csig.Params().At(i).Type()); nt != nil && strings.HasPrefix(nt.Obj().Name(), "Data") {
								okCall = false
							}
						}
					}
					if b, isB := c.info.Uses[cid].(*types.Builtin); isB && (b.Name() == "len" || b.Name() == "make" || b.Name() == "append" || b.Name() == "copy") {
						okCall = true
					}
				}
				if !okCall {
					pure = false
				}
			}
		case *ast.ForStmt, *ast.RangeStmt, *ast.GoStmt, *ast.DeferStmt, *ast.FuncLit:
			pure = false
		}
		return pure
	})
	if !pure {
		return nil
	}
	return hf
}

type ceRet func(st ceState, ret ast.Expr, pos token.Pos)

func (c *classEval) inline(st ceState, fi *core.FuncInfo, call *ast.CallExpr, onRet ceRet) {
	if c.depth >= 3 {
		c.fail(call, "inlining depth")
		return
	}
	for _, a := range call.Args {
		c.reads(&st, a)
	}
	st = st.fork()
	st.inl = true
	i := 0
	for _, f := range fi.Decl.Type.Params.List {
		for _, n := range f.Names {
			if i < len(call.Args) {
				st.env[c.info.Defs[n]] = call.Args[i]
			}
			i++
		}
	}
	if fi.Decl.Recv != nil && len(fi.Decl.Recv.List) == 1 && len(fi.Decl.Recv.List[0].Names) == 1 {
		c.recvs[c.info.Defs[fi.Decl.Recv.List[0].Names[0]]] = true
	}
	c.depth++
	c.run(fi.Decl.Body.List, st, func(s2 ceState) { onRet(s2, nil, fi.Decl.End()) }, onRet)
	c.depth--
}

// run enumerates the paths of a statement list: k is called when control falls off the end, onRet on return.
func (c *classEval) run(list []ast.Stmt, st ceState, k func(ceState), onRet ceRet) {
	if c.err != "" {
		return
	}
	if st.set.empty() {
		return
	}
	if len(list) == 0 {
		k(st)
		return
	}
	s, rest := list[0], list[1:]
	// an argument computed by a helper that is followed when it stands alone (a stream helper of the
	// receiver, a value helper over the class symbol) is computed into a temporary first:
	//   in.ReadBytes(in.readBlobLen())        =>  t := in.readBlobLen(); in.ReadBytes(t)
	//   out.WriteBytes(blobLenPrefix(len(v))) =>  t := blobLenPrefix(len(v)); out.WriteBytes(t)
	if pre, ns := c.hoistHelperArgs(&st, s); len(pre) > 0 {
		c.run(append(append(pre, ns), rest...), st, k, onRet)
		return
	}
	cont := func(s2 ceState) { c.run(rest, s2, k, onRet) }
	switch v := s.(type) {
	case *ast.BlockStmt:
		c.run(v.List, st, cont, onRet)
	case *ast.EmptyStmt:
		cont(st)
	case *ast.ReturnStmt:
		var ret ast.Expr
		if len(v.Results) == 1 {
			ret = v.Results[0]
			if call, ok := ast.Unparen(ret).(*ast.CallExpr); ok {
				// a function value picked by a selector function / table: read as first-order code
				if _, isHO := ast.Unparen(call.Fun).(*ast.CallExpr); isHO {
					if blk := defunctionalise(c.p, c.fi, call); blk != nil {
						st2 := st.fork()
						st2.inl = true
						c.run([]ast.Stmt{blk}, st2, func(s2 ceState) { onRet(s2, nil, v.Pos()) }, onRet)
						return
					}
				}
				if fi := c.inlinable(&st, call); fi != nil {
					c.inline(st, fi, call, onRet)
					return
				}
			}
			c.reads(&st, ret)
		} else if len(v.Results) > 1 {
			c.fail(v, "multi-value return")
			return
		}
		if !st.inl {
			st.stmts = append(st.stmts, v)
		}
		onRet(st, ret, v.Pos())
	case *ast.ExprStmt:
		call, ok := v.X.(*ast.CallExpr)
		if !ok {
			c.fail(v, "expression statement")
			return
		}
		if id, isId := call.Fun.(*ast.Ident); isId && id.Name == "panic" {
			return // the path ends here (rejecting)
		}
		if fi := c.inlinable(&st, call); fi != nil {
			c.inline(st, fi, call, func(s2 ceState, _ ast.Expr, _ token.Pos) {
				s2.inl = true
				cont(s2)
			})
			return
		}
		c.reads(&st, call)
		if !st.inl {
			st.stmts = append(st.stmts, v)
		}
		cont(st)
	case *ast.AssignStmt:
		if c.forkUnknown && len(v.Rhs) == 1 && len(v.Lhs) > 1 && (v.Tok == token.DEFINE || v.Tok == token.ASSIGN) {
			// i, err := f(x): opaque results; the statement is kept for whoever reads the path
			if _, isCall := ast.Unparen(v.Rhs[0]).(*ast.CallExpr); isCall {
				st = st.fork()
				c.reads(&st, v.Rhs[0])
				for _, l := range v.Lhs {
					if id, ok := l.(*ast.Ident); ok {
						delete(st.env, c.info.ObjectOf(id))
					}
				}
				if !st.inl {
					st.stmts = append(st.stmts, v)
				}
				cont(st)
				return
			}
		}
		if len(v.Lhs) != len(v.Rhs) || (v.Tok != token.DEFINE && v.Tok != token.ASSIGN) {
			c.fail(v, "assignment form")
			return
		}
		// x := recv.helper(args): follow the helper; x stands for what it returns
		if len(v.Rhs) == 1 {
			if call, ok := ast.Unparen(v.Rhs[0]).(*ast.CallExpr); ok {
				if fi := c.inlinable(&st, call); fi != nil {
					lid, _ := v.Lhs[0].(*ast.Ident)
					c.inline(st, fi, call, func(s2 ceState, ret ast.Expr, _ token.Pos) {
						s2 = s2.fork()
						s2.inl = true
						if lid != nil && ret != nil {
							if obj := c.info.ObjectOf(lid); obj != nil {
								s2.env[obj] = ret
							}
						}
						cont(s2)
					})
					return
				}
			}
		}
		// x := classify(S): a package-level helper that looks at the class symbol only (no stream) is
		// followed for the value it returns; the path keeps one statement `x := <what it returned>`
		if len(v.Rhs) == 1 && len(v.Lhs) == 1 {
			if call, ok := ast.Unparen(v.Rhs[0]).(*ast.CallExpr); ok {
				if hf := c.valueHelper(&st, call); hf != nil {
					lid, _ := v.Lhs[0].(*ast.Ident)
					wasInl := st.inl
					c.inline(st, hf, call, func(s2 ceState, ret ast.Expr, _ token.Pos) {
						if ret == nil {
							c.fail(call, "helper %s falls off its end", types.ExprString(call.Fun))
							return
						}
						s2 = s2.fork()
						s2.inl = wasInl
						if lid != nil {
							if obj := c.info.ObjectOf(lid); obj != nil {
								s2.env[obj] = ret
							}
						}
						if !wasInl {
							// what the helper returned, in this frame's terms (parameters -> arguments)
							repl := map[types.Object]ast.Expr{}
							k := 0
							for _, f := range hf.Decl.Type.Params.List {
								for _, nm := range f.Names {
									if k < len(call.Args) {
										if o := hf.Pkg.TypesInfo.Defs[nm]; o != nil {
											repl[o] = call.Args[k]
										}
									}
									k++
								}
							}
							rv := ret
							if ne, ok := paths.Subst(c.info, ret, repl).(ast.Expr); ok {
								rv = ne
							}
							s2.stmts = append(s2.stmts, &ast.AssignStmt{Lhs: v.Lhs, TokPos: v.TokPos, Tok: v.Tok, Rhs: []ast.Expr{rv}})
						}
						cont(s2)
					})
					return
				}
			}
		}
		st = st.fork()
		for i := range v.Lhs {
			c.reads(&st, v.Rhs[i])
			if id, ok := v.Lhs[i].(*ast.Ident); ok {
				if obj := c.info.ObjectOf(id); obj != nil {
					st.env[obj] = c.freeze(&st, v.Rhs[i])
				}
			} else {
				c.reads(&st, v.Lhs[i])
			}
		}
		if !st.inl {
			st.stmts = append(st.stmts, v)
		}
		cont(st)
	case *ast.DeclStmt:
		st = st.fork()
		if gd, ok := v.Decl.(*ast.GenDecl); ok {
			for _, sp := range gd.Specs {
				if vs, ok := sp.(*ast.ValueSpec); ok {
					for i, nm := range vs.Names {
						if i < len(vs.Values) {
							c.reads(&st, vs.Values[i])
							st.env[c.info.Defs[nm]] = c.freeze(&st, vs.Values[i])
						}
					}
				}
			}
		}
		if !st.inl {
			st.stmts = append(st.stmts, v)
		}
		cont(st)
	case *ast.IfStmt:
		if v.Init != nil {
			c.run([]ast.Stmt{v.Init}, st, func(s2 ceState) {
				c.runIf(v, s2, cont, onRet)
			}, onRet)
			return
		}
		c.runIf(v, st, cont, onRet)
	case *ast.SwitchStmt:
		if v.Init != nil {
			c.run([]ast.Stmt{v.Init}, st, func(s2 ceState) { c.runSwitch(v, s2, cont, onRet) }, onRet)
			return
		}
		c.runSwitch(v, st, cont, onRet)
	case *ast.BranchStmt:
		switch {
		case v.Tok == token.BREAK && v.Label == nil && c.brk != nil:
			c.brk(st)
		case v.Tok == token.CONTINUE && v.Label == nil && c.cnt != nil:
			c.cnt(st)
		default:
			c.fail(s, "%s outside an unrolled loop", v.Tok)
		}
	case *ast.ForStmt, *ast.RangeStmt:
		// a range over a package-level table of constant records (for _, c := range decimalClasses)
		// is the sequence of its bodies, one per record, with the record's fields in place
		if rg, ok := s.(*ast.RangeStmt); ok {
			if elems, vobj := c.constRecordTable(rg); elems != nil {
				var iter func(i int, st ceState)
				iter = func(i int, st ceState) {
					if i == len(elems) {
						cont(st)
						return
					}
					body, ok := paths.SubstFields(c.info, rg.Body, map[types.Object]map[string]ast.Expr{vobj: elems[i]}).(*ast.BlockStmt)
					if !ok {
						c.fail(s, "cannot substitute the table record into the loop body")
						return
					}
					oldB, oldC := c.brk, c.cnt
					leave := func(next func(ceState)) func(ceState) {
						return func(s2 ceState) {
							sb, sc := c.brk, c.cnt
							c.brk, c.cnt = oldB, oldC
							next(s2)
							c.brk, c.cnt = sb, sc
						}
					}
					c.brk = leave(cont)
					c.cnt = leave(func(s2 ceState) { iter(i+1, s2) })
					c.run(body.List, st, leave(func(s2 ceState) { iter(i+1, s2) }), onRet)
					c.brk, c.cnt = oldB, oldC
				}
				iter(0, st)
				return
			}
		}
		// loops that touch neither the stream nor the class symbol are opaque: skipped, with the
		// locals they assign forgotten
		touches := false
		assigned := map[types.Object]bool{}
		ast.Inspect(s, func(n ast.Node) bool {
			switch x := n.(type) {
			case *ast.Ident:
				if obj := c.info.ObjectOf(x); obj != nil && (c.recvs[obj] && !c.noRecv || (c.isStream != nil && c.isStream(obj))) {
					touches = true
				}
			case *ast.AssignStmt:
				for _, l := range x.Lhs {
					if id, ok := l.(*ast.Ident); ok {
						assigned[c.info.ObjectOf(id)] = true
					}
				}
			case *ast.CallExpr:
				if c.symBase(c, &st, ast.Unparen(x)) {
					touches = true
				}
			}
			return true
		})
		if touches {
			c.fail(s, "loop touching the stream or the class symbol")
			return
		}
		st = st.fork()
		for o := range assigned {
			delete(st.env, o)
		}
		if !st.inl {
			st.stmts = append(st.stmts, s) // the byte-level interpreter runs it (constant trip count)
		}
		cont(st)
	case *ast.DeferStmt, *ast.GoStmt, *ast.IncDecStmt:
		cont(st)
	default:
		c.fail(s, "statement %T outside the fragment", s)
	}
}

// freeze substitutes the current environment into an expression that is being bound to a local, so
// later re-assignments of the variables it mentions do not change its meaning. Expressions without
// locals are returned as they are.
func (c *classEval) freeze(st *ceState, e ast.Expr) ast.Expr { return e }

func (c *classEval) runIf(v *ast.IfStmt, st ceState, cont func(ceState), onRet ceRet) {
	c.reads(&st, v.Cond)
	t, ok1 := c.cond(&st, v.Cond, true)
	f, ok2 := c.cond(&st, v.Cond, false)
	if (!ok1 || !ok2) && c.forkUnknown {
		// a test of something else than the symbol: both ways, the class unchanged
		t, f = ivSet{c.dom}, ivSet{c.dom}
		ok1, ok2 = true, true
	}
	if !ok1 || !ok2 {
		c.fail(v.Cond, "condition %s is not a comparison of the class symbol with constants", types.ExprString(v.Cond))
		return
	}
	if ts := ivIntersect(st.set, t); !ts.empty() {
		s2 := st.fork()
		s2.set = ts
		c.run(v.Body.List, s2, cont, onRet)
	}
	if fs := ivIntersect(st.set, f); !fs.empty() {
		s2 := st.fork()
		s2.set = fs
		if v.Else != nil {
			c.run([]ast.Stmt{v.Else}, s2, cont, onRet)
		} else {
			cont(s2)
		}
	}
}

func (c *classEval) runSwitch(v *ast.SwitchStmt, st ceState, cont func(ceState), onRet ceRet) {
	if v.Tag != nil {
		c.reads(&st, v.Tag)
		if !c.isSym(&st, v.Tag) {
			c.fail(v.Tag, "switch tag %s is not the class symbol", types.ExprString(v.Tag))
			return
		}
	}
	remaining := st.set
	var def *ast.CaseClause
	for _, cs := range v.Body.List {
		cl := cs.(*ast.CaseClause)
		if cl.List == nil {
			def = cl
			continue
		}
		var take ivSet
		for _, e := range cl.List {
			var t ivSet
			if v.Tag != nil {
				k, ok := c.constOfSub(&st, e)
				if !ok {
					c.fail(e, "case value is not a constant")
					return
				}
				t = ivCmp(token.EQL, k, c.dom)
			} else {
				var ok bool
				t, ok = c.cond(&st, e, true)
				if !ok {
					c.fail(e, "case guard %s is not a comparison of the class symbol with constants", types.ExprString(e))
					return
				}
			}
			take = ivUnion(take, ivIntersect(remaining, t))
		}
		remaining = ivIntersect(remaining, ivComplement(take, c.dom))
		if !take.empty() {
			s2 := st.fork()
			s2.set = take
			c.runClause(cl, s2, cont, onRet)
		}
	}
	if !remaining.empty() {
		s2 := st.fork()
		s2.set = remaining
		if def != nil {
			c.runClause(def, s2, cont, onRet)
		} else {
			cont(s2)
		}
	}
}

func (c *classEval) runClause(cl *ast.CaseClause, st ceState, cont func(ceState), onRet ceRet) {
	body := cl.Body
	if n := len(body); n > 0 {
		if br, ok := body[n-1].(*ast.BranchStmt); ok {
			if br.Tok == token.BREAK && br.Label == nil {
				body = body[:n-1]
			} else {
				c.fail(br, "%s in a switch clause", br.Tok)
				return
			}
		}
	}
	c.run(body, st, cont, onRet)
}

// evalClasses enumerates fi. The receiver of fi is the stream.
func evalClasses(p *core.Program, fi *core.FuncInfo, dom ivl, symBase func(*classEval, *ceState, ast.Expr) bool,
	nilMeansZero func(*classEval, *ceState, ast.Expr) bool, prim func(string) bool) ([]cePath, string) {
	return evalClassesOpt(p, fi, dom, symBase, nilMeansZero, prim, nil)
}

// evalClassesOpt: opt may adjust the evaluator before it runs (designated stream locals, string symbol).
func evalClassesOpt(p *core.Program, fi *core.FuncInfo, dom ivl, symBase func(*classEval, *ceState, ast.Expr) bool,
	nilMeansZero func(*classEval, *ceState, ast.Expr) bool, prim func(string) bool, opt func(*classEval)) ([]cePath, string) {
	c := &classEval{p: p, fi: fi, info: fi.Pkg.TypesInfo, dom: dom, symBase: symBase, nilMeansZero: nilMeansZero, prim: prim, recvs: map[types.Object]bool{}}
	if opt != nil {
		opt(c)
	}
	if !c.noRecv && fi.Decl.Recv != nil && len(fi.Decl.Recv.List) == 1 && len(fi.Decl.Recv.List[0].Names) == 1 {
		c.recvs[c.info.Defs[fi.Decl.Recv.List[0].Names[0]]] = true
	}
	st := ceState{set: ivSet{dom}, env: map[types.Object]ast.Expr{}}
	fin := func(s ceState, ret ast.Expr, pos token.Pos) {
		pth := cePath{Set: s.set, Emits: s.emits, Stmts: s.stmts, Ret: ret, Inl: s.inl, Pos: pos}
		if ret != nil {
			pth.RetS = c.canon(&s, ret)
		}
		c.out = append(c.out, pth)
	}
	c.run(fi.Decl.Body.List, st, func(s ceState) { fin(s, nil, fi.Decl.End()) }, fin)
	return c.out, c.err
}

// pathFor returns the unique path whose set contains v (paths partition the domain).
func pathFor(paths []cePath, v int64) *cePath {
	for i := range paths {
		if paths[i].Set.contains(v) {
			return &paths[i]
		}
	}
	return nil
}

func emitNames(em []ceEmit) string {
	var s []string
	for _, e := range em {
		s = append(s, e.Method+"("+strings.Join(e.Args, ",")+")")
	}
	return strings.Join(s, " ")
}

// constRecordTable: rg ranges (value variable only) over a package-level array/slice literal of
// struct records whose fields are all constants, never assigned elsewhere; returns the records as
// field-name -> constant expression maps, and the value variable.
func (c *classEval) constRecordTable(rg *ast.RangeStmt) ([]map[string]ast.Expr, types.Object) {
	vid, ok := rg.Value.(*ast.Ident)
	if !ok || vid.Name == "_" {
		return nil, nil
	}
	if rg.Key != nil {
		if kid, ok := rg.Key.(*ast.Ident); !ok || kid.Name != "_" {
			return nil, nil
		}
	}
	id, ok := ast.Unparen(rg.X).(*ast.Ident)
	if !ok {
		return nil, nil
	}
	pv, ok := c.info.ObjectOf(id).(*types.Var)
	if !ok || pv.Pkg() == nil || pv.Parent() != pv.Pkg().Scope() {
		return nil, nil
	}
	ce := &constEvaluator{p: c.p}
	if !ce.pkgVarStable(pv) {
		return nil, nil
	}
	var lit *ast.CompositeLit
	for _, f := range c.fi.Pkg.Syntax {
		for _, d := range f.Decls {
			gd, ok := d.(*ast.GenDecl)
			if !ok || gd.Tok != token.VAR {
				continue
			}
			for _, sp := range gd.Specs {
				vs := sp.(*ast.ValueSpec)
				for i, nm := range vs.Names {
					if c.info.Defs[nm] == pv && i < len(vs.Values) {
						lit, _ = ast.Unparen(vs.Values[i]).(*ast.CompositeLit)
					}
				}
			}
		}
	}
	if lit == nil || len(lit.Elts) == 0 || len(lit.Elts) > 64 {
		return nil, nil
	}
	var et types.Type
	switch u := pv.Type().Underlying().(type) {
	case *types.Array:
		et = u.Elem()
	case *types.Slice:
		et = u.Elem()
	default:
		return nil, nil
	}
	st, ok := et.Underlying().(*types.Struct)
	if !ok {
		return nil, nil
	}
	var out []map[string]ast.Expr
	for _, el := range lit.Elts {
		rec, ok := ast.Unparen(el).(*ast.CompositeLit)
		if !ok {
			return nil, nil
		}
		m := map[string]ast.Expr{}
		for k, fe := range rec.Elts {
			name, val := "", fe
			if kv, ok := fe.(*ast.KeyValueExpr); ok {
				kid, ok := kv.Key.(*ast.Ident)
				if !ok {
					return nil, nil
				}
				name, val = kid.Name, kv.Value
			} else if k < st.NumFields() {
				name = st.Field(k).Name()
			}
			if tv, ok := c.info.Types[val]; !ok || tv.Value == nil {
				return nil, nil
			}
			m[name] = val
		}
		// fields left out of a keyed literal are zero: not modelled
		if len(m) != st.NumFields() {
			return nil, nil
		}
		out = append(out, m)
	}
	return out, c.info.ObjectOf(vid)
}

// hoistHelperArgs: see run. Only the arguments of the outermost call of an expression statement or of a
// single-result return are looked at, once per statement (the temporaries are fresh variables).
func (c *classEval) hoistHelperArgs(st *ceState, s ast.Stmt) ([]ast.Stmt, ast.Stmt) {
	var call *ast.CallExpr
	switch v := s.(type) {
	case *ast.ExprStmt:
		call, _ = ast.Unparen(v.X).(*ast.CallExpr)
	case *ast.ReturnStmt:
		if len(v.Results) == 1 {
			call, _ = ast.Unparen(v.Results[0]).(*ast.CallExpr)
		}
	}
	if call == nil || len(call.Args) == 0 || c.hoisted[call] {
		return nil, nil
	}
	var pre []ast.Stmt
	args := append([]ast.Expr{}, call.Args...)
	for i, a := range call.Args {
		ac, ok := ast.Unparen(a).(*ast.CallExpr)
		if !ok {
			continue
		}
		if c.inlinable(st, ac) == nil && c.valueHelper(st, ac) == nil {
			continue
		}
		t := c.info.TypeOf(ac)
		if t == nil {
			continue
		}
		if _, isTuple := t.(*types.Tuple); isTuple {
			continue
		}
		c.tmpSeq++
		name := fmt.Sprintf("zzarg%d", c.tmpSeq)
		obj := types.NewVar(ac.Pos(), c.fi.Obj.Pkg(), name, t)
		def := &ast.Ident{NamePos: ac.Pos(), Name: name}
		use := &ast.Ident{NamePos: ac.Pos(), Name: name}
		c.info.Defs[def] = obj
		c.info.Uses[use] = obj
		c.info.Types[use] = types.TypeAndValue{Type: t}
		pre = append(pre, &ast.AssignStmt{Lhs: []ast.Expr{def}, TokPos: ac.Pos(), Tok: token.DEFINE, Rhs: []ast.Expr{ac}})
		args[i] = use
	}
	if len(pre) == 0 {
		return nil, nil
	}
	nc := &ast.CallExpr{Fun: call.Fun, Lparen: call.Lparen, Args: args, Ellipsis: call.Ellipsis, Rparen: call.Rparen}
	if tv, ok := c.info.Types[call]; ok {
		c.info.Types[nc] = tv
	}
	if c.hoisted == nil {
		c.hoisted = map[*ast.CallExpr]bool{}
	}
	c.hoisted[nc] = true
	switch v := s.(type) {
	case *ast.ExprStmt:
		return pre, &ast.ExprStmt{X: nc}
	case *ast.ReturnStmt:
		return pre, &ast.ReturnStmt{Return: v.Return, Results: []ast.Expr{nc}}
	}
	return nil, nil
}
