package props

import (
	"go/ast"
	"go/constant"
	"go/token"
	"go/types"
)

// linearize turns an integer expression into a linear form sum(coef*atom) + const. Locals with one
// definition are replaced by that definition first (expandLocals), conversions are looked through,
// products need a constant factor. atom names whatever is not arithmetic; it returns false for a
// sub-expression the rule has no name for, which makes the whole form undecided.
func linearize(info *types.Info, body *ast.BlockStmt, e ast.Expr, atom func(ast.Expr) (string, bool)) (lform, bool) {
	e = ast.Unparen(e)
	if tv, ok := info.Types[e]; ok && tv.Value != nil {
		if v, exact := constant.Int64Val(constant.ToInt(tv.Value)); exact {
			return lform{"": v}, true
		}
		return nil, false
	}
	if k, ok := atom(e); ok {
		return lform{k: 1}, true
	}
	switch v := e.(type) {
	case *ast.Ident:
		if body != nil {
			if d := expandLocals(info, body, v); d != ast.Expr(v) {
				return linearize(info, body, d, atom)
			}
			// a local holding the result of a call is named by what it was computed from
			if d := localDefIn(info, body, v); d != nil {
				if _, isCall := ast.Unparen(d).(*ast.CallExpr); isCall {
					return linearize(info, body, d, atom)
				}
			}
		}
	case *ast.CallExpr:
		if tv, ok := info.Types[v.Fun]; ok && tv.IsType() && len(v.Args) == 1 {
			return linearize(info, body, v.Args[0], atom)
		}
		// a value helper of the module (grownCapacity(n) = n*2 + 1) reads as what it returns
		if res := helperResults(curProg, info, v); len(res) == 1 {
			if _, again := ast.Unparen(res[0]).(*ast.CallExpr); !again || res[0] != ast.Expr(v) {
				return linearize(info, body, res[0], atom)
			}
		}
	case *ast.UnaryExpr:
		if v.Op == token.SUB || v.Op == token.ADD {
			f, ok := linearize(info, body, v.X, atom)
			if !ok {
				return nil, false
			}
			if v.Op == token.SUB {
				f = f.scale(-1)
			}
			return f, true
		}
	case *ast.BinaryExpr:
		a, ok1 := linearize(info, body, v.X, atom)
		b, ok2 := linearize(info, body, v.Y, atom)
		if !ok1 || !ok2 {
			return nil, false
		}
		switch v.Op {
		case token.ADD:
			return a.plus(b, 1), true
		case token.SUB:
			return a.plus(b, -1), true
		case token.MUL:
			if c, ok := a.constant(); ok {
				return b.scale(c), true
			}
			if c, ok := b.constant(); ok {
				return a.scale(c), true
			}
		case token.QUO:
			// a quotient of two known values (multmin := limit / 32 with limit a local)
			if x, ok := a.constant(); ok {
				if y, ok := b.constant(); ok && y != 0 {
					return lform{"": x / y}.clean(), true
				}
			}
		}
	}
	return nil, false
}

func (f lform) scale(k int64) lform {
	out := lform{}
	for s, v := range f {
		out[s] = v * k
	}
	return out.clean()
}

func (f lform) plus(g lform, k int64) lform {
	out := lform{}
	for s, v := range f {
		out[s] += v
	}
	for s, v := range g {
		out[s] += v * k
	}
	return out.clean()
}

func (f lform) constant() (int64, bool) {
	f.clean()
	switch len(f) {
	case 0:
		return 0, true
	case 1:
		if v, ok := f[""]; ok {
			return v, true
		}
	}
	return 0, false
}

// linRel: the comparison `cond` with outcome val as a statement "form REL 0" with REL in {"<", "<=",
// "==", "!="} (a > or >= is turned round by negating the form).
func linRel(info *types.Info, body *ast.BlockStmt, cond ast.Expr, val bool, atom func(ast.Expr) (string, bool)) (lform, string, bool) {
	be, ok := ast.Unparen(cond).(*ast.BinaryExpr)
	if !ok {
		return nil, "", false
	}
	op := be.Op
	switch op {
	case token.LSS, token.LEQ, token.GTR, token.GEQ, token.EQL, token.NEQ:
	default:
		return nil, "", false
	}
	a, ok1 := linearize(info, body, be.X, atom)
	b, ok2 := linearize(info, body, be.Y, atom)
	if !ok1 || !ok2 {
		return nil, "", false
	}
	f := a.plus(b, -1)
	if !val {
		op = map[token.Token]token.Token{token.LSS: token.GEQ, token.LEQ: token.GTR, token.GTR: token.LEQ, token.GEQ: token.LSS, token.EQL: token.NEQ, token.NEQ: token.EQL}[op]
	}
	switch op {
	case token.GTR:
		f, op = f.scale(-1), token.LSS
	case token.GEQ:
		f, op = f.scale(-1), token.LEQ
	}
	return f, op.String(), true
}
