package props

import (
	"fmt"
	"go/ast"
	"go/types"
	"math"
	"strings"

	"golibcheck/internal/bits"
	"golibcheck/internal/core"
)

// Length-class rules of the primitive codec (C01.decimal, C01.blob; reported again as C05.encodings),
// stated on the partition evaluation of classeval.go: which values get which encoding, however the
// branches are spelled.

func isWritePrim(name string) bool { return strings.HasPrefix(name, "Write") }

var readPrims = map[string]bool{"ReadByte": true, "ReadBool": true, "ReadShort": true, "ReadUnsignedShort": true, "ReadInt3": true,
	"ReadInt": true, "ReadLong5": true, "ReadLong": true, "ReadFloat": true, "ReadDouble": true, "ReadBytes": true}

func isReadPrim(name string) bool { return readPrims[name] }

// symParam: S is the given parameter.
func symParam(obj types.Object) func(*classEval, *ceState, ast.Expr) bool {
	return func(c *classEval, st *ceState, e ast.Expr) bool {
		id, ok := e.(*ast.Ident)
		return ok && c.info.ObjectOf(id) == obj
	}
}

// symFirstRead: S is the value of the first stream read on the path (the tag byte).
func symFirstRead(method string) func(*classEval, *ceState, ast.Expr) bool {
	return func(c *classEval, st *ceState, e ast.Expr) bool {
		call, ok := e.(*ast.CallExpr)
		return ok && len(st.emits) > 0 && st.emits[0].Call == call && st.emits[0].Method == method
	}
}

// symLenOf: S is len(param).
func symLenOf(obj types.Object) func(*classEval, *ceState, ast.Expr) bool {
	return func(c *classEval, st *ceState, e ast.Expr) bool {
		call, ok := e.(*ast.CallExpr)
		if !ok || len(call.Args) != 1 {
			return false
		}
		if id, isId := call.Fun.(*ast.Ident); !isId || id.Name != "len" {
			return false
		} else if _, isB := c.info.Uses[id].(*types.Builtin); !isB {
			return false
		}
		a, isId := ast.Unparen(call.Args[0]).(*ast.Ident)
		return isId && c.info.ObjectOf(a) == obj
	}
}

// emittedBytes interprets the simple statements of one path with the bit-level interpreter and returns
// the header bytes handed to the stream (WriteByte / WriteBytes) in order, and whether the payload
// slice itself was written last.
func emittedBytes(ip *bits.Interp, fi *core.FuncInfo, pth *cePath, payload types.Object) (hdr []bits.Vec, hasPayload bool, why string) {
	if pth.Inl {
		return nil, false, "path goes through an inlined helper"
	}
	info := fi.Pkg.TypesInfo
	fr := ip.NewFrame(fi)
	var emitCall func(call *ast.CallExpr) bool
	emitCall = func(call *ast.CallExpr) bool {
		sel, ok := call.Fun.(*ast.SelectorExpr)
		if !ok || len(call.Args) != 1 {
			return false
		}
		// chained: out.WriteByte(1).WriteBytes(x)
		if inner, isCall := ast.Unparen(sel.X).(*ast.CallExpr); isCall {
			if !emitCall(inner) {
				return false
			}
		}
		switch sel.Sel.Name {
		case "WriteByte":
			v := ip.Eval(fr, call.Args[0], nil)
			if v == nil || v.V == nil {
				why = "cannot evaluate " + types.ExprString(call.Args[0]) + ": " + fr.Err()
				return true
			}
			if hasPayload {
				why = "header byte after the payload"
			}
			hdr = append(hdr, bits.Convert(v.V, false, 8))
			return true
		case "WriteBytes":
			if id, isId := ast.Unparen(call.Args[0]).(*ast.Ident); isId && payload != nil && info.ObjectOf(id) == payload {
				hasPayload = true
				return true
			}
			v := ip.Eval(fr, call.Args[0], nil)
			if v == nil || v.B == nil || v.B.Len < 0 {
				why = "cannot evaluate the bytes " + types.ExprString(call.Args[0]) + ": " + fr.Err()
				return true
			}
			if hasPayload {
				why = "header bytes after the payload"
			}
			for i := 0; i < v.B.Len; i++ {
				hdr = append(hdr, v.B.Get(i))
			}
			return true
		}
		return false
	}
	for _, s := range pth.Stmts {
		if why != "" {
			break
		}
		switch v := s.(type) {
		case *ast.ReturnStmt:
			// `return out.WriteBytes(b)`: the write happens in the return expression
			if len(v.Results) == 1 {
				if call, ok := ast.Unparen(v.Results[0]).(*ast.CallExpr); ok {
					emitCall(call)
				}
			}
			continue
		case *ast.ExprStmt:
			if call, ok := v.X.(*ast.CallExpr); ok {
				if emitCall(call) {
					continue
				}
				if sel, isSel := call.Fun.(*ast.SelectorExpr); isSel && strings.HasPrefix(sel.Sel.Name, "Write") {
					why = "stream operation " + sel.Sel.Name + " is outside the byte-level fragment"
					continue
				}
			}
		}
		ip.Exec(fr, s)
		if fr.Err() != "" {
			why = fr.Err()
		}
	}
	return hdr, hasPayload, why
}

type decCell struct {
	tag int
	set ivSet
}

// decimalSpec: the value cells of the seven length classes (shortest form that holds the value).
func decimalSpec() []decCell {
	bounds := []struct {
		tag    int
		lo, hi int64
	}{{1, -128, 127}, {2, -32768, 32767}, {3, -8388608, 8388607}, {4, -2147483648, 2147483647}, {5, -549755813888, 549755813887}, {8, math.MinInt64, math.MaxInt64}}
	cells := []decCell{{0, ivSet{{0, 0}}}}
	prev := ivSet{{0, 0}}
	for _, b := range bounds {
		cur := ivSet{{b.lo, b.hi}}
		cells = append(cells, decCell{b.tag, ivIntersect(cur, ivComplement(prev, ivl{math.MinInt64, math.MaxInt64}))})
		prev = cur
	}
	return cells
}

func c01Decimal(p *core.Program, r *core.Report, ip *bits.Interp, rule string) {
	fi := p.Method("io", "DataOutputX", "WriteDecimal")
	base := "io.(*DataOutputX).WriteDecimal"
	if fi == nil || fi.Decl.Type.Params.NumFields() != 1 {
		r.Undec(rule, base, "-", "not found")
	} else {
		info := fi.Pkg.TypesInfo
		pname := fi.Decl.Type.Params.List[0].Names[0]
		vobj := info.Defs[pname]
		full := ivl{math.MinInt64, math.MaxInt64}
		paths, err := evalClasses(p, fi, full, symParam(vobj), nil, isWritePrim)
		pos := p.Pos(fi.Decl.Pos())
		if err != "" {
			r.Undec(rule, base, pos, "cannot enumerate the value classes: "+err)
		} else {
			type pres struct {
				hdr []bits.Vec
				why string
			}
			res := make([]pres, len(paths))
			for i := range paths {
				h, _, why := emittedBytes(ip, fi, &paths[i], nil)
				res[i] = pres{h, why}
			}
			in := bits.Input(pname.Name, 64)
			for _, cell := range decimalSpec() {
				c := fmt.Sprintf("%s class %d", base, cell.tag)
				bad, undec := "", ""
				covered := ivSet{}
				for i := range paths {
					piece := ivIntersect(paths[i].Set, cell.set)
					if piece.empty() {
						continue
					}
					covered = ivUnion(covered, piece)
					if res[i].why != "" {
						undec = res[i].why
						continue
					}
					h := res[i].hdr
					what := ""
					if len(h) == 0 {
						what = "nothing is emitted"
					} else if tagv, isC := bits.ConstOf(h[0]); !isC {
						what = "the tag byte is not a constant"
					} else if int(tagv) != cell.tag || len(h) != cell.tag+1 {
						what = fmt.Sprintf("encoded as tag %d + %d bytes; the shortest form holding these values is tag %d + %d bytes", tagv, len(h)-1, cell.tag, cell.tag)
					} else {
						for k := 0; k < cell.tag; k++ {
							wantv := make(bits.Vec, 8)
							for j := 0; j < 8; j++ {
								wantv[j] = in[8*(cell.tag-1-k)+j]
							}
							if !bits.Equal(h[k+1], wantv) {
								what = fmt.Sprintf("payload byte %d is %s, want %s (big-endian low %d bytes)", k, h[k+1], wantv, cell.tag)
								break
							}
						}
					}
					if what != "" && bad == "" {
						bad = fmt.Sprintf("values %s: %s", piece, what)
					}
				}
				if miss := ivIntersect(cell.set, ivComplement(covered, full)); !miss.empty() && bad == "" {
					bad = fmt.Sprintf("values %s reach no encoding (path ends without writing)", miss)
				}
				switch {
				case bad != "":
					r.Viol(rule, c, pos, bad)
				case undec != "":
					r.Undec(rule, c, pos, "class body outside the fragment: "+undec)
				default:
					r.OK(rule, c, pos, fmt.Sprintf("%s -> tag %d + %d big-endian bytes", cell.set, cell.tag, cell.tag))
				}
			}
		}
	}
	// readers: tag k -> the k-byte signed reader
	readerOf := map[int64]string{1: "ReadByte", 2: "ReadShort", 3: "ReadInt3", 4: "ReadInt", 5: "ReadLong5", 8: "ReadLong"}
	for _, rn := range []string{"ReadDecimal", "ReadDecimalLen"} {
		rfi := p.Method("io", "DataInputX", rn)
		c := "io.(*DataInputX)." + rn
		if rfi == nil {
			r.Undec(rule, c, "-", "not found")
			continue
		}
		rinfo := rfi.Pkg.TypesInfo
		var paths []cePath
		var err string
		skip := 0
		if rfi.Decl.Type.Params.NumFields() == 1 {
			obj := rinfo.Defs[rfi.Decl.Type.Params.List[0].Names[0]]
			paths, err = evalClasses(p, rfi, ivl{math.MinInt64, math.MaxInt64}, symParam(obj), nil, isReadPrim)
		} else {
			paths, err = evalClasses(p, rfi, ivl{0, 255}, symFirstRead("ReadByte"), nil, isReadPrim)
			skip = 1
		}
		rpos := p.Pos(rfi.Decl.Pos())
		if err != "" {
			r.Undec(rule, c, rpos, "cannot enumerate the tag classes: "+err)
			continue
		}
		for _, k := range []int64{0, 1, 2, 3, 4, 5, 8} {
			cc := fmt.Sprintf("%s tag %d", c, k)
			pth := pathFor(paths, k)
			if pth == nil || len(pth.Emits) < skip {
				r.Viol(rule, cc, rpos, "this tag is not decoded (no returning path)")
				continue
			}
			em := pth.Emits[skip:]
			if k == 0 {
				v, isC := constOfExpr(rinfo, pth.Ret)
				r.Check(len(em) == 0 && isC && v == 0, rule, cc, rpos, "tag 0 -> 0, nothing read", fmt.Sprintf("tag 0 reads [%s] and returns %s; want 0 without reading", emitNames(em), pth.RetS))
				continue
			}
			want := readerOf[k]
			ok := len(em) == 1 && em[0].Method == want
			detail := fmt.Sprintf("tag %d is decoded by [%s], want %s", k, emitNames(em), want)
			if ok {
				// the result is the read value through value-preserving conversions only
				if why := convChainOK(rinfo, pth, em[0].Call, k == 1); why != "" {
					ok, detail = false, fmt.Sprintf("tag %d: %s (returns %s)", k, why, pth.RetS)
				}
			}
			r.Check(ok, rule, cc, rpos, "-> "+want, detail)
		}
	}
}

func constOfExpr(info *types.Info, e ast.Expr) (int64, bool) {
	if e == nil {
		return 0, false
	}
	return constIntOf(info, e)
}

// convChainOK: the returned expression is `call` under integer conversions that preserve the signed
// value: never to a narrower type, never to an unsigned type narrower than 64 bits; with needInt8 the
// innermost conversion must reinterpret the byte as int8 (so 0xff reads back as -1).
func convChainOK(info *types.Info, pth *cePath, call *ast.CallExpr, needInt8 bool) string {
	e := pth.Ret
	if e == nil {
		return "nothing is returned"
	}
	var chain []types.Type
	for i := 0; i < 10; i++ {
		e = ast.Unparen(e)
		if e == ast.Expr(call) {
			break
		}
		cv, ok := e.(*ast.CallExpr)
		if !ok {
			return "the result is not the value read"
		}
		tv, isT := info.Types[cv.Fun]
		if !isT || !tv.IsType() || len(cv.Args) != 1 {
			return "the result is not the value read under conversions"
		}
		chain = append(chain, tv.Type)
		e = cv.Args[0]
	}
	if ast.Unparen(e) != ast.Expr(call) {
		return "the result is not the value read"
	}
	w := typeBits(info.TypeOf(call))
	sawInt8 := false
	for i := len(chain) - 1; i >= 0; i-- { // innermost first
		b, ok := chain[i].Underlying().(*types.Basic)
		if !ok || b.Info()&types.IsInteger == 0 {
			return "non-integer conversion of the value read"
		}
		cw := typeBits(chain[i])
		if cw < w {
			return fmt.Sprintf("narrowing conversion to %s", chain[i])
		}
		if b.Info()&types.IsUnsigned != 0 && cw < 64 && !(needInt8 && i == len(chain)-1 && false) {
			if !(i == len(chain)-1 && cw == w && len(chain) > 1 && isSignedSame(chain[i-1], cw)) {
				return fmt.Sprintf("conversion to unsigned %s loses the sign", chain[i])
			}
		}
		if b.Kind() == types.Int8 && i == len(chain)-1 {
			sawInt8 = true
		}
		if cw > w {
			w = cw
		}
	}
	if needInt8 && !sawInt8 {
		return "the byte is not reinterpreted as int8 before widening: -1 would read back as 255"
	}
	return ""
}

func isSignedSame(t types.Type, w int) bool {
	b, ok := t.Underlying().(*types.Basic)
	return ok && b.Info()&types.IsUnsigned == 0 && typeBits(t) == w
}

// c01Blob: length classes of WriteBlob and the markers of ReadBlob.
func c01Blob(p *core.Program, r *core.Report, rule string) {
	w := p.Method("io", "DataOutputX", "WriteBlob")
	rd := p.Method("io", "DataInputX", "ReadBlob")
	if w == nil || rd == nil || w.Decl.Type.Params.NumFields() != 1 {
		r.Undec(rule, "io WriteBlob/ReadBlob", "-", "not found")
		return
	}
	winfo := w.Pkg.TypesInfo
	pname := w.Decl.Type.Params.List[0].Names[0]
	pobj := winfo.Defs[pname]
	pos := p.Pos(w.Decl.Pos())
	dom := ivl{0, math.MaxInt64}
	isParam := func(c *classEval, st *ceState, e ast.Expr) bool {
		id, ok := c.strip(st, e).(*ast.Ident)
		return ok && c.info.ObjectOf(id) == pobj
	}
	paths, err := evalClasses(p, w, dom, symLenOf(pobj), isParam, isWritePrim)
	if err != "" {
		r.Undec(rule, "io.(*DataOutputX).WriteBlob", pos, "cannot enumerate the length classes: "+err)
	} else {
		ip := &bits.Interp{P: p}
		S := bits.Input("len("+pname.Name+")", 64)
		byteOf := func(k int) bits.Vec { return S[8*k : 8*k+8] }
		classes := []struct {
			name string
			set  ivSet
			hdr  []bits.Vec
			doc  string
		}{
			{"io.WriteBlob empty", ivSet{{0, 0}}, []bits.Vec{bits.Const(0, 8)}, "nil/empty -> the single byte 0"},
			{"io.WriteBlob one-byte class", ivSet{{1, 253}}, []bits.Vec{byteOf(0)}, "lengths 1..253 use the length byte itself; 254/255 are reserved markers"},
			{"io.WriteBlob two-byte class", ivSet{{254, 65535}}, []bits.Vec{bits.Const(255, 8), byteOf(1), byteOf(0)}, "254..65535 -> marker 255 + 2-byte big-endian length"},
			{"io.WriteBlob four-byte class", ivSet{{65536, math.MaxInt32}}, []bits.Vec{bits.Const(254, 8), byteOf(3), byteOf(2), byteOf(1), byteOf(0)}, "> 65535 -> marker 254 + 4-byte big-endian length"},
		}
		type pres struct {
			hdr     []bits.Vec
			payload bool
			why     string
		}
		res := make([]pres, len(paths))
		for i := range paths {
			h, pl, why := emittedBytes(ip, w, &paths[i], pobj)
			res[i] = pres{h, pl, why}
		}
		for ci, cl := range classes {
			bad, undec := "", ""
			covered := ivSet{}
			for i := range paths {
				piece := ivIntersect(paths[i].Set, cl.set)
				if piece.empty() {
					continue
				}
				covered = ivUnion(covered, piece)
				if res[i].why != "" {
					undec = res[i].why
					continue
				}
				what := ""
				if len(res[i].hdr) != len(cl.hdr) {
					what = fmt.Sprintf("a %d-byte length prefix is written, want %d bytes", len(res[i].hdr), len(cl.hdr))
				} else {
					for k := range cl.hdr {
						got, want := res[i].hdr[k], cl.hdr[k]
						if len(piece) == 1 && piece[0].lo == piece[0].hi {
							// a class of one length: the symbol is that constant
							nm := "len(" + pname.Name + ")"
							got, want = bits.Assign(got, nm, uint64(piece[0].lo)), bits.Assign(want, nm, uint64(piece[0].lo))
						}
						if !bits.Equal(got, want) {
							what = fmt.Sprintf("prefix byte %d is %s, want %s", k, res[i].hdr[k], cl.hdr[k])
							break
						}
					}
				}
				if what == "" && ci > 0 && !res[i].payload {
					what = "the bytes themselves are not written after the prefix"
				}
				if what != "" && bad == "" {
					bad = fmt.Sprintf("lengths %s: %s", piece, what)
					if ci == 1 || ci == 2 {
						bad += " (such a length is mis-decoded by a reader of the format)"
					}
				}
			}
			if miss := ivIntersect(cl.set, ivComplement(covered, dom)); !miss.empty() && bad == "" {
				bad = fmt.Sprintf("lengths %s are not encoded on any path", miss)
			}
			switch {
			case bad != "":
				r.Viol(rule, cl.name, pos, bad)
			case undec != "":
				r.Undec(rule, cl.name, pos, "outside the fragment: "+undec)
			default:
				r.OK(rule, cl.name, pos, cl.doc)
			}
		}
	}
	// reader
	rpos := p.Pos(rd.Decl.Pos())
	rpaths, rerr := evalClasses(p, rd, ivl{0, 255}, symFirstRead("ReadByte"), nil, isReadPrim)
	if rerr != "" {
		r.Undec(rule, "io.(*DataInputX).ReadBlob", rpos, "cannot enumerate the marker classes: "+rerr)
	} else {
		rinfo := rd.Pkg.TypesInfo
		// argOf: what the argument of an operation stands for: locals followed through the statements
		// of the path and through the bindings in force at the operation (a length computed by an
		// inlined helper is bound, not assigned in this frame)
		argOf := func(pth *cePath, em ceEmit, e ast.Expr) ast.Expr {
			for depth := 0; depth < 6; depth++ {
				e = stripConvExpr(rinfo, pth, e)
				id, ok := ast.Unparen(e).(*ast.Ident)
				if !ok {
					return e
				}
				b, ok := em.Env[rinfo.ObjectOf(id)]
				if !ok || b == nil {
					return e
				}
				e = b
			}
			return e
		}
		lenFrom := func(pth *cePath, lenRead string) string {
			if len(pth.Emits) < 1 {
				return "no tag read"
			}
			em := pth.Emits[1:]
			if lenRead == "" {
				if len(em) != 1 || em[0].Method != "ReadBytes" || len(em[0].Call.Args) != 1 {
					return "reads [" + emitNames(em) + "], want ReadBytes(tag)"
				}
				if argOf(pth, em[0], em[0].Call.Args[0]) != ast.Expr(pth.Emits[0].Call) {
					return "ReadBytes is not sized by the length byte: " + emitNames(em)
				}
			} else {
				if len(em) != 2 || em[0].Method != lenRead || em[1].Method != "ReadBytes" || len(em[1].Call.Args) != 1 {
					return "reads [" + emitNames(em) + "], want " + lenRead + " then ReadBytes(that)"
				}
				if argOf(pth, em[1], em[1].Call.Args[0]) != ast.Expr(em[0].Call) {
					return "ReadBytes is not sized by the length just read: " + emitNames(em)
				}
			}
			if pth.Ret == nil || argOf(pth, em[len(em)-1], pth.Ret) != ast.Expr(em[len(em)-1].Call) {
				return "the bytes read are not what is returned (" + pth.RetS + ")"
			}
			return ""
		}
		check := func(name string, vals ivSet, lenRead, doc string) {
			bad := ""
			for i := range rpaths {
				if ivIntersect(rpaths[i].Set, vals).empty() {
					continue
				}
				if why := lenFrom(&rpaths[i], lenRead); why != "" && bad == "" {
					bad = fmt.Sprintf("length byte %s: %s", ivIntersect(rpaths[i].Set, vals), why)
				}
			}
			for _, iv := range vals {
				for _, v := range []int64{iv.lo, iv.hi} {
					if pathFor(rpaths, v) == nil && bad == "" {
						bad = fmt.Sprintf("length byte %d is not decoded (no returning path)", v)
					}
				}
			}
			r.Check(bad == "", rule, name, rpos, doc, bad)
		}
		check("io.ReadBlob marker 255", ivSet{{255, 255}}, "ReadUnsignedShort", "2-byte unsigned length")
		check("io.ReadBlob marker 254", ivSet{{254, 254}}, "ReadInt", "4-byte length")
		check("io.ReadBlob one-byte lengths", ivSet{{1, 253}}, "", "that many bytes")
		if p0 := pathFor(rpaths, 0); p0 == nil {
			r.Viol(rule, "io.ReadBlob 0", rpos, "length byte 0 is not decoded")
		} else {
			// nothing is read: no further operation, or ReadBytes sized by the length byte itself (0 bytes)
			zeroRead := len(p0.Emits) == 2 && p0.Emits[1].Method == "ReadBytes" && len(p0.Emits[1].Call.Args) == 1 && argOf(p0, p0.Emits[1], p0.Emits[1].Call.Args[0]) == ast.Expr(p0.Emits[0].Call)
			r.Check((len(p0.Emits) == 1 || zeroRead) && p0.Ret != nil, rule, "io.ReadBlob 0", rpos, "0 -> empty, nothing read", "length byte 0 reads ["+emitNames(p0.Emits[1:])+"]; want an empty result without reading")
		}
	}
	// WriteText ≅ WriteBlob([]byte(s)), ReadText ≅ string(ReadBlob())
	wt, rt := p.Method("io", "DataOutputX", "WriteText"), p.Method("io", "DataInputX", "ReadText")
	callsBlob := func(fi *core.FuncInfo, name string) bool {
		ok := false
		if fi == nil {
			return false
		}
		ast.Inspect(fi.Decl.Body, func(n ast.Node) bool {
			if call, isC := n.(*ast.CallExpr); isC {
				if sel, isS := call.Fun.(*ast.SelectorExpr); isS && sel.Sel.Name == name {
					ok = true
				}
			}
			return true
		})
		return ok
	}
	r.Check(callsBlob(wt, "WriteBlob") && callsBlob(rt, "ReadBlob"), rule, "io text = blob of the string's bytes", rpos, "WriteText delegates to WriteBlob, ReadText to ReadBlob", "text is not carried as a blob")
}

// stripConvExpr follows locals assigned on the path (single static assignment in these functions) and
// strips integer conversions, returning the underlying expression node.
func stripConvExpr(info *types.Info, pth *cePath, e ast.Expr) ast.Expr {
	defs := map[types.Object]ast.Expr{}
	for _, s := range pth.Stmts {
		switch v := s.(type) {
		case *ast.AssignStmt:
			if len(v.Lhs) == len(v.Rhs) {
				for i := range v.Lhs {
					if id, ok := v.Lhs[i].(*ast.Ident); ok {
						defs[info.ObjectOf(id)] = v.Rhs[i]
					}
				}
			}
		case *ast.DeclStmt:
			if gd, ok := v.Decl.(*ast.GenDecl); ok {
				for _, sp := range gd.Specs {
					if vs, ok := sp.(*ast.ValueSpec); ok {
						for i, nm := range vs.Names {
							if i < len(vs.Values) {
								defs[info.Defs[nm]] = vs.Values[i]
							}
						}
					}
				}
			}
		}
	}
	for i := 0; i < 20; i++ {
		e = ast.Unparen(e)
		switch v := e.(type) {
		case *ast.Ident:
			if sub, ok := defs[info.ObjectOf(v)]; ok {
				e = sub
				continue
			}
			return e
		case *ast.CallExpr:
			if tv, ok := info.Types[v.Fun]; ok && tv.IsType() && len(v.Args) == 1 {
				e = v.Args[0]
				continue
			}
			return e
		default:
			return e
		}
	}
	return e
}
