package props

import (
	"go/ast"
	"go/types"
	"strings"

	"golibcheck/internal/core"
	"golibcheck/internal/wire"
)

// text transformers of the standard library: what goes in does not come out unchanged for every input
var textTransformers = map[string]bool{
	"strings.ToValidUTF8": true, "strings.TrimSpace": true, "strings.Trim": true, "strings.TrimLeft": true, "strings.TrimRight": true,
	"strings.TrimPrefix": true, "strings.TrimSuffix": true, "strings.ToLower": true, "strings.ToUpper": true, "strings.Title": true,
	"strings.Replace": true, "strings.ReplaceAll": true, "strings.Map": true, "strings.ToTitle": true, "strings.TrimFunc": true,
	"bytes.ToValidUTF8": true, "bytes.TrimSpace": true, "bytes.Trim": true, "bytes.ToLower": true, "bytes.ToUpper": true, "bytes.Map": true,
	"bytes.Replace": true, "bytes.ReplaceAll": true, "norm.NFC.String": true,
}

// verbatimRule: what a decoder reads is what it hands on. In the functions of the given packages that
// read from an input stream, no value that comes from a read of the stream (directly, or through
// locals defined from one) is passed through a text-transforming function of the standard library
// (ToValidUTF8, TrimSpace, ToLower, Replace, …) on its way into the result or a field: such a
// function is not the identity on every byte string, so some written text does not read back as it
// was written (texts are byte strings on this wire: Latin-1, EUC-KR and binary ids travel in them).
func verbatimRule(p *core.Program, r *core.Report, rule string, pkgs []string) {
	x := wire.NewExtractor(p)
	in := map[string]bool{}
	for _, k := range pkgs {
		in[k] = true
	}
	// helpers of the packages that apply a transformer to their own parameter are transformers too
	helper := map[*types.Func]string{}
	for _, fi := range p.Funcs {
		if fi.Decl.Body == nil || !in[core.RelPkg(fi.Pkg.PkgPath)] || fi.Decl.Type.Params.NumFields() == 0 {
			continue
		}
		info := fi.Pkg.TypesInfo
		params := map[types.Object]bool{}
		for _, f := range fi.Decl.Type.Params.List {
			for _, n := range f.Names {
				params[info.Defs[n]] = true
			}
		}
		ast.Inspect(fi.Decl.Body, func(n ast.Node) bool {
			call, ok := n.(*ast.CallExpr)
			if !ok || len(call.Args) == 0 {
				return true
			}
			fn := calleeFunc(info, call)
			if fn == nil || fn.Pkg() == nil || !textTransformers[fn.Pkg().Name()+"."+fn.Name()] {
				return true
			}
			if id, ok := ast.Unparen(call.Args[0]).(*ast.Ident); ok && params[info.ObjectOf(id)] {
				helper[fi.Obj] = fn.Pkg().Name() + "." + fn.Name()
			}
			return true
		})
	}
	for _, fi := range p.Funcs {
		if fi.Decl.Body == nil || !in[core.RelPkg(fi.Pkg.PkgPath)] {
			continue
		}
		info := fi.Pkg.TypesInfo
		usesStream := false
		ast.Inspect(fi.Decl.Body, func(n ast.Node) bool {
			if id, ok := n.(*ast.Ident); ok {
				if o := info.ObjectOf(id); o != nil && x.IsIn(o.Type()) {
					usesStream = true
				}
			}
			return true
		})
		if !usesStream {
			continue
		}
		// locals that hold something read from the stream
		fromStream := map[types.Object]bool{}
		var tainted func(e ast.Expr, depth int) bool
		tainted = func(e ast.Expr, depth int) bool {
			if depth > 4 {
				return false
			}
			found := false
			ast.Inspect(e, func(n ast.Node) bool {
				switch v := n.(type) {
				case *ast.CallExpr:
					if sel, ok := ast.Unparen(v.Fun).(*ast.SelectorExpr); ok && strings.HasPrefix(sel.Sel.Name, "Read") {
						if t := info.TypeOf(sel.X); t != nil && x.IsIn(t) {
							found = true
						}
					}
				case *ast.Ident:
					if fromStream[info.ObjectOf(v)] {
						found = true
					}
				}
				return true
			})
			return found
		}
		for round := 0; round < 3; round++ {
			ast.Inspect(fi.Decl.Body, func(n ast.Node) bool {
				if as, ok := n.(*ast.AssignStmt); ok && len(as.Lhs) == len(as.Rhs) {
					for i, l := range as.Lhs {
						if id, ok := l.(*ast.Ident); ok && tainted(as.Rhs[i], 0) {
							if o := info.ObjectOf(id); o != nil {
								fromStream[o] = true
							}
						}
					}
				}
				return true
			})
		}
		bad := ""
		ast.Inspect(fi.Decl.Body, func(n ast.Node) bool {
			call, ok := n.(*ast.CallExpr)
			if !ok || len(call.Args) == 0 {
				return true
			}
			fn := calleeFunc(info, call)
			if fn == nil || fn.Pkg() == nil {
				return true
			}
			what := fn.Pkg().Name() + "." + fn.Name()
			if via, ok := helper[fn]; ok {
				what = fn.Name() + " (which applies " + via + ")"
			} else if !textTransformers[what] {
				return true
			}
			if tainted(call.Args[0], 0) {
				bad = "passes what it read through " + what + " at " + p.Pos(call.Pos()) + ": a text that the function changes (bytes that are not well-formed UTF-8, surrounding blanks, letter case) does not read back as it was written"
			}
			return true
		})
		r.Check(bad == "", rule, core.FuncName(fi.Obj), p.Pos(fi.Decl.Pos()), "what is read is handed on unchanged", bad)
	}
}

// noTransformRule: in the given packages no function named fnName (the step that turns the carried
// text back into fields) passes text through a text-transforming function of the standard library:
// what was set is what comes back, blanks and letter case included.
func noTransformRule(p *core.Program, r *core.Report, rule string, pkgs []string, fnName string) {
	in := map[string]bool{}
	for _, k := range pkgs {
		in[k] = true
	}
	for _, fi := range p.Funcs {
		if fi.Decl.Body == nil || !in[core.RelPkg(fi.Pkg.PkgPath)] || fi.Obj.Name() != fnName {
			continue
		}
		info := fi.Pkg.TypesInfo
		bad := ""
		ast.Inspect(fi.Decl.Body, func(n ast.Node) bool {
			call, ok := n.(*ast.CallExpr)
			if !ok {
				return true
			}
			fn := calleeFunc(info, call)
			if fn != nil && fn.Pkg() != nil && textTransformers[fn.Pkg().Name()+"."+fn.Name()] {
				bad = "passes text through " + fn.Pkg().Name() + "." + fn.Name() + " at " + p.Pos(call.Pos()) + ": keys and values with surrounding blanks (or whatever else the function changes) do not come back as they were set"
			}
			return true
		})
		r.Check(bad == "", rule, core.FuncName(fi.Obj), p.Pos(fi.Decl.Pos()), "the text is taken apart as it stands", bad)
	}
}
